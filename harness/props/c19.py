"""C19 - serialised systems and ballot files reload to equivalent objects.

Streams (DESIGN.md 3 C19, docs/C19.md):
  codec      random Python values (pval grammar) -> serialize_value / deserialize_value, directly and through
             JSON text, model (Model/Persist.v, unit 170) vs implementation, incl. refusals: what cannot be reloaded must be
             refused when saving (ValueError), by the model and by the code
  unrepresentable  values outside the grammar of the model (defaultdict, OrderedDict, Counter, range, deque, bytes, generators,
             dictionary views, namedtuples, partial objects, bound methods, lambdas, inner functions, callable objects, objects
             whose to_dict names another / no loadable class or parameters the constructor does not take, dictionaries that look
             like a typed value / class / callable) placed anywhere inside lists, tuples, dictionaries, frozensets and systems:
             persist.to_dict must raise ValueError
  json       mutated serialisations -> deserialize_value / from_dict, model (unit 171) vs implementation
  classes    every votelib class carrying to_dict, default + random constructor arguments to depth 4:
             to_dict equality after from_dict(json.loads(json.dumps(to_dict(x)))) and behaviour equality
  signatures the class table generated from the source (Gen/Signatures.v, props/sigcheck.py) against the interpreter: kind and keys of
             to_dict, constructor parameters, identity of the arguments recorded as stored verbatim on every object of the classes stream,
             to_dict = class name + serialised arguments for the classes whose premise is proved (Props/GenTie_Signatures.v)
  blt        random elections through io.blt.dumps/loads, model (unit 172) vs implementation + the
             declarative clause loads(dumps(x)) == x
  blt-tokens random token lines rendered to text -> io.blt.loads vs model load_lines (unit 173), incl. rejections
  stv-model  random elections + systems through io.stv.dump_lines/dumps/loads vs Model/StvFile.v (unit 174) + the declarative
             clause for the elections the theorem C19_stv_roundtrip is about (props/c19_stv.py)
  stv-lines  written files mutated / truncated, header soups, structured mostly-valid files, ordered ballots, BLT mode,
             repeated rankings -> io.stv.loads vs the model reader (unit 175), incl. rejections; stv-tables: the closed tables
  stv        random elections through io.stv.dumps/loads (both modes), declarative clause on the implementation
  malformed  mutated / truncated BLT and STV texts: a result or the format's parse error, nothing else
"""
import os, sys, json, glob, math, inspect, random as _random, importlib, pkgutil, typing, string, collections
from fractions import Fraction
from decimal import Decimal
import common
from common import sx, ok
from units import BLOCK
from props import c19_stv, sigcheck

ID = 'C19'
LEVEL = 'proof'
U0 = BLOCK['C19']
TIE = {'persist.serialize_value (repaired, names resolved at save time) / deserialize_value / deserialize_typed / deserialize_class / from_dict': 'correspondence (units 170, 171)',
       'io.blt dump_lines / load_lines (token level)': 'correspondence (units 172, 173)',
       'io.stv dump_lines / dumps / load_lines / loads (character level, Model/StvFile.v)': 'correspondence (units 174, 175; closed tables unit 176 checked exhaustively over all code points)',
       'to_dict of the votelib classes': 'translator (tools/py2v.py part 5: Gen/Signatures.v, the constructor table read from the source) + '
                                         'Props/GenTie_Signatures.v (class_ok decided for every class of the table; the listed exceptions: implementation-side '
                                         'clauses only - to_dict equality + behaviour equality); the table itself is compared with the interpreter on every run '
                                         '(signatures stream: to_dict kind and keys, constructor parameters, identity of stored arguments)'}
RULE = ('corpus; codec: random values of the pval grammar to depth 4 (atoms, Fraction, Decimal incl. exponents and specials, tuple, frozenset, '
        'list, set, str-keyed and typed dicts incl. reserved keys, objects of three harness classes incl. an unloadable one, resolvable and '
        'unresolvable callables, opaque objects) saved and reloaded directly and through JSON text, compared with the model (a value that is not '
        'representable must be refused by both); unrepresentable: 45 kinds of values outside the grammar under 0-3 random wrappers (list, tuple, '
        'str- / int-keyed dict, dict key, frozenset, harness object, votelib evaluator), ValueError expected; json: mutated '
        'serialisations; classes: every class with to_dict found by introspection, default construction and annotation-driven random '
        'arguments to depth 4, to_dict equality and equality of outcomes / exception classes on a panel of 14 inputs of all vote types; '
        'blt/stv: random elections (1..7 candidates as str or Person, names with initials, punctuation, duplicate initials, digits, '
        'non-ASCII; any subset withdrawn; distinct rankings without shared ranks; int / Decimal / Fraction weights; optional title); '
        'blt-tokens: random token lines against the token-level parser model; malformed: character mutations, truncations, line shuffles '
        'of valid files and token soups; stv-model: the same elections with a random system tree (VotingSystem / bare evaluator, FixedSeatCount or n_seats, '
        'TieBreaking with CandidateNumberRanker / Sortitor, mandatory quota, 25 % systems the format cannot carry) written and reloaded by model and code, '
        'boundary sets (26-30 candidates, exponent / long / unit-valued Decimals, zero and negative weights, empty rankings, ordinal nicknames, hostile names); '
        'stv-lines: written files mutated by character (incl. superscript / Arabic-Indic digits, no-break and other Unicode spaces, Kelvin sign, dotted I), '
        'truncated, shuffled, with inserted header lines; header soups; structured files with variants of every header line; ordered ballots; BLT mode '
        'with header extras; repeated rankings with mixed multipliers. non-trivial = nested value / constructor arguments given / withdrawn or non-int weight or title / '
        'text that is rejected; distinct by case hash')
PARTIAL = ['STV: Decimal multipliers are an oracle of the model (Decimal(str) is not modelled); Decimal + Decimal rounding of a repeated ranking, the 4300-digit '
           'int limit, candidates=None, shared ranks and the character level of the BLT content of a ballots=blt file are outside the model',
           'character level of BLT (str(num), split, # comments, quoting): not modelled, exercised by the blt / malformed streams',
           'per-class premise "the constructor stores its parameters unchanged": read from the source and proved for the classes with class_ok '
           '(Props/GenTie_Signatures.v); for the listed exception classes (normalising constructors, hand-written to_dict, serialize_params, sites of known '
           'findings) it is tested by the classes stream, not proved',
           'persist: values outside the grammar of Model/Persist.v (subclasses of dict / list, other iterables, callable objects, classes as values) '
           'are refused by the repaired code; that is tested (unrepresentable stream), the theorems speak about the grammar',
           'the premise "an object is of the class its dictionary names" (class_exists of the environment) is the identity test of the code '
           '(get_object(name) is type(value)); a factory function named by a function\'s to_dict (factory_serialization) is trusted to rebuild it']
TRUSTED = ['CPython json, decimal (Decimal(str(d)) == d, str canonical) and fractions modules',
           'tools/py2v.py part 5: the reading rules of class bodies (what counts as a verbatim store of a constructor parameter, how to_dict keys are '
           'resolved); tied to the interpreter on every run by the signatures stream (harness/props/sigcheck.py)',
           'harness instantiation of the record uenv of Model/StvFile.v (Unicode tables of the characters of a case, Decimal values of its multiplier strings) '
           'and of the BLT reader argument (votelib.io.blt.load_lines on every suffix of the lines) from the running interpreter',
           'harness encoding of Python values as pval/jval wire terms (harness/props/c19.py to_wire/from_py)']
ASSUMPTIONS = ['the environment record of Model/Persist.v (identifier tables, Decimal parser, class and callable tables) is instantiated by the '
               'harness from the running interpreter for the characters / classes / callables it uses']
EXTRA_PROOF_FILES = []
# the per-class premise read from the source (tools/py2v.py part 5 -> Gen/Signatures.v); with the fallback: when the translator does
# not produce the table the premise is what it was before - tested per class by the classes stream
GEN_TIES = {'Signatures': 'Props/GenTie_Signatures.v'}
# what this check treats specially, per class: the sites of the recorded findings.  The exception list of Props/GenTie_Signatures.v
# must name exactly these under known:<id> (sigcheck / signature_exceptions below)
# (none at present: C19-closures and C19-rank-defaultdict are repaired, their classes are ordinary exceptions of the table)
SPECIAL_CLASSES = {}

E = common.E
E_ATTR = 15
NONASCII = ['é', 'ß', '·', '€', '١', '中']
FLOATS = [0.5, 1.5, -2.25, 1e100, 3.0]


# ------------------------------------------------------------------------------------------------ harness classes
def _decorate(cls):
    import votelib.persist
    return votelib.persist.simple_serialization(cls)


class Box:
    def __init__(self, a=None, b=None, type=None):
        self.a, self.b, self.type = a, b, type


class Pair:
    def __init__(self, x=None, y=None, callable=None):
        self.x, self.y, self.callable = x, y, callable


def _make_hidden():
    class Hidden:
        def __init__(self, a=None):
            self.a = a
    Hidden.__qualname__ = 'Hidden'
    return Hidden


_READY = {}


def setup():
    """decorate the harness classes (needs votelib importable)"""
    if _READY:
        return _READY
    global Box, Pair
    Box = _decorate(Box)
    Pair = _decorate(Pair)
    hidden = _decorate(_make_hidden())
    import votelib.component.quota as quota
    mod = __name__
    _READY.update(
        classes={mod + '.Box': (Box, ['a', 'b', 'type']), mod + '.Pair': (Pair, ['x', 'y', 'callable'])},
        hidden=(mod + '.Hidden', hidden),
        callables={'builtins.max': max, 'votelib.component.quota.droop': quota.droop, 'math.floor': math.floor},
        short={'max': 'builtins.max', 'Fraction': 'fractions.Fraction', 'Decimal': 'decimal.Decimal', 'dict': 'builtins.dict',
               'tuple': 'builtins.tuple', 'frozenset': 'builtins.frozenset'},
        closure=_closure(), lam=(lambda x: x),
    )
    return _READY


def _closure():
    def _inner_fn(x):
        return x
    return _inner_fn


# ------------------------------------------------------------------------------------------------ value trees
# tree: ['none'] ['bool',b] ['int',z] ['float',id] ['str',s] ['frac',n,d] ['dec',s] ['tuple',[..]] ['fset',[..]]
#       ['list',[..]] ['set',[..]] ['dict',[[k,v]..]] ['obj',cls,[[name,v]..]] ['call',name] ['opaque',id]
def to_py(t):
    R = setup()
    k = t[0]
    if k == 'none':
        return None
    if k in ('bool', 'int', 'str'):
        return t[1]
    if k == 'float':
        return FLOATS[t[1]]
    if k == 'frac':
        return Fraction(t[1], t[2])
    if k == 'dec':
        return Decimal(t[1])
    if k == 'tuple':
        return tuple(to_py(x) for x in t[1])
    if k == 'fset':
        return frozenset(to_py(x) for x in t[1])
    if k == 'list':
        return [to_py(x) for x in t[1]]
    if k == 'set':
        return set(to_py(x) for x in t[1])
    if k == 'dict':
        return {to_py(a): to_py(b) for a, b in t[1]}
    if k == 'obj':
        if t[1] == R['hidden'][0]:
            return R['hidden'][1](**{n: to_py(v) for n, v in t[2]})
        return R['classes'][t[1]][0](**{n: to_py(v) for n, v in t[2]})
    if k == 'call':
        if t[1] in R['callables']:
            return R['callables'][t[1]]
        return R['lam'] if 'lambda' in t[1] else R['closure']
    if k == 'opaque':
        return complex(1, t[1]) if t[1] % 2 else _Opaque(t[1])
    raise ValueError(t)


class _Opaque:
    def __init__(self, i):
        self.i = i


def from_py(v):
    """Python value -> tree in the interpreter's iteration order (normal form of a generated tree)"""
    R = setup()
    if v is None:
        return ['none']
    if isinstance(v, bool):
        return ['bool', v]
    if isinstance(v, int):
        return ['int', v]
    if isinstance(v, float):
        return ['float', FLOATS.index(v)] if v in FLOATS else ['opaque', -1]
    if isinstance(v, str):
        return ['str', v]
    if isinstance(v, Fraction):
        return ['frac', v.numerator, v.denominator]
    if isinstance(v, Decimal):
        return ['dec', str(v)]
    if isinstance(v, tuple):
        return ['tuple', [from_py(x) for x in v]]
    if isinstance(v, frozenset):
        return ['fset', [from_py(x) for x in v]]
    if isinstance(v, list):
        return ['list', [from_py(x) for x in v]]
    if isinstance(v, set):
        return ['set', [from_py(x) for x in v]]
    if isinstance(v, dict):
        return ['dict', [[from_py(a), from_py(b)] for a, b in v.items()]]
    for name, (cls, params) in R['classes'].items():
        if type(v) is cls:
            return ['obj', name, [[p, from_py(getattr(v, p))] for p in params]]
    if type(v) is R['hidden'][1]:
        return ['obj', R['hidden'][0], [['a', from_py(v.a)]]]
    if isinstance(v, _Opaque):
        return ['opaque', v.i]
    if isinstance(v, complex):
        return ['opaque', int(v.imag)]
    if callable(v):
        return ['call', '%s.%s' % (getattr(v, '__module__', '?'), getattr(v, '__name__', '?'))]
    return ['opaque', -2]


def wstr(s):
    return '(' + ' '.join(str(ord(c)) for c in s) + ')'


def to_wire(t):
    k = t[0]
    if k == 'none':
        return '(0)'
    if k == 'bool':
        return '(1 %d)' % int(t[1])
    if k == 'int':
        return '(2 %d)' % t[1]
    if k == 'float':
        return '(3 %d)' % t[1]
    if k == 'str':
        return '(4 %s)' % wstr(t[1])
    if k == 'frac':
        return '(5 %d %d)' % (t[1], t[2])
    if k == 'dec':
        return '(6 %s)' % wstr(t[1])
    if k in ('tuple', 'fset', 'list', 'set'):
        return '(%d (%s))' % ({'tuple': 7, 'fset': 8, 'list': 9, 'set': 10}[k], ' '.join(to_wire(x) for x in t[1]))
    if k == 'dict':
        return '(11 (%s))' % ' '.join('(%s %s)' % (to_wire(a), to_wire(b)) for a, b in t[1])
    if k == 'obj':
        return '(12 %s (%s))' % (wstr(t[1]), ' '.join('(%s %s)' % (wstr(n), to_wire(v)) for n, v in t[2]))
    if k == 'call':
        return '(13 %s)' % wstr(t[1])
    if k == 'opaque':
        return '(14 %d)' % t[1]
    raise ValueError(t)


def json_to_wire(j):
    if j is None:
        return '(0)'
    if isinstance(j, bool):
        return '(1 %d)' % int(j)
    if isinstance(j, int):
        return '(2 %d)' % j
    if isinstance(j, float):
        return '(3 %d)' % (FLOATS.index(j) if j in FLOATS else -1)
    if isinstance(j, str):
        return '(4 %s)' % wstr(j)
    if isinstance(j, (list, tuple)):
        return '(5 %d (%s))' % (int(isinstance(j, tuple)), ' '.join(json_to_wire(x) for x in j))
    if isinstance(j, dict):
        return '(6 (%s))' % ' '.join('(%s %s)' % (wstr(k), json_to_wire(v)) for k, v in j.items())
    raise TypeError('not a JSON-like value: %r' % (j,))


def env_wire(strings=()):
    """the environment the model needs, computed from the running interpreter"""
    R = setup()
    chars = sorted({ord(c) for s in strings for c in s if ord(c) >= 128} | {ord(c) for c in NONASCII})
    start = [c for c in chars if chr(c).isidentifier()]
    cont = [c for c in chars if ('a' + chr(c)).isidentifier()]
    classes = ' '.join('(%s (%s))' % (wstr(n), ' '.join(wstr(p) for p in ps)) for n, (_, ps) in R['classes'].items())
    calls = ' '.join(wstr(n) for n in list(R['callables']) + list(R['short']) + list(R['classes']))
    return '((%s) (%s) (%s) (%s))' % (' '.join(map(str, start)), ' '.join(map(str, cont)), classes, calls)


def canon_p(v):
    """canonical form of a decoded pval wire term: frozenset/set members sorted, None-valued object parameters dropped,
    short callable names expanded"""
    R = setup()
    tag = v[0]
    if tag in (7, 9):
        return (tag, tuple(canon_p(x) for x in v[1]))
    if tag in (8, 10):
        return (tag, tuple(sorted((canon_p(x) for x in v[1]), key=repr)))
    if tag == 11:
        return (tag, tuple((canon_p(a), canon_p(b)) for a, b in v[1]))
    if tag == 12:
        return (tag, tuple(v[1]), tuple((tuple(n), canon_p(x)) for n, x in v[2] if x != [0]))
    if tag == 13:
        name = ''.join(chr(c) for c in v[1])
        name = R['short'].get(name, name)
        return (tag, name)
    if tag in (4, 6):
        return (tag, tuple(v[1]))
    return tuple(v)


def canon_d(d):
    if d[0] == 0:
        return ('ok', canon_p(d[1]))
    if d[0] == 1:
        return ('err', d[1])
    return ('unmodelled',)


def canon_j(j):
    """JSON wire term; lists under a frozenset 'value' are order-insensitive -> compare sorted when flagged by the caller"""
    tag = j[0]
    if tag == 5:
        return (5, j[1], tuple(canon_j(x) for x in j[2]))
    if tag == 6:
        items = [(tuple(k), canon_j(x)) for k, x in j[1]]
        d = dict(items)
        tkey = tuple(map(ord, 'type'))
        if d.get(tkey) == (4, tuple(map(ord, 'frozenset'))):
            items = [(k, (5, x[1], tuple(sorted(x[2], key=repr))) if (k == tuple(map(ord, 'value')) and x[0] == 5) else x) for k, x in items]
        return (6, tuple(items))
    if tag == 4:
        return (4, tuple(j[1]))
    return tuple(j)


def exc_code(exc):
    if isinstance(exc, common.ImplTimeout):
        raise exc
    if isinstance(exc, (AttributeError, ImportError)):
        return E_ATTR
    if isinstance(exc, KeyError):
        return E['KEY']
    if isinstance(exc, ZeroDivisionError):
        return E['ZERODIV']
    if isinstance(exc, TypeError):
        return E['TYPE']
    if isinstance(exc, ValueError):
        return E['VALUE']
    return E['OTHER']


def dres_wire(fn):
    try:
        v = fn()
    except Exception as exc:   # noqa
        return '(1 %d)' % exc_code(exc)
    return '(0 %s)' % to_wire(from_py(v))


# ------------------------------------------------------------------------------------------------ codec stream
IDENT_STRS = ['dict', 'Fraction', 'Decimal', 'tuple', 'frozenset', 'max', 'builtins.max', 'zzz.unknown', 'nosuchname', 'café']
OTHER_STRS = ['', 'a b', '.x', 'x.', 'x..y', '1abc', 'm.<lambda>', '€', 'a·b', '١x', 'x١', 'A', 'hello world']


def gen_str(rng):
    r = rng.random()
    if r < 0.3:
        return rng.choice(IDENT_STRS)
    if r < 0.6:
        return rng.choice(OTHER_STRS)
    return ''.join(rng.choice(string.ascii_letters + string.digits + '_. -' + ''.join(NONASCII)) for _ in range(rng.randint(0, 6)))


def gen_dec(rng):
    r = rng.random()
    if r < 0.1:
        return rng.choice(['NaN', 'Infinity', '-Infinity', '0E-7', '-0'])
    s = '%s%d' % (rng.choice(['', '-']), rng.randint(0, 10 ** rng.randint(1, 12)))
    if rng.random() < 0.6:
        s += '.' + ''.join(rng.choice(string.digits) for _ in range(rng.randint(1, 6)))
    if rng.random() < 0.25:
        s += 'E%s%d' % (rng.choice(['+', '-', '']), rng.randint(0, 30))
    return str(Decimal(s))


def gen_atom(rng, hashable_only=False):
    r = rng.random()
    if r < 0.08:
        return ['none']
    if r < 0.16:
        return ['bool', rng.random() < 0.5]
    if r < 0.36:
        return ['int', rng.choice([0, 1, -1, rng.randint(-50, 50), 10 ** 30 + rng.randint(0, 9), -2 ** 64])]
    if r < 0.42:
        return ['float', rng.randrange(len(FLOATS))]
    if r < 0.66:
        return ['str', gen_str(rng)]
    if r < 0.8:
        f = Fraction(rng.randint(-40, 40), rng.randint(1, 12))
        return ['frac', f.numerator, f.denominator]
    d = gen_dec(rng)
    if hashable_only and 'NaN' in d:
        d = '1.5'
    return ['dec', d]


def gen_hashable(rng, depth):
    r = rng.random()
    if depth <= 0 or r < 0.7:
        return gen_atom(rng, True)
    if r < 0.85:
        return ['tuple', [gen_hashable(rng, depth - 1) for _ in range(rng.randint(0, 3))]]
    return ['fset', [gen_hashable(rng, depth - 1) for _ in range(rng.randint(0, 3))]]


def gen_value(rng, depth, hostile=0.12):
    R = setup()
    r = rng.random()
    if depth <= 0 or r < 0.3:
        return gen_atom(rng)
    d = depth - 1
    if r < 0.38:
        return ['tuple', [gen_value(rng, d, hostile) for _ in range(rng.randint(0, 3))]]
    if r < 0.46:
        return ['fset', [gen_hashable(rng, d) for _ in range(rng.randint(0, 3))]]
    if r < 0.56:
        return ['list', [gen_value(rng, d, hostile) for _ in range(rng.randint(0, 3))]]
    if r < 0.68:   # str-keyed dict, sometimes with reserved keys
        keys = [gen_str(rng) for _ in range(rng.randint(0, 3))]
        if rng.random() < hostile * 2:
            keys.insert(rng.randint(0, len(keys)), rng.choice(['type', 'class', 'callable']))
        return ['dict', [[['str', k], (['str', gen_str(rng)] if (k in ('type', 'class', 'callable') and rng.random() < 0.7)
                                        else gen_value(rng, d, hostile))] for k in keys]]
    if r < 0.76:   # dict with arbitrary hashable keys
        return ['dict', [[gen_hashable(rng, d), gen_value(rng, d, hostile)] for _ in range(rng.randint(1, 3))]]
    if r < 0.9:
        name = rng.choice(list(R['classes']))
        params = [p for p in R['classes'][name][1] if rng.random() < 0.7]
        vals = []
        for p in params:
            if p in ('type', 'callable') and rng.random() < 0.5:
                vals.append([p, ['str', gen_str(rng)]])
            else:
                vals.append([p, gen_value(rng, d, hostile)])
        return ['obj', name, vals]
    if r < 0.94:
        return ['call', rng.choice(list(R['callables']))]
    # the non-representable corner
    h = rng.random()
    if h < 0.3:
        return ['set', [gen_hashable(rng, 0) for _ in range(rng.randint(0, 3))]]
    if h < 0.5:
        return ['call', rng.choice([__name__ + '.<lambda>', __name__ + '._inner_fn'])]
    if h < 0.7:
        return ['obj', R['hidden'][0], [['a', gen_value(rng, d, hostile)]]]
    return ['opaque', rng.randint(0, 9)]


def tree_strings(t, acc):
    if t[0] in ('str', 'dec', 'call'):
        acc.append(t[1])
    elif t[0] in ('tuple', 'fset', 'list', 'set'):
        for x in t[1]:
            tree_strings(x, acc)
    elif t[0] == 'dict':
        for a, b in t[1]:
            tree_strings(a, acc)
            tree_strings(b, acc)
    elif t[0] == 'obj':
        acc.append(t[1])
        for n, v in t[2]:
            acc.append(n)
            tree_strings(v, acc)
    return acc


def tree_depth(t):
    if t[0] in ('tuple', 'fset', 'list', 'set'):
        return 1 + max([tree_depth(x) for x in t[1]] + [0])
    if t[0] == 'dict':
        return 1 + max([max(tree_depth(a), tree_depth(b)) for a, b in t[1]] + [0])
    if t[0] == 'obj':
        return 1 + max([tree_depth(v) for _, v in t[2]] + [0])
    return 0


def tree_has(t, pred):
    if pred(t):
        return True
    if t[0] in ('tuple', 'fset', 'list', 'set'):
        return any(tree_has(x, pred) for x in t[1])
    if t[0] == 'dict':
        return any(tree_has(a, pred) or tree_has(b, pred) for a, b in t[1])
    if t[0] == 'obj':
        return any(tree_has(v, pred) for _, v in t[2])
    return False


def normal_tree(t):
    """what the interpreter makes of the generated tree (dedupes keys/members, fixes iteration order); None if it cannot be built"""
    try:
        for _ in range(6):      # iterate to a fixed point: iteration order of a set depends on insertion order
            t2 = from_py(to_py(t))
            if t2 == t:
                return t
            t = t2
        return None
    except Exception:   # noqa  (unhashable member, NaN key, ...)
        return None


def codec_cases(rng, count):
    made = 0
    while made < count:
        t = normal_tree(gen_value(rng, rng.randint(1, 4)))
        if t is None:
            continue
        made += 1
        yield dict(stream='codec', tree=t)


def codec_model_line(c):
    # flag 1: the model of the tree before fixes/C19-persist-rejects.diff (serialize_value_pinned)
    return '%d (%d %s %s)' % (U0 + 0, 1 if c.get('pinned') else 0, env_wire(tree_strings(c['tree'], [])), to_wire(c['tree']))


def _table_names(key):
    R = setup()
    if key == 'class':
        return set(R['classes'])
    return set(R['classes']) | set(R['callables']) | set(R['short'])



def builtin_class(j):
    """a dictionary whose 'class' names something persist.get_object resolves outside the class table (dict(**params) ...)"""
    if isinstance(j, dict):
        for key in ('class', 'callable'):
            name = j.get(key)
            if isinstance(name, str) and name not in _table_names(key):
                import votelib.persist as P
                if P.is_scoped_identifier(name):
                    try:
                        P.get_object(name)
                        return True          # resolves to something outside the tables the model is given
                    except Exception:   # noqa
                        pass
        return any(builtin_class(x) for x in j.values())
    if isinstance(j, (list, tuple)):
        return any(builtin_class(x) for x in j)
    return False


def codec_impl(c):
    import votelib.persist as P
    v = to_py(c['tree'])
    try:
        j = P.serialize_value(v)
    except ValueError:
        return '(1 %d)' % E['VALUE']
    if builtin_class(j):
        c['_skip'] = True
    jt = json.loads(json.dumps(j))
    d1 = dres_wire(lambda: P.deserialize_value(j))
    d2 = dres_wire(lambda: P.deserialize_value(jt))
    d3 = dres_wire(lambda: P.from_dict(jt))
    return '(0 (%s %s %s 0 %s))' % (json_to_wire(j), d1, d2, d3)


def codec_canon(c, wire):
    v = common.parse_sx(wire)
    if v[0] != 0:
        return ('refused', v[1])
    j, d1, d2, _rep, d3 = v[1][:5]
    out = [canon_j(j)]
    for d in (d1, d2, d3):
        cd = canon_d(d)
        out.append(cd)
    return tuple(out)


def codec_compare(c, io, mo):
    """model and implementation agree wherever the model speaks"""
    if c.get('_skip'):
        return True
    a, b = codec_canon(c, io), codec_canon(c, mo)
    if a[0] == 'refused' or b[0] == 'refused':
        return a == b
    if a[0] != b[0]:
        return False
    return all(y == ('unmodelled',) or x == y for x, y in zip(a[1:], b[1:]))


def codec_spec(c, io, mo):
    """the declarative clause on the implementation: a representable value reloads to itself (through JSON text too);
    a value that is not representable must be refused when saving"""
    if not codec_compare(c, io, mo):
        c['_class'] = 'codec-differs'
        return 'persist codec differs from the model'
    if c.get('_skip'):
        c['_unmodelled'] = True
        return None
    m = common.parse_sx(mo)
    v = common.parse_sx(io)
    want = ('ok', canon_p(common.parse_sx(to_wire(c['tree']))))
    if m[0] != 0:
        return None                       # refused by both: the property's second clause holds
    rep = m[1][3] == 1
    if len(m[1]) >= 7 and m[1][6] != 1:
        c['_unmodelled'] = True           # the tree is no well-formed encoding (wf_value false): the theorems do not speak about it
        return None
    got1, got2 = canon_d(v[1][1]), canon_d(v[1][2])
    if rep:
        if got1 != want or got2 != want:
            c['_class'] = 'representable-altered'
            return 'a representable value does not reload to itself'
        if c['tree'][0] == 'obj' and canon_d(v[1][4]) != want:
            c['_class'] = 'representable-altered'
            return 'from_dict of a saved object does not give the object back'
        return None
    c['_class'] = 'not-rejected'
    return 'a value that cannot be represented is saved without refusal (reloads as %s)' % (got2[0] if got2 != want else 'itself?')


def codec_known(c, io, mo):
    if c.get('_class') == 'not-rejected' and codec_compare(c, io, mo):
        return 'C19-persist-not-rejected'
    return None


def codec_nontrivial(c):
    return tree_depth(c['tree']) >= 1


# ------------------------------------------------------------------------------------------------ unrepresentable stream
class _Liar:
    """to_dict names another (loadable) class"""
    def to_dict(self):
        return {'class': __name__ + '.Box', 'a': 1}


class _Extra:
    """to_dict emits a parameter the constructor does not take"""
    def __init__(self, a=None):
        self.a = a

    def to_dict(self):
        return {'class': __name__ + '._Extra', 'a': 1, 'zzz': 2}


class _Required:
    """to_dict leaves out a required parameter"""
    def __init__(self, a, b):
        self.a, self.b = a, b

    def to_dict(self):
        return {'class': __name__ + '._Required', 'a': 1}


class _NoName:
    """to_dict names something that is no identifier path"""
    def to_dict(self):
        return {'class': 'not an identifier', 'a': 1}


class _Callable:
    def __call__(self, *a):
        return 0


def _shadowing_function():
    """an inner function whose module.name is that of ANOTHER (module-level) function"""
    def setup():
        return None
    return setup


def _shadowing_object():
    """an object of a local class whose module.name is that of ANOTHER (module-level, loadable) class"""
    class Box:
        def __init__(self, a=None):
            self.a = a
    Box.__qualname__ = 'Box'
    return _decorate(Box)(a=1)


def _unrep_kinds():
    """kind -> (constructor, hashable).  Every value is one that deserialize_value cannot give back: saving must raise ValueError."""
    import functools
    R = setup()
    NT = collections.namedtuple('NT', 'x y')
    import votelib.component.quota as Q
    return {
        'set': (lambda: {1, 2}, False), 'empty-set': (lambda: set(), False), 'set-of-tuples': (lambda: {(1, 2), (3,)}, False),
        'defaultdict': (lambda: collections.defaultdict(int, {1: 2}), False),
        'defaultdict-str': (lambda: collections.defaultdict(list, a=[1]), False),
        'defaultdict-empty': (lambda: collections.defaultdict(lambda: 0), False),
        'ordereddict': (lambda: collections.OrderedDict(a=1, b=2), False), 'counter': (lambda: collections.Counter('aab'), False),
        'range': (lambda: range(3), True), 'deque': (lambda: collections.deque([1, 2]), False), 'bytes': (lambda: b'ab', True),
        'bytearray': (lambda: bytearray(b'ab'), False), 'generator': (lambda: (x for x in [1, 2]), True), 'map': (lambda: map(abs, [1]), True),
        'dict-keys': (lambda: {'a': 1}.keys(), False), 'dict-values': (lambda: {'a': 1}.values(), False), 'dict-items': (lambda: {'a': 1}.items(), False),
        'namedtuple': (lambda: NT(1, 2), True), 'list-subclass': (lambda: type('L', (list,), {})([1, 2]), False),
        'dict-subclass': (lambda: type('D', (dict,), {})(a=1), False),
        'lambda': (lambda: R['lam'], True), 'closure': (lambda: R['closure'], True), 'partial': (lambda: functools.partial(max, 1), True),
        'bound-method': (lambda: 'abc'.upper, True), 'method': (lambda: Fraction(1, 2).limit_denominator, True),
        'callable-object': (lambda: _Callable(), True), 'quota-constant': (lambda: Q.constant(5), True),
        'shadowing-function': (_shadowing_function, True), 'shadowing-class': (_shadowing_object, True),
        'complex': (lambda: 1j, True), 'object': (lambda: object(), True), 'module': (lambda: math, True),
        'hidden-class': (lambda: R['hidden'][1](a=1), True), 'liar': (lambda: _Liar(), True), 'extra-param': (lambda: _Extra(), True),
        'required-param': (lambda: _Required(1, 2), True), 'no-class-name': (lambda: _NoName(), True),
        'type-param': (lambda: Box(a=1, type='dict'), True), 'type-param-2': (lambda: Box(type='zzz.unknown'), True),
        'reserved-callable': (lambda: {'callable': 'max'}, False), 'reserved-class': (lambda: {'class': 'votelib.evaluate.core.Tie', 'x': 1}, False),
        'reserved-type': (lambda: {'type': 'Fraction', 'arguments': [1, 2]}, False), 'reserved-type-dict': (lambda: {'type': 'dict', 'keys': [], 'values': []}, False),
        'reserved-unknown': (lambda: {'a': 1, 'class': 'zzz.unknown'}, False), 'reserved-unicode': (lambda: {'callable': 'caf\xe9'}, False),
    }


UNREP_WRAPS = ['list', 'tuple', 'strdict', 'intdict', 'box', 'pair', 'evaluator', 'dictkey', 'frozenset', 'tuplekey']


def unrep_build(kind, wraps):
    import votelib.evaluate.core as core
    mk, hashable = _unrep_kinds()[kind]
    v = mk()
    for w in wraps:
        if w == 'list':
            v = [Fraction(1, 3), v]
        elif w == 'tuple':
            v = (v, 'x')
        elif w == 'strdict':
            v = {'a': 1, 'b': v}
        elif w == 'intdict':
            v = {1: v, (2, 3): None}
        elif w == 'box':
            v = Box(a=Decimal('1.5'), b=v)
        elif w == 'pair':
            v = Pair(x=v)
        elif w == 'evaluator':
            v = core.PostConverted(Box(a=v), None)      # a votelib wrapper whose constructor stores its arguments as they are
        elif w == 'dictkey':
            v = {v: 1, 2: 3}
        elif w == 'frozenset':
            v = frozenset([v, 1])
        elif w == 'tuplekey':
            v = {(v, 1): 'x'}
        else:
            raise ValueError(w)
    return v


def unrep_cases(rng, count):
    kinds = _unrep_kinds()
    names = sorted(kinds)
    for i in range(count):
        kind = names[i % len(names)] if i < 2 * len(names) else rng.choice(names)
        wraps = []
        hashable = kinds[kind][1]
        for _ in range(0 if i < len(names) else rng.randint(1, 3)):
            w = rng.choice(UNREP_WRAPS)
            if w in ('dictkey', 'frozenset', 'tuplekey') and not hashable:
                w = 'list'
            wraps.append(w)
            hashable = hashable and w in ('tuple', 'frozenset', 'box', 'pair', 'evaluator')
        yield dict(stream='unrepresentable', kind=kind, wraps=wraps)


def unrep_check(ctx, case):
    """the value must be refused with ValueError by persist.to_dict; returns a violation dict or None"""
    import votelib.persist as P
    ctx.evaluations += 1
    ctx.dist['stream:unrepresentable'] += 1
    try:
        v = unrep_build(case['kind'], case['wraps'])
    except Exception as exc:   # noqa
        ctx.broken('harness', 'unrepresentable stream: %s under %s cannot be built: %r' % (case['kind'], case['wraps'], exc))
        return None
    r = common.call_impl(lambda: P.to_dict(v), 5)
    if r[0] == 'err' and r[2].split(':')[0] == 'ValueError':
        ctx.nontrivial.add(common.case_hash(case))
        ctx.dist['unrepresentable:refused'] += 1
        return None
    if r[0] == 'err':
        return dict(case, got=r[2][:300], why='saving a value that cannot be represented (%s) raises %s instead of ValueError' % (case['kind'], r[2][:120]))
    saved = r[1]
    back = common.call_impl(lambda: P.deserialize_value(json.loads(json.dumps(saved, default=repr))), 5)
    return dict(case, got=repr(saved)[:400],
                why='a value that cannot be represented (%s under %s) is saved without refusal; it reloads as %s'
                    % (case['kind'], '/'.join(case['wraps']) or 'nothing', (repr(back[1]) if back[0] == 'ok' else back[2])[:200]))


def unrep_stream(ctx, count):
    bad = 0
    n = 0
    for case in unrep_cases(ctx.rng, count):
        n += 1
        v = unrep_check(ctx, case)
        if v is not None:
            bad += 1
            report_impl(ctx, v, None)
    ctx.streams['unrepresentable'] = dict(cases=n, deviations=bad, kinds=len(_unrep_kinds()))


# ------------------------------------------------------------------------------------------------ json stream
def mutate_json(rng, j, depth=0):
    """small structural mutations of a serialised value"""
    r = rng.random()
    if isinstance(j, dict):
        j = dict(j)
        keys = list(j)
        if keys and r < 0.25:
            del j[rng.choice(keys)]
        elif r < 0.45:
            j[rng.choice(['type', 'class', 'callable', 'value', 'keys', 'values', 'arguments', 'parameters'])] = \
                rng.choice(['dict', 'Fraction', 'Decimal', 'tuple', 'frozenset', 'max', 'x y', 'zzz.unknown', __name__ + '.Box', 3, None, [1, 2], [[1], 2], '1.5x'])
        elif keys:
            k = rng.choice(keys)
            j[k] = mutate_json(rng, j[k], depth + 1)
        return j
    if isinstance(j, (list, tuple)):
        j = list(j)
        if j and r < 0.3:
            j.pop(rng.randrange(len(j)))
        elif r < 0.5:
            j.insert(rng.randint(0, len(j)), rng.choice([777, 'x', None, [3]]))
        elif j:
            i = rng.randrange(len(j))
            j[i] = mutate_json(rng, j[i], depth + 1)
        return j
    return rng.choice([j, 777, 'dict', None, [j]])


def json_cases(rng, count):
    import votelib.persist as P
    made = 0
    while made < count:
        t = normal_tree(gen_value(rng, rng.randint(1, 3), hostile=0.0))
        if t is None:
            continue
        try:
            j = json.loads(json.dumps(P.serialize_value(to_py(t))))
        except Exception:   # noqa
            continue
        for _ in range(rng.randint(1, 2)):
            j = mutate_json(rng, j)
        try:
            json_to_wire(j)
        except TypeError:
            continue
        made += 1
        yield dict(stream='json', json=j)


def json_strings(j, acc):
    if isinstance(j, str):
        acc.append(j)
    elif isinstance(j, list):
        for x in j:
            json_strings(x, acc)
    elif isinstance(j, dict):
        for k, x in j.items():
            acc.append(k)
            json_strings(x, acc)
    return acc


def json_model_line(c):
    return '%d (%s %s)' % (U0 + 1, env_wire(json_strings(c['json'], [])), json_to_wire(c['json']))


def json_impl(c):
    import votelib.persist as P
    j = c['json']
    return '(0 (%s %s))' % (dres_wire(lambda: P.deserialize_value(j)), dres_wire(lambda: P.from_dict(j)))


def json_spec(c, io, mo):
    if builtin_class(c['json']):
        c['_unmodelled'] = True
        return None
    a = [canon_d(d) for d in common.parse_sx(io)[1]]
    b = [canon_d(d) for d in common.parse_sx(mo)[1]]
    for x, y in zip(a, b):
        if y == ('unmodelled',):
            c['_unmodelled'] = True
            continue
        if x != y:
            return 'deserialize_value / from_dict differ from the model on a mutated dictionary'
    return None


# ------------------------------------------------------------------------------------------------ classes stream
def all_classes():
    import votelib
    mods = [votelib]
    for m in pkgutil.walk_packages(votelib.__path__, 'votelib.'):
        try:
            mods.append(importlib.import_module(m.name))
        except Exception:   # noqa
            pass
    seen = {}
    for m in mods:
        for n, c in inspect.getmembers(m, inspect.isclass):
            if c.__module__.startswith('votelib') and hasattr(c, 'to_dict'):
                seen[c.__module__ + '.' + c.__name__] = c
    return dict(sorted(seen.items()))


STR_CHOICES = {
    'quota_function': ['droop', 'hare', 'hagenbach_bischoff', 'imperiali'],
    'divisor_function': ['d_hondt', 'sainte_lague', 'imperiali', 'danish'],
    'pairwin_scoring': ['winning_votes', 'margins', 'pairwise_opposition'],
    'function': ['mean', 'median', 'sum'],
    'transferer': ['Gregory', 'Hare'],
    'affiliation': ['candidacy_for', 'membership'],
    'independents': ['aggregate', 'keep', 'ignore'],
    'unranked_scoring': ['zero', 'avg', 'min'],
    'round_method': ['ROUND_HALF_UP', 'ROUND_DOWN'],
    'rounding': ['ROUND_DOWN', 'ROUND_UP', 'ROUND_HALF_UP'],
    'on_overaward': ['error', 'ignore', 'tie'],
    'on_more_over_quota': ['error', 'select'],
    'tie_breaking': ['default', 'first', 'plus', 'minus'],
    'runoff_evaluator': ['schulze', 'ranked_pairs'],
    'name': ['A', 'Ann Bee', 'Party X'],
    'value_name': ['count', 'sum'],
    'property': ['size', 'kind'],
    'unscored_value': ['ignore'],
}


class ClassGen:
    def __init__(self, rng):
        self.rng = rng
        self.classes = all_classes()
        self.bases = {}
        self.unsaveable = 0

    ROLE_METHOD = {'Evaluator': 'evaluate', 'Selector': 'evaluate', 'SeatlessSelector': 'evaluate', 'Distributor': 'evaluate',
                   'SeatlessDistributor': 'evaluate', 'OpenListEvaluator': 'evaluate', 'Converter': 'convert', 'VoteSubsetter': 'subset',
                   'RankScorer': 'scores', 'SeatCountCalculator': 'calculate', 'VoteValidator': 'validate', 'Nominator': 'validate',
                   'VoteTransferer': 'transfer'}

    def role_match(self, c, base):
        """votelib is duck-typed: most concrete classes do not inherit from the abstract class named in the annotation"""
        if issubclass(c, base):
            return True
        name = base.__name__
        meth = self.ROLE_METHOD.get(name)
        if meth is None or not callable(getattr(c, meth, None)):
            return False
        if name == 'VoteValidator':
            return c.__module__ == 'votelib.vote'
        if name == 'Nominator':
            return c.__module__ == 'votelib.candidate'
        if name == 'Converter':
            return c.__module__ == 'votelib.convert'
        if name == 'OpenListEvaluator':
            return c.__module__ == 'votelib.evaluate.openlist'
        if meth != 'evaluate' or name == 'Evaluator':
            return True
        try:
            ret = typing.get_origin(typing.get_type_hints(c.evaluate).get('return'))
        except Exception:   # noqa
            ret = None
        kind = 'dist' if ret is dict else 'sel' if ret is list else None
        seated = 'n_seats' in inspect.signature(c.evaluate).parameters
        if name == 'Selector':
            return kind in ('sel', None) and seated
        if name == 'SeatlessSelector':
            return kind in ('sel', None) and not seated
        if name == 'Distributor':
            return kind in ('dist', None) and seated
        if name == 'SeatlessDistributor':
            return kind in ('dist', None) and not seated
        return True

    def concrete(self, base):
        if base not in self.bases:
            self.bases[base] = [c for c in self.classes.values() if isinstance(c, type) and not inspect.isabstract(c)
                                and self.role_match(c, base)]
        return self.bases[base]

    def number(self):
        r = self.rng
        return r.choice([r.randint(0, 9), Fraction(r.randint(1, 20), r.randint(1, 20)), Decimal(r.randint(1, 400)) / 100,
                         r.randint(1, 5)])

    def callable_for(self, pname):
        import votelib.component.quota as Q, votelib.component.divisor as D
        r = self.rng
        if 'quota' in pname:
            f = r.choice([Q.droop, Q.hare, Q.imperiali, Q.constant(37)])
            if isinstance(f, Q.constant):
                self.unsaveable += 1         # a callable object without a name: the one part drawn here that cannot be saved
            return f
        if 'divisor' in pname:
            return r.choice([D.d_hondt, D.sainte_lague, D.modified_first_coef(D.sainte_lague, Fraction(7, 5)), D.modified_first_coef(D.d_hondt)])
        if pname == 'coefficients':
            return r.choice([D.d_hondt, [1, Fraction(1, 2)], [3, 2, 1]])
        return r.choice([max, min, sum])

    def value(self, pname, ann, depth, default=inspect.Parameter.empty):
        r = self.rng
        if pname == 'seed':
            return r.randint(0, 99)
        if default is not inspect.Parameter.empty and r.random() < 0.35:
            return default
        origin = typing.get_origin(ann)
        args = typing.get_args(ann)
        if ann is inspect.Parameter.empty or ann is typing.Any:
            if default is not inspect.Parameter.empty and default is not None and not isinstance(default, (int, str, bool)):
                return default
            if pname in STR_CHOICES:
                return r.choice(STR_CHOICES[pname])
            return self.number()
        if origin is typing.Union:
            opts = [a for a in args]
            if pname in STR_CHOICES and str in opts and r.random() < 0.5:
                return r.choice(STR_CHOICES[pname])
            a = r.choice(opts)
            if a is type(None):
                return None
            return self.value(pname, a, depth, inspect.Parameter.empty)
        if ann is bool:
            return r.random() < 0.5
        if ann is int:
            return r.randint(0, 6) if pname not in ('n_seats', 'depth', 'votes_per_seat', 'top', 'base', 'n_first', 'decimals') else r.randint(1, 4)
        if ann is str:
            if pname in STR_CHOICES:
                return r.choice(STR_CHOICES[pname])
            return default if default is not inspect.Parameter.empty else 'x'
        if ann is Fraction:
            return Fraction(r.randint(1, 9), r.randint(1, 9))
        if ann is Decimal:
            return Decimal(r.randint(1, 300)) / 100
        if isinstance(ann, type) and ann.__module__ == 'numbers':
            return self.number()
        if origin in (list, typing.List) or (origin is not None and getattr(origin, '__name__', '') in ('Collection', 'Sequence', 'Iterable')):
            a = args[0] if args else typing.Any
            return [self.value(pname, a, depth - 1) for _ in range(r.randint(1, 3))]
        if origin in (tuple, typing.Tuple):
            if args and args[-1] is not Ellipsis:
                vals = [self.value(pname, a, depth - 1) for a in args]
                if len(vals) == 2 and all(isinstance(x, (int, Fraction, Decimal)) and not isinstance(x, bool) for x in vals):
                    vals.sort()
                return tuple(vals)
            return tuple(self.value(pname, args[0] if args else typing.Any, depth - 1) for _ in range(r.randint(1, 3)))
        if origin in (dict, typing.Dict):
            ka, va = args if args else (typing.Any, typing.Any)
            keys = r.sample([1, 2, 3, 4], r.randint(1, 3)) if ka in (int, typing.Any) else r.sample(['N', 'S', 'W', 'E'], r.randint(1, 3))
            return {k: self.value(pname, va, depth - 1) for k in keys}
        if origin is not None and 'Callable' in str(origin) or 'Callable' in str(ann):
            return self.callable_for(pname)
        if isinstance(ann, type) and ann.__module__.startswith('votelib'):
            if depth <= 0:
                cands = [c for c in self.concrete(ann) if self.default_ok(c)]
            else:
                cands = self.concrete(ann)
            if not cands:
                raise LookupError('no concrete class for %s' % ann)
            return self.instance(r.choice(cands), depth - 1)[0]
        if isinstance(ann, typing.TypeVar) or isinstance(ann, str):
            return r.choice(['N', 'S'])
        return self.number()

    def default_ok(self, cls):
        try:
            cls()
            return True
        except Exception:   # noqa
            return False

    def instance(self, cls, depth):
        """random instance; raises when the drawn arguments are rejected by the constructor"""
        try:
            hints = typing.get_type_hints(cls.__init__)
        except Exception:   # noqa
            hints = {}
        sig = inspect.signature(cls.__init__)
        kwargs = {}
        for name, p in list(sig.parameters.items())[1:]:
            if p.kind in (p.VAR_POSITIONAL, p.VAR_KEYWORD):
                continue
            if p.default is not p.empty and name != 'seed' and (depth <= 0 or self.rng.random() < 0.3):
                continue
            kwargs[name] = self.value(name, hints.get(name, p.annotation if not isinstance(p.annotation, str) else inspect.Parameter.empty), depth, p.default)
        return cls(**kwargs), kwargs


def panel():
    """inputs of every vote type; (method, args) pairs are tried on both objects"""
    A, B, C, D = 'A', 'B', 'C', 'D'
    simple = {A: 40, B: 35, C: 15, D: 10}
    simple2 = {A: 7, B: 7, C: 3}
    ranked = {(A, B, C): 40, (B, C, A): 35, (C, A, B): 15, (D, C): 10}
    ranked2 = {(A, B): 3, (B, A): 3, (C,): 1, (A, frozenset([B, C])): 2}
    approval = {frozenset([A, B]): 30, frozenset([B, C]): 25, frozenset([C]): 20, frozenset([A, D]): 5}
    score = {frozenset([(A, 5), (B, 3), (C, 0)]): 10, frozenset([(A, 0), (B, 4), (C, 5)]): 8, frozenset([(B, 2), (D, 5)]): 3}
    pair = {(A, B): 55, (B, A): 45, (A, C): 60, (C, A): 40, (B, C): 70, (C, B): 30}
    nested = {'N': dict(simple), 'S': {A: 10, B: 50, C: 20}}
    res_sel = [A, B]
    res_dist = {A: 3, B: 2}
    inputs = [simple, simple2, ranked, ranked2, approval, score, pair, nested]
    calls = []
    for v in inputs:
        calls.append(('evaluate', (v,)))
        calls.append(('evaluate', (v, 2)))
        calls.append(('evaluate', (v, 3)))
        calls.append(('convert', (v,)))
        calls.append(('calculate', (v, 5)))
    for v in [A, frozenset([A, B]), (A, B, C), (A, frozenset([B, C])), frozenset([(A, 3), (B, 1)]), frozenset([(A, 9)]), 7, None, (B, A, B)]:
        calls.append(('validate', (v,)))
    for v in [0, 1, 4, Fraction(5, 2), 100]:
        calls.append(('is_valid', (v,)))
        calls.append(('check', (v,)))
        calls.append(('scores', (v,)))
    calls.append(('convert', (res_sel,)))
    calls.append(('convert', (res_dist,)))
    calls.append(('convert', ({'N': res_dist, 'S': {B: 1}},)))
    calls.append(('subset', (simple, [A, B])))
    calls.append(('subset', (ranked, [A, C])))
    calls.append(('subset', (approval, [B, C])))
    calls.append(('set_n_candidates', (4,)))
    calls.append(('scores', (3,)))
    return calls


def stable(x):
    import votelib.evaluate.core as core
    if isinstance(x, core.Tie):
        return ('Tie', tuple(sorted(map(repr, x))))
    if isinstance(x, dict):
        return ('dict', tuple(sorted(((stable(k), stable(v)) for k, v in x.items()), key=repr)))
    if isinstance(x, (list, tuple)):
        return (type(x).__name__, tuple(stable(y) for y in x))
    if isinstance(x, (set, frozenset)):
        return ('set', tuple(sorted((stable(y) for y in x), key=repr)))
    if isinstance(x, float):
        return ('float', repr(x))
    if isinstance(x, (int, Fraction, Decimal)) and not isinstance(x, bool):
        try:
            return ('num', str(Fraction(x)))
        except Exception:   # noqa
            return ('num', str(x))
    if hasattr(x, 'to_dict'):
        try:
            return ('obj', json.dumps(x.to_dict(), sort_keys=True, default=str))
        except Exception:   # noqa
            return ('obj', type(x).__name__)
    return repr(x) if not callable(x) else getattr(x, '__name__', 'callable')


def behaviour(obj, calls, limit):
    out = []
    for meth, args in calls:
        f = getattr(obj, meth, None)
        if f is None:
            continue
        _random.seed(12345)
        r = common.call_impl(lambda: f(*args), limit)
        if r[0] == 'ok':
            out.append((meth, 'ok', stable(r[1])))
        else:
            out.append((meth, 'exc', r[2].split(':')[0]))
    return out


def has_defaultdict(obj, depth=4):
    import collections
    if isinstance(obj, collections.defaultdict):
        return True
    if depth <= 0:
        return False
    if isinstance(obj, dict):
        return any(has_defaultdict(v, depth - 1) for v in obj.values())
    if isinstance(obj, (list, tuple)):
        return any(has_defaultdict(v, depth - 1) for v in obj)
    if hasattr(obj, '__dict__') and type(obj).__module__.startswith('votelib'):
        return any(has_defaultdict(v, depth - 1) for v in vars(obj).values())
    return False


def has_unseeded(d):
    s = json.dumps(d, default=str)
    return '"seed": null' in s


def describe(kwargs):
    try:
        return json.dumps({k: stable(v) for k, v in kwargs.items()}, default=str)[:600]
    except Exception:   # noqa
        return repr(kwargs)[:600]


def check_object(ctx, clsname, obj, kwargs, calls, stream='classes', may_refuse=False):
    """the declarative clause for one configured object; returns a violation dict or None (+ class tag).
    may_refuse: the configuration contains a part that cannot be represented (a callable object without a name): saving must then be
    refused with ValueError; a configuration built from representable parts only (numbers, named callables, nested evaluators, dict-keyed
    parameters - the domain of the property) must be saved"""
    import votelib.persist as P
    case = dict(stream=stream, cls=clsname, args=describe(kwargs))
    try:
        d = P.to_dict(obj)
        text = json.dumps(d)
    except Exception as exc:   # noqa   refused when saving
        if may_refuse and isinstance(exc, ValueError):
            ctx.dist['classes:refused-when-saving'] += 1
            return None, None
        return dict(case, why=('a configuration built from representable parts is refused when saving' if isinstance(exc, ValueError) else
                               'saving raises another exception than ValueError') + ': %s: %s' % (type(exc).__name__, str(exc)[:300])), 'save-fails'
    if may_refuse:
        ctx.dist['classes:unsaveable-part-not-reached'] += 1     # e.g. the part was replaced by a default inside the constructor
    try:
        y = P.from_dict(json.loads(text))
    except Exception as exc:   # noqa
        tag = 'closure' if ('_quota_fractional' in text or '_modified_divisor' in text) else 'load-fails'
        return dict(case, saved=text[:800], why='saved without refusal, but from_dict raises %s: %s' % (type(exc).__name__, str(exc)[:120])), tag
    try:
        d2 = P.to_dict(y)
    except Exception as exc:   # noqa
        return dict(case, saved=text[:800], why='the reloaded object cannot be serialised: %s' % type(exc).__name__), 'to-dict'
    if json.dumps(d2, sort_keys=True) != json.dumps(json.loads(text), sort_keys=True) or d2 != d:
        return dict(case, saved=text[:800], resaved=json.dumps(d2)[:800], why='the reloaded object serialises differently'), 'to-dict'
    bx = behaviour(obj, calls, 3)
    by = behaviour(y, calls, 3)
    n_ok = sum(1 for b in bx if b[1] == 'ok')
    ctx.dist['classes:outcomes-compared'] += n_ok
    if n_ok:
        ctx.dist['classes:objects-with-outcomes'] += 1
    if has_unseeded(d):
        # an unseeded random component (seed=None draws from OS entropy): outcomes are not comparable run to run
        ctx.dist['classes:unseeded-outcomes-not-compared'] += 1
        return None, None
    if bx != by:
        diff = [(a, b) for a, b in zip(bx, by) if a != b][:2]
        lost_default = all(b[1:] == ('exc', 'KeyError') for a, b in zip(bx, by) if a != b)   # the recorded behaviour: KeyError on a missing rank
        tag = 'defaultdict' if (has_defaultdict(obj) and lost_default) else 'behaviour'
        return dict(case, saved=text[:800], why='the reloaded object behaves differently: %s' % (repr(diff)[:500])), tag
    return None, None


def signature_report(ctx, name, kwargs, problems, what):
    case = dict(stream='signatures', cls=name, args=describe(kwargs))
    ex = sigcheck.kwargs_expr(kwargs)
    if ex is not None:
        case['expr'] = ex
    ctx.checker_false += 1
    ctx.violations.append(dict(stream='signatures', case=case, impl='; '.join(problems)[:1500], model=what, why='%s: %s' % (what, problems[0][:400])))


def signature_setup(ctx, live_classes):
    """the generated table against the interpreter, the exception list against what this check treats specially; returns the per-run
    state used by signature_instance (None: no table, the premise stays tested only)"""
    table = sigcheck.load_table()
    if table is None or 'Signatures' in ctx.fallback:
        ctx.notes.append('signatures: no generated table (translator status %s): the per-class premise is only tested this run'
                         % json.dumps(ctx.gen_status.get('Signatures', {}))[:200])
        return None
    exc = sigcheck.read_exceptions()
    st = dict(table=table, exc=exc, checked=0, bad=0, per_class={}, unexpected=[])
    for name, what in sigcheck.table_vs_live(table, live_classes):
        st['bad'] += 1
        ctx.disagreements += 1
        ctx.violations.append(dict(stream='signatures', case=dict(stream='signatures', cls=name, kind='table-vs-interpreter'), impl=what, model='Gen/Signatures.v',
                                   why='the generated class table (tools/py2v.py part 5) differs from the running library: %s: %s' % (name, what)))
    ser = [c for c in table['classes'] if sigcheck.serialisable(c)]
    ok = [c['name'] for c in ser if sigcheck.class_ok(c)]
    st['ok'] = set(ok)
    st['unexpected'] = [c['name'] for c in ser if c['name'] not in st['ok'] and c['name'] not in exc]
    for n_ in st['unexpected']:
        c = table['by_name'][n_]
        why = [('%s: %s' % (p['name'], p['store'][0] + ('' if p['store'][0] in ('Stored', 'NotStored') else ' ' + str(p['store'][1][1] if p['store'][0] == 'Transformed' else p['store'][1]))))
               for p in c['params'] if p['store'][0] != 'Stored']
        ctx.notes.append('signatures: %s has to_dict (%s) but neither the premise class_ok nor an entry in the exception list: keys %s, parameters %s'
                         % (n_, c['todict'], c['keys'], why or [p['name'] for p in c['params']]))
    # (b) the exception list coincides with what this check treats specially
    problems = []
    known_ids = {k['id'] for k in ctx.known}
    for cname, reason in exc.items():
        c = table['by_name'].get(cname)
        if c is None or not sigcheck.serialisable(c):
            problems.append('%s is listed as an exception but is not a class with to_dict' % cname)
            continue
        if reason.startswith('known:'):
            kid = reason[6:]
            if kid not in known_ids or kid not in KNOWN_TAGS.values() or cname not in SPECIAL_CLASSES.get(kid, []):
                problems.append('%s is excepted as the site of %s, which this check does not treat specially for that class' % (cname, kid))
        elif reason == 'hand-written':
            if c['todict'] not in ('TDHand', 'TDHandInherited'):
                problems.append('%s is excepted as hand-written, its to_dict is %s' % (cname, c['todict']))
        elif reason == 'serialize_params':
            if c['keys_from'] != 'serialize_params':
                problems.append('%s is excepted for serialize_params, its keys come from %s' % (cname, c['keys_from']))
        elif reason == 'normalised':
            if c['todict'] not in ('TDDecorated', 'TDInherited') or not any(p['store'][0] == 'Transformed' for p in c['params']):
                problems.append('%s is excepted as normalising, the table shows no transformed parameter' % cname)
        else:
            problems.append('%s: unknown exception reason %r' % (cname, reason))
        if cname in st['ok']:
            ctx.notes.append('signatures: %s is listed as an exception (%s) but has the premise class_ok now: the entry is stale' % (cname, reason))
    for kid, names in SPECIAL_CLASSES.items():
        for cname in names:
            if exc.get(cname) != 'known:' + kid and cname not in st['ok']:
                problems.append('%s is treated specially here (%s) but is not excepted under that finding' % (cname, kid))
    if problems:
        ctx.broken('signatures-exceptions', 'the exception list of Props/GenTie_Signatures.v does not coincide with what the check treats specially: ' + '; '.join(problems))
    return st


def signature_instance(ctx, st, name, cls, obj, kwargs):
    c = st['table']['by_name'].get(name)
    if c is None:
        return
    strict = name in st['ok'] or name in st['unexpected']
    tb, pb = sigcheck.check_instance(c, cls, obj, kwargs, strict)
    st['checked'] += 1
    pc = st['per_class'].setdefault(name, [0, 0])
    pc[0] += 1
    pc[1] += 1 if kwargs else 0
    if tb:
        st['bad'] += 1
        signature_report(ctx, name, kwargs, tb, 'the generated class table (Gen/Signatures.v) records a verbatim store the object does not show')
    elif pb:
        st['bad'] += 1
        signature_report(ctx, name, kwargs, pb, ('the premise of the round-trip theorem (class_ok, proved from the source table) fails on the implementation'
                                                 if name in st['ok'] else
                                                 'to_dict does not return the constructor arguments and the class is not a listed exception (premise class_ok broken)'))


def signature_finish(ctx, st):
    if st is None:
        return
    table, exc = st['table'], st['exc']
    ser = [c for c in table['classes'] if sigcheck.serialisable(c)]
    reasons = collections.Counter(r.split(':')[0] for n_, r in exc.items())
    never = sorted(n_ for n_ in exc if st['per_class'].get(n_, [0, 0])[1] == 0)
    if never:
        ctx.notes.append('signatures: exception classes not constructed with arguments this run (their premise was not exercised): %s' % never)
    stores = collections.Counter(p['store'][0] for c in ser for p in c['params'])
    ctx.dist['signatures:classes-with-premise-proved'] = len(st['ok'])
    ctx.dist['signatures:exception-classes'] = len(exc)
    ctx.dist['signatures:objects-checked'] = st['checked']
    ctx.streams['signatures'] = dict(cases=st['checked'] + len(table['classes']), deviations=st['bad'], classes_in_table=len(table['classes']),
                                     classes_with_to_dict=len(ser), premise_proved=len(st['ok']), exceptions=dict(reasons),
                                     unexpected=st['unexpected'], parameter_stores=dict(stores),
                                     mutation_sites=sum(len(c['mutations']) for c in ser))


def classes_stream(ctx, count_per_class):
    gen = ClassGen(ctx.rng)
    calls = panel()
    bad = 0
    n = 0
    sig = signature_setup(ctx, gen.classes)
    for name, cls in gen.classes.items():
        objs = []
        if gen.default_ok(cls):
            objs.append((cls(), {}, False))
        tries = 0
        while len(objs) < 1 + count_per_class and tries < count_per_class * 6:
            tries += 1
            try:
                gen.unsaveable = 0
                o, kw = gen.instance(cls, ctx.rng.randint(1, 4))
                objs.append((o, kw, gen.unsaveable > 0))
            except BaseException as exc:   # noqa
                if isinstance(exc, (KeyboardInterrupt, SystemExit)):
                    raise
                ctx.dist['classes:constructor-rejected'] += 1
        if not objs:
            ctx.dist['classes:never-constructed'] += 1
            ctx.notes.append('classes stream: no instance of %s could be constructed' % name)
        for o, kw, unsaveable in objs:
            n += 1
            ctx.evaluations += 1
            ctx.dist['stream:classes'] += 1
            if sig is not None:
                signature_instance(ctx, sig, name, cls, o, kw)      # before any method of the object is called
            v, tag = check_object(ctx, name, o, kw, calls, may_refuse=unsaveable)
            if kw:
                ctx.nontrivial.add(common.case_hash(dict(cls=name, args=describe(kw))))
            if v is not None:
                bad += 1
                report_impl(ctx, v, tag)
    ctx.dist['classes:distinct'] = len(gen.classes)
    ctx.streams['classes'] = dict(cases=n, deviations=bad, classes=len(gen.classes))
    signature_finish(ctx, sig)


KNOWN_TAGS = {'stv-hostile-name': 'C19-stv-name-chars', 'stv-empty-ranking': 'C19-stv-empty-ranking',
              'stv-decimal-exponent': 'C19-stv-decimal-exponent', 'blt-negative-weight': 'C19-blt-negative-weight'}


def report_impl(ctx, v, tag):
    """implementation-side finding: known class or violation"""
    kid = KNOWN_TAGS.get(tag)
    if kid and any(k['id'] == kid for k in ctx.known):
        ctx.known_hits[kid] += 1
        return
    ctx.checker_false += 1
    ctx.violations.append(dict(stream=v.get('stream', 'impl'), case={k: x for k, x in v.items() if k != 'why'}, impl=v.get('got', v.get('saved', '')),
                               model=v.get('want', 'n/a'), why=v['why']))


# ------------------------------------------------------------------------------------------------ ballot files
FIRST = ['Ann', 'Bob', 'Cy', 'Dee', 'Eve', 'J.', "O'Neil", 'Jean-Luc', 'Zoë', 'Émile', '3rd', 'Mary Jane', 'X', 'de', 'van der']
LAST = ['Smith', 'Bee', 'Jones-Lee', 'St. John', 'Q', 'Müller', '(Ind.)', 'Jr.', 'O', 'Nguyen', 'Dahl', '2', '&Co', 'Nora Dahl']


def gen_name(rng, hostile=False):
    r = rng.random()
    if r < 0.15:
        name = rng.choice(FIRST)
    elif r < 0.8:
        name = rng.choice(FIRST) + ' ' + rng.choice(LAST)
    elif r < 0.9:
        name = rng.choice(FIRST) + rng.choice(['  ', ', ', ' - ', '.', '. ']) + rng.choice(LAST)
    else:
        name = ''.join(rng.choice(string.ascii_letters + string.digits + " .,-_'()&!?*+/:;=@[]^`{|}~éß") for _ in range(rng.randint(1, 10))).strip() or 'Z'
    if hostile:
        name = rng.choice(['#1 ', 'Ann "The Hammer" Bee', 'a#b', ' lead', 'trail ', '"', 'x\ty', 'Eva Nora # Dahl', '""'])  + (name if rng.random() < 0.5 else '')
    return name


def gen_weight(rng, kind=None):
    kind = kind or rng.choice(['int', 'int', 'dec', 'frac'])
    if kind == 'int':
        return ['int', rng.choice([1, 1, 2, rng.randint(1, 500), 10 ** 20 + rng.randint(0, 9)])]
    if kind == 'dec':
        return ['dec', str(Decimal(rng.randint(1, 9999)) / rng.choice([1, 10, 100, 1000, 8]))]
    f = Fraction(rng.randint(1, 60), rng.randint(1, 12))
    return ['frac', f.numerator, f.denominator]


def w_py(w):
    return w[1] if w[0] == 'int' else Decimal(w[1]) if w[0] == 'dec' else Fraction(w[1], w[2])


def gen_election(rng, hostile=False, special=None):
    m = rng.choice([1, 1, 2, 3, 3, 4, 5, 6, 7])
    if special == 'many':
        m = rng.randint(26, 30)
    persons = rng.random() < 0.7
    cands = []
    for i in range(m):
        nm = gen_name(rng, hostile and rng.random() < 0.5)
        if rng.random() < 0.15 and cands:
            nm = rng.choice(cands)[0].split(' ')[0] + ' ' + nm     # duplicate initials / shared first name
        cands.append([nm, bool(persons and rng.random() < 0.3)])
    if not persons:
        seen, uniq = set(), []
        for nm, w in cands:       # str candidates must be distinct objects by equality
            while nm in seen:
                nm += 'x'
            seen.add(nm)
            uniq.append([nm, w])
        cands = uniq
    votes, seen = [], set()
    for _ in range(rng.randint(0, 8)):
        k = rng.randint(1 if special != 'empty-ranking' else 0, m)
        r = tuple(rng.sample(range(m), k))
        if r in seen:
            continue
        seen.add(r)
        votes.append([list(r), gen_weight(rng, 'int' if special == 'intweights' else None)])
    if special == 'dec-exponent' and votes:
        votes[0][1] = ['dec', rng.choice(['1E+2', '2.5E+3', '1E-7'])]
    if special == 'long-decimal' and votes:
        votes[0][1] = ['dec', str(Decimal('%d.%s' % (rng.randint(0, 10 ** 12), ''.join(rng.choice(string.digits) for _ in range(rng.randint(20, 40))) + '1')))]
    if special == 'zero-weight' and votes:
        votes[0][1] = ['int', 0]
    title = None if rng.random() < 0.4 else gen_name(rng, hostile and rng.random() < 0.5) + rng.choice(['', ' 2024', ' election'])
    return dict(cands=cands, persons=persons, votes=votes, seats=rng.randint(0, max(1, m)), title=title)


def build_election(e):
    import votelib.candidate as vc
    if e['persons']:
        objs = [vc.Person(nm, withdrawn=w) for nm, w in e['cands']]
    else:
        objs = [nm for nm, _ in e['cands']]
    votes = {tuple(objs[i] for i in r): w_py(w) for r, w in e['votes']}
    return objs, votes


def q_wire(x):
    f = Fraction(x)
    return str(f.numerator) if f.denominator == 1 else '(%d %d)' % (f.numerator, f.denominator)


def loaded_wire(votes, seats, cands, title):
    pos = {id(c): i + 1 for i, c in enumerate(cands)}
    bl = ' '.join('((%s) %s)' % (' '.join(str(pos[id(c)]) for c in r), q_wire(w)) for r, w in votes.items())
    cl = ' '.join('((0 %s) %d)' % (wstr(c.name), int(bool(c.withdrawn))) for c in cands)
    return '((%s) %d (%s) %s)' % (bl, seats, cl, '(%s)' % wstr(title) if title is not None else '()')


def election_wire(e):
    votes = ' '.join('((%s) %s)' % (' '.join(str(i + 1) for i in r), q_wire(w_py(w))) for r, w in e['votes'])
    cands = ' '.join('(%d %s %d)' % (i + 1, wstr(nm), int(w)) for i, (nm, w) in enumerate(e['cands']))
    return '((%s) %d (%s) %s)' % (votes, e['seats'], cands, '(%s)' % wstr(e['title']) if e['title'] is not None else '()')


def blt_model_line(c):
    return '%d (0 0 %s)' % (U0 + 2, election_wire(c['election']))


def blt_impl(c):
    import votelib.io.blt as blt
    objs, votes = build_election(c['election'])
    text = blt.dumps(votes, c['election']['seats'], objs, c['election']['title'])
    c['_text'] = text
    return '(0 %s)' % loaded_wire(*blt.loads(text))


def canon_loaded(v):
    ballots, seats, cands, title = v
    return (tuple((tuple(r), str(common.unq(w))) for r, w in ballots), seats,
            tuple((tuple(n) if isinstance(n, list) else n, w) for n, w in [(tuple(map(_t, nm)), w) for nm, w in cands]), _t(title))


def _t(x):
    return tuple(_t(y) for y in x) if isinstance(x, list) else x


def blt_spec(c, io, mo):
    m = common.parse_sx(mo)
    v = common.parse_sx(io)
    if m[0] == 5:
        return None if v[0] == 1 else 'the model refuses to write (candidate missing) but the implementation writes'
    lines, mres, expected, wf = m[1]
    want = canon_loaded(expected) if expected else None
    if v[0] != 0:
        c['_class'] = 'blt-raises'
        return 'BLT round trip raises %s' % c.get('_exc')
    got = canon_loaded(v[1])
    if got != want:
        c['_class'] = 'blt-altered'
        return 'BLT text does not load back unchanged'
    if mres[0] != 0 or canon_loaded(mres[1]) != got:
        c['_class'] = 'blt-model'
        return 'implementation differs from the model of load_lines . dump_lines'
    return None


def clean_name(s):
    return s is None or (s == s.strip() and '#' not in s and '"' not in s and '\n' not in s and '\t' not in s and s != '')


def blt_known(c, io, mo):
    return None


def blt_cases(rng, count, hostile=False, special=None):
    for _ in range(count):
        yield dict(stream='blt', election=gen_election(rng, hostile, special))


def blt_nontrivial(c):
    e = c['election']
    return bool(e['title'] or any(w for _, w in e['cands']) or any(w[0] != 'int' for _, w in e['votes']))


# ---- token lines
def render_tok(rng, t):
    if t[0] == 0:
        return str(t[1])
    if t[0] == 1:
        return t[2]
    return t[1]


def gen_tok(rng, first):
    r = rng.random()
    if r < 0.7 or (not first and r < 0.85):
        return [0, rng.choice([0, 0, 1, 2, 3, 4, rng.randint(0, 12)])]
    if r < 0.9:
        s = rng.choice(['-1', '-2', '-3', '1.5', '0.0', '2.50', '3/2', '-1/2', '1E+2', '-0', '0.25', '7/1', '+4', '-7'])
        return [1, q_wire(Fraction(s)), s]
    return [2, rng.choice(['abc', '1.2.3', '--1', 'NaN', 'Infinity', '-Infinity', '1/0', '1/', 'x1', '0x10', '1 _0'.replace(' ', '/'), '"a', 'a"', '1e', 'sNaN', '+-1'])]


def gen_token_lines(rng):
    """mostly well-shaped files with local damage"""
    m = rng.randint(0, 4)
    lines = [[0, [[0, m], [0, rng.randint(0, 3)]]]]
    if rng.random() < 0.15:
        lines[0] = [0, [gen_tok(rng, True) for _ in range(rng.randint(0, 3))]]
    for _ in range(rng.randint(0, 2)):
        if rng.random() < 0.4:
            w = rng.randint(1, m + 1)
            lines.append([0, [[1, str(-w), str(-w)]] + ([[0, rng.randint(0, 3)]] if rng.random() < 0.1 else [])])
    for _ in range(rng.randint(0, 4)):
        r = rng.random()
        if r < 0.7:
            k = rng.randint(0, 3)
            first = rng.choice([[0, rng.randint(0, 9)], gen_tok(rng, True)])
            toks = [first] + [[0, rng.randint(0 if rng.random() < 0.1 else 1, max(1, m + (1 if rng.random() < 0.1 else 0)))] for _ in range(k)] + ([[0, 0]] if rng.random() < 0.92 else [])
            lines.append([0, toks])
        elif r < 0.8:
            lines.append([0, []])
        elif r < 0.9:
            lines.append([0, [gen_tok(rng, i == 0) for i in range(rng.randint(1, 4))]])
        else:
            lines.append([1, 'q%d' % rng.randint(0, 9)])
    if rng.random() < 0.9:
        lines.append([0, [[0, 0]]])
    n_str = rng.choice([0, m, m, m + 1, m + 1, m - 1, m + 2, 1])
    for i in range(max(0, n_str)):
        lines.append([1, rng.choice(['Ann Bee', 'B', 'C%d' % i, 'T'])])
        if rng.random() < 0.05:
            lines.append([0, []])
        if rng.random() < 0.03:
            lines.append([0, [[0, 1]]])
    if rng.random() < 0.1:
        lines.append([0, []])
    return lines


def token_cases(rng, count):
    for _ in range(count):
        yield dict(stream='blt-tokens', lines=gen_token_lines(rng), oneplus=rng.random() < 0.25)


def token_text(c):
    out = []
    for kind, body in c['lines']:
        if kind == 1:
            out.append('"%s"' % body)
        else:
            out.append(' '.join(str(t[1]) if t[0] == 0 else (t[2] if t[0] == 1 else t[1]) for t in body))
    return '\n'.join(out)


def token_model_line(c):
    ls = []
    for kind, body in c['lines']:
        if kind == 1:
            ls.append('(1 %s)' % wstr(body))
        else:
            ls.append('(0 (%s))' % ' '.join('(0 %d)' % t[1] if t[0] == 0 else ('(1 %s)' % t[1] if t[0] == 1 else '(2)') for t in body))
    return '%d (0 %d (%s))' % (U0 + 3, int(c['oneplus']), ' '.join(ls))


def loaded_wire_names(votes, seats, cands, title, numeric):
    pos = {id(c): i + 1 for i, c in enumerate(cands)}
    bl = ' '.join('((%s) %s)' % (' '.join(str(pos[id(c)]) for c in r), q_wire(w)) for r, w in votes.items())
    cl = ' '.join('(%s %d)' % ('(1 %s)' % c.name if numeric else '(0 %s)' % wstr(c.name), int(bool(c.withdrawn))) for c in cands)
    return '((%s) %d (%s) %s)' % (bl, seats, cl, '(%s)' % wstr(title) if title is not None else '()')


def token_impl(c):
    import votelib.io.blt as blt
    text = token_text(c)
    votes, seats, cands, title = blt.loads(text, oneplus_weights=c['oneplus'])
    has_names = sum(1 for k, _ in c['lines'] if k == 1)
    numeric = all(cd.name == str(i + 1) for i, cd in enumerate(cands)) and not any(b == str(i + 1) for i in range(len(cands)) for k, b in c['lines'] if k == 1)
    return '(0 %s)' % loaded_wire_names(votes, seats, cands, title, numeric and bool(cands))


def token_canon(c, wire):
    v = common.parse_sx(wire)
    if v[0] != 0:
        return ('err', v[1])
    return ('ok', canon_loaded(v[1]))


def token_spec(c, io, mo):
    v = common.parse_sx(io)
    if v[0] == 1 and v[1] != E['PARSE']:
        return 'blt.loads raises %s instead of BLTParseError' % c.get('_exc')
    return None


# ---- STV
def stv_roundtrip(ctx, e, mode):
    """returns (violation dict or None, tag)"""
    import votelib, votelib.io.stv as stv, votelib.evaluate.core as core
    from votelib.evaluate.sequential import TransferableVoteSelector
    objs, votes = build_election(e)
    case = dict(stream='stv', election=e, mode=mode)
    title, seats = e['title'], e['seats']
    hostile = not all(clean_name(nm) and '=' not in nm.split(' ')[0] for nm, _ in e['cands']) or not clean_name(title)
    tag = None
    if hostile:
        tag = 'stv-hostile-name'
    elif any(not r for r, _ in e['votes']):
        tag = 'stv-empty-ranking'
    elif any(w[0] == 'dec' and 'E' in w[1] for _, w in e['votes']):
        tag = 'stv-decimal-exponent'
    try:
        if mode == 'blt':
            text = stv.dumps(votes, None, objs, seats)
        else:
            system = votelib.VotingSystem(title, core.FixedSeatCount(
                TransferableVoteSelector(quota_function='droop', transferer='Gregory'), seats))
            text = stv.dumps(votes, system, objs)
    except Exception as exc:   # noqa
        return dict(case, why='stv.dumps raises %s: %s' % (type(exc).__name__, str(exc)[:100])), tag
    try:
        v2, sys2, c2 = stv.loads(text)
    except Exception as exc:   # noqa
        return dict(case, text=text[:600], why='stv.loads(stv.dumps(x)) raises %s: %s' % (type(exc).__name__, str(exc)[:100])), tag
    want_votes = {tuple(r): Fraction(w_py(w)) for r, w in e['votes']}
    pos = {id(c): i for i, c in enumerate(c2)}
    try:
        got_votes = {tuple(pos[id(c)] for c in r): Fraction(w) for r, w in v2.items()}
    except KeyError:
        return dict(case, text=text[:600], why='loaded ballots name candidates that are not in the loaded candidate list'), tag
    problems = []
    if got_votes != want_votes:
        problems.append('ballots/weights')
    if [c.name for c in c2] != [nm for nm, _ in e['cands']]:
        problems.append('candidate names')
    if [bool(c.withdrawn) for c in c2] != [w for _, w in e['cands']]:
        problems.append('withdrawn flags')
    ev = sys2.evaluator if sys2 is not None else None
    if not isinstance(ev, core.FixedSeatCount) or ev.n_seats != seats:
        problems.append('seat count')
    if mode != 'blt' and (sys2 is None or sys2.name != title) and title is not None:
        problems.append('title')
    if problems:
        return dict(case, text=text[:600], why='STV text does not load back unchanged: ' + ', '.join(problems)), tag
    return None, None


def stv_stream(ctx, count, hostile=False, special=None):
    bad = 0
    for _ in range(count):
        e = gen_election(ctx.rng, hostile, special)
        if special == 'intweights' and ctx.rng.random() < 0.5:
            pass
        for mode in ('blt', 'system'):
            ctx.evaluations += 1
            ctx.dist['stream:stv'] += 1
            if blt_nontrivial(dict(election=e)):
                ctx.nontrivial.add(common.case_hash(dict(e=e, mode=mode)))
            v, tag = stv_roundtrip(ctx, e, mode)
            if v is not None:
                bad += 1
                if tag:
                    ctx.dist['stv:' + tag] += 1
                report_impl(ctx, v, tag)
    ctx.streams['stv' + ('-hostile' if hostile else '') + ('-' + special if special else '')] = dict(cases=count * 2, deviations=bad)


# ---- malformed text
def mutate_text(rng, text):
    lines = text.split('\n')
    r = rng.random()
    if r < 0.2:
        k = rng.randint(0, max(0, len(text) - 1))
        return text[:k]
    if r < 0.35 and lines:
        lines.pop(rng.randrange(len(lines)))
        return '\n'.join(lines)
    if r < 0.45 and lines:
        i = rng.randrange(len(lines))
        lines.insert(i, lines[rng.randrange(len(lines))])
        return '\n'.join(lines)
    if r < 0.55:
        rng.shuffle(lines)
        return '\n'.join(lines)
    out = list(text)
    for _ in range(rng.randint(1, 3)):
        k = rng.randint(0, max(0, len(out) - 1)) if out else 0
        op = rng.random()
        junk = rng.choice(list('0123456789 -".#=/XxEe\n') + ['NaN', 'abc', '99', '-', '  ', 'quota=', 'order=', 'candidate=', 'mandatory', 'end'])
        if op < 0.4 and out:
            out[k] = junk
        elif op < 0.7:
            out.insert(k, junk)
        elif out:
            del out[k]
    return ''.join(out)


STV_SOUP = ['method=BC', 'method=blt', 'method=meek', 'method=GPCA2000', 'quota=droop', 'quota=hare', 'quota=mandatory', 'quota=12', 'quota=x',
            'seats=2', 'seats=x', 'seats=', 'random=non', 'random=7', 'random=x', 'title=T', 'title=U', 'order=a b', 'order=b z', 'candidate=a Ann',
            'candidate=b Bob', 'candidate=c', 'withdrawn=c Cy', 'ballots=2', 'ballots=blt', 'ballots=x', 'a b', 'b', '2X a b', '1/0X a', '1.xX b',
            '3/2X b a', '1 2', '2 1', '- 1', '1 1', '3 1 2 0', '0', '"A"', '"B"', 'end', '', '# comment', 'foo=bar', 'nonsense', '2 1', '1 2 3', '-2',
            '2X', 'X a', '1.5X a']


def malformed_stream(ctx, count):
    import votelib.io.blt as blt, votelib.io.stv as stv
    import votelib, votelib.evaluate.core as core
    from votelib.evaluate.sequential import TransferableVoteSelector
    rng = ctx.rng
    bad = 0
    rejected = 0
    for i in range(count):
        kind = rng.choice(['blt', 'stv-blt', 'stv', 'stv-soup', 'stv-ordered'])
        e = gen_election(rng)
        objs, votes = build_election(e)
        try:
            if kind == 'blt':
                text = blt.dumps(votes, e['seats'], objs, e['title'])
            elif kind == 'stv-blt':
                text = stv.dumps(votes, None, objs, e['seats'])
            elif kind == 'stv':
                text = stv.dumps(votes, votelib.VotingSystem(e['title'], core.FixedSeatCount(
                    TransferableVoteSelector(quota_function='droop', transferer='Gregory'), e['seats'])), objs)
            elif kind == 'stv-ordered':
                m = len(objs)
                text = '\n'.join(['method=BC', 'quota=droop'] + ['candidate=c%d %s' % (k, o if isinstance(o, str) else o.name) for k, o in enumerate(objs)]
                                 + ['order=' + ' '.join('c%d' % k for k in range(m)), 'ballots=%d' % len(votes)]
                                 + [' '.join(str(r.index(o) + 1) if o in r else '-' for o in objs) for r in votes] + ['end'])
            else:
                text = '\n'.join(rng.choice(STV_SOUP) for _ in range(rng.randint(1, 9)))
        except Exception:   # noqa
            continue
        if kind != 'stv-soup':
            text = mutate_text(rng, text)
        loader, perr = (blt.loads, blt.BLTParseError) if kind == 'blt' else (stv.loads, stv.STVParseError)
        kw = dict(oneplus_weights=True) if (kind == 'blt' and rng.random() < 0.2) else {}
        ctx.evaluations += 1
        ctx.dist['stream:malformed'] += 1
        ctx.dist['malformed:' + kind] += 1
        r = common.call_impl(lambda: loader(text, **kw), 5)
        if r[0] == 'ok':
            ctx.dist['malformed:accepted'] += 1
            continue
        name = r[2].split(':')[0]
        if name == perr.__name__:
            rejected += 1
            ctx.nontrivial.add(common.case_hash(text))
            continue
        bad += 1
        report_impl(ctx, dict(stream='malformed', kind=kind, text=text, kwargs=kw, got=r[2],
                              why='%s.loads on malformed text raises %s instead of %s' % (kind.split('-')[0], r[2][:120], perr.__name__)), None)
    ctx.dist['malformed:rejected-with-parse-error'] = rejected
    ctx.streams['malformed'] = dict(cases=count, deviations=bad)


def replay_malformed(ctx, case):
    import votelib.io.blt as blt, votelib.io.stv as stv
    kind = case['kind']
    loader, perr = (blt.loads, blt.BLTParseError) if kind == 'blt' else (stv.loads, stv.STVParseError)
    ctx.evaluations += 1
    r = common.call_impl(lambda: loader(case['text'], **case.get('kwargs', {})), 5)
    if r[0] == 'err' and r[2].split(':')[0] != perr.__name__:
        report_impl(ctx, dict(case, got=r[2], why='%s.loads on malformed text raises %s instead of %s' % (kind.split('-')[0], r[2][:120], perr.__name__)), None)
    elif r[0] == 'ok' and case.get('must_reject'):
        report_impl(ctx, dict(case, got=str(r[1])[:300], why='malformed text is accepted and yields data: %s' % case['must_reject']), None)


def replay_class(ctx, case):
    """corpus cases for the classes stream: {'stream':'classes','expr': python expression building the object}"""
    import votelib, votelib.vote, votelib.evaluate, votelib.evaluate.core, votelib.evaluate.proportional, votelib.evaluate.openlist
    import votelib.component.divisor, votelib.component.quota, votelib.candidate, votelib.convert, votelib.evaluate.cardinal
    obj = eval(case['expr'], dict(votelib=votelib, Fraction=Fraction, Decimal=Decimal))
    ctx.evaluations += 1
    v, tag = check_object(ctx, case['expr'], obj, {}, panel())
    if v is not None:
        report_impl(ctx, v, tag)


def replay_signature(ctx, case):
    """a case of the signatures stream: the class with the recorded arguments (expr) - or, when the arguments could not be written
    down, fresh random arguments for that class"""
    live = all_classes()
    sig = signature_setup(ctx, live)
    if sig is None or case.get('kind') == 'table-vs-interpreter':
        return
    name = case['cls']
    cls = live.get(name)
    if cls is None:
        ctx.broken('harness', 'class %s of the replay file no longer exists' % name)
        return
    if case.get('expr'):
        kw = sigcheck.eval_kwargs(case['expr'])
        ctx.evaluations += 1
        signature_instance(ctx, sig, name, cls, cls(**kw), kw)
        return
    gen = ClassGen(ctx.rng)
    for _ in range(200):
        try:
            o, kw = gen.instance(cls, ctx.rng.randint(1, 4))
        except BaseException as exc:   # noqa
            if isinstance(exc, (KeyboardInterrupt, SystemExit)):
                raise
            continue
        ctx.evaluations += 1
        signature_instance(ctx, sig, name, cls, o, kw)


# ------------------------------------------------------------------------------------------------ driver
def corpus():
    for p in sorted(glob.glob(os.path.join(common.VERIF, 'corpus', ID, '*.json'))):
        c = json.load(open(p))
        c['_file'] = os.path.basename(p)
        yield c


DIFF = {
    'codec': dict(model_line=codec_model_line, impl=codec_impl, canon=lambda c, w: ('same',), nontrivial=codec_nontrivial, spec=codec_spec,
                  known_class=codec_known),
    'json': dict(model_line=json_model_line, impl=json_impl, canon=lambda c, w: ('same',), nontrivial=lambda c: True, spec=json_spec),
    'blt': dict(model_line=blt_model_line, impl=blt_impl, canon=lambda c, w: ('same',), nontrivial=blt_nontrivial, spec=blt_spec,
                known_class=blt_known),
    'blt-tokens': dict(model_line=token_model_line, impl=token_impl, canon=token_canon, nontrivial=lambda c: True, spec=token_spec),
}
DIFF.update(c19_stv.DIFF)      # 'stv-model', 'stv-lines': Model/StvFile.v against votelib.io.stv


def run_cases(ctx, name, stream, cases, limit=5):
    ctx.differential(name, cases, limit=limit, **DIFF[stream])


def dispatch_case(ctx, case, name='replay'):
    s = case.get('stream')
    if s in DIFF:
        run_cases(ctx, name, s, [case])
    elif s == 'stv':
        ctx.evaluations += 1
        v, tag = stv_roundtrip(ctx, case['election'], case.get('mode', 'system'))
        if v is not None:
            report_impl(ctx, v, tag)
    elif s == 'malformed':
        replay_malformed(ctx, case)
    elif s == 'unrepresentable':
        v = unrep_check(ctx, case)
        if v is not None:
            report_impl(ctx, v, None)
    elif s == 'classes':
        replay_class(ctx, case)
    elif s == 'signatures':
        replay_signature(ctx, case)
    else:
        ctx.broken('harness', 'unknown corpus stream %r' % s)


def explore(ctx, widen=1):
    setup()
    for c in corpus():
        dispatch_case(ctx, c, 'corpus:' + c.get('_file', ''))
    n = ctx.n
    run_cases(ctx, 'codec', 'codec', codec_cases(ctx.rng, n(4000, 40000) * widen))
    unrep_stream(ctx, n(600, 6000) * widen)
    run_cases(ctx, 'json', 'json', json_cases(ctx.rng, n(2000, 20000) * widen))
    classes_stream(ctx, n(8, 60) * widen)
    run_cases(ctx, 'blt', 'blt', blt_cases(ctx.rng, n(2000, 20000) * widen))
    run_cases(ctx, 'blt-boundary', 'blt', list(blt_cases(ctx.rng, n(60, 600), special='dec-exponent'))
              + list(blt_cases(ctx.rng, n(60, 600), special='zero-weight')) + list(blt_cases(ctx.rng, n(20, 100), special='many'))
              + list(blt_cases(ctx.rng, n(60, 600), special='empty-ranking')) + list(blt_cases(ctx.rng, n(60, 600), special='long-decimal')))
    run_cases(ctx, 'blt-hostile-names', 'blt', blt_cases(ctx.rng, n(100, 1500), hostile=True))
    run_cases(ctx, 'blt-tokens', 'blt-tokens', token_cases(ctx.rng, n(4000, 40000) * widen))
    c19_stv.check_tables(ctx)
    run_cases(ctx, 'stv-model', 'stv-model', c19_stv.model_cases(ctx.rng, gen_election, n(1500, 15000) * widen))
    run_cases(ctx, 'stv-model-boundary', 'stv-model',
              [c for sp, k in (('many', n(12, 80)), ('dec-exponent', n(40, 400)), ('empty-ranking', n(40, 400)), ('long-decimal', n(40, 400)),
                               ('zero-weight', n(40, 400)), ('negative', n(40, 400)), ('unit-weights', n(60, 600)), ('ordinal', n(60, 600)))
               for c in c19_stv.model_cases(ctx.rng, gen_election, k, special=sp)]
              + list(c19_stv.model_cases(ctx.rng, gen_election, n(80, 800), hostile=True)))
    run_cases(ctx, 'stv-lines', 'stv-lines', c19_stv.lines_cases(ctx.rng, gen_election, n(5000, 50000) * widen))
    ctx.dist['stv-model:written-lines-differ-from-model'] = c19_stv.LINES_DIFFER[0]
    if c19_stv.LINES_DIFFER[0]:
        ctx.notes.append('stv-model: %d elections are written with other lines than the model writes (both texts are read alike by both readers: '
                         'harmless rewrite of the writer, the round-trip theorem is then about the model writer only)' % c19_stv.LINES_DIFFER[0])
    stv_stream(ctx, n(1500, 15000) * widen)
    stv_stream(ctx, n(40, 400), special='many')
    stv_stream(ctx, n(40, 400), special='dec-exponent')
    stv_stream(ctx, n(40, 400), special='empty-ranking')
    stv_stream(ctx, n(40, 400), special='long-decimal')
    stv_stream(ctx, n(60, 800), hostile=True)
    malformed_stream(ctx, n(8000, 80000) * widen)
    if os.environ.get('C19_DEBUG'):
        _debug(ctx)


def replay(ctx, case, stream=None):
    setup()
    dispatch_case(ctx, case)


def _debug(ctx):
    import collections
    cnt = collections.Counter((v['stream'], v['why'][:90]) for v in ctx.violations)
    for k, n in cnt.most_common(40):
        print('DEBUG', n, k, file=sys.stderr)
    seen = set()
    for v in ctx.violations:
        key = (v['stream'], v['why'][:60])
        if key in seen:
            continue
        seen.add(key)
        print('DEBUG-CASE', json.dumps(v, default=str)[:1500], file=sys.stderr)
