"""C03 - STV count invariants (every count); model trace vs implementation trace.
Gregory transfers here; the Hare (random whole-ballot) transferer with its draws replayed as an oracle in props/c03_hare.py."""
import itertools
from fractions import Fraction
import common
from common import sx, q, jq, ok, cname, cnum
from units import U
import props.c03_hare as c03_hare

ID = 'C03'
ZERO_LABELS = {'corpus', 'random', 'boundary'}      # streams asked also with candidates numbered from 0 (harness/common.py LABEL_MODE)
LEVEL = 'proof'
TIE = {'sequential.TransferableVoteDistributor / TransferableVoteSelector, initial_allocation': 'correspondence (count by count)',
       'transfer.ranked_next / SimpleVoteTransferer / Gregory': 'correspondence (count by count)',
       'transfer.Hare / distribute_n_random (draws = oracle argument of Model/STVHare.v)':
           'correspondence (count by count, on the recorded draws; every allocation compared with its key and pile order)',
       'component/quota.py': 'translator (C02)'}
RULE = ('corpus; random ranked profiles: 2..6 candidates, 1..10 distinct ballots with truncation, shared ranks (20 %), '
        'zero-first-preference candidates, exhausted-heavy profiles, weights 1..50 and x1e20; n_seats 1..|C|; quota in '
        '{droop, hare, hagenbach_bischoff, none}, accept_quota_equal, mandatory_quota, eliminate_step in {-1,-2}, selector form '
        '(max_seats = 1 each) and distributor form (max_seats 1..3). The implementation is driven count by count through the public '
        'next_count; after EVERY count the totals per candidate and the newly elected are compared with the model trace and the '
        'invariants (conservation incl. one quota per quota seat, non-negativity, resting place of ballots without shared ranks, '
        'election rule, elimination rule) are evaluated on the real allocation. non-trivial = more than one count; distinct by case hash. '
        'Hare transferer (props/c03_hare.py): 3..7 candidates, 3..14 ballots with whole weights 1..240, shared ranks 30 %, 1..6 seats, '
        'quota in {droop x6, hare, hagenbach_bischoff, none}, caps 1 or 1..3; draws from the Mersenne Twister with seed in '
        '{0..5, 17, None} or invented (first k, last k, evenly spread, harness rng) - recorded once, then replayed to the '
        'implementation (proxy for votelib.component.transfer.random, no source change) and given to the extracted model as its oracle; '
        'boundary stream: shared ranks whose weight does not divide, piles exactly at the quota, several elected in one count, a whole / '
        'fractional Fraction quota, zero-weight ballots, caps above one; compared after every count: the whole allocation (key order, '
        'pile order, weights), the newly elected in order, the stop and the number of unconsumed draws; the invariants incl. whole '
        'weights are evaluated on the real allocations; non-trivial = at least one draw')
PARTIAL = ['Hare transferer: modelled for whole non-negative ballot weights (a pile with a fractional weight takes the '
           'denominator-scaling path of distribute_n_random: HS_unmodelled, proved unreachable from whole votes); '
           'LargestRemainder inside distribute_n_random(limit_by_weight=True) is modelled as the identity it is on a sample without '
           'repetition (checked at every recorded call)']
TRUSTED = []
QN = {1: 'hare', 3: 'droop', 4: 'hagenbach_bischoff'}


def bsx(b):
    return sx([i if isinstance(i, int) else list(i) for i in b])


def model_line(c):
    cf = c['cfg']
    qs = '()' if cf['quota'] is None else '((%d))' % cf['quota']
    return '%d ((%s %d %d %d) %s %d %s %s)' % (
        U['stv'], qs, cf['ae'], cf['mq'], cf['step'],
        '(' + ' '.join('(%s %s)' % (bsx(b), sx(q(w))) for b, w in c['votes']) + ')', c['n'],
        sx([[k, v] for k, v in c['prev']]), sx([[k, v] for k, v in c['caps']]))


def py_votes(votes):
    return {tuple(cname(i) if isinstance(i, int) else frozenset(cname(x) for x in i) for i in b):
            (int(q(w)) if q(w).denominator == 1 else q(w)) for b, w in votes}


def distributor(c, transferer=None):
    import votelib.evaluate.sequential as seq
    cf = c['cfg']
    return seq.TransferableVoteDistributor(
        transferer=transferer or 'Gregory', eliminate_step=cf['step'],
        quota_function=None if cf['quota'] is None else QN[cf['quota']],
        accept_quota_equal=bool(cf['ae']), mandatory_quota=bool(cf['mq']))


def key_num(k):
    return [] if k is None else cnum(k)


class Stop(Exception):
    pass


def trace_impl(c, check=None):
    """mirror of TransferableVoteDistributor.nth_count through the public next_count"""
    import votelib.evaluate.sequential as seq
    import votelib.evaluate.core as core
    import votelib.util
    dist = distributor(c, c.get('transferer'))
    votes = py_votes(c['votes'])
    caps = {cname(k): v for k, v in c['caps']}
    seats = {cname(k): v for k, v in c['prev']}
    allocation = seq.initial_allocation(votes, dist.transferer)
    total = sum(votes.values())
    counts, stop = [], 0
    if check:
        check('init', None, allocation, {}, dict(seats), votes, total, dist)
    new_allocation = None
    for _ in range(200):
        if sum(seats.values()) == c['n']:
            break
        if new_allocation is not None:
            allocation = new_allocation
        try:
            new_allocation, newly = dist.next_count(allocation, c['n'], total, prev_gains=seats, max_seats=caps)
        except NotImplementedError:
            stop = common.E['NIE']
            break
        except core.VotingSystemError:
            stop = common.E['VSE']
            break
        except RuntimeError:
            stop = common.E['RUNTIME']
            break
        if not newly and new_allocation == allocation:
            stop = common.E['VSE']
            break
        if check:
            check('count', allocation, new_allocation, dict(newly), dict(seats), votes, total, dist)
        votelib.util.add_dict_to_dict(seats, newly)
        tot = seq.allocation_totals(new_allocation)
        counts.append([[[key_num(k), q(v)] for k, v in tot.items()], [[cnum(k), v] for k, v in newly.items()]])
    return counts, [[cnum(k), v] for k, v in seats.items()], stop


def impl(c):
    counts, seats, stop = trace_impl(c)
    return ok([counts, seats, stop])


def canon(c, wire):
    v = common.parse_sx(wire)
    if v[0] != 0:
        return ('err', v[1])
    counts, seats, stop = v[1]
    cc = []
    for tot, el in counts:
        cc.append((tuple(sorted((repr(k), common.unq(x)) for k, x in tot if common.unq(x) != 0 or k == [] or True)),
                   tuple(sorted((k, s) for k, s in el))))
    return ('ok', tuple(cc), tuple(sorted((k, s) for k, s in seats if s)), stop)


# ---------------------------------------------------------------- invariants on the real allocation
def make_checker(c, problems, whole=False):
    import votelib.component.transfer as tr
    state = dict(quota_seats=0)
    cf = c['cfg']

    def check(phase, old, new, newly, seats_before, votes, total, dist):
        cast = sum(w for b, w in votes.items() if b)
        if phase == 'count' and new == {} and not cf['mq']:
            # elect-all-remaining shortcut (next_count returns ({}, avail_seats); impossible under mandatory_quota): it may
            # fire only when the free seats of the continuing candidates equal the open seats, and then fills exactly those.
            # An empty allocation can also arise from a quota election that removes the last continuing candidate - that is
            # not the shortcut and is judged by the election rule below (false alarm corrected: DESIGN.md appendix D).
            rem = c['n'] - sum(seats_before.values())
            caps_ = {cname(k): v for k, v in c['caps']}
            cont0 = [k for k in old if k is not None]
            if all(k in caps_ for k in cont0) and sum(caps_[k] - seats_before.get(k, 0) for k in cont0) == rem:
                if sum(newly.values()) != rem:
                    problems.append('shortcut elected %s for %d open seats' % (newly, rem))
                return
        quota = dist._compute_quota(total, c['n'])
        if phase == 'count':
            state['quota_seats'] += sum(newly.values())
            # election rule
            old_tot = {k: sum(p.values()) for k, p in old.items()}
            for cand, s in newly.items():
                t = old_tot.get(cand, 0)
                if not (t >= quota * s and (cf['ae'] or t > quota * s or t // quota > s)):
                    problems.append('%s elected to %d seat(s) holding %s < quota %s' % (cand, s, t, quota))
            if not newly:
                # elimination rule: exactly min(|step|, continuing-1) lowest continuing candidates
                cont = [k for k in old if k is not None]
                gone = [k for k in cont if k not in new]
                want = len(cont) - max(len(cont) + cf['step'], 1)
                if len(gone) != want:
                    problems.append('eliminated %d candidates (%s), configured %d (continuing %d, exhausted pile %s)'
                                    % (len(gone), gone, want, len(cont), old_tot.get(None)))
                if gone:
                    hi = max(old_tot[k] for k in gone)
                    if any(old_tot[k] < hi for k in cont if k not in gone):
                        problems.append('a candidate with fewer votes than an eliminated one continues')
        held = sum(sum(p.values()) for p in new.values())
        qs = state['quota_seats'] * quota if state['quota_seats'] else 0
        if held + qs != cast:
            problems.append('%s: conservation: held %s + quota seats %s != cast %s' % (phase, held, qs, cast))
        for k, p in new.items():
            for b, w in p.items():
                if w < 0:
                    problems.append('negative weight')
                if isinstance(w, float):
                    problems.append('float weight')
                if whole and q(w).denominator != 1:
                    problems.append('whole-ballot transfer left the fractional weight %s' % w)
                if not any(isinstance(i, frozenset) for i in b):
                    cont = [x for x in new if x is not None]
                    first = next((i for i in b if i in cont), None)
                    if k is None:
                        if first is not None:
                            problems.append('ballot %s exhausted although %s continues' % (b, first))
                    elif first != k:
                        problems.append('ballot %s rests with %s, highest continuing is %s' % (b, k, first))
    return check


def spec(c, io, mo):
    problems = []
    try:
        trace_impl(c, make_checker(c, problems))
    except Exception as e:   # noqa
        problems.append('exception while checking: %r' % e)
    if problems:
        c['_class'] = 'invariant'
        return problems[0]
    # the count as the library runs it itself (evaluate -> nth_count) must end where the count-by-count run above ends;
    # no caps at all: the argument is left out, as a caller would
    v = common.parse_sx(io)
    if v[0] == 0 and not v[1][2] and c.get('transferer') is None and not c['prev']:
        want = sorted((k, s_) for k, s_ in v[1][1] if s_)
        caps = {cname(k): x for k, x in c['caps']}
        dist = distributor(c)
        r = common.call_impl(lambda: dist.evaluate(py_votes(c['votes']), c['n'], max_seats=caps) if caps
                             else dist.evaluate(py_votes(c['votes']), c['n']), 10)
        if r[0] == 'ok':
            got = sorted((cnum(k), s_) for k, s_ in r[1].items() if s_)
            if got != want:
                c['_class'] = 'evaluate'
                return 'evaluate() seats %s, the count-by-count run of next_count seats %s' % (got, want)
        elif r[1] != common.E['TIMEOUT']:
            c['_class'] = 'evaluate'
            return 'evaluate() raises %s, the count-by-count run of next_count seats %s' % (r[2], want)
    return None


def known_class(c, io, mo):
    return None


def nontrivial(c):
    return len(c['votes']) > 1


def rand_ballot(rng, ids, shared=0.2):
    perm = ids[:]
    rng.shuffle(perm)
    if rng.random() < 0.55:
        perm = perm[:rng.randint(1, len(ids))]
    b, i = [], 0
    while i < len(perm):
        if rng.random() < shared and i + 1 < len(perm):
            k = rng.randint(2, min(3, len(perm) - i))
            b.append(sorted(perm[i:i + k]))
            i += k
        else:
            b.append(perm[i])
            i += 1
    return b


def gen(rng, count, selector_only=False):
    for _ in range(count):
        m = rng.randint(2, 6)
        ids = list(range(1, m + 1))
        style = rng.choice(['plain', 'plain', 'shared', 'exhausted', 'zero-first'])
        votes, seen = [], set()
        for _ in range(rng.randint(1, 10)):
            if style == 'exhausted':
                b = rand_ballot(rng, ids[:max(2, m - 1)], 0)[:rng.randint(1, 2)]
            elif style == 'zero-first':
                b = rand_ballot(rng, ids[:-1], 0) + ([ids[-1]] if rng.random() < 0.5 else [])
            else:
                b = rand_ballot(rng, ids, 0.2 if style == 'shared' else 0)
            if repr(b) in seen:
                continue
            seen.add(repr(b))
            votes.append([b, rng.randint(1, 50) * rng.choice([1, 1, 1, 10 ** 20])])
        if rng.random() < 0.1:
            votes.append([[], 3])
        cs = sorted({x for b, _ in votes for i in b for x in ([i] if isinstance(i, int) else i)})
        if not cs:
            continue
        n = rng.randint(1, len(cs))
        cfg = dict(quota=rng.choice([3, 3, 1, 4, None]), ae=rng.randint(0, 1), mq=rng.randint(0, 1) if rng.random() < 0.3 else 0,
                   step=rng.choice([-1, -1, -2]))
        if selector_only or rng.random() < 0.7:
            caps = [[k, 1] for k in cs]
        else:
            caps = [[k, rng.randint(1, 3)] for k in cs]
            n = rng.randint(1, sum(v for _, v in caps))
            if rng.random() < 0.4:
                # caps for some candidates only (possibly none: max_seats left out) - the others are unbounded
                caps = [kv for kv in caps if rng.random() < 0.4]
                n = rng.randint(1, len(cs))
        yield dict(unit='stv', cfg=cfg, votes=votes, n=n, prev=[], caps=caps)


def _quota_of(cfg_quota, total, n):
    """the quota the configured function gives (3 droop, 1 hare, 4 hagenbach-bischoff), None if no quota"""
    from fractions import Fraction
    if cfg_quota == 3:
        return Fraction(int(Fraction(total, n + 1)) + 1)
    if cfg_quota == 1:
        return Fraction(total, n)
    if cfg_quota == 4:
        return Fraction(total, n + 1)
    return None


def gen_boundary(rng, count, selector_only=False):
    """Boundary profiles the random stream almost never meets:
    exact - some candidate's first preferences equal the quota exactly (zero surplus) while seats stay open, with other
            ballots naming that candidate as a later preference;
    tiny  - weights 1..3, so exact quota hits, level totals and zero surpluses are common;
    multi - two or three leaders pass the quota in the same count on ballots whose LOWER ranks are shared;
    sharedx - shared ranks whose members all leave the contest before a later preference / with none (exhaustion of split parts)."""
    from fractions import Fraction
    made = 0
    tries = 0
    while made < count and tries < count * 20:
        tries += 1
        m = rng.randint(3, 6)
        ids = list(range(1, m + 1))
        style = rng.choice(['exact', 'exact', 'tiny', 'tiny', 'multi', 'sharedx'])
        qk = rng.choice([3, 3, 1, 4])
        votes, seen = [], set()

        def add(b, w):
            if repr(b) in seen or w <= 0:
                return
            seen.add(repr(b))
            votes.append([b, w])
        if style == 'tiny':
            for _ in range(rng.randint(3, 9)):
                add(rand_ballot(rng, ids, rng.choice([0, 0, 0.3])), rng.randint(1, 3))
        elif style == 'multi':
            leaders = ids[:rng.randint(2, 3)]
            for l in leaders:
                for _ in range(rng.randint(1, 2)):
                    rest = [x for x in ids if x != l]
                    rng.shuffle(rest)
                    k = rng.randint(2, min(3, len(rest)))
                    b = [l, sorted(rest[:k])] + rest[k:k + rng.randint(0, 2)]
                    add(b, rng.randint(20, 60))
            for _ in range(rng.randint(1, 4)):
                add(rand_ballot(rng, ids, 0.3), rng.randint(1, 25))
        elif style == 'sharedx':
            for _ in range(rng.randint(2, 4)):
                sub = ids[:]
                rng.shuffle(sub)
                k = rng.randint(2, 3)
                b = [sorted(sub[:k])] + (sub[k:k + 1] if rng.random() < 0.5 else [])
                if rng.random() < 0.4:
                    b = [sub[-1]] + b
                add(b, rng.randint(1, 12))
            for _ in range(rng.randint(1, 4)):
                add(rand_ballot(rng, ids, 0), rng.randint(1, 30))
        else:
            for _ in range(rng.randint(3, 8)):
                add(rand_ballot(rng, ids, rng.choice([0, 0, 0.2])), rng.randint(1, 40))
        cs = sorted({x for b, _ in votes for i in b for x in ([i] if isinstance(i, int) else i)})
        if len(cs) < 2:
            continue
        n = rng.randint(2, len(cs)) if len(cs) > 2 and rng.random() < 0.85 else rng.randint(1, len(cs))
        if style == 'exact':
            # adjust one ballot headed by `a` until a's first preferences equal the quota exactly
            heads = [i for i, (b, _) in enumerate(votes) if b and isinstance(b[0], int)]
            if not heads:
                continue
            i0 = rng.choice(heads)
            a = votes[i0][0][0]
            hit = None
            for w in range(1, 400):
                votes[i0][1] = w
                total = sum(x for _, x in votes)
                first = sum(x for b, x in votes if b and b[0] == a)
                if _quota_of(qk, total, n) == first:
                    hit = w
                    if rng.random() < 0.6:
                        break
            if hit is None:
                continue
            votes[i0][1] = hit
            # somebody else's ballot names `a` next (the transfer that must skip the elected candidate)
            others = [x for x in cs if x != a]
            o = rng.choice(others)
            add([o, a] + [x for x in others if x != o][:rng.randint(0, 2)], rng.randint(1, 3))
            total = sum(x for _, x in votes)
        if rng.random() < 0.3:
            k = rng.choice([2, 10 ** 20])
            votes = [[b, w * k] for b, w in votes]
        cfg = dict(quota=qk, ae=rng.randint(0, 1), mq=rng.randint(0, 1) if rng.random() < 0.2 else 0,
                   step=rng.choice([-1, -1, -1, -2]))
        if selector_only or rng.random() < 0.8:
            caps = [[k, 1] for k in cs]
        else:
            caps = [[k, rng.randint(1, 2)] for k in cs]
            n = rng.randint(1, sum(v for _, v in caps))
            if rng.random() < 0.4:
                caps = [kv for kv in caps if rng.random() < 0.4]
                n = rng.randint(1, len(cs))
        made += 1
        yield dict(unit='stv', cfg=cfg, votes=votes, n=n, prev=[], caps=caps)


def corpus():
    import os, json, glob
    for p in sorted(glob.glob(os.path.join(common.VERIF, 'corpus', ID, '*.json'))):
        if not os.path.basename(p).startswith('hare-'):      # the Hare cases (with their draws) run in props/c03_hare.py
            yield json.load(open(p))


def explore(ctx, widen=1):
    kw = dict(canon=canon, nontrivial=nontrivial, spec=spec, known_class=known_class, limit=20)
    ctx.differential('corpus', corpus(), model_line, impl, **kw)
    ctx.differential('random', gen(ctx.rng, ctx.n(1500, 25000) * widen), model_line, impl, **kw)
    ctx.differential('boundary', gen_boundary(ctx.rng, ctx.n(900, 12000) * widen), model_line, impl, **kw)
    c03_hare.explore(ctx, widen)


def replay(ctx, case, stream=None):
    if case.get('unit') == 'stv_hare':
        return c03_hare.replay(ctx, case)
    ctx.differential('replay', [case], model_line, impl, canon=canon, nontrivial=nontrivial, spec=spec, known_class=known_class)
