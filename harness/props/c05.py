"""C05 - Condorcet-family evaluators."""
import common, pairwise as pw
from common import sx, ok, cname
from units import U

ID = 'C05'
ZERO_LABELS = True      # a share of the cases is asked with candidates numbered from 0 (harness/common.py LABEL_MODE)
LEVEL = 'proof'
GEN_TIES = {'Pairwin': 'Props/GenTie_Pairwin.v'}
TIE = {'condorcet.Copeland/Schulze/MinimaxCondorcet/RankedPairs/KemenyYoung': 'correspondence',
       'component/pairwin_scorer.py': 'translator (Gen/Pairwin.v regenerated on every run, Props/GenTie_Pairwin.v proves it equal to the '
                                      'scorers of Model/Condorcet.v) + correspondence through minimax / ranked pairs',
       'sequential.Benham / TidemanAlternative / eliminate_one, RANKED_TO_CONDORCET, RANKED_SUBSETTER': 'correspondence (Model/Hybrids.v, '
       'units 200-204; the model has every repair as a flag - elimination step, single candidate / no pairwise contest, tiers after the first - '
       'the harness probes which ones the implementation has and the declarative clauses reject the unrepaired behaviour)'}
RULE = ('corpus; random pairwise dictionaries over 3..6 candidates (Kemeny <= 5): profile-derived (truncation, shared ranks, both '
        'unranked_at_bottom), arbitrary sparse, dense with exact ties, forced Condorcet winners, counts x 1e25; every entry of '
        'condorcet.EVALUATORS, n_seats 1..|C|. Compared with the model (exact list, ties as sets) and judged by the declarative '
        'clauses: Condorcet winner elected alone; Kemeny refusal only when two best rankings differ within the first n places '
        '(brute-force argmax); Smith-efficient winner in the brute-force Smith set; nobody dropped when '
        'n = |C|. profile-derived: ranked profiles (truncation, bullet votes, shared ranks, unranked_at_bottom both ways) through the LIBRARY\'s '
        'RankedToCondorcetVotes into every EVALUATORS entry, and Benham / TidemanAlternative on the profile itself, judged against the Condorcet winner / Smith set of an '
        'INDEPENDENT pairwise count of the profile (harness). hybrids: ranked profiles over 1..6 candidates (bullet votes, truncation, shared '
        'ranks, zero weights, weights up to 1e25, three-cycles with equal blocks so that first preferences tie, ballots ending in one shared rank of all '
        'other candidates so that later tiers have no pairwise contest) through Benham / '
        'TidemanAlternative (n_seats 1 in half of the cases, otherwise 2 .. candidates + 1), RANKED_TO_CONDORCET, RANKED_SUBSETTER and '
        'eliminate_one, compared with Model/Hybrids.v (result list, tie objects as sets, error kind) and judged by the declarative clauses '
        'on the implementation\'s answer (Condorcet winner alone / first; plain winner in the brute-force Smith set; several seats: min(n, candidates) '
        'distinct plain candidates, every tier winner in the brute-force Smith set of the candidates left; a single candidate elected; no undeclared exception). '
        'non-trivial = no Condorcet winner or a pairwise tie or a missing reverse pair; distinct by case hash')
PARTIAL = ['Benham: Smith containment is a theorem for the repaired elimination step only (C05_smith_benham, fx = true); for the step as '
           'written on the pinned tree it is refuted (C05_smith_benham_refuted, finding C05-hybrid-elimination-tie, fixed)',
           'hybrids: the theorems about several seats / a single candidate are about the library with fixes/C05-tideman-tiers.diff and '
           'fixes/C05-hybrid-single-candidate.diff (findings C08-tideman-multiseat, C05-hybrid-empty-pairwise: fixed); a profile on which nobody '
           'stands (only empty ballots) still ends in IndexError - outside the property (n_seats <= number of candidates); the Smith theorem for '
           'Benham assumes a non-empty dictionary (a single candidate has no Smith set in the dictionary)']
TRUSTED = []
METHODS = ['rankedpairs_winvotes', 'rankedpairs_margins', 'rankedpairs_pwo', 'copeland_2o', 'copeland_raw', 'schulze',
           'kemeny_young', 'minimax_winvotes', 'minimax_margins', 'minimax_pwo']
CW_METHODS = {'rankedpairs_winvotes', 'rankedpairs_margins', 'copeland_2o', 'copeland_raw', 'schulze', 'kemeny_young',
              'minimax_winvotes', 'minimax_margins'}
SMITH_METHODS = {'rankedpairs_winvotes', 'rankedpairs_margins', 'copeland_2o', 'copeland_raw', 'schulze', 'kemeny_young'}


def set_order(votes):
    """iteration order CPython gives list(set) built like Schulze.widest_paths does"""
    s = set()
    for (a, b), _ in votes:
        s.update((cname(a), cname(b)))
    return [common.cnum(x) for x in list(s)]


def model_line(c):
    m, v, n = c['method'], pw.psx(c['votes']), c['n']
    if m.startswith('rankedpairs'):
        return '%d (%d %s %d)' % (U['ranked_pairs'], {'winvotes': 0, 'margins': 1, 'pwo': 2}[m.split('_')[1]], v, n)
    if m.startswith('minimax'):
        return '%d (%d %s %d)' % (U['minimax'], {'winvotes': 0, 'margins': 1, 'pwo': 2}[m.split('_')[1]], v, n)
    if m.startswith('copeland'):
        return '%d (%d %s %d)' % (U['copeland'], 1 if m == 'copeland_2o' else 0, v, n)
    if m == 'schulze':
        return '%d (%s %s %d)' % (U['schulze'], v, sx(pw.cands(c['votes'])), n)
    return '%d (%s %d)' % (U['kemeny'], v, n)


def enc_sel(res):
    import votelib.evaluate.core as core
    return [sorted(common.cnum(x) for x in r) if isinstance(r, core.Tie) else common.cnum(r) for r in res]


def impl(c):
    import votelib.evaluate.condorcet as cd
    return ok(enc_sel(cd.EVALUATORS[c['method']].evaluate(pw.pdict(c['votes']), c['n'])))


def ref_kemeny_prefixes(votes, n):
    """brute-force reference: the distinct first-n segments of the rankings with the greatest Kemeny score"""
    import itertools
    d = {(a, b): k for (a, b), k in votes}
    cs = pw.cands(votes)
    best, prefixes = None, set()
    for perm in itertools.permutations(cs):
        sc = sum(d.get((perm[i], perm[j]), 0) for i in range(len(perm)) for j in range(i + 1, len(perm)))
        if best is None or sc > best:
            best, prefixes = sc, {perm[:n]}
        elif sc == best:
            prefixes.add(perm[:n])
    return prefixes


def canon(c, wire):
    v = common.parse_sx(wire)
    if v[0] != 0:
        return ('err', v[1])
    # runs of equally placed plain winners are compared as sets only where the method's score ties them:
    # we keep the exact order except inside tie objects (sorted)
    return ('ok', tuple(tuple(sorted(r)) if isinstance(r, list) else r for r in v[1]))


def spec(c, io, mo):
    v = common.parse_sx(io)
    cs = pw.cands(c['votes'])
    m = c['method']
    comp = pw.ordered_complete(c['votes'])
    cls = ('' if comp else 'sparse:') + m.split('_')[0]
    cw = pw.ref_cw(c['votes'])
    if v[0] != 0:
        if v[1] in (common.E['NIE'],) and m == 'kemeny_young':
            # the declared refusal (Tie.tie_rankings) is legitimate only when two best rankings differ within the
            # first n places; in particular never for one seat when a Condorcet winner exists
            if len(ref_kemeny_prefixes(c['votes'], c['n'])) >= 2:
                return None
            c['_class'] = cls + ':refusal'
            if cw and c['n'] == 1:
                return 'Kemeny-Young refuses (NotImplementedError) although %s is the Condorcet winner' % (cw,)
            return 'Kemeny-Young refuses (NotImplementedError) although all best rankings agree on the first %d places' % c['n']
        if v[1] == common.E['VSE'] and m.startswith('rankedpairs'):
            c['_class'] = cls + ':vse'
            return 'ranked pairs refuses with VotingSystemError (several sources in the locked graph)'
        c['_class'] = cls + ':crash'
        return 'undeclared exception %s' % common.E_NAME.get(v[1], v[1])
    res = v[1]
    flat = [x for r in res for x in (r if isinstance(r, list) else [r])]
    if cw and m in CW_METHODS and len(cs) >= 2:
        if not res or res[0] != cw[0]:
            c['_class'] = cls + ':cw'
            return 'Condorcet winner %s not elected first: %s' % (cw, res)
    if m in SMITH_METHODS and res and c['n'] == 1:
        sm = pw.ref_smith(c['votes'])
        first = res[0] if isinstance(res[0], list) else [res[0]]
        if not set(first) <= set(sm):
            c['_class'] = cls + ':smith'
            return 'winner %s outside the Smith set %s' % (first, sm)
    if c['n'] == len(cs) and set(flat) != set(cs):
        c['_class'] = cls + ':dropped'
        return 'candidates %s dropped from the full ranking' % sorted(set(cs) - set(flat))
    if len(res) != min(c['n'], len(cs)) and not (set(flat) != set(cs)):
        c['_class'] = cls + ':length'
        return 'result has %d entries for %d seats' % (len(res), c['n'])
    return None


def known_class(c, io, mo):
    if canon(c, io) != canon(c, mo):
        return None
    return 'C05-' + c.get('_class', '?')


def nontrivial(c):
    return (not pw.ordered_complete(c['votes'])) or not pw.ref_cw(c['votes'])


def gen_random(rng, count):
    for _ in range(count):
        method = rng.choice(METHODS)
        m = rng.randint(3, 5 if method == 'kemeny_young' else 6)
        r = rng.random()
        if r < 0.3:
            v, _ = pw.from_profile(rng, m, rng.randint(1, 8), shared=rng.random() < 0.3, bottom=rng.random() < 0.6)
            if not v:
                continue
        elif r < 0.45:
            v = pw.sparse(rng, m, p=rng.choice([0.3, 0.5, 0.8]))
        elif r < 0.8:
            v = pw.dense(rng, m, tie_p=rng.choice([0, 0.2, 0.6]), scale=rng.choice([1, 1, 10 ** 25]))
        else:
            v = pw.forced_cw(rng, m)
        k = len(pw.cands(v))
        yield dict(unit='condorcet', method=method, votes=v, n=rng.choice([1, 1, k, rng.randint(1, k)]))


# ------------------------------------------------------------------ profile-derived: the library's converter + evaluator / the hybrids
def ref_pairwise(prof, bottom=True):
    """independent pairwise count of a ranked profile [[ballot, weight]...] (items: candidate number or list = shared rank):
    a candidate counts over everybody ranked strictly below it on the ballot and, with unranked_at_bottom, over everybody the
    ballot does not rank; members of a shared rank do not count against each other"""
    allc = []
    for b, _ in prof:
        for it in b:
            for x in (it if isinstance(it, list) else [it]):
                if x not in allc:
                    allc.append(x)
    cnt = {}
    for b, w in prof:
        groups = [it if isinstance(it, list) else [it] for it in b]
        ranked = [x for g in groups for x in g]
        tail = [x for x in allc if x not in ranked] if bottom else []
        for i, g in enumerate(groups):
            lower = [x for h in groups[i + 1:] for x in h] + tail
            for a in g:
                for x in lower:
                    cnt[a, x] = cnt.get((a, x), 0) + w
    return [[[a, x], n] for (a, x), n in cnt.items()], allc


HYBRIDS = ('benham', 'tideman_alt')


def derived_case(ctx, stream, prof, bottom, method):
    """-> 1 if the case deviates"""
    import evalreg
    import votelib.evaluate.core as core, votelib.convert as conv, votelib.evaluate.condorcet as cd, votelib.evaluate.sequential as seq
    hybrid = method in HYBRIDS
    v, allc = ref_pairwise(prof, bottom)
    if len(allc) < 2 or (method == 'kemeny_young' and len(allc) > 5):
        return None
    py = evalreg.to_python('ranked', prof)
    if hybrid:
        ev = seq.Benham() if method == 'benham' else seq.TidemanAlternative()
    else:
        ev = core.PreConverted(conv.RankedToCondorcetVotes(unranked_at_bottom=bottom), cd.EVALUATORS[method])
    r = common.call_impl(lambda: [tuple(sorted(common.cnum(x) for x in k)) if isinstance(k, core.Tie) else common.cnum(k) for k in ev.evaluate(py, 1)], 10)
    ctx.evaluations += 1
    ctx.dist['stream:' + stream] += 1
    ctx.dist['derived:' + method] += 1
    cw = pw.ref_cw(v)
    case = dict(kind='profile-derived', method=method, profile=prof, bottom=bottom, n=1)
    if not cw:
        ctx.nontrivial.add(common.case_hash(case))
    why = None
    if r[0] != 'ok':
        if cw and (method in CW_METHODS or hybrid):
            why = 'refuses (%s) although %s is the Condorcet winner of the profile' % (common.E_NAME.get(r[1], r[1]), cw)
        else:
            ctx.dist['derived:refusal-without-cw'] += 1
    else:
        res = r[1]
        if cw and (method in CW_METHODS or hybrid) and res != [cw[0]]:
            why = 'Condorcet winner %s of the profile (independent pairwise count) not elected alone: %s' % (cw, res)
        elif (method in SMITH_METHODS or hybrid) and len(res) == 1 and not isinstance(res[0], tuple):
            sm = pw.ref_smith(v)
            # a candidate the ballots never compare with anybody is not in the converted dictionary at all
            if res[0] in {x for (a, b), _ in v for x in (a, b)} and res[0] not in sm:
                why = 'winner %s outside the Smith set %s of the profile' % (res, sm)
    if why:
        ctx.checker_false += 1
        kc, io, mo = None, str(r[1:]), 'n/a'
        if hybrid and not cw and not hyb_fixed():
            # the pinned elimination step (a Tie object used as a candidate): known when the faithful model gives the same answer
            hc = dict(unit='hybrid', method=method, profile=prof, n=1)
            io = ok([list(x) if isinstance(x, tuple) else x for x in r[1]]) if r[0] == 'ok' else common.err(r[1])
            mo = common.run_model([hyb_line(hc)])[0]
            if hyb_canon(hc, io) == hyb_canon(hc, mo):
                kc = lambda c, i, m: 'C05-hybrid-elimination-tie'
        ctx.report(stream, case, io, mo, '%s: %s' % (method, why), kc)
        return 1
    return 0


def profile_derived(ctx, stream, count, rng):
    import evalreg
    bad = n = 0
    for i in range(count):
        hybrid = i % 3 == 0
        prof = evalreg.gen_profile(rng, 'ranked', m=rng.randint(3, 5), shared=(not hybrid and rng.random() < 0.3))
        if rng.random() < 0.35:        # bullet votes / short ballots carry the majorities
            merged = {}
            for b, w in prof:
                b = b[:rng.randint(1, 2)]
                merged[repr(b)] = [b, merged.get(repr(b), [b, 0])[1] + w]
            prof = list(merged.values())
        bottom = True if hybrid else rng.random() < 0.7
        method = rng.choice(HYBRIDS) if hybrid else rng.choice(METHODS)
        d = derived_case(ctx, stream, prof, bottom, method)
        if d is None:
            continue
        n += 1
        bad += d
    ctx.streams[stream] = dict(cases=n, deviations=bad)



# ------------------------------------------------------------------ hybrids: Benham / TidemanAlternative against Model/Hybrids.v
from units import BLOCK
HB = BLOCK['C05']
_PROBE = {}


def hyb_fixed():
    """does the implementation refuse a tie in the elimination step (fixes/C05-hybrid-elimination-tie.diff: 1) or does the Tie
    object of eliminate_one leak into the candidate subset as on the pinned tree (0)?  The model has both (Model/Hybrids.v fx)."""
    if 'fx' not in _PROBE:
        import votelib.evaluate.sequential as seq
        r = common.call_impl(lambda: seq.TidemanAlternative().evaluate({('A', 'B'): 1, ('B', 'A'): 1}, 1), 5)
        _PROBE['fx'] = 1 if (r[0] == 'err' and r[1] == common.E['NIE']) else 0
    return _PROBE['fx']


def single_fixed(which='tideman_alt'):
    """does a candidate that stands alone get elected (fixes/C05-hybrid-single-candidate.diff: 1) or does Benham resp.
    TidemanAlternative run into the IndexError of eliminate_one on a profile without a pairwise contest (0)?  Probed per class
    (the patch repairs Benham.get_condorcet_winner and TidemanAlternative.get_winner_set).  The model has both behaviours
    (Model/Hybrids.v sc); the old one is reported by hyb_spec as a violation (finding C05-hybrid-empty-pairwise, status fixed)."""
    key = 'sc:' + which
    if key not in _PROBE:
        import votelib.evaluate.sequential as seq
        ev = seq.Benham() if which == 'benham' else seq.TidemanAlternative()
        r = common.call_impl(lambda: ev.evaluate({('A',): 1}, 1), 5)
        _PROBE[key] = 1 if r[0] == 'ok' else 0
    return _PROBE[key]


def tiers_fixed():
    """TidemanAlternative beyond the first tier: the votes restricted to the still eligible candidates
    (fixes/C05-tideman-tiers.diff: 1) or RANKED_SUBSETTER.convert(tier_votes) without the subset -> TypeError (0, modelled as
    H_type).  Cases with n_seats > 1 are always generated; the TypeError is a violation (known finding C08-tideman-multiseat,
    status fixed)."""
    if 'tiers' not in _PROBE:
        import votelib.evaluate.sequential as seq
        r = common.call_impl(lambda: seq.TidemanAlternative().evaluate({('A', 'B'): 2, ('B', 'A'): 1}, 2), 5)
        _PROBE['tiers'] = 0 if (r[0] == 'err' and r[1] == common.E['TYPE']) else 1
    return _PROBE['tiers']


def tiers_as_written():
    return not tiers_fixed()


def hyb_line(c):
    m, prof = c['method'], sx(c['profile'])
    if m == 'benham':
        return '%d (%d %d %s)' % (HB + 0, hyb_fixed(), single_fixed('benham'), prof)
    if m == 'tideman_alt':
        return '%d (%d %d %d %s %d)' % (HB + 1, hyb_fixed(), single_fixed('tideman_alt'), tiers_fixed(), prof, c['n'])
    if m == 'to_condorcet':
        return '%d (%s)' % (HB + 2, prof)
    if m == 'subsetter':
        return '%d (%s %s)' % (HB + 3, sx(c['subset']), prof)
    return '%d (%s)' % (HB + 4, prof)


def hyb_impl(c):
    import evalreg
    import votelib.evaluate.sequential as seq
    m = c['method']
    if c.get('names') == 'ints0' and m in ('benham', 'tideman_alt'):
        # candidates numbered from 0: the first one is a falsy object (a test like `while not winner` instead of
        # `while winner is None` shows here); the answer is translated back before it is compared
        import votelib.evaluate.core as core
        py0 = evalreg.to_python('ranked', c['profile'], name=lambda k: k - 1)
        res = seq.Benham().evaluate(py0, 1) if m == 'benham' else seq.TidemanAlternative().evaluate(py0, c['n'])
        return ok([sorted(x + 1 for x in r) if isinstance(r, core.Tie) else r + 1 for r in res])
    py = evalreg.to_python('ranked', c['profile'])
    if m == 'benham':
        return ok(enc_sel(seq.Benham().evaluate(py, 1)))
    if m == 'tideman_alt':
        return ok(enc_sel(seq.TidemanAlternative().evaluate(py, c['n'])))
    if m == 'to_condorcet':
        return ok([[[common.cnum(a), common.cnum(b)], k] for (a, b), k in seq.RANKED_TO_CONDORCET.convert(py).items()])
    if m == 'subsetter':
        sub = seq.RANKED_SUBSETTER.convert(py, [cname(x) for x in c['subset']])
        return ok([[[sorted(common.cnum(x) for x in it) if isinstance(it, frozenset) else common.cnum(it) for it in b], w]
                   for b, w in sub.items()])
    return ok(enc_sel(seq.eliminate_one(py)))


def hyb_canon(c, wire):
    v = common.parse_sx(wire)
    if v[0] != 0:
        return ('err', v[1])
    m = c['method']
    if m == 'to_condorcet':            # a dictionary: the iteration order of the frozenset of unranked candidates is not modelled
        return ('ok', tuple(sorted((tuple(p), k) for p, k in v[1])))
    if m == 'subsetter':               # shared ranks are sets
        return ('ok', tuple((tuple(tuple(sorted(it)) if isinstance(it, list) else it for it in b), w) for b, w in v[1]))
    if m == 'eliminate_one':           # the survivors are used as a set
        return ('ok', tuple(sorted(tuple(sorted(r)) if isinstance(r, list) else (r,) for r in v[1])), len(v[1]))
    return ('ok', tuple(tuple(sorted(r)) if isinstance(r, list) else r for r in v[1]))


def restrict_pairwise(pwv, keep):
    return [[[a, b], k] for (a, b), k in pwv if a in keep and b in keep]


def hyb_spec(c, io, mo):
    """the declarative clauses on the implementation's answer, against the INDEPENDENT pairwise count of the profile"""
    if c['method'] not in HYBRIDS:
        return None
    v = common.parse_sx(io)
    pwv, allc = ref_pairwise(c['profile'], True)
    if not allc:
        return None                    # nobody stands: outside the property
    cw = pw.ref_cw(pwv) if pwv else []
    if v[0] != 0:
        if v[1] == common.E['TYPE'] and c['method'] == 'tideman_alt' and c['n'] != 1:
            c['_class'] = 'tiers-typeerror'
            return 'TypeError from the tiers after the first (RANKED_SUBSETTER.convert without the eligible candidates)'
        several = c['method'] == 'tideman_alt' and c['n'] != 1
        if v[1] == common.E['NIE'] and (not cw or several):
            return None                # the declared refusal: a tie in the elimination (several seats: of a later tier)
        if not pwv or (several and v[1] == common.E['INDEX']):
            c['_class'] = 'degenerate'
            return ('undeclared exception %s on a profile / in a tier without a pairwise contest (%d candidate(s) stand)'
                    % (common.E_NAME.get(v[1], v[1]), len(allc)))
        if cw:
            c['_class'] = 'cw-refused'
            return 'refuses (%s) although %s is the Condorcet winner of the profile' % (common.E_NAME.get(v[1], v[1]), cw)
        c['_class'] = 'tie-leak'
        return 'undeclared exception %s' % common.E_NAME.get(v[1], v[1])
    res = v[1]
    if cw and res[:1] != [cw[0]]:
        c['_class'] = 'cw'
        return 'Condorcet winner %s of the profile (independent pairwise count) not elected first: %s' % (cw, res)
    if c['method'] == 'benham' or c['n'] == 1:
        if len(res) != 1:
            c['_class'] = 'length'
            return 'one seat, %d entries: %s' % (len(res), res)
        if len(allc) == 1 and res != allc:
            c['_class'] = 'single'
            return 'the only candidate %s is not elected: %s' % (allc, res)
        if pwv and not isinstance(res[0], list):
            sm = pw.ref_smith(pwv)
            if res[0] not in sm:
                c['_class'] = 'tie-leak'
                return 'winner %s outside the Smith set %s of the profile' % (res, sm)
        return None
    # TidemanAlternative, several seats: min(n, candidates) distinct plain candidates, each the winner of its tier -
    # a member of the Smith set of the candidates not elected before it (all of them when they have no contest)
    if any(isinstance(r, list) for r in res) or len(set(res)) != len(res) or not set(res) <= set(allc):
        c['_class'] = 'tiers-shape'
        return 'tier winners %s are not distinct plain candidates of the votes' % (res,)
    if len(res) != min(c['n'], len(allc)):
        c['_class'] = 'tiers-shape'
        return '%d entries for %d seats and %d candidates: %s' % (len(res), c['n'], len(allc), res)
    left = list(allc)
    for w in res:
        sub = restrict_pairwise(pwv, left)
        sm = pw.ref_smith(sub) if sub else left
        if w not in sm:
            c['_class'] = 'tiers-smith'
            return 'tier winner %s outside the Smith set %s of the remaining candidates %s (answer %s)' % (w, sm, left, res)
        left.remove(w)
    return None


def hyb_known(c, io, mo):
    if hyb_canon(c, io) != hyb_canon(c, mo):
        return None
    cls = c.get('_class')
    if cls == 'degenerate':
        return 'C05-hybrid-empty-pairwise'
    if cls == 'tiers-typeerror':
        return 'C08-tideman-multiseat'
    if cls == 'tie-leak' and not hyb_fixed():
        return 'C05-hybrid-elimination-tie'
    return None


def hyb_nontrivial(c):
    pwv, _ = ref_pairwise(c['profile'], True)
    return bool(pwv) and not pw.ref_cw(pwv)


def gen_hyb_ballot(rng, ids, shared_p):
    perm = ids[:]
    rng.shuffle(perm)
    r = rng.random()
    if r < 0.25:
        perm = perm[:1]                               # bullet vote
    elif r < 0.6:
        perm = perm[:rng.randint(1, len(perm))]       # truncated
    out, i = [], 0
    while i < len(perm):
        if rng.random() < shared_p and i + 1 < len(perm):
            k = rng.randint(2, min(3, len(perm) - i))
            out.append(sorted(perm[i:i + k]))
            i += k
        else:
            out.append(perm[i])
            i += 1
    return out


def gen_hybrids(rng, count):
    for i in range(count):
        m = 1 if rng.random() < 0.04 else rng.choice([2, 3, 3, 4, 4, 4, 5, 5, 6])
        ids = list(range(1, m + 1))
        shared_p = rng.choice([0, 0, 0, 0.2])
        style = rng.random()
        prof = {}
        if style < 0.2 and m >= 3:
            # a cycle among the first three with equal blocks (no Condorcet winner, first preferences tie)
            k = rng.randint(1, 3)
            for rot in range(3):
                b = [ids[(rot + j) % 3] for j in range(3)]
                rest = ids[3:]
                rng.shuffle(rest)
                prof[json_key(b + rest[:rng.randint(0, len(rest))])] = k
            for _ in range(rng.randint(0, 3)):
                b = gen_hyb_ballot(rng, ids, shared_p)
                prof[json_key(b)] = prof.get(json_key(b), 0) + rng.randint(1, 2)
        elif style < 0.27 and m >= 2:
            # boundary of the repaired get_winner_set: tiers / profiles WITHOUT a pairwise contest - every ballot ranks a few
            # candidates (the same ones in every ballot: they get elected tier by tier) above ONE shared rank of all the others
            top = ids[:rng.randint(0, max(0, m - 2))]
            rest = ids[len(top):]
            for _ in range(rng.randint(1, 3)):
                t = top[:]
                rng.shuffle(t)
                b = t + ([sorted(rest)] if len(rest) > 1 else rest)
                prof[json_key(b)] = prof.get(json_key(b), 0) + rng.randint(1, 3)
        else:
            wmax = rng.choice([1, 2, 5, 5, 10 ** 25])
            for _ in range(rng.randint(1, 7)):
                b = gen_hyb_ballot(rng, ids, shared_p)
                prof[json_key(b)] = prof.get(json_key(b), 0) + rng.randint(0 if rng.random() < 0.05 else 1, wmax)
        profile = [[json_unkey(b), w] for b, w in prof.items()]
        r = rng.random()
        names = 'ints0' if rng.random() < 0.3 else 'std'
        if r < 0.42:
            yield dict(unit='hybrid', method='benham', profile=profile, n=1, names=names)
        elif r < 0.84:
            # one seat (what C05 observes) in half of the cases, otherwise 2 .. candidates + 1 seats (the tiers after the first)
            yield dict(unit='hybrid', method='tideman_alt', profile=profile, n=(1 if rng.random() < 0.5 else rng.randint(2, m + 1)), names=names)
        elif r < 0.9:
            yield dict(unit='hybrid', method='to_condorcet', profile=profile, n=1)
        elif r < 0.95:
            yield dict(unit='hybrid', method='subsetter', profile=profile, n=1, subset=[x for x in ids + [m + 1] if rng.random() < 0.6])
        else:
            yield dict(unit='hybrid', method='eliminate_one', profile=profile, n=1)


def json_key(b):
    import json
    return json.dumps(b)


def json_unkey(s):
    import json
    return json.loads(s)


HYB_KW = dict(canon=hyb_canon, nontrivial=hyb_nontrivial, spec=hyb_spec, known_class=hyb_known, limit=20)


def corpus():
    import os, json, glob
    for p in sorted(glob.glob(os.path.join(common.VERIF, 'corpus', ID, '*.json'))):
        yield json.load(open(p))


def explore(ctx, widen=1):
    kw = dict(canon=canon, nontrivial=nontrivial, spec=spec, known_class=known_class, limit=20)
    cp = list(corpus())
    ctx.differential('corpus', [c for c in cp if c.get('unit') != 'hybrid'], model_line, impl, **kw)
    ctx.differential('corpus-hybrids', [c for c in cp if c.get('unit') == 'hybrid'], hyb_line, hyb_impl, **HYB_KW)
    ctx.differential('random', gen_random(ctx.rng, ctx.n(3000, 40000) * widen), model_line, impl, **kw)
    profile_derived(ctx, 'profile-derived', ctx.n(1500, 20000) * widen, ctx.rng)
    ctx.differential('hybrids', gen_hybrids(ctx.rng, ctx.n(4000, 60000) * widen), hyb_line, hyb_impl, **HYB_KW)


def replay(ctx, case, stream=None):
    if case.get('kind') == 'profile-derived':
        derived_case(ctx, 'replay', case['profile'], case['bottom'], case['method'])
        return
    if case.get('unit') == 'hybrid':
        ctx.differential('replay', [case], hyb_line, hyb_impl, **HYB_KW)
        return
    ctx.differential('replay', [case], model_line, impl, canon=canon, nontrivial=nontrivial, spec=spec, known_class=known_class)
