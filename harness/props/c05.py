"""C05 - Condorcet-family evaluators."""
import common, pairwise as pw
from common import sx, ok, cname
from units import U

ID = 'C05'
LEVEL = 'proof'
GEN_TIES = {'Pairwin': 'Props/GenTie_Pairwin.v'}
TIE = {'condorcet.Copeland/Schulze/MinimaxCondorcet/RankedPairs/KemenyYoung': 'correspondence',
       'component/pairwin_scorer.py': 'translator (Gen/Pairwin.v regenerated on every run, Props/GenTie_Pairwin.v proves it equal to the '
                                      'scorers of Model/Condorcet.v) + correspondence through minimax / ranked pairs'}
RULE = ('corpus; random pairwise dictionaries over 3..6 candidates (Kemeny <= 5): profile-derived (truncation, shared ranks, both '
        'unranked_at_bottom), arbitrary sparse, dense with exact ties, forced Condorcet winners, counts x 1e25; every entry of '
        'condorcet.EVALUATORS, n_seats 1..|C|. Compared with the model (exact list, ties as sets) and judged by the declarative '
        'clauses: Condorcet winner elected alone; Kemeny refusal only when two best rankings differ within the first n places '
        '(brute-force argmax); Smith-efficient winner in the brute-force Smith set; nobody dropped when '
        'n = |C|. non-trivial = no Condorcet winner or a pairwise tie or a missing reverse pair; distinct by case hash')
PARTIAL = ['Benham / TidemanAlternative: covered with the STV model (C03/C04), not here']
TRUSTED = []
METHODS = ['rankedpairs_winvotes', 'rankedpairs_margins', 'rankedpairs_pwo', 'copeland_2o', 'copeland_raw', 'schulze',
           'kemeny_young', 'minimax_winvotes', 'minimax_margins', 'minimax_pwo']
CW_METHODS = {'rankedpairs_winvotes', 'rankedpairs_margins', 'copeland_2o', 'copeland_raw', 'schulze', 'kemeny_young',
              'minimax_winvotes', 'minimax_margins'}
SMITH_METHODS = {'rankedpairs_winvotes', 'rankedpairs_margins', 'copeland_2o', 'copeland_raw', 'schulze', 'kemeny_young'}


def set_order(votes):
    """iteration order CPython gives list(set) built like Schulze.widest_paths does"""
    s = set()
    for (a, b), _ in votes:
        s.update((cname(a), cname(b)))
    return [common.cnum(x) for x in list(s)]


def model_line(c):
    m, v, n = c['method'], pw.psx(c['votes']), c['n']
    if m.startswith('rankedpairs'):
        return '%d (%d %s %d)' % (U['ranked_pairs'], {'winvotes': 0, 'margins': 1, 'pwo': 2}[m.split('_')[1]], v, n)
    if m.startswith('minimax'):
        return '%d (%d %s %d)' % (U['minimax'], {'winvotes': 0, 'margins': 1, 'pwo': 2}[m.split('_')[1]], v, n)
    if m.startswith('copeland'):
        return '%d (%d %s %d)' % (U['copeland'], 1 if m == 'copeland_2o' else 0, v, n)
    if m == 'schulze':
        return '%d (%s %s %d)' % (U['schulze'], v, sx(pw.cands(c['votes'])), n)
    return '%d (%s %d)' % (U['kemeny'], v, n)


def enc_sel(res):
    import votelib.evaluate.core as core
    return [sorted(common.cnum(x) for x in r) if isinstance(r, core.Tie) else common.cnum(r) for r in res]


def impl(c):
    import votelib.evaluate.condorcet as cd
    return ok(enc_sel(cd.EVALUATORS[c['method']].evaluate(pw.pdict(c['votes']), c['n'])))


def ref_kemeny_prefixes(votes, n):
    """brute-force reference: the distinct first-n segments of the rankings with the greatest Kemeny score"""
    import itertools
    d = {(a, b): k for (a, b), k in votes}
    cs = pw.cands(votes)
    best, prefixes = None, set()
    for perm in itertools.permutations(cs):
        sc = sum(d.get((perm[i], perm[j]), 0) for i in range(len(perm)) for j in range(i + 1, len(perm)))
        if best is None or sc > best:
            best, prefixes = sc, {perm[:n]}
        elif sc == best:
            prefixes.add(perm[:n])
    return prefixes


def canon(c, wire):
    v = common.parse_sx(wire)
    if v[0] != 0:
        return ('err', v[1])
    # runs of equally placed plain winners are compared as sets only where the method's score ties them:
    # we keep the exact order except inside tie objects (sorted)
    return ('ok', tuple(tuple(sorted(r)) if isinstance(r, list) else r for r in v[1]))


def spec(c, io, mo):
    v = common.parse_sx(io)
    cs = pw.cands(c['votes'])
    m = c['method']
    comp = pw.ordered_complete(c['votes'])
    cls = ('' if comp else 'sparse:') + m.split('_')[0]
    cw = pw.ref_cw(c['votes'])
    if v[0] != 0:
        if v[1] in (common.E['NIE'],) and m == 'kemeny_young':
            # the declared refusal (Tie.tie_rankings) is legitimate only when two best rankings differ within the
            # first n places; in particular never for one seat when a Condorcet winner exists
            if len(ref_kemeny_prefixes(c['votes'], c['n'])) >= 2:
                return None
            c['_class'] = cls + ':refusal'
            if cw and c['n'] == 1:
                return 'Kemeny-Young refuses (NotImplementedError) although %s is the Condorcet winner' % (cw,)
            return 'Kemeny-Young refuses (NotImplementedError) although all best rankings agree on the first %d places' % c['n']
        if v[1] == common.E['VSE'] and m.startswith('rankedpairs'):
            c['_class'] = cls + ':vse'
            return 'ranked pairs refuses with VotingSystemError (several sources in the locked graph)'
        c['_class'] = cls + ':crash'
        return 'undeclared exception %s' % common.E_NAME.get(v[1], v[1])
    res = v[1]
    flat = [x for r in res for x in (r if isinstance(r, list) else [r])]
    if cw and m in CW_METHODS and len(cs) >= 2:
        if not res or res[0] != cw[0]:
            c['_class'] = cls + ':cw'
            return 'Condorcet winner %s not elected first: %s' % (cw, res)
    if m in SMITH_METHODS and res and c['n'] == 1:
        sm = pw.ref_smith(c['votes'])
        first = res[0] if isinstance(res[0], list) else [res[0]]
        if not set(first) <= set(sm):
            c['_class'] = cls + ':smith'
            return 'winner %s outside the Smith set %s' % (first, sm)
    if c['n'] == len(cs) and set(flat) != set(cs):
        c['_class'] = cls + ':dropped'
        return 'candidates %s dropped from the full ranking' % sorted(set(cs) - set(flat))
    if len(res) != min(c['n'], len(cs)) and not (set(flat) != set(cs)):
        c['_class'] = cls + ':length'
        return 'result has %d entries for %d seats' % (len(res), c['n'])
    return None


def known_class(c, io, mo):
    if canon(c, io) != canon(c, mo):
        return None
    return 'C05-' + c.get('_class', '?')


def nontrivial(c):
    return (not pw.ordered_complete(c['votes'])) or not pw.ref_cw(c['votes'])


def gen_random(rng, count):
    for _ in range(count):
        method = rng.choice(METHODS)
        m = rng.randint(3, 5 if method == 'kemeny_young' else 6)
        r = rng.random()
        if r < 0.3:
            v, _ = pw.from_profile(rng, m, rng.randint(1, 8), shared=rng.random() < 0.3, bottom=rng.random() < 0.6)
            if not v:
                continue
        elif r < 0.45:
            v = pw.sparse(rng, m, p=rng.choice([0.3, 0.5, 0.8]))
        elif r < 0.8:
            v = pw.dense(rng, m, tie_p=rng.choice([0, 0.2, 0.6]), scale=rng.choice([1, 1, 10 ** 25]))
        else:
            v = pw.forced_cw(rng, m)
        k = len(pw.cands(v))
        yield dict(unit='condorcet', method=method, votes=v, n=rng.choice([1, 1, k, rng.randint(1, k)]))


def corpus():
    import os, json, glob
    for p in sorted(glob.glob(os.path.join(common.VERIF, 'corpus', ID, '*.json'))):
        yield json.load(open(p))


def explore(ctx, widen=1):
    kw = dict(canon=canon, nontrivial=nontrivial, spec=spec, known_class=known_class, limit=20)
    ctx.differential('corpus', corpus(), model_line, impl, **kw)
    ctx.differential('random', gen_random(ctx.rng, ctx.n(3000, 40000) * widen), model_line, impl, **kw)


def replay(ctx, case, stream=None):
    ctx.differential('replay', [case], model_line, impl, canon=canon, nontrivial=nontrivial, spec=spec, known_class=known_class)
