"""C09 - get_n_best / Plurality."""
import itertools
from fractions import Fraction
from decimal import Decimal
import common
from common import sx, q, jq, cname, ok
from units import U

ID = 'C09'
FSET_LABELS = True      # ... and a share with labels that are themselves frozensets (joint tickets): a reported tie names the candidates, not their members
ZERO_LABELS = True      # a share of the cases is asked with candidates numbered from 0 (harness/common.py LABEL_MODE)
LEVEL = 'proof'
# The bodies of util.sorted_votes, core.get_n_best and Plurality.evaluate are regenerated from the source on every run
# (tools/py2v.py -> Gen/Core.v) and proved equal to Model/GetNBest.v for all mappings and all n_seats >= 0 in Props/GenTie_Core.v;
# QuotaSelector.evaluate on top of the generated get_n_best (Gen/CoreQsel.v) in Props/GenTie_CoreQsel.v.  Theorems about Gen.* live
# only in those files; Props/C09.v depends on the hand-written model alone.  A source the translator does not read (status != ok)
# falls back to the correspondence streams on a denser grid (ctx.fallback; evidence: coverage.translator_fallback); a GenTie lemma
# that no longer checks is a broken obligation of C09, widens the search and switches the order-exact stream on.
GEN_TIES = {'Core': 'Props/GenTie_Core.v', 'CoreQsel': 'Props/GenTie_CoreQsel.v'}
TIE = {'util.sorted_votes (whole body: sorted with key=itemgetter(1), reverse=descending)':
           'translator (Gen/Core.v; GenTie_Core.v tie_sorted_votes_desc / _asc: = sort_desc / sort_asc, the stable sorts of Model/GetNBest.v) '
           '+ correspondence',
       'core.get_n_best (whole body: guard cascade, index operations, collecting loop, slices, [Tie(tied)] * n_tie_places)':
           'translator (Gen/Core.v; GenTie_Core.v tie_get_n_best: = inl (Model.GetNBest.get_n_best votes n) for every mapping and every '
           'n_seats >= 0, no IndexError / TypeError) + correspondence',
       'Plurality.evaluate': 'translator (Gen/Core.v; GenTie_Core.v tie_plurality) + correspondence',
       'approval.QuotaSelector.evaluate': 'translator (Gen/CoreQsel.v on top of the generated get_n_best; GenTie_CoreQsel.v: = qsel_evaluate of '
                                          'Model/QuotaDistributor.v) + correspondence',
       'fallback when the translator rejects the source': 'correspondence on a denser grid (exhaustive over <=5 candidates, 4x random)'}
RULE = ('corpus first; exhaustive stream: every mapping of 1..k candidates into the pool {-1,0,1,2,1/2} '
        'x every n in 1..k+1 (k=4 quick, 5 thorough); random stream: 1..8 candidates, values int up to 1e30 / '
        'Fraction / Decimal with forced equal groups at the cut; each case run through core.get_n_best and '
        'Plurality().evaluate; quota-selector stream: QuotaSelector x 7 named quotas x accept_equal x select/error. Outputs compared after canonicalisation (runs of equal-valued winners sorted, ties as '
        'sorted sets). non-trivial = at least two candidates share a value or n >= number of candidates or a value '
        'is non-integer/negative/beyond 2^53; distinct by hash of the canonical case; only while an obligation is broken and these streams found nothing: order-exact stream (the same comparison '
        'without sorting equal-valued winners) and zero-seats stream (n = 0 on every mapping of <= 3 candidates)')
PARTIAL = []
TRUSTED = []
POOL = [Fraction(-1), Fraction(0), Fraction(1), Fraction(2), Fraction(1, 2)]


def pyval(v, kind):
    f = Fraction(v)
    if kind == 'dec' and f.denominator in (1, 2, 4, 5, 10, 20, 25, 50, 100):
        # the EXACT decimal (a Decimal division would round to the 28-digit context: 10^30 + 1 must stay 10^30 + 1)
        return Decimal(f.numerator * (100 // f.denominator)).scaleb(-2) if f.denominator != 1 else Decimal(f.numerator)
    if kind == 'int' and f.denominator == 1:
        return int(f)
    return f if f.denominator != 1 else int(f)


def mk(votes, n, via='core', kind='frac', stream=''):
    return dict(unit='get_n_best', votes=[[k, jq(v)] for k, v in votes], n=n, via=via, kind=kind)


def model_line(c):
    return '%d (%s %d)' % (U['get_n_best'], sx([[k, q(v)] for k, v in c['votes']]), c['n'])


def enc_sel(res):
    import votelib.evaluate.core as core
    out = []
    for r in res:
        if isinstance(r, core.Tie):
            out.append([common.cnum(x) for x in r])
        else:
            out.append(common.cnum(r))
    return out


def impl(c):
    import votelib.evaluate.core as core
    votes = {cname(k): pyval(v, c['kind']) for k, v in c['votes']}
    # asked twice over equal mappings; the first answer is emptied in place before the second question (a caller owns the list
    # it was given): the answer that counts is the second one
    first = core.get_n_best(dict(votes), c['n']) if c['via'] == 'core' else core.Plurality().evaluate(dict(votes), c['n'])
    if isinstance(first, list):
        first.clear()
    if c['via'] == 'core':
        r = core.get_n_best(votes, c['n'])
    else:
        r = core.Plurality().evaluate(votes, c['n'])
    return ok(enc_sel(r))


def canon_sel(votes, wire):
    """selection -> canonical: consecutive plain winners with equal value sorted; ties as sorted tuples"""
    v = common.parse_sx(wire)
    if v[0] != 0:
        return ('err', v[1] if len(v) > 1 else None)
    val = {k: q(x) for k, x in votes}
    out, run = [], []
    for r in v[1]:
        if isinstance(r, list):
            if run:
                out += sorted(run)
                run = []
            out.append(tuple(sorted(r)))
        else:
            if run and val.get(run[-1]) != val.get(r):
                out += sorted(run)
                run = []
            run.append(r)
    out += sorted(run)
    # keep the value sequence too, so that order by votes is compared
    return ('ok', tuple(out), tuple(val.get(r) if not isinstance(r, tuple) else None for r in out))


def canon(c, wire):
    return canon_sel(c['votes'], wire)


def canon_exact(c, wire):
    """the selection as listed: equal-valued plain winners keep their place (the model's sort is stable: input order), ties as sets.
       Only used while a proof / tie obligation is broken, to turn e.g. a sort that lost its stability into a concrete input."""
    v = common.parse_sx(wire)
    if v[0] != 0:
        return ('err', v[1] if len(v) > 1 else None)
    return ('ok', tuple(tuple(sorted(r)) if isinstance(r, list) else r for r in v[1]))


def nontrivial(c):
    vals = [q(v) for _, v in c['votes']]
    return (len(set(vals)) < len(vals) or c['n'] >= len(vals)
            or any(v.denominator != 1 or v < 0 or abs(v) > 2 ** 53 for v in vals))


def gen_exhaustive(k):
    for m in range(1, k + 1):
        for vals in itertools.product(POOL, repeat=m):
            for n in range(1, m + 2):
                yield mk(list(zip(range(1, m + 1), vals)), n)


def gen_random(rng, count):
    for i in range(count):
        m = rng.randint(1, 8)
        style = rng.choice(['small', 'big', 'frac', 'dec', 'neg'])
        base = []
        for _ in range(m):
            if style == 'small':
                v = Fraction(rng.randint(0, 4))
            elif style == 'big':
                v = Fraction(rng.choice([10 ** 30, 10 ** 30, 3 * 10 ** 40]) + rng.randint(0, 2))
            elif style == 'frac':
                v = Fraction(rng.randint(0, 6), rng.randint(1, 4))
            elif style == 'dec':
                v = Fraction(rng.randint(0, 30), 10)
            else:
                v = Fraction(rng.randint(-3, 3), rng.choice([1, 1, 2]))
            base.append(v)
        n = rng.randint(1, m + 1)
        # force an equal group across the cut with probability 1/2
        if m >= 2 and rng.random() < 0.5:
            srt = sorted(base, reverse=True)
            thr = srt[min(n, m) - 1]
            for _ in range(rng.randint(1, 3)):
                base[rng.randrange(m)] = thr
        ids = list(range(1, m + 1))
        rng.shuffle(ids)
        # big totals also as Decimals: more than 28 significant digits, differing beyond the 28th
        kind = 'dec' if style == 'dec' or (style == 'big' and rng.random() < 0.5) else rng.choice(['frac', 'int'])
        yield dict(mk(list(zip(ids, base)), n, via=rng.choice(['core', 'plurality']), kind=kind))


QN = {1: 'hare', 2: 'hare_rounded', 3: 'droop', 4: 'hagenbach_bischoff', 5: 'hagenbach_bischoff_ceil',
      6: 'hagenbach_bischoff_rounded', 7: 'imperiali'}


def qs_model_line(c):
    return '%d (%s %d %d %s %d)' % (U['quota_selector'], sx([c['quota']]), 1 if c['ae'] else 0, 1 if c['select'] else 0,
                                    sx([[k, q(v)] for k, v in c['votes']]), c['n'])


def qs_impl(c):
    import votelib.evaluate.approval as ap
    ev = ap.QuotaSelector(QN[c['quota']], accept_equal=c['ae'],
                          on_more_over_quota='select' if c['select'] else 'error')
    votes = {cname(k): int(q(v)) for k, v in c['votes']}
    return ok(enc_sel(ev.evaluate(votes, c['n'])))


def gen_qsel(rng, count):
    for _ in range(count):
        m = rng.randint(1, 7)
        ids = list(range(1, m + 1))
        rng.shuffle(ids)
        pool = rng.choice([[10, 20, 30, 50], [1, 2, 3], [100, 100, 50, 25], [10 ** 30, 10 ** 30 + 1, 5 * 10 ** 29]])
        votes = [[k, rng.choice(pool)] for k in ids]
        yield dict(unit='quota_selector', quota=rng.randint(1, 7), ae=rng.random() < 0.5, select=rng.random() < 0.7,
                   votes=votes, n=rng.randint(1, m + 1))


def corpus():
    import os, json, glob
    for p in sorted(glob.glob(os.path.join(common.VERIF, 'corpus', ID, '*.json'))):
        yield json.load(open(p))


def gen_zero(k):
    """n_seats = 0 (the guards of get_n_best read the threshold at index -1 then): every mapping of <= k candidates"""
    for m in range(0, k + 1):
        for vals in itertools.product(POOL, repeat=m):
            yield mk(list(zip(range(1, m + 1), vals)), 0)


def explore(ctx, widen=1):
    ctx.differential('corpus', corpus(), model_line, impl, canon, nontrivial)
    # units the translator rejected are tied by these streams alone: denser (DESIGN.md 2.1 fallback)
    dense = bool({'Core', 'CoreQsel'} & ctx.fallback)
    k = 5 if dense else ctx.n(4, 5)
    if dense:
        widen = max(widen, 4)
    ex = list(gen_exhaustive(k))
    ctx.differential('exhaustive', ex, model_line, impl, canon, nontrivial)
    ctx.notes.append('exhaustive stream complete for <=%d candidates over the value pool' % k)
    ctx.differential('exhaustive-plurality', [dict(c, via='plurality') for c in gen_exhaustive(3)],
                     model_line, impl, canon, nontrivial)
    ctx.differential('random', gen_random(ctx.rng, ctx.n(1500, 30000) * widen), model_line, impl, canon, nontrivial)
    ctx.differential('quota-selector', gen_qsel(ctx.rng, ctx.n(1500, 20000) * widen), qs_model_line, qs_impl, canon, nontrivial)
    if ctx.broken_items and not ctx.violations:
        # an obligation (theorem / generated-code tie) no longer checks and the streams above, which compare what the property text
        # states, found nothing: look where the PROVED MODEL says more than the text - the order of equal-valued winners (the model's
        # sort is stable) and n_seats = 0 (the tie lemma covers it; the property quantifies over n >= 1)
        ctx.differential('order-exact', list(gen_exhaustive(3)) + list(gen_random(ctx.rng, 2000)), model_line, impl, canon_exact, nontrivial)
        if not ctx.violations:
            ctx.differential('zero-seats', gen_zero(3), model_line, impl, canon, None)


def replay(ctx, case, stream=None):
    if case.get('unit') == 'quota_selector':
        ctx.differential('replay', [case], qs_model_line, qs_impl, canon, nontrivial)
    else:
        ctx.differential('replay', [case], model_line, impl, canon_exact if stream == 'order-exact' else canon, nontrivial)
