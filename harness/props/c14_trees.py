"""C14 support: wrapper-tree specifications -> real votelib objects, wire trees, and the BY-HAND
composition (which uses only the leaf evaluator / converter objects, never the wrapper classes).

tree spec (JSON-able):
  ['leaf', id, name, params]          ['pre', id, conv, child]       ['post', child, id, conv]
  ['fixed', child, n]                 ['cond', elim, child, depth]   ['bycons', child, aspec]
  ['preapp', child, aspec]            ['remapp', child]              ['byparty', overall, allocator|None]
  ['multi', [children], depth]        ['tiebr', main, breaker]       ['plist', party_eval, list_eval|None, conv|None]
  aspec: None | int | {constituency: int} | ['ev', tree]             conv: [id, name]
  ['vsys', child]  votelib.VotingSystem around child
  ['unused', [children], [[id, quota-name]..], depth]   UnusedVotesDistributor (quota functions are parts, like leaves)
  ['byconsp', child, aspec (None | int | dict), preselector]   ByConstituency with a preselector
  ['adj', calc, child]   AdjustedSeatCount; calc: ['calc', id, kind, params] (a calculator object as a part: 'allow' / 'level' over a
                         leaf spec, 'levelbyc') | ['allow', tree] | ['level', tree] (AllowOverhang / LevelOverhang over a tree: embedded)
                         | ['levelc', constituency tree, overall tree | None] (LevelOverhangByConstituency over trees: embedded)
"""
import inspect
from fractions import Fraction
import common

KW = ['n_seats', 'prev_gains', 'max_seats', 'party_lists', 'list_votes', 'candidate_list']
PARTIES = ['A', 'B', 'C', 'D', 'E', 'F', 'G', 'H']
CONSTS = ['c1', 'c2', 'c3', 'c4']


# ---------------------------------------------------------------- names <-> numbers
def num(name):
    if name in PARTIES:
        return PARTIES.index(name) + 1
    if name in CONSTS:
        return 101 + CONSTS.index(name)
    if len(name) == 2 and name[0] in PARTIES and name[1].isdigit():
        return 200 + 10 * (PARTIES.index(name[0]) + 1) + int(name[1])
    raise Unencodable('name %r' % (name,))


def name(n):
    if 1 <= n <= 8:
        return PARTIES[n - 1]
    if 101 <= n <= 104:
        return CONSTS[n - 101]
    if 210 <= n < 300:
        return PARTIES[(n - 200) // 10 - 1] + str((n - 200) % 10)
    raise ValueError(n)


class Unencodable(Exception):
    pass


def enc_key(k):
    import votelib.evaluate.core as core
    if isinstance(k, core.Tie):
        return '(3 %s)' % ' '.join(str(x) for x in sorted(num(c) for c in k))
    if isinstance(k, str):
        return '(2 %d)' % num(k)
    raise Unencodable('key %r' % (k,))


def enc(v):
    import votelib.evaluate.core as core
    if v is None:
        return '(0)'
    if isinstance(v, bool):
        raise Unencodable('bool')
    if isinstance(v, int):
        return '(1 %d)' % v
    if isinstance(v, Fraction) and v.denominator == 1:
        return '(1 %d)' % v.numerator
    if isinstance(v, Fraction):
        return '(6 %d %d)' % (v.numerator, v.denominator)
    if isinstance(v, (str, core.Tie)):
        return enc_key(v)
    if isinstance(v, (list, tuple)):
        return '(4 %s)' % ' '.join(enc(x) for x in v)
    if isinstance(v, dict):
        return '(5 %s)' % ' '.join('(%s %s)' % (enc_key(k), enc(x)) for k, x in v.items())
    raise Unencodable('value %r of type %s' % (v, type(v).__name__))


def dec_key(s):
    import votelib.evaluate.core as core
    if s[0] == 2:
        return name(s[1])
    if s[0] == 3:
        return core.Tie([name(x) for x in s[1:]])
    raise ValueError(s)


def dec(s):
    t = s[0]
    if t == 0:
        return None
    if t == 1:
        return s[1]
    if t in (2, 3):
        return dec_key(s)
    if t == 4:
        return [dec(x) for x in s[1:]]
    if t == 5:
        return {dec_key(k): dec(v) for k, v in s[1:]}
    if t == 6:
        return Fraction(s[1], s[2])
    raise ValueError(s)


def canon(v):
    """order-insensitive on dictionaries and Ties, ordered on lists"""
    import votelib.evaluate.core as core
    if isinstance(v, core.Tie):
        return ('tie',) + tuple(sorted(v))
    if isinstance(v, dict):
        return ('dict',) + tuple(sorted(((canon(k), canon(x)) for k, x in v.items()), key=repr))
    if isinstance(v, (list, tuple)):
        return ('list',) + tuple(canon(x) for x in v)
    if isinstance(v, Fraction) and v.denominator == 1:
        return int(v)
    return v


# ---------------------------------------------------------------- parts
class Ident:
    """identity converter (a harness-side part)"""
    def convert(self, v):
        return v


class Halve:
    """votes -> votes, every count floor-halved, at any nesting depth (a harness-side converter that changes the votes)"""
    def convert(self, v):
        return {k: (self.convert(x) if isinstance(x, dict) else x // 2) for k, x in v.items()}


def mk_leaf(nm, params):
    import votelib.evaluate.core as core, votelib.evaluate.proportional as prop
    import votelib.evaluate.threshold as thr, votelib.evaluate.openlist as ol
    if nm == 'plurality':
        return core.Plurality()
    if nm == 'ha':
        return prop.HighestAverages(params[0])
    if nm == 'lr':
        return prop.LargestRemainder(params[0])
    if nm == 'abs_thr':
        return thr.AbsoluteThreshold(params[0])
    if nm == 'rel_thr':
        return thr.RelativeThreshold(Fraction(params[0], params[1]))
    if nm == 'alt_thr':
        return thr.AlternativeThresholds([thr.AbsoluteThreshold(params[0]), thr.PreviousGainThreshold(thr.AbsoluteThreshold(params[1]))])
    if nm == 'prevgain_thr':
        return thr.PreviousGainThreshold(thr.AbsoluteThreshold(params[0]))
    if nm == 'vps':
        return prop.VotesPerSeat(params[0])
    if nm == 'qd':
        return prop.QuotaDistributor(params[0], on_overaward='subtract')
    if nm == 'listorder':
        return ol.ListOrderTieBreaker(core.Plurality())
    raise ValueError(nm)


LKIND = {'plurality': 1, 'ha': 2, 'lr': 2, 'qd': 2, 'abs_thr': 3, 'rel_thr': 3, 'alt_thr': 4, 'prevgain_thr': 5, 'vps': 6, 'listorder': 7}


def mk_conv(nm):
    import votelib.convert as conv
    return {'ident': Ident, 'halve': Halve, 'totals': conv.VoteTotals, 'merged': conv.MergedDistributions,
            'sel2dist': conv.SelectionToDistribution, 'const_totals': conv.ConstituencyTotals}[nm]()


def mk_quota(nm):
    import votelib.component.quota as quota
    if isinstance(nm, int):
        return quota.constant(nm)
    return quota.construct(nm)


def mk_calc(kind, params):
    """a seat count calculator object over leaf evaluators (a part, answered through the oracle table)"""
    import votelib.evaluate.core as core
    if kind == 'allow':
        return core.AllowOverhang(mk_leaf(*params[0]))
    if kind == 'level':
        return core.LevelOverhang(mk_leaf(*params[0]))
    if kind == 'levelbyc':
        ce = core.ByConstituency(mk_leaf(*params[0]), apportioner=params[1])
        return core.LevelOverhangByConstituency(ce, mk_leaf(*params[2]) if params[2] is not None else None)
    raise ValueError(kind)


LEVEL_FUEL = 80


class Built:
    """real objects of one tree: .obj (root votelib object), .parts {id: leaf/converter object},
    .nodes preorder list of (spec, object) for the signature tie"""
    def __init__(self, spec):
        self.parts = {}
        self.nodes = []
        self.obj = self._b(spec)

    def _b(self, t):
        import votelib.evaluate.core as core
        k = t[0]
        slot = len(self.nodes)
        self.nodes.append(None)
        if k == 'leaf':
            o = self.parts.setdefault(t[1], mk_leaf(t[2], t[3]))
        elif k == 'pre':
            c = self.parts.setdefault(t[1], mk_conv(t[2]))
            o = core.PreConverted(c, self._b(t[3]))
        elif k == 'post':
            e = self._b(t[1])
            o = core.PostConverted(e, self.parts.setdefault(t[2], mk_conv(t[3])))
        elif k == 'fixed':
            o = core.FixedSeatCount(self._b(t[1]), t[2])
        elif k == 'cond':
            el = self._b(t[1])
            o = core.Conditioned(el, self._b(t[2]), depth=t[3])
        elif k in ('bycons', 'preapp'):
            e = self._b(t[1])
            a = t[2]
            if isinstance(a, list):
                a = self._b(a[1])
            elif isinstance(a, dict):
                a = dict(a)
            o = core.ByConstituency(e, apportioner=a) if k == 'bycons' else core.PreApportioned(e, a)
        elif k == 'byconsp':
            e = self._b(t[1])
            o = core.ByConstituency(e, apportioner=(dict(t[2]) if isinstance(t[2], dict) else t[2]), preselector=self._b(t[3]))
        elif k == 'remapp':
            o = core.RemovedApportionment(self._b(t[1]))
        elif k == 'byparty':
            ov = self._b(t[1])
            o = core.ByParty(ov, self._b(t[2]) if t[2] is not None else None)
        elif k == 'multi':
            o = core.MultistageDistributor([self._b(x) for x in t[1]], depth=t[2])
        elif k == 'tiebr':
            m = self._b(t[1])
            o = core.TieBreaking(m, self._b(t[2]))
        elif k == 'vsys':
            import votelib
            o = votelib.VotingSystem('x', self._b(t[1]))
        elif k == 'unused':
            rounds = [self._b(x) for x in t[1]]
            qs = [self.parts.setdefault(q[0], mk_quota(q[1])) for q in t[2]]
            o = core.UnusedVotesDistributor(rounds, qs, depth=t[3])
        elif k == 'adj':
            c = t[1]
            if c[0] == 'calc':
                calc = self.parts.setdefault(c[1], mk_calc(c[2], c[3]))
            elif c[0] == 'levelc':
                ce = self._b(c[1])
                calc = core.LevelOverhangByConstituency(ce, self._b(c[2]) if c[2] is not None else None)
            else:
                calc = (core.AllowOverhang if c[0] == 'allow' else core.LevelOverhang)(self._b(c[1]))
            o = core.AdjustedSeatCount(calc, self._b(t[2]))
        elif k == 'plist':
            p = self._b(t[1])
            le = self._b(t[2]) if t[2] is not None else None
            c = self.parts.setdefault(t[3][0], mk_conv(t[3][1])) if t[3] is not None else None
            o = core.PartyListEvaluator(p, le, c)
        else:
            raise ValueError(k)
        self.nodes[slot] = (t, o)
        return o


def wire(t):
    k = t[0]
    if k == 'leaf':
        return '(0 %d %d)' % (t[1], LKIND[t[2]])
    if k == 'pre':
        return '(1 %d %s)' % (t[1], wire(t[3]))
    if k == 'post':
        return '(2 %s %d)' % (wire(t[1]), t[2])
    if k == 'fixed':
        return '(3 %s %s)' % (wire(t[1]), enc(t[2]))
    if k == 'cond':
        return '(4 %s %s %d)' % (wire(t[1]), wire(t[2]), t[3] - 1)
    if k in ('bycons', 'preapp'):
        a = t[2]
        base = 5 if k == 'bycons' else 7
        if isinstance(a, list):
            return '(%d %s %s)' % (base + 1, wire(t[1]), wire(a[1]))
        asx = '(0)' if a is None else ('(1 %d)' % a if isinstance(a, int) else '(2 %s)' % enc(a))
        return '(%d %s %s)' % (base, wire(t[1]), asx)
    if k == 'remapp':
        return '(9 %s)' % wire(t[1])
    if k == 'byparty':
        return '(11 %s)' % wire(t[1]) if t[2] is None else '(10 %s %s)' % (wire(t[1]), wire(t[2]))
    if k == 'multi':
        return '(12 (%s) %d)' % (' '.join(wire(x) for x in t[1]), t[2] - 1)
    if k == 'tiebr':
        return '(13 %s %s)' % (wire(t[1]), wire(t[2]))
    if k == 'plist':
        if t[2] is None:
            return '(14 %s)' % wire(t[1])
        return '(15 %s %s %s)' % (wire(t[1]), wire(t[2]), '()' if t[3] is None else '(%d)' % t[3][0])
    if k == 'vsys':
        return '(16 %s)' % wire(t[1])
    if k == 'unused':
        return '(17 (%s) (%s) %d)' % (' '.join(wire(x) for x in t[1]), ' '.join(str(q[0]) for q in t[2]), t[3] - 1)
    if k == 'adj':
        c = t[1]
        if c[0] == 'calc':
            return '(18 %d %s)' % (c[1], wire(t[2]))
        if c[0] == 'allow':
            return '(19 %s %s)' % (wire(c[1]), wire(t[2]))
        if c[0] == 'levelc':
            if c[2] is None:
                return '(23 %s %s %d)' % (wire(c[1]), wire(t[2]), LEVEL_FUEL)
            return '(22 %s %s %s %d)' % (wire(c[1]), wire(c[2]), wire(t[2]), LEVEL_FUEL)
        return '(20 %s %s %d)' % (wire(c[1]), wire(t[2]), LEVEL_FUEL)
    if k == 'byconsp':
        a = t[2]
        asx = '(0)' if a is None else ('(1 %d)' % a if isinstance(a, int) else '(2 %s)' % enc(a))
        return '(21 %s %s %s)' % (wire(t[1]), asx, wire(t[3]))
    raise ValueError(k)


def kwrec_sx(d):
    return '(%s)' % ' '.join('(%s)' % enc(d[k]) if k in d else '()' for k in KW)


def sig_sx(obj):
    """inspect.signature(obj.evaluate) in the wire form of Units_C14.enc_sig"""
    ps, ks, vp, vk = [], [], 0, 0
    for i, (nm, p) in enumerate(inspect.signature(obj.evaluate).parameters.items()):
        if i == 0 and p.kind not in (p.VAR_POSITIONAL, p.VAR_KEYWORD):
            continue          # votes
        if p.kind == p.VAR_POSITIONAL:
            vp = 1
        elif p.kind == p.VAR_KEYWORD:
            vk = 1
        else:
            d = '()' if p.default is p.empty else '(%s)' % enc(p.default)
            (ks if p.kind == p.KEYWORD_ONLY else ps).append('(%d %s)' % (KW.index(nm), d))
    return '((%s) %d (%s) %d)' % (' '.join(ps), vp, ' '.join(ks), vk)


# ---------------------------------------------------------------- the by-hand composition
def leaf_params(obj):
    return [n for i, n in enumerate(inspect.signature(obj.evaluate).parameters) if i > 0]


class Hand:
    """Evaluates a tree spec step by step, as the property text describes, on the leaf objects."""
    def __init__(self, built):
        self.parts = built.parts

    def takes(self, t, nm):
        k = t[0]
        if k == 'leaf':
            return nm in leaf_params(self.parts[t[1]])
        if k == 'pre':
            return self.takes(t[3], nm)
        if k in ('post', 'tiebr', 'vsys'):
            return self.takes(t[1], nm)
        if k == 'fixed':
            return nm != 'n_seats' and self.takes(t[1], nm)
        if k == 'cond':
            return nm in ('n_seats', 'prev_gains') or self.takes(t[2], nm)
        if k == 'plist':
            return nm in ('n_seats', 'party_lists', 'list_votes') or self.takes(t[1], nm)
        return nm in ('n_seats', 'prev_gains', 'max_seats')

    def run(self, t, votes, **a):
        k = t[0]
        if k == 'leaf':
            return self.parts[t[1]].evaluate(votes, **a)
        if k == 'pre':                                   # convert, then evaluate
            return self.run(t[3], self.parts[t[1]].convert(votes), **a)
        if k == 'post':                                  # evaluate, then convert
            return self.parts[t[2]].convert(self.run(t[1], votes, **a))
        if k == 'fixed':                                 # = passing that count
            if 'n_seats' in a:
                raise TypeError('seat count given to a fixed-seat-count evaluator')
            return self.run(t[1], votes, n_seats=t[2], **a)
        if k == 'cond':
            return self.cond(t, votes, **a)
        if k == 'bycons':
            return self.bycons(t, votes, **a)
        if k == 'byconsp':
            return self.byconsp(t, votes, **a)
        if k == 'preapp':
            n_seats, prev, mx = a.get('n_seats'), a.get('prev_gains', {}), a.get('max_seats', {})
            return self.run(t[1], votes, n_seats=self.apportion(t[2], votes, n_seats), prev_gains=prev, max_seats=mx)
        if k == 'remapp':
            return self.run(t[1], votes, n_seats=sum(a['n_seats'].values()),
                            prev_gains=a.get('prev_gains', {}), max_seats=a.get('max_seats', {}))
        if k == 'byparty':
            return self.byparty(t, votes, **a)
        if k == 'multi':
            return self.multi(t, votes, **a)
        if k == 'tiebr':
            return self.tiebr(t, votes, **a)
        if k == 'plist':
            return self.plist(t, votes, **a)
        if k == 'vsys':                                  # the system object adds nothing
            return self.run(t[1], votes, **a)
        if k == 'unused':
            return self.unused(t, votes, **a)
        if k == 'adj':
            return self.adj(t, votes, **a)
        raise ValueError(k)

    # conditioning = evaluating on the votes restricted to the candidates the eliminator passed
    def cond(self, t, votes, n_seats=None, prev_gains={}, **rest):
        depth = t[3]

        def total(v, d):
            if d == 1:
                return v
            out = {}
            for sub in v.values():
                for c, x in total(sub, d - 1).items():
                    out[c] = out.get(c, 0) + x
            return out

        def restrict(v, keep, d):
            if d == 1:
                return {c: x for c, x in v.items() if c in keep}
            return {kk: restrict(sub, keep, d - 1) for kk, sub in v.items()}
        ea = {'prev_gains': total(prev_gains, depth)} if self.takes(t[1], 'prev_gains') else {}
        passed = self.run(t[1], total(votes, depth), **ea)
        args = dict(rest)
        if n_seats is not None and self.takes(t[2], 'n_seats'):
            args['n_seats'] = n_seats
        if self.takes(t[2], 'prev_gains'):
            args['prev_gains'] = prev_gains
        return self.run(t[2], restrict(votes, passed, depth), **args)

    def apportion(self, a, votes, n_seats):
        if isinstance(a, int):
            return {c: a for c in votes}
        if isinstance(a, dict):
            return a
        if isinstance(n_seats, dict):
            return n_seats
        if isinstance(a, list):
            totals = {c: sum(v.values()) for c, v in votes.items()}
            return self.run(a[1], totals, n_seats=n_seats) if n_seats is not None else self.run(a[1], totals)
        if isinstance(n_seats, int):
            return {c: n_seats for c in votes}
        raise ValueError('no apportionment')

    # per-constituency evaluation = each constituency separately with its apportioned seats
    def byconsp(self, t, votes, n_seats=None, prev_gains={}, max_seats={}):
        # the candidates preselected on the national totals; every constituency on its votes restricted to them
        app = self.apportion(t[2], votes, n_seats)
        totals = {}
        for v in votes.values():
            for p, x in v.items():
                totals[p] = totals.get(p, 0) + x
        keep = self.run(t[3], totals, n_seats=n_seats) if n_seats is not None and self.takes(t[3], 'n_seats') else self.run(t[3], totals)
        return self.bycons(t, votes, n_seats, prev_gains, max_seats, keep=keep, app=app)

    def bycons(self, t, votes, n_seats=None, prev_gains={}, max_seats={}, keep=None, app=None):
        if app is None:
            app = self.apportion(t[2], votes, n_seats)
        out, empty = {}, []
        for c, v in votes.items():
            n = app.get(c, 0)
            if n == 0:
                empty.append(c)
                continue
            if keep is not None:
                v = {p: x for p, x in v.items() if p in keep}
            if self.takes(t[1], 'prev_gains'):
                out[c] = self.run(t[1], v, n_seats=n, prev_gains=prev_gains.get(c, {}), max_seats=max_seats.get(c, {}))
            else:
                out[c] = self.run(t[1], v, n_seats=n)
        if empty and not out:
            raise AllZero()
        kind = type(next(iter(out.values()))) if out else dict
        for c in empty:
            out[c] = kind()
        return out

    def byparty(self, t, votes, n_seats=None, prev_gains={}, max_seats={}):
        totals = {}
        for v in votes.values():
            for p, x in v.items():
                totals[p] = totals.get(p, 0) + x
        overall = self.run(t[1], totals, n_seats=n_seats) if n_seats is not None else self.run(t[1], totals)
        al = t[2] if t[2] is not None else t[1]
        out = {c: {} for c in votes}
        for party, n in overall.items():
            pv = {c: v.get(party, 0) for c, v in votes.items()}
            if self.takes(al, 'prev_gains'):
                r = self.run(al, pv, n_seats=n,
                             prev_gains={c: g[party] for c, g in prev_gains.items() if party in g},
                             max_seats={c: g[party] for c, g in max_seats.items() if party in g})
            else:
                r = self.run(al, pv, n_seats=n)
            for c, s in r.items():
                out.setdefault(c, {})[party] = s
        return out

    # multi-stage = chaining the stages with accumulated previous gains
    def multi(self, t, votes, n_seats, prev_gains={}, max_seats={}):
        def merge(x, y, d):
            if d == 1:
                out = dict(x)
                for c, s in y.items():
                    out[c] = out.get(c, 0) + s
                return out
            return {c: merge(x.get(c, {}), y.get(c, {}), d - 1) for c in list(x) + [c for c in y if c not in x]}

        def deep(x, d):
            return dict(x) if d == 1 else {c: deep(v, d - 1) for c, v in x.items()}
        elected = deep(prev_gains, t[2])
        vs = votes if isinstance(votes, list) else [votes] * len(t[1])
        for stage, sv in zip(t[1], vs):
            res = self.run(stage, sv, n_seats=n_seats, prev_gains=deep(elected, t[2]), max_seats=max_seats)
            elected = merge(elected, res, t[2])
        return elected

    # unused-votes distribution = chaining the stages: every stage sees the votes not yet used up (quota * seats gained is
    # taken from a candidate) and the seats not yet given; the result is the previous gains plus the seats of every stage
    def unused(self, t, votes, n_seats, prev_gains={}, max_seats={}):
        import votelib.evaluate.core as core
        depth = t[3]
        if max_seats:
            raise NotImplementedError('max_seats')

        def merge(x, y, d):
            if d == 1:
                out = dict(x)
                for c, s in y.items():
                    out[c] = out.get(c, 0) + s
                return out
            return {c: merge(x.get(c, {}), y.get(c, {}), d - 1) for c in list(x) + [c for c in y if c not in x]}

        def deep(x, d):
            return dict(x) if d == 1 else {c: deep(v, d - 1) for c, v in x.items()}

        def use(v, res, left, qf, d):
            if d == 1:
                quota = qf(sum(v.values()), left)
                out = {}
                for c, x in v.items():
                    used = quota * res.get(c, 0)
                    if x < used:
                        raise core.VotingSystemError('more votes used than cast')
                    out[c] = x - used
                return out
            return {con: use(cv, res.get(con, {}), (left.get(con, 0) if isinstance(left, dict) else left), qf, d - 1)
                    for con, cv in v.items()}

        def total(res, d):
            return sum(res.values()) if d == 1 else sum(total(x, d - 1) for x in res.values())

        def remaining(left, res, d):
            if isinstance(left, dict):
                return {con: remaining(n, res.get(con, {}), d - 1) for con, n in left.items()}
            return left - total(res, d)
        quotas = [self.parts[q[0]] for q in t[2]]
        elected, v, left = deep(prev_gains, depth), votes, n_seats
        for k, stage in enumerate(t[1][:len(quotas) + 1]):
            res = self.run(stage, v, n_seats=left)
            elected = merge(elected, res, depth)
            if k < len(quotas):
                v, left = use(v, res, left, quotas[k], depth), remaining(left, res, depth)
        return elected

    # adjusted seat count = evaluating with the seat count the calculator adds
    def adj(self, t, votes, n_seats, prev_gains, max_seats={}):
        c = t[1]
        if c[0] == 'calc':
            a = self.parts[c[1]].calculate(votes, n_seats, prev_gains=prev_gains, max_seats=max_seats)
        elif c[0] == 'levelc':    # the house grows until every party's share covers, constituency by constituency, what it holds there
            def totals(nested):
                out = {}
                for v in nested.values():
                    for p, x in v.items():
                        out[p] = out.get(p, 0) + x
                return out
            cty = self.run(c[1], votes, n_seats=n_seats, max_seats=max_seats)
            lowest = {}
            for con, res in cty.items():
                for p, s in res.items():
                    lowest[p] = lowest.get(p, 0) + max(prev_gains.get(con, {}).get(p, 0), s)
            for con, g in prev_gains.items():
                for p, x in g.items():
                    if p in lowest and p not in cty.get(con, {}):
                        lowest[p] += x
            drop = sum(x for g in prev_gains.values() for p, x in g.items() if p not in lowest)
            h = n_seats - drop
            if c[2] is not None:
                nat = totals(votes)
                overall = lambda k: self.run(c[2], nat, n_seats=k, max_seats=max_seats)   # noqa
            else:
                overall = lambda k: totals(self.run(c[1], votes, n_seats=k, max_seats=max_seats))   # noqa
            share = overall(h)
            for _ in range(LEVEL_FUEL + 1):
                if not any(share.get(p, 0) < m for p, m in lowest.items()):
                    break
                h += 1
                share = overall(h)
            else:
                raise OutOfFuel()
            a = h + drop - n_seats
        elif c[0] == 'allow':     # every party keeps the seats it holds beyond its proportional share
            share = self.run(c[1], votes, n_seats=n_seats, max_seats=max_seats)
            a = sum(max(0, g - share.get(p, 0)) for p, g in prev_gains.items())
        else:                     # the house grows until every party's proportional share covers what it holds
            share = self.run(c[1], votes, n_seats=n_seats, max_seats=max_seats)
            lowest = {p: max(prev_gains.get(p, 0), g) for p, g in share.items()}
            drop = sum(g for p, g in prev_gains.items() if p not in lowest)
            h = n_seats - drop
            for _ in range(LEVEL_FUEL + 1):
                if not any(share.get(p, 0) < m for p, m in lowest.items()):
                    break
                h += 1
                share = self.run(c[1], votes, n_seats=h, max_seats=max_seats)
            else:
                raise OutOfFuel()
            a = h + drop - n_seats
        return self.run(t[2], votes, n_seats=n_seats + a, prev_gains=prev_gains, max_seats=max_seats)

    # tie-breaking = each tie replaced by the tiebreaker's choice among exactly the tied candidates
    def tiebr(self, t, votes, **a):
        import votelib.evaluate.core as core
        main = self.run(t[1], votes, **a)
        if isinstance(main, dict):
            ties = [(c, n) for c, n in main.items() if isinstance(c, core.Tie)]
            out = {c: n for c, n in main.items() if not isinstance(c, core.Tie)}
            for tie, n in ties:
                chosen = list(self.run(t[2], {c: x for c, x in votes.items() if c in tie}, n_seats=n))
                for c in chosen:
                    out[c] = out.get(c, 0) + 1
            return out
        order = []
        for x in main:
            if isinstance(x, core.Tie) and x not in order:
                order.append(x)
        out = list(main)
        for tie in order:
            places = [i for i, x in enumerate(out) if x == tie]
            chosen = list(self.run(t[2], {c: x for c, x in votes.items() if c in tie}, n_seats=len(places)))
            if len(chosen) > len(places):
                raise IllFormedBreak()
            if any(isinstance(c, core.Tie) and c == tie for c in chosen) and any(c != tie for c in chosen):
                raise IllFormedBreak()
            for i, c in zip(places, chosen):
                out[i] = c
        return out

    # party-list evaluation seats exactly as many list candidates as the party won
    def plist(self, t, votes, n_seats, party_lists, list_votes=None, **rest):
        won = self.run(t[1], votes, n_seats=n_seats, **rest)
        if t[2] is None:
            if list_votes:
                raise ValueError('list votes without a list evaluator')
            return {p: party_lists[p][:n] for p, n in won.items()}
        if not list_votes:
            raise ValueError('no list votes')
        lv = self.parts[t[3][0]].convert(list_votes) if t[3] is not None else list_votes
        return {p: self.run(t[2], lv[p], n_seats=n, candidate_list=party_lists[p]) for p, n in won.items()}


class AllZero(Exception):
    """every constituency has zero seats: the by-hand result has no defined type"""


class OutOfFuel(Exception):
    """the levelling loop did not end within the model's fuel"""


class IllFormedBreak(Exception):
    """the tiebreaker answered with more candidates than tied seats (by-hand rule undefined)"""
