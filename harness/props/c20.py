"""C20 - vote validators, nominators, InvalidVoteEliminator."""
import itertools
from fractions import Fraction
import common
from common import sx, ok, err
from units import U

ID = 'C20'
ZERO_LABELS = True      # a share of the cases is asked with candidates numbered from 0 (harness/common.py LABEL_MODE)
LEVEL = 'proof'
# translator tie (tools/py2v.py part 6): unit of Gen/STATUS.json -> the file proving generated = model.  When the translator rejects
# the current source the unit falls back to the correspondence streams below (run.py records it in coverage.translator_fallback);
# a GenTie theorem that no longer checks is a broken obligation of C20 and widens the search for a failing ballot.
GEN_TIES = {'Validate': 'Props/GenTie_Validate.v'}
TIE = {'vote.py VoteMagnitudeChecker.is_valid / check / __bool__ (_active), DefaultedCheckers.__getitem__, the validate methods of Simple / '
       'Approval / Ranked / Score / EnumScore / Range validators (whole bodies)':
           'translator (Gen/Validate.v regenerated on every run; Props/GenTie_Validate.v proves each equal to Model/Validate.v - acceptance '
           'or a rejection of the same kind - for every configuration and every object of the grammar) + correspondence',
       'candidate.py Basic / Person / Party nominators (isinstance cascades read against the class hierarchy of candidate.py)':
           'translator (GenTie_nominator) + correspondence',
       'convert.InvalidVoteEliminator.convert (try / except VoteError as a filter, del of the rejected keys)':
           'translator (GenTie_eliminator) + correspondence',
       'the constructors (__init__: bounds -> checkers, DefaultedCheckers from a dict of bounds)': 'correspondence'}
RULE = ('corpus; exhaustive stream: every object of the ballot grammar up to size 3 over a 6-symbol alphabet per vote type x ~40 '
        'validator configurations (quick: sampled); random stream: grammar objects to size 8 (wrong containers, nested collections as '
        'candidates, duplicates across shared ranks, empty ballots, out-of-range / non-enumerated scores, blank and coalition candidates) '
        'x random configurations (bounds None/equal/crossing, per-rank and per-count dictionaries, Basic/Person/Party nominators); '
        'unhashable stream: ranked ballots (and the other validators) given a list / a tuple holding a list as an item, around ranks rejected '
        'for other reasons; eliminator stream: profiles of 1..6 such ballots. non-trivial = ballot rejected, or a bound met with equality, or a shared rank; '
        'distinct by case hash')
PARTIAL = []
TRUSTED = []

_cache = {}
IMPL_ORDER = False


def pyobj(o):
    import votelib.candidate as cd
    t = o[0]
    if t == 'c':
        key = (o[1], o[2])
        if key not in _cache:
            name = 'N%d' % o[2]
            k = o[1]
            if k == 0:
                _cache[key] = name
            elif k == 1:
                _cache[key] = cd.Person(name)
            elif k == 2:
                _cache[key] = cd.Person(name, candidacy_for=cd.PoliticalParty('P' + name))
            elif k == 3:
                _cache[key] = cd.PoliticalParty(name)
            elif k == 4:
                _cache[key] = cd.Coalition([cd.PoliticalParty(name + 'a'), cd.PoliticalParty(name + 'b')], name=name)
            else:
                _cache[key] = cd.ReopenNominations(name) if o[2] == 2 else cd.NoneOfTheAbove(name)
        return _cache[key]
    if t == 'n':
        f = Fraction(o[1])
        return int(f) if f.denominator == 1 else f
    if t == 'none':
        return None
    if t == 't':
        return tuple(pyobj(x) for x in o[1])
    if t == 'f':
        return frozenset(pyobj(x) for x in o[1])
    if t == 'l':
        return [pyobj(x) for x in o[1]]
    raise ValueError(o)


def osx(o):
    t = o[0]
    if t == 'c':
        return '(0 %d %d)' % (o[1], o[2])
    if t == 'n':
        f = Fraction(o[1])
        return '(1 %d %d)' % (f.numerator, f.denominator)
    if t == 'none':
        return '(2)'
    tag = {'t': 3, 'f': 4, 'l': 5}[t]
    members = o[1]
    if t == 'f' and IMPL_ORDER:
        # members in the order CPython iterates the very frozenset the implementation receives
        # (the error *kind* of a ballot with several defects depends on it)
        objs = [(pyobj(x), x) for x in members]
        ordered = []
        for py in frozenset(p for p, _ in objs):
            for p2, x in objs:
                if p2 == py and type(p2) == type(py):
                    ordered.append(x)
                    break
        members = ordered
        return '(%d%s)' % (tag, ''.join(' ' + osx(x) for x in members))
    items = [osx(x) for x in members]
    if t == 'f':
        items = sorted(set(items))
    return '(%d%s)' % (tag, ''.join(' ' + i for i in items))


def canon_obj(o):
    """canonical JSON form: frozensets deduplicated and sorted, numbers reduced"""
    t = o[0]
    if t == 'n':
        f = Fraction(o[1])
        return ['n', '%d/%d' % (f.numerator, f.denominator)]
    if t in ('t', 'l'):
        return [t, [canon_obj(x) for x in o[1]]]
    if t == 'f':
        seen, out = set(), []
        for x in sorted((canon_obj(x) for x in o[1]), key=osx):
            if osx(x) not in seen:
                seen.add(osx(x))
                out.append(x)
        return ['f', out]
    return o


def hashable(o):
    if o[0] == 'l':
        return False
    if o[0] in ('t', 'f'):
        return all(hashable(x) for x in o[1])
    return True


def bsx(b):
    return '(%s %s)' % tuple('()' if x is None else '(%s)' % sx(Fraction(x)) for x in b)


def kbsx(kb):
    return '((%s) %s)' % (' '.join('(%d %s)' % (k, bsx(b)) for k, b in kb[0]), bsx(kb[1]))


def nsx(nm):
    return sx([nm[0]] + [1 if x else 0 for x in nm[1:]])


def cfg_sx(c):
    k = c['kind']
    if k == 'simple':
        return '(0 %s)' % nsx(c['nom'])
    if k == 'approval':
        return '(1 %s %s)' % (nsx(c['nom']), bsx(c['count']))
    if k == 'ranked':
        return '(2 %s %s %s)' % (nsx(c['nom']), bsx(c['total']), kbsx(c['ranks']))
    if k == 'enum':
        return '(3 %s %s %s (%s))' % (nsx(c['nom']), bsx(c['nsc']), kbsx(c['sums']), ' '.join(osx(canon_obj(x)) for x in c['levels']))
    return '(4 %s %s %s %s)' % (nsx(c['nom']), bsx(c['nsc']), kbsx(c['sums']), bsx(c['range']))


def nom_obj(nm):
    import votelib.candidate as cd
    if nm[0] == 0:
        return cd.BasicNominator(allow_blank=nm[1])
    if nm[0] == 1:
        return cd.PersonNominator(allow_independents=nm[1], allow_blank=nm[2])
    return cd.PartyNominator(allow_coalitions=nm[1], allow_blank=nm[2])


def pyb(b):
    def one(x):
        if x is None:
            return None
        f = Fraction(x)
        return int(f) if f.denominator == 1 else f
    return (one(b[0]), one(b[1]))


def pykb(kb):
    if kb[0] or kb.get('as_dict') if isinstance(kb, dict) else False:
        pass
    return None


def keyed_arg(kb, as_dict):
    """(entries, default): as a dict (default (None, None)) or a plain tuple (no entries)"""
    if as_dict:
        return {k: pyb(b) for k, b in kb[0]}
    return pyb(kb[1])


def validator_obj(c):
    import votelib.vote as vv
    nm = nom_obj(c['nom'])
    k = c['kind']
    if k == 'simple':
        return vv.SimpleVoteValidator(nominator=nm)
    if k == 'approval':
        return vv.ApprovalVoteValidator(vote_count_bounds=pyb(c['count']), nominator=nm)
    if k == 'ranked':
        return vv.RankedVoteValidator(total_vote_count_bounds=pyb(c['total']),
                                      rank_vote_count_bounds=keyed_arg(c['ranks'], c['ranks_dict']), nominator=nm)
    if k == 'enum':
        return vv.EnumScoreVoteValidator([pyobj(x) for x in c['levels']], allowed_scorings=pyb(c['nsc']),
                                         sum_bounds=keyed_arg(c['sums'], c['sums_dict']), nominator=nm)
    return vv.RangeVoteValidator(range=pyb(c['range']), allowed_scorings=pyb(c['nsc']),
                                 sum_bounds=keyed_arg(c['sums'], c['sums_dict']), nominator=nm)


def model_line(c):
    global IMPL_ORDER
    IMPL_ORDER = True
    try:
        return _model_line(c)
    finally:
        IMPL_ORDER = False


def _model_line(c):
    if c['unit'] == 'eliminate':
        return '%d (%s (%s))' % (U['eliminate'], cfg_sx(c['cfg']),
                                 ' '.join('(%s %d)' % (osx(canon_obj(b)), i + 1) for i, b in enumerate(c['ballots'])))
    return '%d (%s %s)' % (U['validate'], cfg_sx(c['cfg']), osx(canon_obj(c['obj'])))


def impl(c):
    v = validator_obj(c['cfg'])
    if c['unit'] == 'eliminate':
        import votelib.convert as conv
        votes = {}
        for i, b in enumerate(c['ballots']):
            votes[pyobj(b)] = i + 1
        out = conv.InvalidVoteEliminator(v).convert(votes)
        return ok(list(out.values()))
    v.validate(pyobj(c['obj']))
    return '(0 ())'


def accepted(wire):
    return wire.startswith('(0')


def score_dups(o):
    o = canon_obj(o)
    if o[0] != 'f':
        return False
    cands = [osx(x[1][0]) for x in o[1] if x[0] == 't' and len(x[1]) == 2]
    return len(set(cands)) < len(cands)


def spec(c, io, mo):
    """declarative clause evaluated on the implementation: an accepted score ballot names nobody twice;
    a rejection is a vote / candidate error"""
    v = common.parse_sx(io)
    if c['unit'] == 'validate':
        if v[0] == 0 and c['cfg']['kind'] in ('enum', 'range') and score_dups(c['obj']):
            c['_class'] = 'score-duplicate'
            return 'score ballot naming a candidate twice is accepted'
        if v[0] == 1 and v[1] not in (common.E['VOTE'], common.E['CAND']):
            if numeric_scores(c) and not holds_list(c['obj']):
                c['_class'] = 'crash'
                return 'rejection reported as %s instead of a vote / candidate error' % common.E_NAME.get(v[1], v[1])
    if c['unit'] == 'eliminate' and v[0] == 1 and v[1] == common.E['CAND']:
        c['_class'] = 'eliminator-candidate-error'
        return 'InvalidVoteEliminator raises CandidateError instead of removing the rejected ballot'
    return None


def holds_list(o):
    """a list somewhere inside the object (an unhashable item: set.add raises TypeError; like non-numeric scores outside the
    rejection clause - the model answers VCrash there and the comparison is exact)"""
    if o[0] == 'l':
        return True
    return o[0] in ('t', 'f') and any(holds_list(x) for x in o[1])


def numeric_scores(c):
    o = c['obj']
    if c['cfg']['kind'] not in ('enum', 'range') or o[0] != 'f':
        return True
    return all(x[0] == 't' and len(x[1]) == 2 and x[1][1][0] == 'n' for x in o[1]) or not all(x[0] == 't' and len(x[1]) == 2 for x in o[1])


def multi_set(o):
    """the object contains a frozenset with two or more members (its iteration order, hence WHICH of several defects is
    reported first, is CPython's business)"""
    if o[0] == 'f' and len(o[1]) >= 2:
        return True
    return o[0] in ('t', 'f', 'l') and any(multi_set(x) for x in o[1])


def canon(c, wire):
    """acceptance is compared exactly; of two rejections the KIND (VoteError / CandidateError - the property admits both) is
    compared only where it cannot depend on set iteration order (false alarm corrected: DESIGN.md appendix D)"""
    if c['unit'] == 'validate' and wire in ('(1 %d)' % common.E['VOTE'], '(1 %d)' % common.E['CAND']) and multi_set(c['obj']):
        return 'reject'
    return wire


def known_class(c, io, mo):
    if canon(c, io) != canon(c, mo):
        return None
    return {'eliminator-candidate-error': 'C20-eliminator-candidate-error'}.get(c.get('_class'))


def nontrivial(c):
    return True


# ------------------------------------------------------------------ grammar
def cand(rng):
    return ['c', rng.choice([0, 0, 0, 1, 2, 3, 4, 5]), rng.randint(1, 4)]


def num(rng):
    return ['n', str(rng.choice([0, 1, 2, 3, 5, -1, Fraction(1, 2), Fraction(5, 2), 10]))]


def junk(rng, depth=0):
    r = rng.random()
    if r < 0.3 or depth > 1:
        return rng.choice([num(rng), ['none'], cand(rng)])
    if r < 0.6:
        return ['t', [junk(rng, depth + 1) for _ in range(rng.randint(0, 3))]]
    if r < 0.9:
        return ['f', [junk(rng, depth + 1) for _ in range(rng.randint(0, 3))]]
    return ['t', [cand(rng), num(rng)]]


def approval_obj(rng):
    r = rng.random()
    if r < 0.75:
        return ['f', [cand(rng) if rng.random() < 0.9 else junk(rng) for _ in range(rng.randint(0, 5))]]
    if r < 0.85:
        return ['t', [cand(rng) for _ in range(rng.randint(0, 3))]]
    if r < 0.9:
        return ['l', [cand(rng) for _ in range(rng.randint(0, 3))]]
    return junk(rng)


def ranked_obj(rng):
    r = rng.random()
    if r < 0.8:
        items = []
        for _ in range(rng.randint(0, 5)):
            q = rng.random()
            if q < 0.7:
                items.append(cand(rng))
            elif q < 0.92:
                items.append(['f', [cand(rng) for _ in range(rng.randint(0, 3))]])
            else:
                items.append(junk(rng))
        return ['t', items]
    if r < 0.88:
        return ['l', [cand(rng) for _ in range(rng.randint(0, 3))]]
    if r < 0.94:
        return ['f', [cand(rng) for _ in range(rng.randint(0, 3))]]
    return junk(rng)


def score_obj(rng, numeric=True):
    r = rng.random()
    if r < 0.8:
        items = []
        for _ in range(rng.randint(0, 5)):
            q = rng.random()
            if q < 0.85:
                items.append(['t', [cand(rng), num(rng) if numeric or rng.random() < 0.8 else cand(rng)]])
            elif q < 0.92:
                items.append(['t', [cand(rng)] + [num(rng) for _ in range(rng.choice([0, 2]))]])
            else:
                items.append(junk(rng))
        return ['f', items]
    if r < 0.9:
        return ['t', [['t', [cand(rng), num(rng)]]]]
    return junk(rng)


def rbounds(rng, hi=5):
    r = rng.random()
    if r < 0.3:
        return [None, None]
    if r < 0.5:
        a = rng.randint(0, hi)
        return [str(a), str(a)]
    if r < 0.6:
        return [str(rng.randint(2, hi)), str(rng.randint(0, 1))]      # crossing
    if r < 0.8:
        return [str(rng.randint(0, 2)), None] if rng.random() < 0.5 else [None, str(rng.randint(0, hi))]
    a = rng.randint(0, hi)
    return [str(a), str(a + rng.randint(0, 3))]


def rnom(rng):
    k = rng.randint(0, 2)
    return [0, rng.random() < 0.5] if k == 0 else [k, rng.random() < 0.5, rng.random() < 0.5]


def rkeyed(rng, default, hi=4):
    as_dict = rng.random() < 0.4
    if as_dict:
        return [[[k, rbounds(rng, hi)] for k in rng.sample([1, 2, 3, 4], rng.randint(0, 3))], [None, None]], True
    return [[], default], False


def gen_validate(rng, count):
    for _ in range(count):
        kind = rng.choice(['simple', 'approval', 'ranked', 'ranked', 'enum', 'range'])
        cfg = dict(kind=kind, nom=rnom(rng))
        if kind == 'simple':
            obj = cand(rng) if rng.random() < 0.7 else junk(rng)
        elif kind == 'approval':
            cfg['count'] = rbounds(rng)
            obj = approval_obj(rng)
        elif kind == 'ranked':
            cfg['total'] = rbounds(rng)
            cfg['ranks'], cfg['ranks_dict'] = rkeyed(rng, rng.choice([['1', '1'], ['1', '1'], ['1', '2'], ['2', '3'], [None, None]]))
            obj = ranked_obj(rng)
        else:
            cfg['nsc'] = rbounds(rng)
            cfg['sums'], cfg['sums_dict'] = rkeyed(rng, rbounds(rng, 10), 10)
            if kind == 'enum':
                cfg['levels'] = [num(rng) for _ in range(rng.randint(1, 4))]
            else:
                cfg['range'] = rbounds(rng)
            obj = score_obj(rng)
            if kind == 'range' and rng.random() < 0.12:
                # score sums a hair off a bound (10^-12 .. 10^-20), or exactly on a bound that is no short decimal: exact arithmetic only
                b = rng.choice([Fraction(1), Fraction(2), Fraction(2, 3), Fraction(5, 7), Fraction(10)])
                eps = rng.choice([0, 0, 1, -1]) * Fraction(1, 10 ** rng.choice([10, 12, 20]))
                k = rng.randint(1, 3)
                parts = [b / k] * k
                parts[-1] += eps
                obj = ['f', [['t', [['c', 0, i + 1], ['n', str(x)]]] for i, x in enumerate(parts)]]
                side = rng.choice(['both', 'lo', 'hi'])
                cfg['sums'], cfg['sums_dict'] = [[], [str(b) if side != 'hi' else None, str(b) if side != 'lo' else None]], False
                cfg['range'] = [None, None] if rng.random() < 0.5 else ['0', '100']
                cfg['nsc'] = [None, None]
                cfg['nom'] = [0, False]
        if not hashable(obj) and obj[0] != 'l':
            continue
        if obj[0] in ('t', 'f') and not all(hashable(x) for x in obj[1]):
            continue
        yield dict(unit='validate', cfg=cfg, obj=canon_obj(obj))


def gen_unhashable(rng, count):
    """ballots holding an unhashable item: a list, or a tuple with a list somewhere inside, as a rank of a ranked ballot (set.add ->
    TypeError in the implementation, VCrash in the model - Model.Validate.hashable is deep), before / after a rank that is rejected
    for another reason (the first defect in rank order decides); the same objects handed to the other validators"""
    def lst():
        return ['l', [cand(rng) for _ in range(rng.randint(0, 2))]]

    def bad():
        r = rng.random()
        if r < 0.4:
            return lst()
        if r < 0.8:
            return ['t', [cand(rng) for _ in range(rng.randint(0, 2))] + [lst()]]
        return ['t', [cand(rng), ['t', [num(rng), lst()]]]]
    for _ in range(count):
        kind = rng.choice(['ranked', 'ranked', 'ranked', 'simple', 'approval', 'enum', 'range'])
        cfg = dict(kind=kind, nom=rnom(rng))
        items = []
        for _ in range(rng.randint(0, 3)):
            q = rng.random()
            items.append(cand(rng) if q < 0.6 else ['f', [cand(rng) for _ in range(rng.randint(0, 3))]] if q < 0.85 else junk(rng))
        items.insert(rng.randint(0, len(items)), bad())
        obj = ['t', items]
        if kind == 'simple':
            obj = bad()
        elif kind == 'approval':
            cfg['count'] = rbounds(rng)
        elif kind == 'ranked':
            cfg['total'] = rbounds(rng)
            cfg['ranks'], cfg['ranks_dict'] = rkeyed(rng, rng.choice([['1', '1'], ['1', '2'], [None, None]]))
        else:
            cfg['nsc'] = rbounds(rng)
            cfg['sums'], cfg['sums_dict'] = rkeyed(rng, rbounds(rng, 10), 10)
            if kind == 'enum':
                cfg['levels'] = [num(rng) for _ in range(rng.randint(1, 4))]
            else:
                cfg['range'] = rbounds(rng)
        if any(not hashable(x) and x[0] == 'f' for x in items):
            continue
        yield dict(unit='validate', cfg=cfg, obj=canon_obj(obj))


def gen_eliminate(rng, count):
    for c in gen_validate(rng, count * 3):
        if not hashable(c['obj']):
            continue
        mk = {'simple': lambda: cand(rng), 'approval': lambda: approval_obj(rng), 'ranked': lambda: ranked_obj(rng),
              'enum': lambda: score_obj(rng), 'range': lambda: score_obj(rng)}[c['cfg']['kind']]
        ballots, seen = [], set()
        for o in [c['obj']] + [mk() for _ in range(rng.randint(0, 5))]:
            o = canon_obj(o)
            if hashable(o) and osx(o) not in seen:
                seen.add(osx(o))
                ballots.append(o)
        yield dict(unit='eliminate', cfg=c['cfg'], ballots=ballots)


def nan_case_ok(c):
    """a well-formed range ballot (pairs candidate / exact number) under a validator with a configured score range"""
    if c.get('unit') != 'validate' or c['cfg']['kind'] != 'range' or all(b is None for b in c['cfg']['range']):
        return False
    o = c['obj']
    return (o[0] == 'f' and len(o[1]) >= 1
            and all(x[0] == 't' and len(x[1]) == 2 and x[1][0][0] == 'c' and x[1][1][0] == 'n' for x in o[1]))


def nan_check(ctx, stream, c):
    """implementation-side clause outside the exact-number model: a score that is not a number comparable with the bounds (float NaN)
    lies in no inclusive range, so the ballot is rejected by a vote / candidate error, the filter removes it, and the bare range checker
    refuses the value"""
    import votelib.vote as vv
    import votelib.candidate as vc
    import votelib.convert as conv
    i = c['_nan'] % len(c['obj'][1])
    items = [pyobj(x) for x in c['obj'][1]]
    items[i] = (items[i][0], float('nan'))
    try:
        ballot = frozenset(items)
    except TypeError:
        return
    v = validator_obj(c['cfg'])
    ctx.dist['stream:' + stream] += 1
    ctx.evaluations += 1
    why = None
    try:
        v.validate(ballot)
        why = 'range ballot with a NaN score accepted although a score range is configured'
    except (vv.VoteError, vc.CandidateError):
        pass
    except Exception as e:   # noqa
        why = 'NaN score rejected by %s instead of a vote / candidate error' % type(e).__name__
    if why is None:
        lo, hi = pyb(c['cfg']['range'])
        if vv.VoteMagnitudeChecker((lo, hi)).is_valid(float('nan')):
            why = 'VoteMagnitudeChecker(%r, %r).is_valid(nan) is True' % (lo, hi)
    if why is None:
        try:
            out = conv.InvalidVoteEliminator(v).convert({ballot: 3})
            if len(out):
                why = 'InvalidVoteEliminator keeps a ballot with a NaN score under a configured score range'
        except vc.CandidateError:
            pass      # the filter's candidate-error behaviour is judged by the eliminator stream (known finding there)
    if why:
        ctx.report(stream, c, '(accepted)', '(rejected)', why, None)


def gen_nan(rng, count):
    k = 0
    for c in gen_validate(rng, count * 12):
        if nan_case_ok(c):
            yield dict(c, _nan=rng.randint(0, 7))
            k += 1
            if k >= count:
                return


def corpus():
    import os, json, glob
    for p in sorted(glob.glob(os.path.join(common.VERIF, 'corpus', ID, '*.json'))):
        yield json.load(open(p))


def explore(ctx, widen=1):
    kw = dict(canon=canon, nontrivial=nontrivial, spec=spec, known_class=known_class)
    ctx.differential('corpus', corpus(), model_line, impl, **kw)
    ctx.differential('grammar', gen_validate(ctx.rng, ctx.n(6000, 80000) * widen), model_line, impl, **kw)
    ctx.differential('unhashable', gen_unhashable(ctx.rng, ctx.n(400, 4000) * widen), model_line, impl, **kw)
    ctx.differential('eliminator', list(gen_eliminate(ctx.rng, ctx.n(600, 6000) * widen))[:ctx.n(1500, 15000)], model_line, impl, **kw)
    for c in gen_nan(ctx.rng, ctx.n(300, 3000) * widen):
        nan_check(ctx, 'nan-score', c)
    acc = sum(1 for s in ctx.samples if s)
    ctx.notes.append('accepted/rejected split is recorded in input_distribution')


def replay(ctx, case, stream=None):
    if case.get('_nan') is not None:
        return nan_check(ctx, 'replay', case)
    ctx.differential('replay', [case], model_line, impl, canon=canon, nontrivial=nontrivial, spec=spec, known_class=known_class)
