"""C19, STV files: the streams that tie Model/StvFile.v (character-level model of votelib/io/stv.py) to the code.

  stv-model   random elections + systems -> model writer (unit 174: lines, stv_loads of the written text, expected, wf)
              vs list(stv.dump_lines(...)) and stv.loads(stv.dumps(...)); spec: wf => the implementation loads
              back exactly what the theorem C19_stv_roundtrip promises
  stv-lines   texts (written files mutated / truncated / shuffled, header soups, ordered ballots, BLT mode) ->
              model stv_load_lines (unit 175) vs stv.loads; spec: a result or STVParseError, nothing else
  tables      the closed tables of the model (white space, 'E' in upper(), quota registry) against the interpreter,
              exhaustively over all code points

Canonical forms: a loaded candidate is (name, number, withdrawn); votes are compared as a set of (ranking, exact
weight); the system as the tree of evaluator classes _dump_system / _create_evaluator know about.
Outside the model (not generated / not compared): Decimal + Decimal rounding when a ranking is repeated with long
decimal multipliers, the 4300-digit int limit, candidates=None, shared ranks.
"""
import re, warnings, string
from fractions import Fraction
from decimal import Decimal
import common
from units import BLOCK

U0 = BLOCK['C19']
E = common.E


def wstr(s):
    return '(' + ' '.join(str(ord(c)) for c in s) + ')'


def q_wire(x):
    f = Fraction(x)
    return str(f.numerator) if f.denominator == 1 else '(%d %d)' % (f.numerator, f.denominator)


# ------------------------------------------------------------------------------------------------ environment
def uenv_wire(strings, dec_strings=()):
    """the oracle record of Model/StvFile.v for the characters / multiplier strings of one case"""
    chars = sorted({ord(c) for s in strings for c in s if ord(c) >= 128})
    ucs = []
    for c in chars:
        ch = chr(c)
        dv = int(ch) if ch.isdecimal() else -1
        ucs.append('(%d %d %d %d %s)' % (c, int(ch.isdigit()), dv, int(bool(re.match(r'\w', ch))), wstr(ch.lower())))
    decs = []
    for m in sorted(set(dec_strings)):
        v = dec_value(m)
        if v is not None:
            decs.append('(%s %s)' % (wstr(m), q_wire(v)))
    return '((%s) (%s))' % (' '.join(ucs), ' '.join(decs))


class TooBig(Exception):
    pass


def dec_value(m):
    """Decimal(m) when finite, as an exact fraction; None when Decimal rejects it"""
    try:
        d = Decimal(m)
    except Exception:   # noqa  (InvalidOperation, ValueError)
        return None
    if not d.is_finite():
        return None
    if abs(d.adjusted()) > 400:
        raise TooBig(m)      # exponent too large to ship as a fraction: the case is not compared
    return Fraction(d)


def mult_candidates(lines):
    """every string _parse_multiplier can be asked about: tokens ending in X, without the X"""
    out = set()
    for l in lines:
        for t in l.split():
            if t.endswith('X'):
                out.add(t[:-1])
    return out


# ------------------------------------------------------------------------------------------------ systems
QUOTA_POOL = ['droop', 'droop', 'hare', 'hare_rounded', 'imperiali', 'hagenbach_bischoff']


def gen_tb(rng, good):
    if good:
        inner = ['order', True] if rng.random() < 0.5 else ['sort', rng.choice([0, 1, 7, 12345, 10 ** 12])]
        return ['pre', True, inner]
    r = rng.random()
    if r < 0.2:
        return ['pre', False, ['order', True]]
    if r < 0.4:
        return ['order', rng.random() < 0.5]
    if r < 0.55:
        return ['sort', None]
    if r < 0.7:
        return ['sort', rng.choice([-1, 3])]
    if r < 0.85:
        return ['pre', True, ['pre', True, ['order', False]]]
    return ['other']


def gen_base(rng, good):
    if good:
        return ['tv', False, False, -1, True, ['named', rng.choice(['droop', 'hare'])], rng.random() < 0.3]
    r = rng.random()
    if r < 0.15:
        return ['other', rng.random() < 0.5]
    q = ['named', rng.choice(QUOTA_POOL)] if rng.random() < 0.6 else (['const', rng.randint(0, 50)] if rng.random() < 0.6 else ['nameless'])
    return ['tv', rng.random() < 0.2, rng.random() < 0.15, rng.choice([-1, -1, -1, -2, 1]), rng.random() < 0.8, q, rng.random() < 0.4]


def gen_ev(rng, good, seats):
    """good: a system the reader can rebuild (the shape wf_election asks for)"""
    e = gen_base(rng, good or rng.random() < 0.5)
    if rng.random() < 0.35:
        e = ['tie', e, gen_tb(rng, good or rng.random() < 0.6)]
    if seats is not None:
        e = ['fixed', e, seats]
    if not good and rng.random() < 0.15:
        e = ['tie', e, gen_tb(rng, True)]      # TieBreaking outside FixedSeatCount: written, reloads nested the other way
    return e


def build_tb(t):
    import votelib.evaluate.core as core, votelib.evaluate.auxiliary as aux, votelib.convert as conv
    if t[0] == 'pre':
        return core.PreConverted(conv.RankedToPresenceCounts() if t[1] else conv.RankedToCondorcetVotes(), build_tb(t[2]))
    if t[0] == 'order':
        return aux.CandidateNumberRanker() if t[1] else aux.InputOrderSelector()
    if t[0] == 'sort':
        return aux.Sortitor(seed=t[1])
    return core.Plurality()


def build_ev(t):
    import votelib.evaluate.core as core, votelib.component.quota as quota
    from votelib.evaluate.sequential import TransferableVoteSelector, TransferableVoteDistributor
    if t[0] == 'other':
        return core.UnknownEvaluator() if t[1] else core.Plurality()
    if t[0] == 'tv':
        _, dist, ret, elim, greg, q, mand = t
        qf = q[1] if q[0] == 'named' else quota.constant(q[1]) if q[0] == 'const' else None
        kw = dict(transferer='Gregory' if greg else 'Hare', retainer=core.Plurality() if ret else None, eliminate_step=elim,
                  quota_function=qf, mandatory_quota=mand)
        return TransferableVoteDistributor(**kw) if dist else TransferableVoteSelector(**kw)
    if t[0] == 'tie':
        return core.TieBreaking(build_ev(t[1]), build_tb(t[2]))
    if t[0] == 'fixed':
        return core.FixedSeatCount(build_ev(t[1]), t[2])
    raise ValueError(t)


def tb_tree(x):
    import votelib.evaluate.core as core, votelib.evaluate.auxiliary as aux, votelib.convert as conv
    if isinstance(x, core.PreConverted):
        return ['pre', type(x.converter) in conv.RANKED_TO_SIMPLE, tb_tree(x.evaluator)]
    if isinstance(x, (aux.InputOrderSelector, aux.CandidateNumberRanker)):
        return ['order', isinstance(x, aux.CandidateNumberRanker)]
    if isinstance(x, aux.Sortitor):
        return ['sort', x.seed]
    return ['other']


def ev_tree(x):
    import votelib.evaluate.core as core, votelib.component.quota as quota, votelib.component.transfer as transfer
    from votelib.evaluate.sequential import TransferableVoteSelector, TransferableVoteDistributor
    if isinstance(x, core.FixedSeatCount):
        return ['fixed', ev_tree(x.evaluator), x.n_seats]
    if isinstance(x, core.TieBreaking):
        return ['tie', ev_tree(x.main), tb_tree(x.tiebreaker)]
    if isinstance(x, (TransferableVoteDistributor, TransferableVoteSelector)):
        dist = isinstance(x, TransferableVoteDistributor)
        d = x if dist else x._inner
        f = d.quota_function
        q = ['named', f.__name__] if hasattr(f, '__name__') else ['const', f.quota] if isinstance(f, quota.constant) else ['nameless']
        return ['tv', dist, d.retainer is not None, d.eliminate_step, isinstance(d.transferer, transfer.Gregory), q,
                bool(getattr(d, 'mandatory_quota', False))]
    return ['other', isinstance(x, core.UnknownEvaluator)]


def tb_wire(t):
    if t[0] == 'pre':
        return '(0 %d %s)' % (int(t[1]), tb_wire(t[2]))
    if t[0] == 'order':
        return '(1 %d)' % int(t[1])
    if t[0] == 'sort':
        return '(2)' if t[1] is None else '(2 %d)' % t[1]
    return '(3)'


def ev_wire(t):
    if t[0] == 'other':
        return '(0 %d)' % int(t[1])
    if t[0] == 'tv':
        q = t[5]
        qw = '(0 %s)' % wstr(q[1]) if q[0] == 'named' else '(1 %d)' % q[1] if q[0] == 'const' else '(2)'
        return '(1 %d %d %d %d %s %d)' % (int(t[1]), int(t[2]), t[3], int(t[4]), qw, int(t[6]))
    if t[0] == 'tie':
        return '(2 %s %s)' % (ev_wire(t[1]), tb_wire(t[2]))
    return '(3 %s %d)' % (ev_wire(t[1]), t[2])


def optstr_wire(s):
    return '()' if s is None else '(%s)' % wstr(s)


# ------------------------------------------------------------------------------------------------ elections
def w_py(w):
    return w[1] if w[0] == 'int' else Decimal(w[1]) if w[0] == 'dec' else Fraction(w[1], w[2])


def w_wire(w):
    if w[0] == 'dec':
        return '(1 %s)' % wstr(str(Decimal(w[1])))
    return '(0 %s)' % q_wire(w_py(w))


def gen_stv_case(rng, gen_election, hostile=False, special=None):
    """an election of c19.gen_election + how it is written"""
    e = gen_election(rng, hostile, special if special in ('many', 'empty-ranking', 'dec-exponent', 'long-decimal', 'zero-weight') else None)
    good = rng.random() < 0.75
    r = rng.random()
    inner_seats = e['seats'] if r < 0.6 else None
    param_seats = e['seats'] if (0.6 <= r < 0.85 or (not good and rng.random() < 0.1)) else None
    if special == 'negative':
        if e['votes']:
            e['votes'][0][1] = rng.choice([['int', -rng.randint(1, 9)], ['frac', -rng.randint(1, 9), rng.choice([2, 3, 7])], ['dec', '-1.5']])
        inner_seats = rng.choice([-1, -20, 0])
    if special == 'unit-weights' and e['votes']:
        for v in e['votes']:
            v[1] = rng.choice([['int', 1], ['frac', 1, 1], ['dec', '1'], ['dec', '1.0'], ['dec', '1E+0'], ['dec', '5'], ['dec', '0.1E1'], ['int', 0]])
    if special == 'ordinal':                    # duplicate initials force ordinal nicknames; single-candidate ballots of weight one
        m = len(e['cands'])
        e['cands'] = [['C %d' % k if not e['persons'] else 'Cee', w] for k, (_, w) in enumerate(e['cands'])]
        e['votes'] = [[[k], ['int', 1]] for k in range(m)][:8]
    kind = 'vs' if rng.random() < 0.8 else 'ev'
    if kind == 'ev':
        e['title'] = None
    e.update(sys=dict(kind=kind, ev=gen_ev(rng, good, inner_seats)), param_seats=param_seats, output_method=(rng.random() < 0.92))
    return e


def build(e):
    import votelib, votelib.candidate as vc
    if e['persons']:
        objs = [vc.Person(nm, withdrawn=w) for nm, w in e['cands']]
    else:
        objs = [nm for nm, _ in e['cands']]
    votes = {tuple(objs[i] for i in r): w_py(w) for r, w in e['votes']}
    ev = build_ev(e['sys']['ev'])
    system = votelib.VotingSystem(e['title'], ev) if e['sys']['kind'] == 'vs' else ev
    return objs, votes, system


def election_wire(e):
    votes = ' '.join('((%s) %s)' % (' '.join(str(i + 1) for i in r), w_wire(w)) for r, w in e['votes'])
    cands = ' '.join('(%d %s %d)' % (i + 1, wstr(nm), int(bool(w and e['persons']))) for i, (nm, w) in enumerate(e['cands']))
    sysw = '(1 %s %s)' % (optstr_wire(e['title']), ev_wire(e['sys']['ev'])) if e['sys']['kind'] == 'vs' else '(2 %s)' % ev_wire(e['sys']['ev'])
    seats = '()' if e['param_seats'] is None else '(%d)' % e['param_seats']
    return '((%s) %s (%s) %s %d)' % (votes, sysw, cands, seats, int(e['output_method']))


def case_strings(e):
    out = [nm for nm, _ in e['cands']]
    if e['title'] is not None:
        out.append(e['title'])
    out += [str(Decimal(w[1])) for _, w in e['votes'] if w[0] == 'dec']
    return out


def model_line(c):
    e = c['election']
    decs = [str(Decimal(w[1])) for _, w in e['votes'] if w[0] == 'dec']
    try:
        env = uenv_wire(case_strings(e), decs)
    except TooBig:
        c['_skip'] = True
        env = '(() ())'
    return '%d (0 %s %s)' % (U0 + 4, env, election_wire(e))


def cand_desc(c):
    return '(%s %d %d)' % (wstr(c.name), c.number if isinstance(c.number, int) else -1, int(bool(c.withdrawn)))


def loaded_wire(votes, system, candidates):
    vl = ' '.join('((%s) %s)' % (' '.join(cand_desc(c) for c in r), q_wire(w)) for r, w in votes.items())
    cl = ' '.join('(%s %d)' % (wstr(c.name), int(bool(c.withdrawn))) for c in candidates)
    return '((%s) %s %s (%s))' % (vl, optstr_wire(system.name), ev_wire(ev_tree(system.evaluator)), cl)


def impl_loads(text):
    """stv.loads as a wire term: (0 loaded) | (1 code)"""
    import votelib.io.stv as stv
    try:
        votes, system, cands = stv.loads(text)
    except Exception as exc:   # noqa
        if isinstance(exc, common.ImplTimeout):
            raise
        return '(1 %d)' % common.classify_exc(exc), '%s: %s' % (type(exc).__name__, str(exc)[:150])
    return '(0 %s)' % loaded_wire(votes, system, cands), None


def model_impl(c):
    import votelib.io.stv as stv
    import votelib.io.core as iocore
    e = c['election']
    objs, votes, system = build(e)
    with warnings.catch_warnings():
        warnings.simplefilter('ignore')
        try:
            lines = list(stv.dump_lines(votes, system, objs, e['param_seats'], e['output_method']))
            text = stv.dumps(votes, system, objs, e['param_seats'], e['output_method'])
        except iocore.NotSupportedInFormat:
            return '(5)'
    c['_text'] = text
    res, exc = impl_loads(text)
    if exc:
        c['_loadexc'] = exc
    return '(0 ((%s) %s))' % (' '.join(wstr(l) for l in lines), res)


def _t(x):
    return tuple(_t(y) for y in x) if isinstance(x, list) else x


def canon_loaded(v):
    votes, name, ev, cands = v
    return (tuple(sorted(((_t(r), str(common.unq(w))) for r, w in votes), key=repr)), _t(name), _t(ev), _t(cands))


def canon_res(r):
    if r[0] != 0:
        return ('err', r[1])
    return ('ok', canon_loaded(r[1]))


def model_canon(c, wire):
    """what is compared: refusal / crash, and what the written text loads back to.  The written lines themselves are not
    part of the property (a different but equally readable nickname is a harmless rewrite): see model_spec"""
    if c.get('_skip'):
        return ('same',)
    v = common.parse_sx(wire)
    if v[0] == 5:
        return ('refused',)
    if v[0] != 0:
        return ('crash', v[1])
    return ('written', canon_res(v[1][1]))


LINES_DIFFER = [0]


def model_spec(c, io, mo):
    """(a) the declarative clause on the implementation, for the elections the theorem is about (wf = true in the model);
    (b) when the written lines differ from the model's: both texts must be read alike by both readers"""
    if c.get('_skip'):
        c['_unmodelled'] = True
        return None
    m = common.parse_sx(mo)
    v = common.parse_sx(io)
    if m[0] != 0 or v[0] != 0:
        return None
    mlines, mres, expected, wf = m[1]
    if _t(mlines) != _t(v[1][0]):
        LINES_DIFFER[0] += 1
        mtext = ''.join(''.join(chr(x) for x in l) + '\n' for l in mlines)
        r1, _ = impl_loads(mtext)
        if canon_res(common.parse_sx(r1)) != canon_res(mres):
            return 'the text written by the model is read differently by stv.loads and by the model reader'
        c2 = dict(text=c['_text'])
        r2 = common.run_model([lines_model_line(c2)])[0]
        if not c2.get('_skip') and canon_res(common.parse_sx(r2)) != canon_res(v[1][1]):
            return 'the text written by stv.dumps is read differently by stv.loads and by the model reader'
    if not wf:
        return None
    if not expected:
        return 'model: a well-formed election without an expected result'
    want = ('ok', canon_loaded(expected[0]))
    if canon_res(mres) != want:
        return 'MODEL violates its own round-trip theorem (C19_stv_roundtrip) on a well-formed election'
    if canon_res(v[1][1]) != want:
        return 'STV text does not load back unchanged (well-formed election): %s' % (c.get('_loadexc') or 'data differ')
    return None


def model_nontrivial(c):
    e = c['election']
    return bool(e['title'] or any(w for _, w in e['cands']) or any(w[0] != 'int' for _, w in e['votes']))


def model_cases(rng, gen_election, count, hostile=False, special=None):
    for _ in range(count):
        yield dict(stream='stv-model', election=gen_stv_case(rng, gen_election, hostile, special))


# ------------------------------------------------------------------------------------------------ parser stream
JUNK = list('0123456789 -".#=/XxEe\n_+') + ['NaN', 'abc', '99', '-', '  ', 'quota=', 'order=', 'candidate=', 'mandatory', 'end', 'X', '\t',
                                            '\u00b2', '\u0663', '\u00a0', '\x1c', '\u2003', '\u0130', '\u2460', '1_0', '3/2X', '1.5X', '1E2X', 'blt', '\r',
                                            '\x85', '\u212a']

SOUP = ['method=BC', 'method=blt', 'method=meek', 'method=GPCA2000', 'method=', 'quota=droop', 'quota=hare', 'quota=mandatory', 'quota=12',
        'quota=x', 'quota=\u0663', 'quota=\u00b2', 'quota=imperiali', 'quota=', 'seats=2', 'seats=x', 'seats=', 'seats= 1_0', 'seats=-3',
        'seats=+\u0663', 'seats=1__0', 'seats=\u00b2', 'seats=1 0', 'random=non', 'random=7', 'random=x', 'random=\u00b2', 'random=', 'random=-1',
        'title=T', 'title=U', 'title=', 'title =V', 'order=a b', 'order=b z', 'order=b a b', 'order=', 'candidate=a Ann', 'candidate=b Bob',
        'candidate=c', 'candidate=a Zed', 'candidate= d  Dee Dee', 'withdrawn=c Cy', 'candidate=3 Three', 'candidate=- Dash', 'candidate=aX Ax',
        'candidate=end End', 'ballots=2', 'ballots=1', 'ballots=0', 'ballots=3', 'ballots=blt', 'ballots=x', 'ballots=\u00b2', 'ballots=\u0662',
        'ballots= 2', 'ballots=02', 'a b', 'b', 'a', 'c a', '2X a b', '1/0X a', '1.xX b', '3/2X b a', '1_0/3X a', '-1/2X a', '+3/2X b', '1/2/3X a',
        '\u0663X a', '\u00b2X a', '1E2X a', '1e-2X b', '.5X a', '5.X a', '-2X a', '1_0X a', 'NaNX a', 'InfX a', '1 2', '2 1', '- 1', '1 1', '1 -', '2 - 1',
        '\u0661 \u0662', '\u00b2 1', '1 2 3', '3 1 2 0', '0', '"A"', '"B"', 'end', ' end ', 'end #', 'End', '', '   ', '# comment', 'foo=bar', 'nonsense',
        '-2', '2X', 'X a', 'X', '1.5X a', 'aX', 'aX b', '1 1\n1 1 0\n0\n"A"', '2 1\n1 1 2 0\n-2\n0', 'a\u00a0b', 'quota=droop # x', '#', 'a # b']


def mutate(rng, text):
    lines = text.split('\n')
    r = rng.random()
    if r < 0.2:
        return text[:rng.randint(0, max(0, len(text) - 1))]
    if r < 0.33 and lines:
        lines.pop(rng.randrange(len(lines)))
        return '\n'.join(lines)
    if r < 0.43 and lines:
        lines.insert(rng.randrange(len(lines)), lines[rng.randrange(len(lines))])
        return '\n'.join(lines)
    if r < 0.5:
        rng.shuffle(lines)
        return '\n'.join(lines)
    if r < 0.58 and lines:
        lines.insert(rng.randrange(len(lines) + 1), rng.choice(SOUP))
        return '\n'.join(lines)
    out = list(text)
    for _ in range(rng.randint(1, 3)):
        k = rng.randint(0, max(0, len(out) - 1)) if out else 0
        op = rng.random()
        junk = rng.choice(JUNK)
        if op < 0.4 and out:
            out[k] = junk
        elif op < 0.7:
            out.insert(k, junk)
        elif out:
            del out[k]
    return ''.join(out)


def structured_text(rng):
    """a header in the usual order with variants of every line, then ballots over the declared nicknames: mostly valid"""
    pick = rng.choice
    deco = lambda l: pick(['', '', '', ' ', '\t', '\u00a0']) + l + pick(['', '', '', ' ', ' # note', '#x', '\u2003'])
    nicks = rng.sample(['a', 'b', 'c', 'dd', 'e_1', '7', '\u00e9', 'end', 'x', 'ax', '-'], rng.randint(1, 4))
    head = [pick(['method=BC'] * 14 + ['method=GPCA2000', 'method=GPCA2000', 'method=blt', 'method=blt', 'method=bc', 'method= BC'])]
    r = rng.random()
    qs = ['quota=droop', 'quota=hare', 'quota=25', 'quota=\u0663', 'quota=imperiali', 'quota=hare_rounded', 'quota=droop', 'quota=hare',
          'quota=\u00b2', 'quota=1\u00b3']
    if r < 0.55:
        head.append(pick(qs))
    elif r < 0.8:
        head += rng.sample([pick(qs), 'quota=mandatory'], 2)
    elif r < 0.9:
        head += rng.sample(qs + ['quota=mandatory', 'quota= droop', 'quota=mandatory'], pick([0, 2, 2, 3]))
    if rng.random() < 0.4:
        head.append(pick(['seats=2', 'seats= 3', 'seats=-1', 'seats=+4', 'seats=1_0', 'seats=\u0662', 'seats=', 'seats=two', 'seats=0']))
    if rng.random() < 0.3:
        head.append(pick(['random=non', 'random=42', 'random=\u0664\u0662', 'random=', 'random=no', 'random=-1', 'random=1_0', 'random=\u2460', 'random=7\u00b2']))
    if rng.random() < 0.4:
        head.append(pick(['title=Some title', 'title=', 'title=a=b', 'title=None', 'title= padded ']))
    rng.shuffle(head)
    for k, n in enumerate(nicks):
        head.append('%s=%s %s' % (pick(['candidate', 'candidate', 'withdrawn']), n, pick(['Ann', 'Bob Lee', 'C.', 'D = d', '\u00c9mile Z'])))
    ordered = rng.random() < 0.3
    order = list(nicks)
    if ordered:
        rng.shuffle(order)
        if rng.random() < 0.2:
            order = order[:-1] + [pick(order)]
        head.append('order=' + ' '.join(order))
    if rng.random() < 0.1:
        head.insert(rng.randrange(len(head)), pick(['', '# c', 'candidate=a Again', 'foo=1', 'method=BC']))
    body = []
    for _ in range(rng.randint(0, 5)):
        mult = pick(['', '', '', '', '2X ', '2X ', '3/2X ', '0.5X ', '1E1X ', '\u0663X ', '1_0/4X ', '1X ', '0X ', '-3/2X '] * 3 + ['X ', '-1X ', '1/0X '])
        if ordered:
            m = len(order)
            ranks = list(range(1, m + 1))
            rng.shuffle(ranks)
            items = [str(r) if rng.random() < 0.7 else '-' for r in ranks]
            if rng.random() < 0.5:      # make the ranks used consecutive from 1
                used = sorted(int(x) for x in items if x != '-')
                items = [str(used.index(int(x)) + 1) if x != '-' else '-' for x in items]
            if rng.random() < 0.1:
                items.append(pick(['1', '-', 'x', '\u0661', '\u00b2']))
            if rng.random() < 0.05 and items:
                items[rng.randrange(len(items))] = pick(['\u00b2', '\u2461', '\u0661'])
        else:
            items = [pick(nicks) for _ in range(rng.randint(0, 3))]
            if rng.random() < 0.07:
                items.append('zz')
        line = mult + ' '.join(items)
        body.append(line if line.strip() else '1X')
    n = len(body)
    if rng.random() < 0.12:
        body.insert(rng.randrange(len(body) + 1), '')
    count = pick([str(n)] * 8 + [str(n + 1), '0%d' % n, ''.join(chr(0x660 + int(d)) for d in str(n)), ' %d' % n, '\u00b2', '%d\u00b9' % n])
    tail = [pick(['end', 'end', 'end', ' end', 'end ', 'END', 'end # x'])] if rng.random() < 0.93 else []
    extra = [pick(['', 'junk', 'end', 'a b'])] if rng.random() < 0.3 else []
    return '\n'.join([deco(l) for l in head] + [deco('ballots=' + count)] + body + tail + extra)


def gen_text(rng, gen_election, build_plain):
    """kind, text"""
    import votelib, votelib.io.stv as stv, votelib.io.blt as blt
    kind = rng.choice(['written', 'written', 'written-intact', 'soup', 'structured', 'structured', 'ordered', 'blt-mode', 'repeats'])
    if kind == 'soup':
        return kind, '\n'.join(rng.choice(SOUP) for _ in range(rng.randint(1, 10)))
    if kind == 'structured':
        return kind, structured_text(rng)
    e = gen_stv_case(rng, gen_election)
    objs, votes, system = build(e)
    names = [o if isinstance(o, str) else o.name for o in objs]
    if kind == 'ordered':
        m = len(objs)
        order = list(range(m))
        if rng.random() < 0.4:
            rng.shuffle(order)
        body = []
        for r, w in votes.items():
            pref = '' if (w == 1 and rng.random() < 0.7) else '%sX ' % w
            body.append(pref + ' '.join(str(r.index(objs[k]) + 1) if objs[k] in r else '-' for k in order))
        text = '\n'.join(['method=BC', 'quota=droop'] + ['%s=c%d %s' % (rng.choice(['candidate', 'withdrawn']), k, nm) for k, nm in enumerate(names)]
                         + ['order=' + ' '.join('c%d' % k for k in order), 'ballots=%d' % len(votes)] + body + ['end'])
    elif kind == 'blt-mode':
        head = ['method=blt'] + [l for l in rng.sample(['seats=3', 'title=Head', 'random=non', 'random=5', 'candidate=a Ann', 'quota=droop', 'quota=zz',
                                                        'order=a', '# c', ''], rng.randint(0, 3))] + ['ballots=blt']
        if rng.random() < 0.3:
            head = ['method=blt', 'ballots=blt']
        try:
            body = blt.dumps(votes, e['seats'], objs, e['title'])
        except Exception:   # noqa
            body = '1 1\n0\n'
        text = '\n'.join(head) + '\n' + body
    elif kind == 'repeats':          # the same ranking several times, multipliers of mixed types (short: sums stay exact)
        nick = ['c%d' % k for k in range(len(objs))]
        body = []
        for _ in range(rng.randint(1, 6)):
            r = rng.sample(nick, rng.randint(0, min(2, len(nick))))
            mult = rng.choice(['', '', '2X ', '3/2X ', '1.5X ', '0X ', '1E1X ', '-1/2X ', '\u0663X ', '1_0/4X '])
            body.append((mult + ' '.join(r)) if (mult or r) else '1X')
        text = '\n'.join(['method=BC', 'quota=hare'] + ['candidate=%s %s' % (nick[k], nm) for k, nm in enumerate(names)]
                         + ['ballots=%d' % len(body)] + body + ['end'])
    else:
        try:
            with warnings.catch_warnings():
                warnings.simplefilter('ignore')
                text = stv.dumps(votes, system, objs, e['param_seats'], e['output_method'])
        except Exception:   # noqa
            text = 'method=BC\nquota=droop\nballots=0\nend\n'
    if kind == 'written-intact' or (kind != 'written' and rng.random() < 0.35):
        return kind, text
    for _ in range(rng.choice([1, 1, 2])):
        text = mutate(rng, text)
    return kind, text


def lines_cases(rng, gen_election, count):
    for _ in range(count):
        kind, text = gen_text(rng, gen_election, None)
        yield dict(stream='stv-lines', kind=kind, text=text)


def blt_result_wire(lines):
    import votelib.io.blt as blt
    try:
        votes, seats, cands, title = blt.load_lines(iter(lines))
    except Exception as exc:   # noqa
        if isinstance(exc, common.ImplTimeout):
            raise
        return '(1 %d)' % common.classify_exc(exc)
    pos = {id(c): i + 1 for i, c in enumerate(cands)}
    bl = ' '.join('((%s) %s)' % (' '.join(str(pos[id(c)]) for c in r), q_wire(w)) for r, w in votes.items())
    cl = ' '.join('((0 %s) %d)' % (wstr(c.name), int(bool(c.withdrawn))) for c in cands)
    if not isinstance(seats, int):
        raise TooBig('seats')
    return '(0 ((%s) %d (%s) %s))' % (bl, seats, cl, optstr_wire(title))


def lines_model_line(c):
    lines = c['text'].split('\n')
    table = ''
    try:
        if 'blt' in c['text']:
            table = ' '.join('(%d %s)' % (k, blt_result_wire(lines[len(lines) - k:])) for k in range(len(lines) + 1))
        env = uenv_wire(lines, mult_candidates(lines))
    except (TooBig, common.FloatLeak, TypeError):
        c['_skip'] = True
        env, table = '(() ())', ''
    return '%d (0 %s (%s) (%s))' % (U0 + 5, env, table, ' '.join(wstr(l) for l in lines))


def lines_impl(c):
    res, exc = impl_loads(c['text'])
    if exc:
        c['_loadexc'] = exc
    return res


def lines_canon(c, wire):
    if c.get('_skip'):
        return ('same',)
    return canon_res(common.parse_sx(wire))


def lines_spec(c, io, mo):
    if c.get('_skip'):
        c['_unmodelled'] = True
    v = common.parse_sx(io)
    if v[0] == 1 and v[1] != E['PARSE']:
        return 'stv.loads raises %s instead of STVParseError' % c.get('_loadexc')
    if v[0] == 0 and c.get('must_reject'):
        return 'malformed text is accepted and yields data: %s' % c['must_reject']
    return None


def lines_nontrivial(c):
    return True


# ------------------------------------------------------------------------------------------------ closed tables
def check_tables(ctx):
    """the tables Model/StvFile.v fixes in Coq, against the running interpreter / library (exhaustive over code points)"""
    import votelib.io.stv as stv, votelib.component.quota as quota
    out = common.run_model(['%d ()' % (U0 + 6)])[0]
    v = common.parse_sx(out)
    spaces, qnames, supported = v[1]
    dec = lambda l: ''.join(chr(x) for x in l)
    ctx.evaluations += 1
    ctx.dist['stream:stv-tables'] += 1
    rng_all = range(0x110000)
    want_spaces = [c for c in rng_all if chr(c).isspace()]
    problems = []
    if spaces != want_spaces:
        problems.append('white space table: model %r, interpreter %r' % (spaces, want_spaces))
    up_e = [c for c in rng_all if 'E' in chr(c).upper()]
    if up_e != [69, 101]:
        problems.append("characters whose upper() contains 'E': %r (the model tests e / E)" % up_e)
    if ctx.tier != 'quick':
        bad = [c for c in rng_all if not 0xD800 <= c < 0xE000 and ((chr(c).strip() == '') != chr(c).isspace() or (('a' + chr(c) + 'b').split() == ['a', 'b']) != chr(c).isspace()
                                                                  or bool(re.match(r'\s', chr(c))) != chr(c).isspace())]
        if bad:
            problems.append('strip / split / \\s disagree with isspace on %r' % bad[:5])
        bad = [c for c in rng_all if bool(re.match(r'\d', chr(c))) != chr(c).isdecimal()]
        if bad:
            problems.append('re \\d differs from isdecimal on %r' % bad[:5])
    if sorted(map(dec, qnames)) != sorted(quota.QUOTAS):
        problems.append('quota registry: model %r, library %r' % (sorted(map(dec, qnames)), sorted(quota.QUOTAS)))
    if sorted(map(dec, supported)) != sorted(stv.SUPPORTED_QUOTAS):
        problems.append('SUPPORTED_QUOTAS: model %r, library %r' % (sorted(map(dec, supported)), sorted(stv.SUPPORTED_QUOTAS)))
    if sorted(stv.SYSTEM_KEYS) != sorted(['title', 'method', 'quota', 'seats', 'random']):
        problems.append('SYSTEM_KEYS: %r' % stv.SYSTEM_KEYS)
    for p in problems:
        ctx.violations.append(dict(stream='stv-tables', case=dict(stream='stv-tables'), impl='interpreter / library', model='Model/StvFile.v',
                                   why='a closed table of the STV model differs from the running code: ' + p))
    ctx.streams['stv-tables'] = dict(cases=1, deviations=len(problems))


DIFF = {
    'stv-model': dict(model_line=model_line, impl=model_impl, canon=model_canon, nontrivial=model_nontrivial, spec=model_spec),
    'stv-lines': dict(model_line=lines_model_line, impl=lines_impl, canon=lines_canon, nontrivial=lines_nontrivial, spec=lines_spec),
}
