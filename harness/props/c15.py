"""C15 - overhang handling: AllowOverhang, LevelOverhang, AdjustedSeatCount."""
from fractions import Fraction
import common
from common import sx, q, ok, cname, cnum
from units import U

ID = 'C15'
LEVEL = 'proof'
TIE = {'core.AllowOverhang / LevelOverhang / AdjustedSeatCount': 'correspondence',
       'proportional.HighestAverages / LargestRemainder (inner evaluators)': 'models of C01 / C02',
       'core.LevelOverhangByConstituency, MultistageDistributor wrapping': 'implementation-side clauses only'}
RULE = ('corpus; second-vote dictionaries over 2..6 parties, house 1..40, direct-seat maps with sum <= house (parties outside the tier, '
        'parties without votes, zero entries), proportional evaluator in {D\'Hondt, Sainte-Lague, Hare largest remainder}; AllowOverhang and '
        'LevelOverhang inside AdjustedSeatCount, also wrapped in MultistageDistributor with a first-stage fixed result (NZ/DE shape). '
        'Compared with the model (adjustment and final gains) and judged by the declarative clauses on the implementation: adjustment >= 0, '
        'zero without overhang, level minimality against an independent search, every party keeps its direct seats, house grows by exactly '
        'the adjustment. non-trivial = overhang present or a party outside the tier; distinct by case hash')
PARTIAL = ['LevelOverhangByConstituency: exercised through the DE-style wrapper with implementation-side clauses only (no model)']
TRUSTED = []
DIV = {1: 'd_hondt', 2: 'sainte_lague'}


def ev_sx(e):
    return '(0 (%d))' % e[1] if e[0] == 'ha' else '(1)'


def evaluator(e):
    import votelib.evaluate.proportional as prop
    if e[0] == 'ha':
        return prop.HighestAverages(DIV[e[1]])
    return prop.LargestRemainder('hare')


def model_line(c):
    return '%d (%d %s %s %d %s)' % (U['overhang'], 0 if c['kind'] == 'allow' else 1, ev_sx(c['ev']),
                                    sx([[k, v] for k, v in c['votes']]), c['n'], sx([[k, v] for k, v in c['prev']]))


def run_impl(c):
    import votelib.evaluate.core as core
    ev = evaluator(c['ev'])
    calc = core.AllowOverhang(ev) if c['kind'] == 'allow' else core.LevelOverhang(ev)
    votes = {cname(k): v for k, v in c['votes']}
    prev = {cname(k): v for k, v in c['prev']}
    adj = calc.calculate(votes, c['n'], prev_gains=prev)
    if c.get('wrap'):
        ms = core.MultistageDistributor([core.FixedSeatCount(_Fixed(prev), 0) if False else _FixedStage(prev),
                                         core.AdjustedSeatCount(calc, ev)])
        total = ms.evaluate(votes, c['n'])
        final = {k: total.get(k, 0) - prev.get(k, 0) for k in total}
    else:
        final = core.AdjustedSeatCount(calc, ev).evaluate(votes, c['n'], prev_gains=prev)
    return adj, final


class _FixedStage:
    """first stage of the NZ/DE shape: hands out the direct seats"""
    def __init__(self, seats):
        self.seats = seats

    def evaluate(self, votes, n_seats, prev_gains={}, max_seats={}):
        return dict(self.seats)


def impl(c):
    import votelib.evaluate.core as core
    adj, final = run_impl(c)
    if any(isinstance(k, core.Tie) for k in final):
        return '(5)'
    return ok([adj, [[cnum(k), v] for k, v in final.items() if v]])


def canon(c, wire):
    v = common.parse_sx(wire)
    if v[0] == 4:
        return ('unmodelled',)
    if v[0] == 5:
        return ('final-refused',)
    if v[0] != 0:
        return ('final-refused',) if v[1] == common.E['VSE'] else ('err', v[1])
    adj, final = v[1]
    if final == [-1]:
        return ('final-refused',)          # the final distribution is refused (over-award) or tied
    return ('ok', adj, tuple(sorted((k, s) for k, s in final if s)))


def prop(c, n):
    """the inner proportional evaluator on the implementation side (no previous gains)"""
    import votelib.evaluate.core as core
    r = evaluator(c['ev']).evaluate({cname(k): v for k, v in c['votes']}, n)
    if any(isinstance(k, core.Tie) for k in r):
        return None
    return {cnum(k): v for k, v in r.items()}


def spec(c, io, mo):
    v = common.parse_sx(io)
    if v[0] in (4, 5):
        return None
    base = prop(c, c['n'])
    prev = dict(c['prev'])
    if v[0] != 0:
        if v[1] in (common.E['VSE'],) and c['ev'][0] == 'lr':
            return None             # Hare LR legitimately refuses when quota seats + previous gains exceed the house
        if v[1] == common.E['TIMEOUT']:
            c['_class'] = 'timeout'
            return None
        c['_class'] = 'crash'
        return 'seat-count adjustment raises %s' % c.get('_exc')
    adj, final = v[1]
    final = dict(final)
    if base is None:
        return None
    if adj < 0:
        return 'negative adjustment %d' % adj
    tier_over = any(prev.get(p, 0) > s for p, s in base.items())
    over_any = any(s > base.get(p, 0) for p, s in prev.items())
    if c['kind'] == 'allow':
        want = sum(max(0, s - base.get(p, 0)) for p, s in prev.items())
        if adj != want:
            c['_class'] = 'allow'
            return 'AllowOverhang reports %d, overhang seats are %d' % (adj, want)
    else:
        if not tier_over and adj != 0:
            c['_class'] = 'level-zero'
            return 'levelling reports %d although no tier party has overhang' % adj
        if tier_over:
            drop = sum(s for p, s in prev.items() if p not in base)
            mins = {p: max(prev.get(p, 0), s) for p, s in base.items()}
            a = 1
            while a < 400:
                r = prop(c, c['n'] - drop + a)
                if r is None:
                    return None
                if all(r.get(p, 0) >= m for p, m in mins.items()):
                    break
                a += 1
            want = a + drop - c['n'] + (c['n'] - drop) - (c['n'] - drop) + 0
            want = (c['n'] - drop + a) + drop - c['n']
            if adj != want:
                c['_class'] = 'level-min'
                return 'levelling reports %d, the smallest sufficient enlargement is %d' % (adj, want)
    for p, s in prev.items():
        if final.get(p, 0) < 0:
            return 'party %d loses direct seats' % p
    if sum(final.values()) + sum(prev.values()) != c['n'] + adj and c['ev'][0] == 'ha' and any(vv > 0 for _, vv in c['votes']):
        c['_class'] = 'house'
        return 'house is %d, expected %d + %d' % (sum(final.values()) + sum(prev.values()), c['n'], adj)
    return None


def known_class(c, io, mo):
    return None


def nontrivial(c):
    return bool(c['prev'])


def gen(rng, count):
    for _ in range(count):
        m = rng.randint(2, 6)
        ids = list(range(1, m + 1))
        votes = [[k, rng.choice([rng.randint(1, 200), rng.randint(1, 20), 10 ** 6 + rng.randint(0, 9)])] for k in ids]
        n = rng.randint(1, 40)
        prev, budget = [], rng.randint(0, n)
        pool = ids + ([m + 1] if rng.random() < 0.3 else [])
        for k in rng.sample(pool, rng.randint(0, len(pool))):
            s = rng.randint(0, min(budget, 6))
            budget -= s
            prev.append([k, s])
        ev = rng.choice([['ha', 1], ['ha', 2], ['lr']])
        yield dict(unit='overhang', kind=rng.choice(['allow', 'level']), ev=ev, votes=votes, n=n, prev=prev,
                   wrap=rng.random() < 0.25)


def gen_alabama(rng, count):
    """Hare largest remainder profiles with an Alabama paradox near the house size, plus overhang"""
    import votelib.evaluate.proportional as prop
    lr = prop.LargestRemainder('hare')
    made, tries = 0, 0
    while made < count and tries < count * 60:
        tries += 1
        m = rng.randint(3, 4)
        votes = [[k, rng.randint(5, 70) * 10] for k in range(1, m + 1)]
        n = rng.randint(4, 14)
        pv = {cname(k): v for k, v in votes}
        try:
            seq = [lr.evaluate(pv, h) for h in range(n, n + 4)]
        except Exception:   # noqa
            continue
        paradox = any(b.get(p, 0) < a.get(p, 0) for a, b in zip(seq, seq[1:]) for p in pv)
        if not paradox:
            continue
        base = seq[0]
        big = max(pv, key=pv.get)
        prev = [[common.cnum(big), base.get(big, 0) + rng.randint(1, 2)]]
        made += 1
        yield dict(unit='overhang', kind='level', ev=['lr'], votes=votes, n=n, prev=prev, wrap=False)


def by_constituency_checks(ctx, rng, count):
    """LevelOverhangByConstituency against an independent search (inner evaluators used as black boxes)"""
    import votelib.convert, votelib.evaluate.core as core, votelib.evaluate.proportional as prop
    bad = 0
    for i in range(count):
        ctx.evaluations += 1
        ev = prop.HighestAverages(rng.choice(['sainte_lague', 'd_hondt']))
        parties = ['A', 'B', 'C', 'D'][:rng.randint(2, 4)]
        ctys = ['N', 'S', 'W'][:rng.randint(2, 3)]
        votes = {c: {p: rng.choice([rng.randint(10, 500), rng.randint(0, 60)]) for p in parties} for c in ctys}
        for c in ctys:
            if sum(votes[c].values()) == 0:
                votes[c][parties[0]] = 10
        cty_seats = {c: rng.randint(2, 7) for c in ctys}
        direct = {c: {p: rng.randint(0, 2) for p in rng.sample(parties + ['IND'], rng.randint(0, len(parties)))} for c in ctys}
        direct = {c: {p: s for p, s in d.items() if s} for c, d in direct.items()}
        n_seats = sum(cty_seats.values())
        case = dict(votes=votes, cty_seats=cty_seats, direct=direct)
        try:
            cty_prop = {c: ev.evaluate(votes[c], cty_seats[c]) for c in ctys}
            if any(isinstance(k, core.Tie) for r in cty_prop.values() for k in r):
                continue
            minima = {}
            for c, res in cty_prop.items():
                for p, sres in res.items():
                    minima[p] = minima.get(p, 0) + max(direct.get(c, {}).get(p, 0), sres)
            dt = {}
            for d in direct.values():
                for p, sd in d.items():
                    dt[p] = dt.get(p, 0) + sd
            drop = sum(sd for p, sd in dt.items() if p not in minima)
            nat_votes = votelib.convert.VoteTotals().convert(votes)
            house = n_seats - drop
            tie = False
            for _ in range(300):
                nat = ev.evaluate(nat_votes, house)
                if any(isinstance(k, core.Tie) for k in nat):
                    tie = True
                    break
                if all(nat.get(p, 0) >= mm for p, mm in minima.items()):
                    break
                house += 1
            if tie:
                continue
            want = house + drop - n_seats
            r = common.call_impl(lambda: core.LevelOverhangByConstituency(
                constituency_evaluator=core.ByConstituency(ev, apportioner=cty_seats), overall_evaluator=ev,
            ).calculate(votes, n_seats, prev_gains=direct), 10)
        except Exception as e:   # noqa
            continue
        if nontrivial(dict(prev=[1])):
            ctx.nontrivial.add(common.case_hash(case))
        if i % 5 == 0:
            # default overall evaluator (sum of the constituency results): must answer with a non-negative adjustment
            r2 = common.call_impl(lambda: core.LevelOverhangByConstituency(
                constituency_evaluator=core.ByConstituency(ev, apportioner=ev)).calculate(votes, n_seats, prev_gains=direct), 10)
            if not (r2[0] == 'ok' and r2[1] >= 0) and not (r2[0] == 'err' and r2[1] in (common.E['TIMEOUT'], common.E['VSE'], common.E['VALUE'])):  # VALUE: house 0
                bad += 1
                ctx.violations.append(dict(stream='by-constituency', case=dict(case, overall_evaluator=None), impl=str(r2), model='n/a',
                                           why='LevelOverhangByConstituency without overall_evaluator: %s' % (r2,)))
        got = r[1] if r[0] == 'ok' else ('error', r[2])
        if got != want:
            bad += 1
            ctx.violations.append(dict(stream='by-constituency', case=case, impl=str(got), model='reference %d' % want,
                                       why='LevelOverhangByConstituency reports %s, the smallest admissible enlargement is %d' % (got, want)))
    ctx.streams['by-constituency'] = dict(cases=count, deviations=bad)


def corpus():
    import os, json, glob
    for p in sorted(glob.glob(os.path.join(common.VERIF, 'corpus', ID, '*.json'))):
        yield json.load(open(p))


def explore(ctx, widen=1):
    kw = dict(canon=canon, nontrivial=nontrivial, spec=spec, known_class=known_class, limit=10)
    ctx.differential('corpus', corpus(), model_line, impl, **kw)
    ctx.differential('random', gen(ctx.rng, ctx.n(1500, 20000) * widen), model_line, impl, **kw)
    ctx.differential('alabama', gen_alabama(ctx.rng, ctx.n(300, 3000) * widen), model_line, impl, **kw)
    by_constituency_checks(ctx, ctx.rng, ctx.n(400, 5000))


def replay(ctx, case, stream=None):
    ctx.differential('replay', [case], model_line, impl, canon=canon, nontrivial=nontrivial, spec=spec, known_class=known_class)
