"""C15 - overhang handling: AllowOverhang, LevelOverhang, AdjustedSeatCount."""
from fractions import Fraction
import common
from common import sx, q, ok, cname, cnum
from units import U, BLOCK
from common import err

ID = 'C15'
ZERO_LABELS = True      # a share of the cases is asked with candidates numbered from 0 (harness/common.py LABEL_MODE)
LEVEL = 'proof'
TIE = {'core.AllowOverhang / LevelOverhang / AdjustedSeatCount': 'correspondence',
       'proportional.HighestAverages / LargestRemainder (inner evaluators)': 'models of C01 / C02',
       'core.LevelOverhangByConstituency.calculate, core.ByConstituency.evaluate, AdjustedSeatCount + ByParty in a depth-2 '
       'MultistageDistributor (DE shape)': 'correspondence (Model/OverhangByC.v, units 250-252) + implementation-side clauses'}
RULE = ('corpus; second-vote dictionaries over 2..6 parties, house 1..40, direct-seat maps with sum <= house (parties outside the tier, '
        'parties without votes, zero entries), proportional evaluator in {D\'Hondt, Sainte-Lague, Hare largest remainder}; AllowOverhang and '
        'LevelOverhang inside AdjustedSeatCount, also wrapped in MultistageDistributor with a first-stage fixed result (NZ/DE shape). '
        'Streams random / alabama: every case on freshly built objects. Stream reuse: sequences of 2..5 elections answered by ONE inner '
        'evaluator, ONE calculator, ONE AdjustedSeatCount and ONE MultistageDistributor; an election differs from its predecessor in one '
        'aspect (vote counts with the same parties / house / direct seats, one party\'s votes, two votes swapped, house size, direct-seat '
        'counts, direct-seat map, dictionary order, wrapping, party set) or repeats an earlier one; every call of a sequence is a case '
        '(its history is part of the case and is re-run on replay). '
        'Every case compared with the model (adjustment and final gains) and judged by the declarative clauses on the implementation: '
        'adjustment >= 0, zero without overhang, level minimality against an independent search, every party keeps its direct seats, house '
        'grows by exactly the adjustment. Stream by-constituency: LevelOverhangByConstituency alone, and inside AdjustedSeatCount(.., ByParty) '
        'in a depth-2 MultistageDistributor (DE shape), on fresh objects and on objects reused for 2..4 elections, against an independent '
        'search (minimum of a tier party = sum over constituencies of max(direct, proportional)). '
        'Streams byc-corpus / byc-model / byc-boundary: the extracted by-constituency model against LevelOverhangByConstituency.calculate, '
        'against MultistageDistributor([first round seats, AdjustedSeatCount(calculator, ByParty)], depth=2) and against ByConstituency.evaluate: '
        '1..3 constituencies with 0..7 seats, 2..4 parties (+ an independent with first round seats only, + first round seats in a constituency '
        'without votes), D\'Hondt / Sainte-Lague (possibly different for constituency evaluator, overall evaluator, ByParty, allocator), apportioner '
        'dictionary or evaluator, overall evaluator given or None, loop bound 0..80 compared exactly through a counting proxy, a quarter of the '
        'elections on objects that answered 1..2 elections before; boundary kinds: first round seats without votes, second round parties, Tie in a '
        'constituency, Ties in all constituencies alike, constituencies without seats, parties outside the tier using up the house. '
        'non-trivial = overhang present or a party outside the tier; distinct by case hash')
PARTIAL = ['LevelOverhangByConstituency: modelled and proved over arbitrary evaluators (C15_byc_*); no termination bound for its loop (refuted '
           'with a Tie key: C15_byc_terminates_refuted; otherwise out-of-fuel is excluded by hypothesis); max_seats not modelled; with parties '
           'outside the tier holding first round seats no theorem links the tested house n - drop + adj to the distributed house n + adj; '
           '"party totals = proportional distribution of the enlarged house" is proved for Tie-free results with all first round seats in the '
           'tier (C15_byc_final_totals); '
           'the implementation-side by-constituency stream does not judge elections with a tie inside the inner evaluator (the model streams do)']
TRUSTED = []
DIV = {1: 'd_hondt', 2: 'sainte_lague'}


def ev_sx(e):
    return '(0 (%d))' % e[1] if e[0] == 'ha' else '(1)'


def evaluator(e):
    import votelib.evaluate.proportional as prop
    if e[0] == 'ha':
        return prop.HighestAverages(DIV[e[1]])
    return prop.LargestRemainder('hare')


def model_line(c):
    return '%d (%d %s %s %d %s)' % (U['overhang'], 0 if c['kind'] == 'allow' else 1, ev_sx(c['ev']),
                                    sx([[k, v] for k, v in c['votes']]), c['n'], sx([[k, v] for k, v in c['prev']]))


def run_impl(c):
    """One evaluator object, one calculator object, one AdjustedSeatCount and one MultistageDistributor per case: the elections of
    c['history'] (if any) are evaluated on them first, in order, and their outcomes ignored; the answer is the one of the last call."""
    import votelib.evaluate.core as core
    ev = evaluator(c['ev'])
    calc = core.AllowOverhang(ev) if c['kind'] == 'allow' else core.LevelOverhang(ev)
    asc = core.AdjustedSeatCount(calc, ev)
    stage = _FixedStage({})
    ms = core.MultistageDistributor([stage, asc])

    def election(e):
        votes = {cname(k): v for k, v in e['votes']}
        prev = {cname(k): v for k, v in e['prev']}
        adj = calc.calculate(votes, e['n'], prev_gains=prev)
        if e.get('wrap'):
            stage.seats = prev
            total = ms.evaluate(votes, e['n'])
            final = {k: total.get(k, 0) - prev.get(k, 0) for k in total}
        else:
            final = asc.evaluate(votes, e['n'], prev_gains=prev)
        return adj, final

    for e in c.get('history', ()):
        try:
            election(e)
        except common.ImplTimeout:
            raise
        except Exception:   # noqa  an earlier election may be refused (tie, over-award); the object must still answer the next one
            pass
    return election(c)


class _FixedStage:
    """first stage of the NZ/DE shape: hands out the direct seats"""
    def __init__(self, seats):
        self.seats = seats

    def evaluate(self, votes, n_seats, prev_gains={}, max_seats={}):
        return dict(self.seats)


def impl(c):
    import votelib.evaluate.core as core
    adj, final = run_impl(c)
    if any(isinstance(k, core.Tie) for k in final):
        return '(5)'
    return ok([adj, [[cnum(k), v] for k, v in final.items() if v]])


def canon(c, wire):
    v = common.parse_sx(wire)
    if v[0] == 4:
        return ('unmodelled',)
    if v[0] == 5:
        return ('final-refused',)
    if v[0] != 0:
        return ('final-refused',) if v[1] == common.E['VSE'] else ('err', v[1])
    adj, final = v[1]
    if final == [-1]:
        return ('final-refused',)          # the final distribution is refused (over-award) or tied
    return ('ok', adj, tuple(sorted((k, s) for k, s in final if s)))


def prop(c, n):
    """the inner proportional evaluator on the implementation side (no previous gains)"""
    import votelib.evaluate.core as core
    r = evaluator(c['ev']).evaluate({cname(k): v for k, v in c['votes']}, n)
    if any(isinstance(k, core.Tie) for k in r):
        return None
    return {cnum(k): v for k, v in r.items()}


def spec(c, io, mo):
    v = common.parse_sx(io)
    if v[0] in (4, 5):
        return None
    base = prop(c, c['n'])
    prev = dict(c['prev'])
    if v[0] != 0:
        if v[1] in (common.E['VSE'],) and c['ev'][0] == 'lr':
            return None             # Hare LR legitimately refuses when quota seats + previous gains exceed the house
        if v[1] == common.E['TIMEOUT']:
            c['_class'] = 'timeout'
            return None
        c['_class'] = 'crash'
        return 'seat-count adjustment raises %s' % c.get('_exc')
    adj, final = v[1]
    final = dict(final)
    if base is None:
        return None
    if adj < 0:
        return 'negative adjustment %d' % adj
    tier_over = any(prev.get(p, 0) > s for p, s in base.items())
    over_any = any(s > base.get(p, 0) for p, s in prev.items())
    if c['kind'] == 'allow':
        want = sum(max(0, s - base.get(p, 0)) for p, s in prev.items())
        if adj != want:
            c['_class'] = 'allow'
            return 'AllowOverhang reports %d, overhang seats are %d' % (adj, want)
    else:
        if not tier_over and adj != 0:
            c['_class'] = 'level-zero'
            return 'levelling reports %d although no tier party has overhang' % adj
        if tier_over:
            drop = sum(s for p, s in prev.items() if p not in base)
            mins = {p: max(prev.get(p, 0), s) for p, s in base.items()}
            a = 1
            while a < 400:
                r = prop(c, c['n'] - drop + a)
                if r is None:
                    return None
                if all(r.get(p, 0) >= m for p, m in mins.items()):
                    break
                a += 1
            want = a + drop - c['n'] + (c['n'] - drop) - (c['n'] - drop) + 0
            want = (c['n'] - drop + a) + drop - c['n']
            if adj != want:
                c['_class'] = 'level-min'
                return 'levelling reports %d, the smallest sufficient enlargement is %d' % (adj, want)
    for p, s in prev.items():
        if final.get(p, 0) < 0:
            return 'party %d loses direct seats' % p
    if sum(final.values()) + sum(prev.values()) != c['n'] + adj and c['ev'][0] == 'ha' and any(vv > 0 for _, vv in c['votes']):
        c['_class'] = 'house'
        return 'house is %d, expected %d + %d' % (sum(final.values()) + sum(prev.values()), c['n'], adj)
    return None


def known_class(c, io, mo):
    return None


def nontrivial(c):
    return bool(c['prev'])


def gen(rng, count):
    for _ in range(count):
        m = rng.randint(2, 6)
        ids = list(range(1, m + 1))
        votes = [[k, rng.choice([rng.randint(1, 200), rng.randint(1, 20), 10 ** 6 + rng.randint(0, 9)])] for k in ids]
        n = rng.randint(1, 40)
        prev, budget = [], rng.randint(0, n)
        pool = ids + ([m + 1] if rng.random() < 0.3 else [])
        for k in rng.sample(pool, rng.randint(0, len(pool))):
            s = rng.randint(0, min(budget, 6))
            budget -= s
            prev.append([k, s])
        ev = rng.choice([['ha', 1], ['ha', 2], ['lr']])
        yield dict(unit='overhang', kind=rng.choice(['allow', 'level']), ev=ev, votes=votes, n=n, prev=prev,
                   wrap=rng.random() < 0.25)


ASPECTS = ['votes', 'votes', 'votes', 'votes', 'one-vote', 'swap-votes', 'n', 'prev-counts', 'prev-keys', 'order', 'repeat', 'back', 'wrap',
           'parties']


def _draw_prev(rng, pool, n):
    prev, budget = [], rng.randint(0, n)
    for k in rng.sample(pool, rng.randint(0, len(pool))):
        s = rng.randint(0, min(budget, 6))
        budget -= s
        prev.append([k, s])
    return prev


def gen_reuse(rng, count, dist=None):
    """Sequences of 2..5 elections evaluated one after the other on ONE evaluator / calculator / AdjustedSeatCount / MultistageDistributor
    (run_impl): every election of a sequence is a case of its own whose 'history' lists the elections the objects have already seen.
    An election differs from its predecessor in ONE aspect: the vote counts (same parties, same order, same house, same direct seats - the
    usual way an evaluator is reused: the next election), one party's votes, two parties' votes swapped, the house size, the direct-seat
    counts, the direct-seat map, the insertion order of the dictionaries, the wrapping, the party set; or it repeats the predecessor
    or an earlier election of the sequence."""
    import copy
    for _ in range(count):
        m = rng.randint(2, 6)
        ids = list(range(1, m + 1))
        lo, hi = rng.choice([(50, 999), (1, 200), (1, 20), (10 ** 6, 10 ** 6 + 9)])
        draw = lambda: rng.randint(lo, hi)
        n = rng.randint(1, 40)
        pool = ids + ([m + 1] if rng.random() < 0.3 else [])
        cur = dict(votes=[[k, draw()] for k in ids], n=n, prev=_draw_prev(rng, pool, n), wrap=rng.random() < 0.4)
        kind, ev = rng.choice(['allow', 'level']), rng.choice([['ha', 1], ['ha', 2], ['lr']])
        steps, varied = [cur], ['first']
        for _ in range(rng.randint(1, 4)):
            cur = copy.deepcopy(cur)
            a = rng.choice(ASPECTS)
            if a == 'votes':
                cur['votes'] = [[k, draw()] for k, _ in cur['votes']]
            elif a == 'one-vote':
                rng.choice(cur['votes'])[1] = draw()
            elif a == 'swap-votes':
                i, j = rng.sample(range(len(cur['votes'])), 2)
                cur['votes'][i][1], cur['votes'][j][1] = cur['votes'][j][1], cur['votes'][i][1]
            elif a == 'n':
                cur['n'] = rng.randint(max(1, sum(v for _, v in cur['prev'])), 40)
            elif a == 'prev-counts':
                budget = cur['n']
                for kv in cur['prev']:
                    kv[1] = rng.randint(0, min(budget, 6))
                    budget -= kv[1]
            elif a == 'prev-keys':
                ks = [k for k, _ in cur['votes']]
                cur['prev'] = _draw_prev(rng, ks + ([max(ks) + 1] if rng.random() < 0.3 else []), cur['n'])
            elif a == 'order':
                rng.shuffle(cur['votes'])
                rng.shuffle(cur['prev'])
            elif a == 'back':
                cur = copy.deepcopy(rng.choice(steps))
            elif a == 'wrap':
                cur['wrap'] = not cur['wrap']
            elif a == 'parties':
                ks = [k for k, _ in cur['votes']]
                if len(ks) > 2 and rng.random() < 0.5:
                    cur['votes'].remove(rng.choice(cur['votes']))
                elif len(ks) < 6:
                    cur['votes'].append([max(ks + [k for k, _ in cur['prev']]) + 1, draw()])
            steps.append(cur)
            varied.append(a)
        for i, e in enumerate(steps):
            if dist is not None:
                dist['reuse-varied:' + varied[i]] += 1
            yield dict(unit='overhang', kind=kind, ev=ev, votes=e['votes'], n=e['n'], prev=e['prev'], wrap=e['wrap'],
                       history=steps[:i], varied=varied[i])


def gen_alabama(rng, count):
    """Hare largest remainder profiles with an Alabama paradox near the house size, plus overhang"""
    import votelib.evaluate.proportional as prop
    lr = prop.LargestRemainder('hare')
    made, tries = 0, 0
    while made < count and tries < count * 60:
        tries += 1
        m = rng.randint(3, 4)
        votes = [[k, rng.randint(5, 70) * 10] for k in range(1, m + 1)]
        n = rng.randint(4, 14)
        pv = {cname(k): v for k, v in votes}
        try:
            seq = [lr.evaluate(pv, h) for h in range(n, n + 4)]
        except Exception:   # noqa
            continue
        paradox = any(b.get(p, 0) < a.get(p, 0) for a, b in zip(seq, seq[1:]) for p in pv)
        if not paradox:
            continue
        base = seq[0]
        big = max(pv, key=pv.get)
        prev = [[common.cnum(big), base.get(big, 0) + rng.randint(1, 2)]]
        # several parties short at once: at a paradox step h -> h+1 two parties gain a seat each (a third loses one); give
        # each of them one direct seat more than its share at some house size before the step, so that the loop meets a
        # size where more seats are missing than the enlargement that repairs it
        steps = [i for i, (a, b) in enumerate(zip(seq, seq[1:])) if sum(1 for p in pv if b.get(p, 0) > a.get(p, 0)) >= 2]
        if steps and rng.random() < 0.7:
            i = steps[0]
            gain = [p for p in pv if seq[i + 1].get(p, 0) > seq[i].get(p, 0)]
            prev2 = [[common.cnum(p), seq[i + 1].get(p, 0)] for p in gain]
            if sum(s for _, s in prev2) <= n:
                prev = prev2
        yield dict(unit='overhang', kind='level', ev=['lr'], votes=votes, n=n, prev=prev, wrap=False)


def bc_reference(ev, e, cty_seats):
    """independent search for one by-constituency election (inner evaluator used as a black box, on an object of its own):
    None when a tie / refusal of the inner evaluator leaves the answer open, else (smallest admissible enlargement, seats of parties
    outside the tier, national distribution of the enlarged house)"""
    import votelib.convert, votelib.evaluate.core as core
    votes, direct = e['votes'], e['direct']
    n_seats = sum(cty_seats.values())
    try:
        cty_prop = {c: ev.evaluate(votes[c], cty_seats[c]) for c in votes}
        if any(isinstance(k, core.Tie) for r in cty_prop.values() for k in r):
            return None
        # tier = parties with a proportional seat in some constituency; a tier party's minimum is the sum over ALL constituencies of
        # max(direct seats, proportional seats) there - also where it has direct seats but no proportional seat
        tier = {p for res in cty_prop.values() for p, sres in res.items() if sres}
        minima = {p: sum(max(direct.get(c, {}).get(p, 0), cty_prop[c].get(p, 0)) for c in votes) for p in tier}
        drop = sum(sd for d in direct.values() for p, sd in d.items() if p not in tier)
        nat_votes = votelib.convert.VoteTotals().convert(votes)
        house = n_seats - drop
        for _ in range(300):
            nat = ev.evaluate(nat_votes, house)
            if any(isinstance(k, core.Tie) for k in nat):
                return None
            if all(nat.get(p, 0) >= mm for p, mm in minima.items()):
                return house + drop - n_seats, drop, nat
            house += 1
    except Exception:   # noqa
        return None
    return None


def bc_check(ctx, case):
    """One by-constituency case: ONE LevelOverhangByConstituency object, ONE AdjustedSeatCount around it (DE shape: ByParty as the
    evaluator) and ONE MultistageDistributor answer the elections of case['history'] first (outcomes ignored) and then the case's own
    election, which is judged.  Returns the number of deviations reported."""
    import votelib.evaluate.core as core, votelib.evaluate.proportional as prop
    ev = prop.HighestAverages(case['ev'])
    cty_seats = case['cty_seats']
    n_seats = sum(cty_seats.values())
    calc = core.LevelOverhangByConstituency(constituency_evaluator=core.ByConstituency(ev, apportioner=cty_seats), overall_evaluator=ev)
    calc0 = core.LevelOverhangByConstituency(constituency_evaluator=core.ByConstituency(ev, apportioner=ev))
    stage = _FixedStage({})
    ms = core.MultistageDistributor([stage, core.AdjustedSeatCount(calc, core.ByParty(ev, ev))], depth=2)

    def election(e):
        r = common.call_impl(lambda: calc.calculate(e['votes'], n_seats, prev_gains=e['direct']), 10)
        r2 = common.call_impl(lambda: calc0.calculate(e['votes'], n_seats, prev_gains=e['direct']), 10) if case.get('default') else None
        stage.seats = e['direct']
        r3 = common.call_impl(lambda: ms.evaluate(e['votes'], n_seats), 10)
        return r, r2, r3

    for e in case.get('history', ()):
        if bc_reference(prop.HighestAverages(case['ev']), e, cty_seats) is not None:
            election(e)     # (an election with a tie inside is not put to the objects: the levelling loop does not end on a Tie)
    ref = bc_reference(prop.HighestAverages(case['ev']), case, cty_seats)
    if ref is None:
        return 0
    want, drop, nat = ref
    ctx.nontrivial.add(common.case_hash(case))
    r, r2, r3 = election(case)
    bad = 0

    def report(impl, model, why):
        ctx.violations.append(dict(stream='by-constituency', case=case, impl=str(impl), model=model, why=why))
        return 1
    if r2 is not None:
        # default overall evaluator (sum of the constituency results): must answer with a non-negative adjustment
        if not (r2[0] == 'ok' and r2[1] >= 0) and not (r2[0] == 'err' and r2[1] in (common.E['TIMEOUT'], common.E['VSE'], common.E['VALUE'])):  # VALUE: house 0
            bad += report(r2, 'n/a', 'LevelOverhangByConstituency without overall_evaluator: %s' % (r2,))
    got = r[1] if r[0] == 'ok' else ('error', r[2])
    if got != want:
        bad += report(got, 'reference %d' % want, 'LevelOverhangByConstituency reports %s, the smallest admissible enlargement is %d' % (got, want))
    # DE shape: first stage hands out the direct seats, AdjustedSeatCount(LevelOverhangByConstituency, ByParty) the rest
    # (judged when all direct seats belong to tier parties - the tier of the constituency evaluator and the one of the national
    # evaluator are the same set then)
    if drop:
        pass
    elif r3[0] != 'ok':
        if r3[1] != common.E['VSE']:
            bad += report(('error', r3[2]), 'reference %d' % want, 'AdjustedSeatCount(LevelOverhangByConstituency) in a MultistageDistributor raises %s' % r3[2])
    elif not any(isinstance(k, core.Tie) for d in r3[1].values() for k in d):
        total = r3[1]
        lost = [(c, p) for c, d in case['direct'].items() for p, sd in d.items() if total.get(c, {}).get(p, 0) < sd]
        if lost:
            bad += report(total, 'direct %s' % case['direct'], 'direct seats lost in %s' % lost)
        else:
            # the party totals are the proportional distribution of the enlarged house
            tot = {}
            for d in total.values():
                for p, sd in d.items():
                    tot[p] = tot.get(p, 0) + sd
            tot = {p: sd for p, sd in tot.items() if sd}
            natw = {p: sd for p, sd in nat.items() if sd}
            if tot != natw:
                bad += report(tot, 'reference %s' % natw, 'DE shape: party totals %s, the proportional distribution of the house enlarged by %d is %s' % (tot, want, natw))
    return bad


def gen_bc(rng, count, dist=None):
    """by-constituency cases; half of them first of a block of 2..4 elections that share evaluator, parties, constituencies and their
    seats and are answered by the same objects (bc_check): later elections differ from the predecessor in the vote counts (mostly), the
    votes of one constituency, or the direct seats, or repeat an earlier election of the block"""
    import copy
    made = 0
    while made < count:
        evn = rng.choice(['sainte_lague', 'd_hondt'])
        parties = ['A', 'B', 'C', 'D'][:rng.randint(2, 4)]
        ctys = ['N', 'S', 'W'][:rng.randint(2, 3)]

        def draw_votes(c):
            v = {p: rng.choice([rng.randint(10, 500), rng.randint(0, 60)]) for p in parties}
            if sum(v.values()) == 0:
                v[parties[0]] = 10
            return v

        def draw_direct():
            d = {c: {p: rng.randint(0, 2) for p in rng.sample(parties + ['IND'], rng.randint(0, len(parties)))} for c in ctys}
            return {c: {p: sd for p, sd in dd.items() if sd} for c, dd in d.items()}
        cty_seats = {c: rng.randint(2, 7) for c in ctys}
        cur = dict(votes={c: draw_votes(c) for c in ctys}, direct=draw_direct())
        steps, varied = [cur], ['first']
        for _ in range(rng.choice([0, 0, 0, 1, 2, 3])):
            cur = copy.deepcopy(cur)
            a = rng.choice(['votes', 'votes', 'votes', 'cty-votes', 'direct', 'back'])
            if a == 'votes':
                cur['votes'] = {c: draw_votes(c) for c in ctys}
            elif a == 'cty-votes':
                c = rng.choice(ctys)
                cur['votes'][c] = draw_votes(c)
            elif a == 'direct':
                cur['direct'] = draw_direct()
            else:
                cur = copy.deepcopy(rng.choice(steps))
            steps.append(cur)
            varied.append(a)
        for i, e in enumerate(steps):
            if dist is not None:
                dist['by-constituency-varied:' + varied[i]] += 1
            made += 1
            yield dict(ev=evn, votes=e['votes'], cty_seats=cty_seats, direct=e['direct'], history=steps[:i], varied=varied[i],
                       default=made % 5 == 0)


def by_constituency_checks(ctx, rng, count):
    """LevelOverhangByConstituency against an independent search (inner evaluators used as black boxes), alone and inside
    AdjustedSeatCount / MultistageDistributor (DE shape), on fresh and on reused objects"""
    import itertools
    bad = n = 0
    for case in itertools.chain(corpus(by_constituency=True), gen_bc(rng, count, ctx.dist)):
        ctx.evaluations += 1
        n += 1
        bad += bc_check(ctx, case)
    ctx.dist['stream:by-constituency'] += n
    ctx.streams['by-constituency'] = dict(cases=n, deviations=bad)


# ---------------------------------------------------------------------------------------------------------------------
# LevelOverhangByConstituency: correspondence with the extracted model (coq/Model/OverhangByC.v, unit block C15)
#
# case: dict(unit='byc', dc, app=['dict', [[cty, seats], ...]] | ['eval'], ov=['given', divisor] | ['default'], dn, da, fuel,
#            votes=[[cty, [[party, votes], ...]], ...], n, prev=[[cty, [[party, seats], ...]], ...], history=[elections])
# divisors 1 = D'Hondt, 2 = Sainte-Lague; dc constituency evaluator (and apportioner under ['eval']), ov the calculator's overall
# evaluator, dn / da overall evaluator and allocator of ByParty.
class _LoopBound(Exception):
    pass


class _Counting:
    """Transparent proxy around an evaluator: counts evaluate() calls and stops the levelling loop (which has no bound of its own)
    after `bound` calls.  The model's loop has the same bound as its fuel, so 'out of fuel' is compared exactly."""
    def __init__(self, inner):
        self.inner, self.calls, self.bound = inner, 0, None

    def evaluate(self, *args, **kwargs):
        self.calls += 1
        if self.bound is not None and self.calls > self.bound:
            raise _LoopBound()
        return self.inner.evaluate(*args, **kwargs)


def cty_name(c):
    return 'S%d' % c


def _byc_objects(c):
    import votelib.evaluate.core as core, votelib.evaluate.proportional as prop
    evc = prop.HighestAverages(DIV[c['dc']])
    app = {cty_name(k): v for k, v in c['app'][1]} if c['app'][0] == 'dict' else evc
    cev = core.ByConstituency(evc, apportioner=app)
    if c['ov'][0] == 'given':
        counter = _Counting(prop.HighestAverages(DIV[c['ov'][1]]))
        calc = core.LevelOverhangByConstituency(constituency_evaluator=cev, overall_evaluator=counter)
        first = 0
    else:
        counter = _Counting(cev)        # the default overall evaluator calls the constituency evaluator again
        calc = core.LevelOverhangByConstituency(constituency_evaluator=counter)
        first = 1                       # ... after the one call for the constituency results
    stage = _FixedStage({})
    asc = core.AdjustedSeatCount(calc, core.ByParty(prop.HighestAverages(DIV[c['dn']]), prop.HighestAverages(DIV[c['da']])))
    ms = core.MultistageDistributor([stage, asc], depth=2)
    return cev, calc, counter, first, stage, ms


def _byc_election(e):
    votes = {cty_name(k): {cname(p): v for p, v in d} for k, d in e['votes']}
    prev = {cty_name(k): {cname(p): v for p, v in d} for k, d in e['prev']}
    return votes, prev


def byc_run(c):
    """ONE set of objects per case answers the elections of c['history'] (outcomes ignored) and then the case's own election:
    calculator alone, then the DE shape MultistageDistributor([direct seats, AdjustedSeatCount(calculator, ByParty)], depth=2)"""
    cev, calc, counter, first, stage, ms = _byc_objects(c)

    def election(e, fuel):
        votes, prev = _byc_election(e)
        counter.calls, counter.bound = 0, first + fuel + 1
        r1 = common.call_impl(lambda: calc.calculate(votes, e['n'], prev_gains=prev), 20)
        counter.calls = 0
        stage.seats = prev
        r2 = common.call_impl(lambda: ms.evaluate(votes, e['n']), 20)
        counter.bound = None
        return r1, r2, prev

    for e in c.get('history', ()):
        election(e, c['fuel'])
    return election(c, c['fuel'])


def _pk(k):
    import votelib.evaluate.core as core
    return sorted(cnum(x) for x in k) if isinstance(k, core.Tie) else cnum(k)


def _outcome(r):
    if r[0] == 'ok':
        return None
    if r[2].startswith('_LoopBound'):
        return err(common.E['FUEL'])
    return err(r[1])


def byc_impl(c):
    import votelib.evaluate.core as core
    if c['unit'] == 'byc-cev':
        cev = _byc_objects(c)[0]
        votes, _ = _byc_election(c)
        res = cev.evaluate(votes, c['n'])
        return ok([[int(k[1:]), [[_pk(p), s] for p, s in d.items()]] for k, d in res.items()])
    r1, r2, prev = byc_run(c)
    c['_exc'] = ' / '.join(r[2] for r in (r1, r2) if r[0] != 'ok')
    if r1[0] != 'ok':
        return _outcome(r1)
    adj = r1[1]
    if c['unit'] == 'byc':
        return ok(adj)
    if r2[0] != 'ok':
        final = [2] if r2[1] == common.E['VALUE'] else [3, r2[1]]
    elif any(isinstance(k, core.Tie) for k in r2[1]) or any(isinstance(p, core.Tie) for d in r2[1].values() for p in d):
        final = [1]
    else:
        final = [0, [[int(k[1:]), cnum(p), s - prev.get(k, {}).get(p, 0)] for k, d in r2[1].items() for p, s in d.items()]]
    return ok([adj, final])


def byc_canon(c, wire):
    v = common.parse_sx(wire)
    if v[0] != 0:
        return ('err', common.E_NAME.get(v[1], v[1]))
    if c['unit'] == 'byc':
        return ('ok', v[1])
    if c['unit'] == 'byc-cev':
        return ('ok', tuple(sorted((k, tuple(sorted((str(sorted(p) if isinstance(p, list) else p), s) for p, s in d))) for k, d in v[1])))
    adj, final = v[1]
    if final[0] == 0:
        final = ('gains', tuple(sorted((k, p, s) for k, p, s in final[1] if s)))
    else:
        final = {1: ('tie',), 2: ('value-error',)}.get(final[0], ('err', final[1:]))
    return ('ok', adj, final)


def _sxd(d):
    return sx([[k, [[p, v] for p, v in dd]] for k, dd in d])


def byc_model_line(c):
    app = '(0 %s)' % sx([[k, v] for k, v in c['app'][1]]) if c['app'][0] == 'dict' else '(1)'
    ov = '(0 (%d))' % c['ov'][1] if c['ov'][0] == 'given' else '(1)'
    if c['unit'] == 'byc-cev':
        return '%d ((%d) %s %s %d)' % (BLOCK['C15'] + 2, c['dc'], app, _sxd(c['votes']), c['n'])
    if c['unit'] == 'byc':
        return '%d ((%d) %s %s %d %s %d %s)' % (BLOCK['C15'], c['dc'], app, ov, c['fuel'], _sxd(c['votes']), c['n'], _sxd(c['prev']))
    return '%d ((%d) %s %s (%d) (%d) %d %s %d %s)' % (BLOCK['C15'] + 1, c['dc'], app, ov, c['dn'], c['da'], c['fuel'],
                                                       _sxd(c['votes']), c['n'], _sxd(c['prev']))


def byc_reference(c):
    """Independent search for the adjustment of one by-constituency election with a given overall evaluator (fresh evaluators used
    as black boxes).  None when a Tie or a refusal of an inner evaluator leaves the property's answer open, else
    (smallest admissible enlargement, seats of parties outside the tier, minima)."""
    import votelib.evaluate.core as core, votelib.evaluate.proportional as prop
    if c['ov'][0] != 'given' or c['app'][0] != 'dict':
        return None
    votes, direct = _byc_election(c)
    seats = {cty_name(k): v for k, v in c['app'][1]}
    evc, evn = prop.HighestAverages(DIV[c['dc']]), prop.HighestAverages(DIV[c['ov'][1]])
    try:
        cty_prop = {k: (evc.evaluate(votes[k], seats[k]) if seats.get(k, 0) else {}) for k in votes}
        if not any(seats.get(k, 0) for k in votes):
            return None
        if any(isinstance(p, core.Tie) for r in cty_prop.values() for p in r):
            return None
        tier = {p for r in cty_prop.values() for p in r}
        ctys = list(votes) + [k for k in direct if k not in votes]
        minima = {p: sum(max(direct.get(k, {}).get(p, 0), cty_prop.get(k, {}).get(p, 0)) for k in ctys) for p in tier}
        drop = sum(s for d in direct.values() for p, s in d.items() if p not in tier)
        nat_votes = {}
        for d in votes.values():
            for p, v in d.items():
                nat_votes[p] = nat_votes.get(p, 0) + v
        for a in range(c['fuel'] + 1):
            nat = evn.evaluate(nat_votes, c['n'] - drop + a)
            if all(nat.get(p, 0) >= m for p, m in minima.items()):
                return a, drop, minima
    except Exception:   # noqa
        return None
    return None


BYC_OUTCOMES = {}


def byc_spec(c, io, mo):
    """declarative clauses on the implementation's answer"""
    v = common.parse_sx(io)
    cm = byc_canon(c, mo)
    key = 'byc-outcome:%s:%s' % (c['unit'], cm[0] if cm[0] == 'ok' and c['unit'] != 'byc-asc' else '/'.join(map(str, (cm[0], cm[2][0]) if cm[0] == 'ok' else cm)))
    BYC_OUTCOMES[key] = BYC_OUTCOMES.get(key, 0) + 1
    if c['unit'] == 'byc-cev':
        return None
    if v[0] != 0:
        if v[1] in (common.E['VALUE'], common.E['STOP'], common.E['FUEL']):
            return None     # house of no seats / no constituency with a seat / loop cut at the case's bound
        if v[1] == common.E['TIMEOUT']:
            c['_class'] = 'timeout'
            return None
        return 'LevelOverhangByConstituency raises %s' % c.get('_exc')
    adj = v[1] if c['unit'] == 'byc' else v[1][0]
    if adj < 0:
        return 'negative adjustment %d' % adj
    if all(s >= 0 for _, d in c['prev'] for _, s in d):
        ref = byc_reference(c)
        if ref is not None and ref[0] != adj:
            return 'LevelOverhangByConstituency reports %d, the smallest admissible enlargement is %d (minima %s)' % (adj, ref[0], ref[2])
    if c['unit'] == 'byc-asc' and v[1][1][0] == 0:
        lost = [(k, p) for k, p, s in v[1][1][1] if s < 0]
        if lost:
            return 'direct seats lost in %s' % lost
    return None


def byc_nontrivial(c):
    return any(s for _, d in c['prev'] for _, s in d)


def _byc_draw(rng, boundary=None):
    """one election (votes, prev) + configuration.  boundary in {None, 'novotes', 'second-round', 'tie', 'sym-tie', 'noseat', 'outside'}"""
    np_, nc = rng.randint(2, 4), rng.randint(1, 3)
    parties, ctys = list(range(1, np_ + 1)), list(range(1, nc + 1))
    style = rng.choice(['big', 'small', 'mixed', 'tiny'])

    def vote():
        if style == 'big':
            return rng.randint(10, 500)
        if style == 'small':
            return rng.randint(0, 60)
        if style == 'tiny':
            return rng.randint(0, 6)
        return rng.choice([rng.randint(10, 500), rng.randint(0, 60)])
    votes = []
    for k in ctys:
        ps = parties if rng.random() < 0.8 else rng.sample(parties, rng.randint(1, np_))
        d = [[p, vote()] for p in ps]
        if sum(v for _, v in d) == 0 and rng.random() < 0.9:
            d[0][1] = 10
        votes.append([k, d])
    seats = [[k, rng.choice([0, 1, 2, 3, 4, 5, 6, 7, 2, 3, 4])] for k in ctys]
    if rng.random() < 0.1:
        seats = [kv for kv in seats if rng.random() < 0.7]          # a constituency missing from the apportionment: 0 seats
    pool = parties + [np_ + 1]          # np_ + 1: a party / independent without votes anywhere
    prev = []
    for k in ctys + ([nc + 1] if rng.random() < 0.08 else []):      # nc + 1: direct seats in a constituency without votes
        if rng.random() < 0.25:
            continue
        d = [[p, rng.choice([0, 1, 1, 2, 3])] for p in rng.sample(pool, rng.randint(0, len(pool)))]
        prev.append([k, d])
    if boundary == 'novotes':
        # a party holds direct seats in a constituency where it has no votes (absent from the constituency's votes or 0 votes)
        k, d = rng.choice(votes)
        p = rng.choice(parties)
        if rng.random() < 0.5:
            d[:] = [pv for pv in d if pv[0] != p] or [[p % np_ + 1, 10]]
        else:
            for pv in d:
                if pv[0] == p:
                    pv[1] = 0
        prev = [kv for kv in prev if kv[0] != k] + [[k, [[p, rng.randint(1, 3)]]]]
    elif boundary == 'second-round':
        # a party with list seats in one constituency and direct seats (but hardly a list seat) in another: repair d14cd5d
        if nc < 2:
            votes.append([2, [[p, vote()] for p in parties]])
            seats.append([2, rng.randint(1, 4)])
            ctys, nc = [1, 2], 2
        p = rng.choice(parties)
        for pv in votes[0][1]:
            if pv[0] == p:
                pv[1] = 400
        votes[1][1] = [[q_, (1 if q_ == p else rng.randint(100, 300))] for q_ in parties]
        prev = [kv for kv in prev if kv[0] != votes[1][0]] + [[votes[1][0], [[p, rng.randint(1, 3)]]]]
    elif boundary in ('tie', 'sym-tie'):
        # equal votes inside a constituency: the inner evaluator answers with a Tie key; 'sym-tie': every constituency alike, so that
        # the national result can carry the same Tie
        k, d = rng.choice(votes)
        tied = rng.sample(parties, rng.randint(2, np_))
        x = rng.randint(1, 30)
        d[:] = [[p, x if p in tied else rng.choice([x, rng.randint(0, 40)])] for p in parties]
        if boundary == 'sym-tie':
            mult = [rng.choice([1, 1, 2, 3]) for _ in votes]
            votes = [[kk, [[p, v * m] for p, v in d]] for (kk, _), m in zip(votes, mult)]
            if rng.random() < 0.7:
                s0 = rng.randint(1, 5)
                seats = [[kk, s0] for kk in ctys]
    elif boundary == 'noseat':
        for kv in seats:
            if rng.random() < 0.6:
                kv[1] = 0
    elif boundary == 'outside':
        # many direct seats of parties outside the tier: n - drop small, zero or negative
        prev = [[k, [[np_ + 1, rng.randint(1, 4)]] + [[p, rng.randint(0, 1)] for p in rng.sample(parties, rng.randint(0, np_))]] for k in ctys]
    return votes, seats, prev


def gen_byc(rng, count, dist=None, boundary=False):
    """cases for the by-constituency correspondence: calculator alone ('byc'), inside AdjustedSeatCount / ByParty / MultistageDistributor
    ('byc-asc'), and the constituency evaluator alone ('byc-cev'); a quarter of the elections are answered by objects that have
    answered 1..2 other elections before (history)."""
    made = 0
    kinds = ['novotes', 'second-round', 'tie', 'sym-tie', 'noseat', 'outside']
    while made < count:
        b = rng.choice(kinds) if boundary else None
        votes, seats, prev = _byc_draw(rng, b)
        total = sum(s for _, s in seats)
        n = total if rng.random() < 0.7 else max(0, total + rng.randint(-3, 3))
        if b == 'outside' and rng.random() < 0.5:
            n = rng.randint(0, 6)
        dc = rng.choice([1, 2])
        same = rng.random() < 0.7
        cfg = dict(dc=dc, app=['dict', seats] if rng.random() < 0.8 else ['eval'],
                   ov=['given', dc if same else rng.choice([1, 2])] if rng.random() < 0.85 else ['default'],
                   dn=dc if same else rng.choice([1, 2]), da=dc if same else rng.choice([1, 2]),
                   fuel=rng.choice([0, 2, 60, 80, 80, 80, 80, 80]))
        unit = rng.choice(['byc', 'byc', 'byc-asc', 'byc-asc', 'byc-asc', 'byc-cev'])
        history = []
        if unit != 'byc-cev' and rng.random() < 0.25:
            for _ in range(rng.randint(1, 2)):
                hv, _, hp = _byc_draw(rng, b)
                ks = [k for k, _ in votes]
                history.append(dict(votes=[kv for kv in hv if kv[0] in ks] or votes, prev=hp if rng.random() < 0.5 else prev, n=n))
        if dist is not None:
            dist['byc-%s:%s' % ('boundary' if boundary else 'random', b or unit)] += 1
            dist['byc-config:app=%s,ov=%s' % (cfg['app'][0], cfg['ov'][0])] += 1
        made += 1
        yield dict(unit=unit, votes=votes, prev=prev, n=n, history=history, **cfg)


def corpus(by_constituency=False, model=False):
    """committed witnesses: single-tier cases, by-constituency cases for the implementation-side clauses ('cty_seats'), and
    by-constituency cases for the correspondence with the model (unit 'byc*')"""
    import os, json, glob
    for p in sorted(glob.glob(os.path.join(common.VERIF, 'corpus', ID, '*.json'))):
        c = json.load(open(p))
        is_model = str(c.get('unit', '')).startswith('byc')
        if is_model == model and (model or ('cty_seats' in c) == by_constituency):
            yield c


def explore(ctx, widen=1):
    kw = dict(canon=canon, nontrivial=nontrivial, spec=spec, known_class=known_class, limit=10)
    ctx.differential('corpus', corpus(), model_line, impl, **kw)
    ctx.differential('random', gen(ctx.rng, ctx.n(1500, 20000) * widen), model_line, impl, **kw)
    ctx.differential('reuse', gen_reuse(ctx.rng, ctx.n(350, 4000) * widen, ctx.dist), model_line, impl, **kw)
    ctx.differential('alabama', gen_alabama(ctx.rng, ctx.n(300, 3000) * widen), model_line, impl, **kw)
    by_constituency_checks(ctx, ctx.rng, ctx.n(400, 5000))
    kb = dict(canon=byc_canon, nontrivial=byc_nontrivial, spec=byc_spec, known_class=known_class, limit=60)
    ctx.differential('byc-corpus', corpus(model=True), byc_model_line, byc_impl, **kb)
    ctx.differential('byc-model', gen_byc(ctx.rng, ctx.n(2500, 40000) * widen, ctx.dist), byc_model_line, byc_impl, **kb)
    ctx.differential('byc-boundary', gen_byc(ctx.rng, ctx.n(2500, 40000) * widen, ctx.dist, boundary=True), byc_model_line, byc_impl, **kb)
    for k, v in BYC_OUTCOMES.items():
        ctx.dist[k] += v


def replay(ctx, case, stream=None):
    if stream == 'by-constituency' or 'cty_seats' in case:
        bc_check(ctx, case)
        return
    if str(case.get('unit', '')).startswith('byc'):
        ctx.differential('replay', [case], byc_model_line, byc_impl, canon=byc_canon, nontrivial=byc_nontrivial, spec=byc_spec,
                         known_class=known_class, limit=60)
        return
    ctx.differential('replay', [case], model_line, impl, canon=canon, nontrivial=nontrivial, spec=spec, known_class=known_class)
