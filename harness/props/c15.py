"""C15 - overhang handling: AllowOverhang, LevelOverhang, AdjustedSeatCount."""
from fractions import Fraction
import common
from common import sx, q, ok, cname, cnum
from units import U

ID = 'C15'
LEVEL = 'proof'
TIE = {'core.AllowOverhang / LevelOverhang / AdjustedSeatCount': 'correspondence',
       'proportional.HighestAverages / LargestRemainder (inner evaluators)': 'models of C01 / C02',
       'core.LevelOverhangByConstituency, MultistageDistributor wrapping': 'implementation-side clauses only'}
RULE = ('corpus; second-vote dictionaries over 2..6 parties, house 1..40, direct-seat maps with sum <= house (parties outside the tier, '
        'parties without votes, zero entries), proportional evaluator in {D\'Hondt, Sainte-Lague, Hare largest remainder}; AllowOverhang and '
        'LevelOverhang inside AdjustedSeatCount, also wrapped in MultistageDistributor with a first-stage fixed result (NZ/DE shape). '
        'Streams random / alabama: every case on freshly built objects. Stream reuse: sequences of 2..5 elections answered by ONE inner '
        'evaluator, ONE calculator, ONE AdjustedSeatCount and ONE MultistageDistributor; an election differs from its predecessor in one '
        'aspect (vote counts with the same parties / house / direct seats, one party\'s votes, two votes swapped, house size, direct-seat '
        'counts, direct-seat map, dictionary order, wrapping, party set) or repeats an earlier one; every call of a sequence is a case '
        '(its history is part of the case and is re-run on replay). '
        'Every case compared with the model (adjustment and final gains) and judged by the declarative clauses on the implementation: '
        'adjustment >= 0, zero without overhang, level minimality against an independent search, every party keeps its direct seats, house '
        'grows by exactly the adjustment. Stream by-constituency: LevelOverhangByConstituency alone, and inside AdjustedSeatCount(.., ByParty) '
        'in a depth-2 MultistageDistributor (DE shape), on fresh objects and on objects reused for 2..4 elections, against an independent '
        'search (minimum of a tier party = sum over constituencies of max(direct, proportional)). '
        'non-trivial = overhang present or a party outside the tier; distinct by case hash')
PARTIAL = ['LevelOverhangByConstituency: no model; judged on the implementation side against an independent search (adjustment; in the DE '
           'shape: no direct seat lost, party totals = proportional distribution of the enlarged house when all direct seats belong to tier '
           'parties); elections with a tie inside the inner evaluator are not judged (the levelling loop does not end on a Tie)']
TRUSTED = []
DIV = {1: 'd_hondt', 2: 'sainte_lague'}


def ev_sx(e):
    return '(0 (%d))' % e[1] if e[0] == 'ha' else '(1)'


def evaluator(e):
    import votelib.evaluate.proportional as prop
    if e[0] == 'ha':
        return prop.HighestAverages(DIV[e[1]])
    return prop.LargestRemainder('hare')


def model_line(c):
    return '%d (%d %s %s %d %s)' % (U['overhang'], 0 if c['kind'] == 'allow' else 1, ev_sx(c['ev']),
                                    sx([[k, v] for k, v in c['votes']]), c['n'], sx([[k, v] for k, v in c['prev']]))


def run_impl(c):
    """One evaluator object, one calculator object, one AdjustedSeatCount and one MultistageDistributor per case: the elections of
    c['history'] (if any) are evaluated on them first, in order, and their outcomes ignored; the answer is the one of the last call."""
    import votelib.evaluate.core as core
    ev = evaluator(c['ev'])
    calc = core.AllowOverhang(ev) if c['kind'] == 'allow' else core.LevelOverhang(ev)
    asc = core.AdjustedSeatCount(calc, ev)
    stage = _FixedStage({})
    ms = core.MultistageDistributor([stage, asc])

    def election(e):
        votes = {cname(k): v for k, v in e['votes']}
        prev = {cname(k): v for k, v in e['prev']}
        adj = calc.calculate(votes, e['n'], prev_gains=prev)
        if e.get('wrap'):
            stage.seats = prev
            total = ms.evaluate(votes, e['n'])
            final = {k: total.get(k, 0) - prev.get(k, 0) for k in total}
        else:
            final = asc.evaluate(votes, e['n'], prev_gains=prev)
        return adj, final

    for e in c.get('history', ()):
        try:
            election(e)
        except common.ImplTimeout:
            raise
        except Exception:   # noqa  an earlier election may be refused (tie, over-award); the object must still answer the next one
            pass
    return election(c)


class _FixedStage:
    """first stage of the NZ/DE shape: hands out the direct seats"""
    def __init__(self, seats):
        self.seats = seats

    def evaluate(self, votes, n_seats, prev_gains={}, max_seats={}):
        return dict(self.seats)


def impl(c):
    import votelib.evaluate.core as core
    adj, final = run_impl(c)
    if any(isinstance(k, core.Tie) for k in final):
        return '(5)'
    return ok([adj, [[cnum(k), v] for k, v in final.items() if v]])


def canon(c, wire):
    v = common.parse_sx(wire)
    if v[0] == 4:
        return ('unmodelled',)
    if v[0] == 5:
        return ('final-refused',)
    if v[0] != 0:
        return ('final-refused',) if v[1] == common.E['VSE'] else ('err', v[1])
    adj, final = v[1]
    if final == [-1]:
        return ('final-refused',)          # the final distribution is refused (over-award) or tied
    return ('ok', adj, tuple(sorted((k, s) for k, s in final if s)))


def prop(c, n):
    """the inner proportional evaluator on the implementation side (no previous gains)"""
    import votelib.evaluate.core as core
    r = evaluator(c['ev']).evaluate({cname(k): v for k, v in c['votes']}, n)
    if any(isinstance(k, core.Tie) for k in r):
        return None
    return {cnum(k): v for k, v in r.items()}


def spec(c, io, mo):
    v = common.parse_sx(io)
    if v[0] in (4, 5):
        return None
    base = prop(c, c['n'])
    prev = dict(c['prev'])
    if v[0] != 0:
        if v[1] in (common.E['VSE'],) and c['ev'][0] == 'lr':
            return None             # Hare LR legitimately refuses when quota seats + previous gains exceed the house
        if v[1] == common.E['TIMEOUT']:
            c['_class'] = 'timeout'
            return None
        c['_class'] = 'crash'
        return 'seat-count adjustment raises %s' % c.get('_exc')
    adj, final = v[1]
    final = dict(final)
    if base is None:
        return None
    if adj < 0:
        return 'negative adjustment %d' % adj
    tier_over = any(prev.get(p, 0) > s for p, s in base.items())
    over_any = any(s > base.get(p, 0) for p, s in prev.items())
    if c['kind'] == 'allow':
        want = sum(max(0, s - base.get(p, 0)) for p, s in prev.items())
        if adj != want:
            c['_class'] = 'allow'
            return 'AllowOverhang reports %d, overhang seats are %d' % (adj, want)
    else:
        if not tier_over and adj != 0:
            c['_class'] = 'level-zero'
            return 'levelling reports %d although no tier party has overhang' % adj
        if tier_over:
            drop = sum(s for p, s in prev.items() if p not in base)
            mins = {p: max(prev.get(p, 0), s) for p, s in base.items()}
            a = 1
            while a < 400:
                r = prop(c, c['n'] - drop + a)
                if r is None:
                    return None
                if all(r.get(p, 0) >= m for p, m in mins.items()):
                    break
                a += 1
            want = a + drop - c['n'] + (c['n'] - drop) - (c['n'] - drop) + 0
            want = (c['n'] - drop + a) + drop - c['n']
            if adj != want:
                c['_class'] = 'level-min'
                return 'levelling reports %d, the smallest sufficient enlargement is %d' % (adj, want)
    for p, s in prev.items():
        if final.get(p, 0) < 0:
            return 'party %d loses direct seats' % p
    if sum(final.values()) + sum(prev.values()) != c['n'] + adj and c['ev'][0] == 'ha' and any(vv > 0 for _, vv in c['votes']):
        c['_class'] = 'house'
        return 'house is %d, expected %d + %d' % (sum(final.values()) + sum(prev.values()), c['n'], adj)
    return None


def known_class(c, io, mo):
    return None


def nontrivial(c):
    return bool(c['prev'])


def gen(rng, count):
    for _ in range(count):
        m = rng.randint(2, 6)
        ids = list(range(1, m + 1))
        votes = [[k, rng.choice([rng.randint(1, 200), rng.randint(1, 20), 10 ** 6 + rng.randint(0, 9)])] for k in ids]
        n = rng.randint(1, 40)
        prev, budget = [], rng.randint(0, n)
        pool = ids + ([m + 1] if rng.random() < 0.3 else [])
        for k in rng.sample(pool, rng.randint(0, len(pool))):
            s = rng.randint(0, min(budget, 6))
            budget -= s
            prev.append([k, s])
        ev = rng.choice([['ha', 1], ['ha', 2], ['lr']])
        yield dict(unit='overhang', kind=rng.choice(['allow', 'level']), ev=ev, votes=votes, n=n, prev=prev,
                   wrap=rng.random() < 0.25)


ASPECTS = ['votes', 'votes', 'votes', 'votes', 'one-vote', 'swap-votes', 'n', 'prev-counts', 'prev-keys', 'order', 'repeat', 'back', 'wrap',
           'parties']


def _draw_prev(rng, pool, n):
    prev, budget = [], rng.randint(0, n)
    for k in rng.sample(pool, rng.randint(0, len(pool))):
        s = rng.randint(0, min(budget, 6))
        budget -= s
        prev.append([k, s])
    return prev


def gen_reuse(rng, count, dist=None):
    """Sequences of 2..5 elections evaluated one after the other on ONE evaluator / calculator / AdjustedSeatCount / MultistageDistributor
    (run_impl): every election of a sequence is a case of its own whose 'history' lists the elections the objects have already seen.
    An election differs from its predecessor in ONE aspect: the vote counts (same parties, same order, same house, same direct seats - the
    usual way an evaluator is reused: the next election), one party's votes, two parties' votes swapped, the house size, the direct-seat
    counts, the direct-seat map, the insertion order of the dictionaries, the wrapping, the party set; or it repeats the predecessor
    or an earlier election of the sequence."""
    import copy
    for _ in range(count):
        m = rng.randint(2, 6)
        ids = list(range(1, m + 1))
        lo, hi = rng.choice([(50, 999), (1, 200), (1, 20), (10 ** 6, 10 ** 6 + 9)])
        draw = lambda: rng.randint(lo, hi)
        n = rng.randint(1, 40)
        pool = ids + ([m + 1] if rng.random() < 0.3 else [])
        cur = dict(votes=[[k, draw()] for k in ids], n=n, prev=_draw_prev(rng, pool, n), wrap=rng.random() < 0.4)
        kind, ev = rng.choice(['allow', 'level']), rng.choice([['ha', 1], ['ha', 2], ['lr']])
        steps, varied = [cur], ['first']
        for _ in range(rng.randint(1, 4)):
            cur = copy.deepcopy(cur)
            a = rng.choice(ASPECTS)
            if a == 'votes':
                cur['votes'] = [[k, draw()] for k, _ in cur['votes']]
            elif a == 'one-vote':
                rng.choice(cur['votes'])[1] = draw()
            elif a == 'swap-votes':
                i, j = rng.sample(range(len(cur['votes'])), 2)
                cur['votes'][i][1], cur['votes'][j][1] = cur['votes'][j][1], cur['votes'][i][1]
            elif a == 'n':
                cur['n'] = rng.randint(max(1, sum(v for _, v in cur['prev'])), 40)
            elif a == 'prev-counts':
                budget = cur['n']
                for kv in cur['prev']:
                    kv[1] = rng.randint(0, min(budget, 6))
                    budget -= kv[1]
            elif a == 'prev-keys':
                ks = [k for k, _ in cur['votes']]
                cur['prev'] = _draw_prev(rng, ks + ([max(ks) + 1] if rng.random() < 0.3 else []), cur['n'])
            elif a == 'order':
                rng.shuffle(cur['votes'])
                rng.shuffle(cur['prev'])
            elif a == 'back':
                cur = copy.deepcopy(rng.choice(steps))
            elif a == 'wrap':
                cur['wrap'] = not cur['wrap']
            elif a == 'parties':
                ks = [k for k, _ in cur['votes']]
                if len(ks) > 2 and rng.random() < 0.5:
                    cur['votes'].remove(rng.choice(cur['votes']))
                elif len(ks) < 6:
                    cur['votes'].append([max(ks + [k for k, _ in cur['prev']]) + 1, draw()])
            steps.append(cur)
            varied.append(a)
        for i, e in enumerate(steps):
            if dist is not None:
                dist['reuse-varied:' + varied[i]] += 1
            yield dict(unit='overhang', kind=kind, ev=ev, votes=e['votes'], n=e['n'], prev=e['prev'], wrap=e['wrap'],
                       history=steps[:i], varied=varied[i])


def gen_alabama(rng, count):
    """Hare largest remainder profiles with an Alabama paradox near the house size, plus overhang"""
    import votelib.evaluate.proportional as prop
    lr = prop.LargestRemainder('hare')
    made, tries = 0, 0
    while made < count and tries < count * 60:
        tries += 1
        m = rng.randint(3, 4)
        votes = [[k, rng.randint(5, 70) * 10] for k in range(1, m + 1)]
        n = rng.randint(4, 14)
        pv = {cname(k): v for k, v in votes}
        try:
            seq = [lr.evaluate(pv, h) for h in range(n, n + 4)]
        except Exception:   # noqa
            continue
        paradox = any(b.get(p, 0) < a.get(p, 0) for a, b in zip(seq, seq[1:]) for p in pv)
        if not paradox:
            continue
        base = seq[0]
        big = max(pv, key=pv.get)
        prev = [[common.cnum(big), base.get(big, 0) + rng.randint(1, 2)]]
        # several parties short at once: at a paradox step h -> h+1 two parties gain a seat each (a third loses one); give
        # each of them one direct seat more than its share at some house size before the step, so that the loop meets a
        # size where more seats are missing than the enlargement that repairs it
        steps = [i for i, (a, b) in enumerate(zip(seq, seq[1:])) if sum(1 for p in pv if b.get(p, 0) > a.get(p, 0)) >= 2]
        if steps and rng.random() < 0.7:
            i = steps[0]
            gain = [p for p in pv if seq[i + 1].get(p, 0) > seq[i].get(p, 0)]
            prev2 = [[common.cnum(p), seq[i + 1].get(p, 0)] for p in gain]
            if sum(s for _, s in prev2) <= n:
                prev = prev2
        yield dict(unit='overhang', kind='level', ev=['lr'], votes=votes, n=n, prev=prev, wrap=False)


def bc_reference(ev, e, cty_seats):
    """independent search for one by-constituency election (inner evaluator used as a black box, on an object of its own):
    None when a tie / refusal of the inner evaluator leaves the answer open, else (smallest admissible enlargement, seats of parties
    outside the tier, national distribution of the enlarged house)"""
    import votelib.convert, votelib.evaluate.core as core
    votes, direct = e['votes'], e['direct']
    n_seats = sum(cty_seats.values())
    try:
        cty_prop = {c: ev.evaluate(votes[c], cty_seats[c]) for c in votes}
        if any(isinstance(k, core.Tie) for r in cty_prop.values() for k in r):
            return None
        # tier = parties with a proportional seat in some constituency; a tier party's minimum is the sum over ALL constituencies of
        # max(direct seats, proportional seats) there - also where it has direct seats but no proportional seat
        tier = {p for res in cty_prop.values() for p, sres in res.items() if sres}
        minima = {p: sum(max(direct.get(c, {}).get(p, 0), cty_prop[c].get(p, 0)) for c in votes) for p in tier}
        drop = sum(sd for d in direct.values() for p, sd in d.items() if p not in tier)
        nat_votes = votelib.convert.VoteTotals().convert(votes)
        house = n_seats - drop
        for _ in range(300):
            nat = ev.evaluate(nat_votes, house)
            if any(isinstance(k, core.Tie) for k in nat):
                return None
            if all(nat.get(p, 0) >= mm for p, mm in minima.items()):
                return house + drop - n_seats, drop, nat
            house += 1
    except Exception:   # noqa
        return None
    return None


def bc_check(ctx, case):
    """One by-constituency case: ONE LevelOverhangByConstituency object, ONE AdjustedSeatCount around it (DE shape: ByParty as the
    evaluator) and ONE MultistageDistributor answer the elections of case['history'] first (outcomes ignored) and then the case's own
    election, which is judged.  Returns the number of deviations reported."""
    import votelib.evaluate.core as core, votelib.evaluate.proportional as prop
    ev = prop.HighestAverages(case['ev'])
    cty_seats = case['cty_seats']
    n_seats = sum(cty_seats.values())
    calc = core.LevelOverhangByConstituency(constituency_evaluator=core.ByConstituency(ev, apportioner=cty_seats), overall_evaluator=ev)
    calc0 = core.LevelOverhangByConstituency(constituency_evaluator=core.ByConstituency(ev, apportioner=ev))
    stage = _FixedStage({})
    ms = core.MultistageDistributor([stage, core.AdjustedSeatCount(calc, core.ByParty(ev, ev))], depth=2)

    def election(e):
        r = common.call_impl(lambda: calc.calculate(e['votes'], n_seats, prev_gains=e['direct']), 10)
        r2 = common.call_impl(lambda: calc0.calculate(e['votes'], n_seats, prev_gains=e['direct']), 10) if case.get('default') else None
        stage.seats = e['direct']
        r3 = common.call_impl(lambda: ms.evaluate(e['votes'], n_seats), 10)
        return r, r2, r3

    for e in case.get('history', ()):
        if bc_reference(prop.HighestAverages(case['ev']), e, cty_seats) is not None:
            election(e)     # (an election with a tie inside is not put to the objects: the levelling loop does not end on a Tie)
    ref = bc_reference(prop.HighestAverages(case['ev']), case, cty_seats)
    if ref is None:
        return 0
    want, drop, nat = ref
    ctx.nontrivial.add(common.case_hash(case))
    r, r2, r3 = election(case)
    bad = 0

    def report(impl, model, why):
        ctx.violations.append(dict(stream='by-constituency', case=case, impl=str(impl), model=model, why=why))
        return 1
    if r2 is not None:
        # default overall evaluator (sum of the constituency results): must answer with a non-negative adjustment
        if not (r2[0] == 'ok' and r2[1] >= 0) and not (r2[0] == 'err' and r2[1] in (common.E['TIMEOUT'], common.E['VSE'], common.E['VALUE'])):  # VALUE: house 0
            bad += report(r2, 'n/a', 'LevelOverhangByConstituency without overall_evaluator: %s' % (r2,))
    got = r[1] if r[0] == 'ok' else ('error', r[2])
    if got != want:
        bad += report(got, 'reference %d' % want, 'LevelOverhangByConstituency reports %s, the smallest admissible enlargement is %d' % (got, want))
    # DE shape: first stage hands out the direct seats, AdjustedSeatCount(LevelOverhangByConstituency, ByParty) the rest
    # (judged when all direct seats belong to tier parties - the tier of the constituency evaluator and the one of the national
    # evaluator are the same set then)
    if drop:
        pass
    elif r3[0] != 'ok':
        if r3[1] != common.E['VSE']:
            bad += report(('error', r3[2]), 'reference %d' % want, 'AdjustedSeatCount(LevelOverhangByConstituency) in a MultistageDistributor raises %s' % r3[2])
    elif not any(isinstance(k, core.Tie) for d in r3[1].values() for k in d):
        total = r3[1]
        lost = [(c, p) for c, d in case['direct'].items() for p, sd in d.items() if total.get(c, {}).get(p, 0) < sd]
        if lost:
            bad += report(total, 'direct %s' % case['direct'], 'direct seats lost in %s' % lost)
        else:
            # the party totals are the proportional distribution of the enlarged house
            tot = {}
            for d in total.values():
                for p, sd in d.items():
                    tot[p] = tot.get(p, 0) + sd
            tot = {p: sd for p, sd in tot.items() if sd}
            natw = {p: sd for p, sd in nat.items() if sd}
            if tot != natw:
                bad += report(tot, 'reference %s' % natw, 'DE shape: party totals %s, the proportional distribution of the house enlarged by %d is %s' % (tot, want, natw))
    return bad


def gen_bc(rng, count, dist=None):
    """by-constituency cases; half of them first of a block of 2..4 elections that share evaluator, parties, constituencies and their
    seats and are answered by the same objects (bc_check): later elections differ from the predecessor in the vote counts (mostly), the
    votes of one constituency, or the direct seats, or repeat an earlier election of the block"""
    import copy
    made = 0
    while made < count:
        evn = rng.choice(['sainte_lague', 'd_hondt'])
        parties = ['A', 'B', 'C', 'D'][:rng.randint(2, 4)]
        ctys = ['N', 'S', 'W'][:rng.randint(2, 3)]

        def draw_votes(c):
            v = {p: rng.choice([rng.randint(10, 500), rng.randint(0, 60)]) for p in parties}
            if sum(v.values()) == 0:
                v[parties[0]] = 10
            return v

        def draw_direct():
            d = {c: {p: rng.randint(0, 2) for p in rng.sample(parties + ['IND'], rng.randint(0, len(parties)))} for c in ctys}
            return {c: {p: sd for p, sd in dd.items() if sd} for c, dd in d.items()}
        cty_seats = {c: rng.randint(2, 7) for c in ctys}
        cur = dict(votes={c: draw_votes(c) for c in ctys}, direct=draw_direct())
        steps, varied = [cur], ['first']
        for _ in range(rng.choice([0, 0, 0, 1, 2, 3])):
            cur = copy.deepcopy(cur)
            a = rng.choice(['votes', 'votes', 'votes', 'cty-votes', 'direct', 'back'])
            if a == 'votes':
                cur['votes'] = {c: draw_votes(c) for c in ctys}
            elif a == 'cty-votes':
                c = rng.choice(ctys)
                cur['votes'][c] = draw_votes(c)
            elif a == 'direct':
                cur['direct'] = draw_direct()
            else:
                cur = copy.deepcopy(rng.choice(steps))
            steps.append(cur)
            varied.append(a)
        for i, e in enumerate(steps):
            if dist is not None:
                dist['by-constituency-varied:' + varied[i]] += 1
            made += 1
            yield dict(ev=evn, votes=e['votes'], cty_seats=cty_seats, direct=e['direct'], history=steps[:i], varied=varied[i],
                       default=made % 5 == 0)


def by_constituency_checks(ctx, rng, count):
    """LevelOverhangByConstituency against an independent search (inner evaluators used as black boxes), alone and inside
    AdjustedSeatCount / MultistageDistributor (DE shape), on fresh and on reused objects"""
    import itertools
    bad = n = 0
    for case in itertools.chain(corpus(by_constituency=True), gen_bc(rng, count, ctx.dist)):
        ctx.evaluations += 1
        n += 1
        bad += bc_check(ctx, case)
    ctx.dist['stream:by-constituency'] += n
    ctx.streams['by-constituency'] = dict(cases=n, deviations=bad)


def corpus(by_constituency=False):
    import os, json, glob
    for p in sorted(glob.glob(os.path.join(common.VERIF, 'corpus', ID, '*.json'))):
        c = json.load(open(p))
        if ('cty_seats' in c) == by_constituency:
            yield c


def explore(ctx, widen=1):
    kw = dict(canon=canon, nontrivial=nontrivial, spec=spec, known_class=known_class, limit=10)
    ctx.differential('corpus', corpus(), model_line, impl, **kw)
    ctx.differential('random', gen(ctx.rng, ctx.n(1500, 20000) * widen), model_line, impl, **kw)
    ctx.differential('reuse', gen_reuse(ctx.rng, ctx.n(350, 4000) * widen, ctx.dist), model_line, impl, **kw)
    ctx.differential('alabama', gen_alabama(ctx.rng, ctx.n(300, 3000) * widen), model_line, impl, **kw)
    by_constituency_checks(ctx, ctx.rng, ctx.n(400, 5000))


def replay(ctx, case, stream=None):
    if stream == 'by-constituency' or 'cty_seats' in case:
        bc_check(ctx, case)
        return
    ctx.differential('replay', [case], model_line, impl, canon=canon, nontrivial=nontrivial, spec=spec, known_class=known_class)
