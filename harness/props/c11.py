"""C11 - exact arithmetic: scale invariance (also far beyond 2^53), near ties never tied, equal rationals tied,
reported fractional quantities exact.  The theorems (Props/C11.v) state scale invariance of the get_n_best,
HighestAverages and win/loss Condorcet MODELS for every positive factor; this check (a) compares the implementation on
k-fold inputs with the model on the UNSCALED input (so agreement at 10^25-fold magnitude is a model-vs-code tie, not
a self-comparison), (b) evaluates f(k*p) = f(p) on the implementation for every scale-free evaluator configuration,
(c) near-tie / equal-representation clauses, (d) no float in any reported quantity."""
import itertools
from fractions import Fraction
from decimal import Decimal
import common
from common import sx, q, jq, cname, cnum, ok
from units import U
import evalreg
import props.c01 as c01

ID = 'C11'
LEVEL = 'proof'
TIE = {'core.get_n_best, proportional.HighestAverages.evaluate': 'correspondence: implementation on k-fold votes vs the extracted model on the unscaled votes (k up to 10^25+7, 2^60+1)',
       'condorcet.pairwise_wins / CondorcetWinner / Copeland / SmithSet / SchwartzSet': 'models shared with C05/C06 (correspondence there); metamorphic relation on the implementation here',
       'all other scale-free evaluators (largest remainder, STV with hare / Hagenbach-Bischoff quota, positional, Bucklin, PAV, SPAV, Schulze, minimax, ranked pairs, Kemeny, score family)': 'metamorphic relation on the implementation only'}
RULE = ('magnitude-differential: C01 generators (random, constructed quotient ties, zero votes / caps) and get_n_best mappings, implementation run on '
        'k*votes for k in {3, 2^60+1, 10^25+7, 7/3}, model run on votes. scale-metamorphic: every scale-free configuration of harness/evalreg.py '
        '(47 evaluators over simple / approval / ranked / score / pairwise votes) on random profiles, outcome at k in {2, 3, 7, 10^6, 10^25+7} (score '
        'family k <= 1000: one list element per voter) equals the outcome at k = 1, refusals included. near-tie: pairs (v, v+1) at v in '
        '{10^3, 2^53, 10^30} and equal totals in different representations (int / Fraction / Decimal) at the cut of plurality, highest averages '
        'and largest remainder. int-vs-fraction: weights K*w+e (K in {2^52+1, 2^52+2, 2^53, 2^53+1, 10^16+1, 10^30+1}, e in -1..2; a third of the cases '
        'with two or three equally weighted ballot types so that majorities hinge on single votes) given once as int and once as Fraction to every '
        'non-score evaluator: identical outcomes. exact-types: no float in PureProportionality seats, split approvals, exact means, Gregory transfer tallies. '
        'non-trivial = result contains a tie, or k > 2^53; distinct by case hash')
PARTIAL = ['scale invariance of ranked pairs / Kemeny / largest remainder / STV / PAV / SPAV / positional / Bucklin / score rules: '
           'metamorphic relation evaluated on the implementation per explored case, not proved (Schulze is proved: C11_scale_schulze, C11_scale_full)',
           'float-freeness of the implementation is by construction a per-case observation (the models compute in Q)']
TRUSTED = []
KS = [2, 3, 7, 10 ** 6, 10 ** 25 + 7]
BIGK = [3, 2 ** 60 + 1, 10 ** 25 + 7, Fraction(7, 3)]


# ------------------------------------------------------------------ magnitude differential (model on unscaled input)
def scaled_ha(c):
    k = q(c['k'])
    return dict(c, votes=[[p, jq(q(v) * k)] for p, v in c['votes']])


def gnb_model_line(c):
    return '%d (%s %d)' % (U['get_n_best'], sx([[p, q(v)] for p, v in c['votes']]), c['n'])


def gnb_impl(c):
    import votelib.evaluate.core as core
    k = q(c['k'])
    votes = {cname(p): evalreg.num(q(v) * k) for p, v in c['votes']}
    res = core.get_n_best(votes, c['n'])
    return ok([sorted(cnum(x) for x in r) if isinstance(r, core.Tie) else cnum(r) for r in res])


def gnb_canon(c, wire):
    v = common.parse_sx(wire)
    if v[0] != 0:
        return ('err', v[1])
    return ('ok', tuple(tuple(sorted(r)) if isinstance(r, list) else r for r in v[1]))


def gen_gnb(rng, count):
    for _ in range(count):
        m = rng.randint(1, 7)
        pool = [rng.randint(0, 9), rng.randint(0, 9), rng.randint(0, 1000), Fraction(rng.randint(0, 9), rng.randint(1, 4))]
        votes = [[i + 1, jq(rng.choice(pool))] for i in range(m)]
        rng.shuffle(votes)
        yield dict(unit='get_n_best', votes=votes, n=rng.randint(1, m + 1), k=jq(rng.choice(BIGK)))


# ------------------------------------------------------------------ metamorphic scaling on the implementation
def scale_metamorphic(ctx, stream, count, rng):
    reg = evalreg.registry()
    names = [n for n, e in reg.items() if e['scale_free']]
    bad = n = 0
    for _ in range(count):
        e = reg[rng.choice(names)]
        prof = evalreg.gen_profile(rng, e['vtype'], shared=(e['needs'] != 'noshared'), small=(e['needs'] == 'small'))
        cands = evalreg.candidates_of(e['vtype'], prof)
        seats = rng.randint(1, max(1, len(cands)))
        base = evalreg.outcome(e, prof, seats)
        ks = [k for k in KS if not e['max_k'] or k <= e['max_k']]
        k = rng.choice(ks)
        ctx.evaluations += 1
        ctx.dist['stream:' + stream] += 1
        ctx.dist['vtype:' + e['vtype']] += 1
        if base[0] == 'err' and base[1] == common.E['TIMEOUT']:
            continue
        sc = evalreg.outcome(e, prof, seats, scale=k)
        n += 1
        case = dict(kind='scale', evaluator=e['name'], profile=prof, n=seats, k=k)
        tie = base[0] == 'ok' and any(isinstance(x, tuple) for x in (base[1][1] if base[1][0] == 'sel' else [kk for kk, _ in base[1][1]]))
        if tie or k > 2 ** 53:
            ctx.nontrivial.add(common.case_hash(case))
        why = None
        if sc[0] == 'err' and sc[1] == common.E['TIMEOUT']:
            ctx.dist['scale:timeout'] += 1
            continue
        if base[0] == 'ok' and sc[0] == 'ok':
            b, s = base[1], sc[1]
            if e['name'] == 'pure_proportionality':
                s = (s[0], tuple((kk, v) for kk, v in s[1]))     # seats are shares of the house: scale-free as they are
            if b != s:
                why = 'outcome changes under %s-fold scaling: %s -> %s' % (k, b, s)
        elif base[0] != sc[0] or base[1] != sc[1]:
            why = 'refusal behaviour changes under %s-fold scaling: %s -> %s' % (k, base[1:], sc[1:])
        if why:
            bad += 1
            ctx.checker_false += 1
            ctx.report(stream, case, str(sc[1:]), str(base[1:]), '%s: %s' % (e['name'], why),
                       known_class=lambda c, io, mo: 'C11-mj-default-scale' if c.get('evaluator') == 'mj_default' else None)
        elif len(ctx.samples) < 3 and tie and k > 2 ** 53:
            ctx.samples.append(dict(stream=stream, case=case, impl=str(sc[1]), model='same as unscaled: ' + str(base[1])))
    ctx.streams[stream] = dict(cases=n, deviations=bad)


def exhaustive_small(ctx, stream):
    """thorough tier: EVERY simple-vote profile over <= 3 candidates with totals 0..3, every n, scaled by 2, 7/3 and 10^17+3, for every
    scale-free simple-vote evaluator of the registry"""
    reg = evalreg.registry()
    names = [n for n, e in reg.items() if e['scale_free'] and e['vtype'] == 'simple']
    bad = n = 0
    for m in (1, 2, 3):
        for vals in itertools.product(range(0, 4), repeat=m):
            if sum(vals) == 0:
                continue
            prof = [[i + 1, v] for i, v in enumerate(vals)]
            for name in names:
                e = reg[name]
                for seats in range(1, m + 1):
                    base = evalreg.outcome(e, prof, seats)
                    for k in (2, '7/3', 10 ** 17 + 3):
                        if e['max_k'] and q(k) > e['max_k']:
                            continue
                        sc = evalreg.outcome(e, prof, seats, scale=q(k))
                        n += 1
                        ctx.evaluations += 1
                        b, s2 = base[1:], sc[1:]
                        if name == 'pure_proportionality' and sc[0] == 'ok':
                            s2 = ((sc[1][0], tuple((kk, v) for kk, v in sc[1][1])),) + tuple(sc[2:])
                        if base[0] != sc[0] or b != s2:
                            bad += 1
                            ctx.checker_false += 1
                            ctx.report(stream, dict(kind='scale', evaluator=name, profile=prof, n=seats, k=jq(q(k))), str(sc[1:]), str(base[1:]),
                                       '%s: outcome changes under %s-fold scaling' % (name, k),
                                       known_class=lambda c, io, mo: 'C11-mj-default-scale' if c.get('evaluator') == 'mj_default' else None)
    ctx.dist['stream:' + stream] += n
    ctx.streams[stream] = dict(cases=n, deviations=bad, exhaustive=True)


# ------------------------------------------------------------------ int vs Fraction representation at near-tie magnitudes
NEARK = [2 ** 52 + 1, 2 ** 52 + 2, 2 ** 53, 2 ** 53 + 1, 10 ** 16 + 1, 10 ** 30 + 1]


def type_metamorphic(ctx, stream, count, rng):
    """weights K*w + e (e in -1..2) with K beyond 2^52: the same numbers given as int and as Fraction must give the same
    outcome (true division of ints would round, Fractions stay exact), and no float may appear in the result"""
    reg = evalreg.registry()
    names = [n for n, e in reg.items() if e['vtype'] != 'score']
    bad = n = 0
    for i in range(count):
        e = reg[rng.choice(names)]
        focus = i % 3 == 0        # few ballot types with equal base weight: majorities decided by single votes
        prof = evalreg.gen_profile(rng, e['vtype'], shared=(e['needs'] != 'noshared'), small=(focus or e['needs'] == 'small'))
        if focus and e['vtype'] in ('ranked', 'approval'):
            prof = [[b, 1] for b, _ in prof[:rng.randint(2, 3)]]
        K = rng.choice(NEARK)
        prof2 = [[key, jq(max(q(w) * K + rng.choice([-1, 0, 0, 1, 2]), 0))] for key, w in prof]
        cands = evalreg.candidates_of(e['vtype'], prof2)
        seats = rng.randint(1, max(1, len(cands)))
        py = evalreg.to_python(e['vtype'], prof2)
        pf = {k_: Fraction(v) for k_, v in py.items()}
        a = common.call_impl(lambda: evalreg.canon_result(e, evalreg.run(e, py, seats), cnum), 10)
        b = common.call_impl(lambda: evalreg.canon_result(e, evalreg.run(e, pf, seats), cnum), 10)
        ctx.evaluations += 1
        ctx.dist['stream:' + stream] += 1
        n += 1
        case = dict(kind='int-vs-fraction', evaluator=e['name'], profile=prof2, n=seats)
        ctx.nontrivial.add(common.case_hash(case))
        if (a[0], a[1]) != (b[0], b[1]):
            if a[0] == 'err' and a[1] == common.E['TIMEOUT'] or b[0] == 'err' and b[1] == common.E['TIMEOUT']:
                continue
            bad += 1
            ctx.checker_false += 1
            ctx.report(stream, case, str(a[1:]), str(b[1:]),
                       '%s: integer and Fraction vote counts of the same value give different outcomes (rounding): %s vs %s' % (e['name'], a[1:], b[1:]))
    ctx.streams[stream] = dict(cases=n, deviations=bad)


# ------------------------------------------------------------------ near ties / equal representations
def near_tie_checks(ctx, stream, count, rng):
    import votelib.evaluate.core as core, votelib.evaluate.proportional as prop
    bad = n = 0
    for _ in range(count):
        v = rng.choice([10 ** 3, 2 ** 53, 10 ** 30, 2 ** 64 - 1])
        rep = rng.choice(['int', 'frac', 'dec'])
        mk = {'int': lambda x: x, 'frac': lambda x: Fraction(x), 'dec': lambda x: Decimal(x)}[rep]
        others = [rng.choice([v - 2, v + 3, 1, v * 2]) for _ in range(rng.randint(0, 3))]
        equal = rng.random() < 0.5
        votes = {'A': mk(v), 'B': (rng.choice([Fraction(v), Decimal(v), v]) if equal else mk(v + 1))}
        for i, o in enumerate(others):
            votes['O%d' % i] = o
        items = list(votes.items())
        rng.shuffle(items)
        votes = dict(items)
        for evname, ev, kw in (('get_n_best', None, {}), ('ha', prop.HighestAverages('d_hondt'), {}), ('lr', prop.LargestRemainder('hare'), {})):
            for seats in (1, 2):
                n += 1
                ctx.evaluations += 1
                ctx.dist['stream:' + stream] += 1
                r = common.call_impl(lambda: core.get_n_best(votes, seats) if ev is None else ev.evaluate(votes, seats), 5)
                case = dict(kind='near-tie', evaluator=evname, votes={k: str(x) for k, x in votes.items()}, n=seats, equal=equal)
                ctx.nontrivial.add(common.case_hash(case))
                if r[0] != 'ok':
                    if rep == 'dec' or equal:
                        ctx.dist['near-tie:refused-mixed-types'] += 1      # Fraction / Decimal mixing is outside the quantifier
                        continue
                    bad += 1
                    ctx.checker_false += 1
                    ctx.report(stream, case, str(r[1:]), 'n/a', 'near-tie input refused: %s' % (r[2],))
                    continue
                res = r[1]
                ties = [k for k in (res if isinstance(res, list) else res.keys()) if isinstance(k, core.Tie)]
                why = None
                if evname == 'get_n_best':
                    elected = [k for k in res if not isinstance(k, core.Tie)]
                    ina = 'A' in elected, any('A' in t for t in ties)
                    inb = 'B' in elected, any('B' in t for t in ties)
                    if not equal and any('A' in t and 'B' in t for t in ties):
                        why = 'totals %s and %s reported as tied' % (votes['A'], votes['B'])
                    if equal and ina != inb:
                        why = 'equal totals %r and %r treated differently: %s' % (votes['A'], votes['B'], res)
                else:
                    if not equal and any('A' in t and 'B' in t for t in ties) and seats == 1 and not others:
                        why = 'first quotients %s and %s reported as tied' % (votes['A'], votes['B'])
                    if equal and isinstance(res, dict):
                        sa = res.get('A', 0), any('A' in t for t in ties)
                        sb = res.get('B', 0), any('B' in t for t in ties)
                        if sa != sb:
                            why = 'equal totals %r and %r get different seats: %s' % (votes['A'], votes['B'], res)
                if why:
                    bad += 1
                    ctx.checker_false += 1
                    ctx.report(stream, case, str(res), 'n/a', '%s: %s' % (evname, why))
    ctx.streams[stream] = dict(cases=n, deviations=bad)


# ------------------------------------------------------------------ exact types
def find_float(x, path='result'):
    if isinstance(x, float):
        return path
    if isinstance(x, dict):
        for k, v in x.items():
            r = find_float(k, path + '.key') or find_float(v, '%s[%r]' % (path, k))
            if r:
                return r
    elif isinstance(x, (list, tuple, set, frozenset)):
        for i, v in enumerate(x):
            r = find_float(v, '%s[%d]' % (path, i))
            if r:
                return r
    return None


def exact_type_checks(ctx, stream, count, rng):
    import votelib.evaluate.proportional as prop, votelib.convert as conv, votelib.evaluate.sequential as seq, votelib.util as util
    bad = n = 0
    for _ in range(count):
        kind = rng.choice(['pure', 'split', 'mean', 'stv', 'exact_mean'])
        ctx.evaluations += 1
        ctx.dist['stream:' + stream] += 1
        scale = rng.choice([1, 1, 10 ** 20 + 1])
        if kind == 'pure':
            prof = evalreg.gen_profile(rng, 'simple')
            fn = lambda: prop.PureProportionality().evaluate(evalreg.to_python('simple', prof, scale=scale), rng.randint(1, 20))     # noqa
        elif kind == 'split':
            prof = evalreg.gen_profile(rng, 'approval')
            fn = lambda: conv.ApprovalToSimpleVotes(split=True).convert(evalreg.to_python('approval', prof, scale=scale))     # noqa
        elif kind == 'mean':
            prof = evalreg.gen_profile(rng, 'score')
            fn = lambda: conv.ScoreToSimpleVotes('mean').convert(evalreg.to_python('score', prof))     # noqa
        elif kind == 'exact_mean':
            prof = [rng.randint(0, 10 ** 18) for _ in range(rng.randint(1, 6))]
            fn = lambda: util.exact_mean(prof) if hasattr(util, 'exact_mean') else 0     # noqa
        else:
            prof = evalreg.gen_profile(rng, 'ranked', shared=True)
            qf = rng.choice(['droop', 'hare'])
            def fn():     # noqa
                d = seq.TransferableVoteDistributor(quota_function=qf)
                votes = evalreg.to_python('ranked', prof, scale=scale)
                out = []
                for i in range(1, 4):
                    try:
                        alloc, elected = d.nth_count(votes, 2, i)
                    except Exception:   # noqa
                        break
                    out.append(seq.allocation_totals(alloc))
                return out
        r = common.call_impl(fn, 10)
        n += 1
        if r[0] != 'ok':
            continue
        where = find_float(r[1])
        case = dict(kind='exact-' + kind, profile=prof if kind != 'exact_mean' else [str(x) for x in prof], scale=str(scale))
        if scale > 1:
            ctx.nontrivial.add(common.case_hash(case))
        if where:
            bad += 1
            ctx.checker_false += 1
            ctx.report(stream, case, repr(r[1])[:300], 'n/a', '%s reports a float at %s' % (kind, where))
    ctx.streams[stream] = dict(cases=n, deviations=bad)


def score_magnitude_check(ctx, stream):
    """known finding C11-score-materialises: the score family builds one list element per voter"""
    import votelib.evaluate.cardinal as card
    prof = [[[[1, 3], [2, 1]], 2], [[[1, 0], [2, 2]], 1]]
    ctx.evaluations += 1
    ctx.dist['stream:' + stream] += 1
    base = common.call_impl(lambda: card.ScoreVoting('sum').evaluate(evalreg.to_python('score', prof), 1), 2)
    big = common.call_impl(lambda: card.ScoreVoting('sum').evaluate(evalreg.to_python('score', prof, scale=10 ** 9), 1), 1)
    case = dict(kind='score-magnitude', profile=prof, k=10 ** 9)
    if big[0] == 'ok' and base[0] == 'ok' and big[1] == base[1]:
        ctx.notes.append('known finding C11-score-materialises no longer reproduces (score voting answered at 10^9-fold counts)')
    elif big[0] == 'err' and big[1] in (common.E['TIMEOUT'], common.E['OTHER']):
        ctx.report(stream, case, str(big[1:]), str(base[1:]), 'score voting gives no answer for 10^9-fold vote counts',
                   known_class=lambda c, io, mo: 'C11-score-materialises')
    else:
        ctx.checker_false += 1
        ctx.report(stream, case, str(big[1:]), str(base[1:]), 'score voting outcome changes under 10^9-fold scaling')
    ctx.streams[stream] = dict(cases=1, deviations=0)


def corpus():
    import os, json, glob
    for p in sorted(glob.glob(os.path.join(common.VERIF, 'corpus', ID, '*.json'))):
        yield json.load(open(p))


def replay_case(ctx, c, stream):
    if c.get('kind') == 'int-vs-fraction':
        e = evalreg.registry()[c['evaluator']]
        py = evalreg.to_python(e['vtype'], c['profile'])
        pf = {k_: Fraction(v) for k_, v in py.items()}
        a = common.call_impl(lambda: evalreg.canon_result(e, evalreg.run(e, py, c['n']), cnum), 10)
        b = common.call_impl(lambda: evalreg.canon_result(e, evalreg.run(e, pf, c['n']), cnum), 10)
        ctx.evaluations += 1
        if (a[0], a[1]) != (b[0], b[1]):
            ctx.checker_false += 1
            ctx.report(stream, c, str(a[1:]), str(b[1:]), '%s: integer and Fraction vote counts give different outcomes' % c['evaluator'])
    elif c.get('kind') == 'scale':
        e = evalreg.registry()[c['evaluator']]
        base = evalreg.outcome(e, c['profile'], c['n'])
        sc = evalreg.outcome(e, c['profile'], c['n'], scale=q(c['k']))
        ctx.evaluations += 1
        if (base[0], base[1]) != (sc[0], sc[1]):
            ctx.checker_false += 1
            ctx.report(stream, c, str(sc[1:]), str(base[1:]), '%s: outcome changes under %s-fold scaling' % (c['evaluator'], c['k']))
    elif c.get('unit') == 'highest_averages':
        ctx.differential(stream, [c], c01.model_line, lambda cc: c01.impl(scaled_ha(cc)), canon=c01.canon, nontrivial=lambda cc: True)
    elif c.get('unit') == 'get_n_best':
        ctx.differential(stream, [c], gnb_model_line, gnb_impl, canon=gnb_canon, nontrivial=lambda cc: True)


def explore(ctx, widen=1):
    rng = ctx.rng
    for c in corpus():
        replay_case(ctx, c, 'corpus')

    def with_k(gen):
        for c in gen:
            yield dict(c, k=jq(rng.choice(BIGK)))
    big = lambda c: q(c['k']) > 2 ** 53 or c01.nontrivial(c)     # noqa
    ctx.differential('magnitude-ha', with_k(itertools.chain(c01.gen_random(rng, ctx.n(1200, 15000) * widen), c01.gen_ties(rng, ctx.n(500, 6000) * widen),
                                                            c01.gen_zero_caps(rng, ctx.n(200, 2000)))),
                     c01.model_line, lambda c: c01.impl(scaled_ha(c)), canon=c01.canon, nontrivial=big)
    ctx.differential('magnitude-get_n_best', gen_gnb(rng, ctx.n(1500, 20000) * widen), gnb_model_line, gnb_impl, canon=gnb_canon,
                     nontrivial=lambda c: q(c['k']) > 2 ** 53)
    scale_metamorphic(ctx, 'scale-metamorphic', ctx.n(2500, 40000) * widen, rng)
    type_metamorphic(ctx, 'int-vs-fraction', ctx.n(2500, 40000) * widen, rng)
    near_tie_checks(ctx, 'near-tie', ctx.n(150, 2000), rng)
    exact_type_checks(ctx, 'exact-types', ctx.n(300, 4000), rng)
    score_magnitude_check(ctx, 'score-magnitude')
    if ctx.tier == 'thorough':
        exhaustive_small(ctx, 'exhaustive-small-simple')


def replay(ctx, case, stream=None):
    replay_case(ctx, case, 'replay')
