"""C11 - exact arithmetic: scale invariance (also far beyond 2^53), near ties never tied, equal rationals tied,
reported fractional quantities exact.  The theorems (Props/C11.v) state scale invariance of the get_n_best,
HighestAverages and win/loss Condorcet MODELS for every positive factor; this check (a) compares the implementation on
k-fold inputs with the model on the UNSCALED input (so agreement at 10^25-fold magnitude is a model-vs-code tie, not
a self-comparison), (b) evaluates f(k*p) = f(p) on the implementation for every scale-free evaluator configuration,
(c) near-tie / equal-representation clauses, (d) no float in any reported quantity."""
import itertools
from fractions import Fraction
from decimal import Decimal
import common
from common import sx, q, jq, cname, cnum, ok
from units import U, BLOCK
import evalreg
import props.c01 as c01
import props.c09 as c09
import props.c12 as c12
import props.c16 as c16

ID = 'C11'
NO_LABEL_STREAMS = {'exact-positional'}      # the C13 converter streams carry their own candidate naming
ZERO_LABELS = True      # a share of the cases is asked with candidates numbered from 0 (harness/common.py LABEL_MODE)
LEVEL = 'proof'
TIE = {'core.get_n_best, proportional.HighestAverages.evaluate': 'correspondence: implementation on k-fold votes vs the extracted model on the unscaled votes (k up to 10^25+7, 2^60+1)',
       'condorcet.pairwise_wins / CondorcetWinner / Copeland / SmithSet / SchwartzSet': 'models shared with C05/C06 (correspondence there); metamorphic relation on the implementation here',
       'threshold.RelativeThreshold / AbsoluteThreshold / AlternativeThresholds, approval.QuotaSelector':
           'correspondence: implementation on profiles with parties exactly on / one vote off the line (magnitudes up to 10^30 * total) vs the extracted models '
           '(threshold and quota-selector models shared with C16 / C09, where the translator ties them too) and vs the rule n*q > total*p evaluated in rationals in the harness',
       'core.Conditioned(threshold, HighestAverages) = Model/Conditioned.v conditioned_ha':
           'correspondence (stream threshold-conditioned): the composed model - selector model, the parties it returns kept in vote order, highest-averages model over them - '
           'vs the implementation on the threshold-line profiles; and independently (threshold-conditioned-exact-rule) the highest-averages model on the parties passing the exact rule computed in the harness',
       'openlist.ThresholdOpenList = Model/Threshold.v openlist_eval': 'correspondence (stream open-list-line; model shared with C16, translator tie there): a list candidate exactly on / one vote off the '
           'jump line (fraction of the total as Fraction or Decimal, hare / Hagenbach-Bischoff / Imperiali quota times 1, 1/2, 3/2, higher or lower of the two) at magnitudes up to 3*10^40, vs the extracted model and vs an exact '
           'Fraction reading of the rule in the harness',
       'proportional.PureProportionality = Model/PureProp.v pp_evaluate': 'correspondence (stream pure-proportionality): implementation on k-fold votes (k up to 10^30, 7/3; previous gains, maxima, ZeroDivisionError) vs the '
           'extracted model on the UNSCALED votes, and the exact shares v*n/total in the harness when there are no floors / ceilings',
       'approval.ProportionalApproval / SequentialProportionalApproval': 'correspondence: implementation vs the extracted PAV / SPAV models (shared with C12) and vs an exact '
           'Fraction PAV / SPAV in the harness on constructed exactly tied committees and one-vote leads (3-4 seats, magnitudes up to 10^30): refusal iff exact tie',
       'cardinal.STAR, AllocatedScoreSelector (models shared with C12), Benham / TidemanAlternative (C05), Baldwin (C07 / C05), RankedToCondorcetVotes, largest remainder, STV with hare / Hagenbach-Bischoff quota, '
       'positional, Bucklin, Schulze, minimax, ranked pairs, Kemeny, score family': 'models tied by the correspondence streams of their home properties; metamorphic relation f(k*p) = f(p) on the implementation here'}
RULE = ('magnitude-differential: C01 generators (random, constructed quotient ties, zero votes / caps) and get_n_best mappings, implementation run on '
        'k*votes for k in {3, 2^60+1, 10^25+7, 7/3}, model run on votes. scale-metamorphic: every scale-free configuration of harness/evalreg.py '
        '(60 of the 63 evaluator configurations over simple / approval / ranked / score / pairwise votes; the 3 with the Droop quota are proved NOT scale-free) plus 17 threshold-family configurations (RelativeThreshold 1/3, 1/4, 3/100, 1/20 with '
        'accept_equal both ways, each also as Conditioned(threshold, D\'Hondt), AlternativeThresholds) on random profiles, outcome at k in {2, 3, 7, 10^6, 10^25+7} (score '
        'family k <= 1000: one list element per voter) equals the outcome at k = 1, refusals included. threshold-line: simple votes with one or two parties exactly on '
        'a share t of the total (t in 1/3, 3/100, 1/20, 7/100, 1/10, 3/200, 1/5, ... or random p/q, q <= 200), one vote above or one vote below, the offset applied before or '
        'after a k-fold scaling (k in {1, 2, 3, 7, 10^6, 2^53+1, 10^25+7, 10^30}), counts as int / Fraction / genuinely rational, accept_equal both ways: RelativeThreshold, '
        'AbsoluteThreshold (threshold = the line), AlternativeThresholds, Conditioned(threshold, highest averages with any of the five divisors, 1..40 seats), QuotaSelector '
        '(hare / hagenbach_bischoff when t = 1/n) against the extracted models and against the exact rational rule computed in the harness. open-list-line: the same profiles read as '
        'preferential votes of a list, jump_fraction = t (Fraction, or Decimal with int counts) and / or a homogeneous quota times 1, 1/2, 3/2, take_higher / accept_equal / list_precedence both ways, 1..m seats, '
        'random list order, against the extracted model and the exact rule. pure-proportionality: 1-6 parties (zeros, fractions, equal votes), 0-20 seats, previous gains and maxima on random subsets, implementation on '
        'k-fold votes against the model on the votes. approval-exact-ties: PAV / SPAV '
        'profiles (mostly 3-4 seats) with exactly tied optimal committees / round leaders (found among random small profiles, preferring ties between DIFFERENT sums such as '
        '11/6*2 + ... = 11/6*8 + ..., or constructed by one balancing ballot), the balancing ballot one vote heavier / lighter, each at k = 1 and two magnitudes up to 10^30, '
        'against the extracted PAV / SPAV models and an exact Fraction PAV / SPAV in the harness: tie refusal iff exact tie, committee and its order otherwise. near-tie: pairs (v, v+1) at v in '
        '{10^3, 2^53, 10^30} and equal totals in different representations (int / Fraction / Decimal) at the cut of plurality, highest averages '
        'and largest remainder. int-vs-fraction: weights K*w+e (K in {2^52+1, 2^52+2, 2^53, 2^53+1, 10^16+1, 10^30+1}, e in -1..2; a third of the cases '
        'with two or three equally weighted ballot types so that majorities hinge on single votes) given once as int and once as Fraction to every '
        'non-score evaluator: identical outcomes. exact-types: no float in PureProportionality seats, split approvals, exact means, Gregory transfer tallies. '
        'non-trivial = result contains a tie, or k > 2^53, or a party / candidate exactly on a line; distinct by case hash')
PARTIAL = ['every configuration of the registry now has a scale theorem or a proved refutation (docs/C11.md lists them); what stays partial: majority judgment with the DEFAULT tie-break is proved scale-free '
           'on balanced score dictionaries (complete ballots) only (repaired evaluator: C11_scale_mj_default_repaired_partial); on partial ballots the repaired rule has no crash outcome at any scale (C11_scale_mj_default_no_crash; finding C11-mj-default-scale fixed by fixes/C12-mj-default-exhausted), that its ANSWER is scale-free there is stated (C11_scale_mj_default_repaired_full_statement) and decided per explored case',
           'the ORDER of the list AlternativeThresholds returns (mean rank, then set iteration order) is not modelled: the selector theorems are about the set of passing parties',
           'the capped truncation of fixes/C12-truncation-middle is not homogeneous for the SUM of a candidate whose scores the configured cut-off would wipe out (C11_scale_score_truncation_sum_capped_refuted); no registered configuration truncates',
           'float-freeness of the implementation is by construction a per-case observation (the models compute in Q)']
TRUSTED = []
KS = [2, 3, 7, 10 ** 6, 10 ** 25 + 7]
BIGK = [3, 2 ** 60 + 1, 10 ** 25 + 7, Fraction(7, 3)]


# ------------------------------------------------------------------ magnitude differential (model on unscaled input)
def scaled_ha(c):
    k = q(c['k'])
    return dict(c, votes=[[p, jq(q(v) * k)] for p, v in c['votes']])


def gnb_model_line(c):
    return '%d (%s %d)' % (U['get_n_best'], sx([[p, q(v)] for p, v in c['votes']]), c['n'])


def gnb_impl(c):
    import votelib.evaluate.core as core
    k = q(c['k'])
    votes = {cname(p): evalreg.num(q(v) * k) for p, v in c['votes']}
    res = core.get_n_best(votes, c['n'])
    return ok([sorted(cnum(x) for x in r) if isinstance(r, core.Tie) else cnum(r) for r in res])


def gnb_canon(c, wire):
    v = common.parse_sx(wire)
    if v[0] != 0:
        return ('err', v[1])
    return ('ok', tuple(tuple(sorted(r)) if isinstance(r, list) else r for r in v[1]))


def gen_gnb(rng, count):
    for _ in range(count):
        m = rng.randint(1, 7)
        pool = [rng.randint(0, 9), rng.randint(0, 9), rng.randint(0, 1000), Fraction(rng.randint(0, 9), rng.randint(1, 4))]
        votes = [[i + 1, jq(rng.choice(pool))] for i in range(m)]
        rng.shuffle(votes)
        yield dict(unit='get_n_best', votes=votes, n=rng.randint(1, m + 1), k=jq(rng.choice(BIGK)))


# ------------------------------------------------------------------ registry entries used by this property only
_EXTRA = None


def extra_registry():
    """threshold-family configurations for the scale-metamorphic stream (same schema as harness/evalreg.py; kept local because the
    other users of the shared registry judge shapes / orders of evaluators that fill seats)"""
    global _EXTRA
    if _EXTRA is None:
        import votelib.evaluate.core as core, votelib.evaluate.threshold as thr, votelib.evaluate.proportional as prop
        _EXTRA = {}

        def add(name, kind, make, seats):
            _EXTRA[name] = dict(name=name, vtype='simple', kind=kind, make=make, family='threshold', scale_free=True, seats=seats, max_k=None,
                                det=True, needs=None, exact=False, min_cands=1)
        for p_, q_ in ((1, 3), (1, 4), (3, 100), (1, 20)):
            for ae in (True, False):
                t = Fraction(p_, q_)
                tag = '%d_%d_%s' % (p_, q_, 'incl' if ae else 'strict')
                add('relative_threshold_' + tag, 'sel', (lambda t=t, ae=ae: thr.RelativeThreshold(t, accept_equal=ae)), False)
                add('conditioned_rel_%s_d_hondt' % tag, 'dist',
                    (lambda t=t, ae=ae: core.Conditioned(thr.RelativeThreshold(t, accept_equal=ae), prop.HighestAverages('d_hondt'))), True)
        add('alternative_thresholds_rel', 'sel',
            lambda: thr.AlternativeThresholds([thr.RelativeThreshold(Fraction(1, 3), accept_equal=False), thr.RelativeThreshold(Fraction(1, 4))]), False)
    return _EXTRA


def reg_all():
    d = dict(evalreg.registry())
    d.update(extra_registry())
    return d


# ------------------------------------------------------------------ metamorphic scaling on the implementation
def scale_metamorphic(ctx, stream, count, rng):
    reg = reg_all()
    names = [n for n, e in reg.items() if e['scale_free']]
    bad = n = 0
    for _ in range(count):
        e = reg[rng.choice(names)]
        prof = evalreg.gen_profile(rng, e['vtype'], shared=(e['needs'] != 'noshared'), small=(e['needs'] == 'small'))
        cands = evalreg.candidates_of(e['vtype'], prof)
        seats = rng.randint(1, max(1, len(cands)))
        base = evalreg.outcome(e, prof, seats)
        ks = [k for k in KS if not e['max_k'] or k <= e['max_k']]
        k = rng.choice(ks)
        ctx.evaluations += 1
        ctx.dist['stream:' + stream] += 1
        ctx.dist['vtype:' + e['vtype']] += 1
        if base[0] == 'err' and base[1] == common.E['TIMEOUT']:
            continue
        sc = evalreg.outcome(e, prof, seats, scale=k)
        n += 1
        case = dict(kind='scale', evaluator=e['name'], profile=prof, n=seats, k=k)
        tie = base[0] == 'ok' and any(isinstance(x, tuple) for x in (base[1][1] if base[1][0] == 'sel' else [kk for kk, _ in base[1][1]]))
        if tie or k > 2 ** 53:
            ctx.nontrivial.add(common.case_hash(case))
        why = None
        if sc[0] == 'err' and sc[1] == common.E['TIMEOUT']:
            ctx.dist['scale:timeout'] += 1
            continue
        if base[0] == 'ok' and sc[0] == 'ok':
            b, s = base[1], sc[1]
            if e['name'] == 'pure_proportionality':
                s = (s[0], tuple((kk, v) for kk, v in s[1]))     # seats are shares of the house: scale-free as they are
            if b != s:
                why = 'outcome changes under %s-fold scaling: %s -> %s' % (k, b, s)
        elif base[0] != sc[0] or base[1] != sc[1]:
            why = 'refusal behaviour changes under %s-fold scaling: %s -> %s' % (k, base[1:], sc[1:])
        if why:
            bad += 1
            ctx.checker_false += 1
            # wave 6: C11-mj-default-scale is repaired (fixes/C12-mj-default-exhausted: no StatisticsError at any scale): every
            # difference between the two scales is a violation
            ctx.report(stream, case, str(sc[1:]), str(base[1:]), '%s: %s' % (e['name'], why))
        elif len(ctx.samples) < 3 and tie and k > 2 ** 53:
            ctx.samples.append(dict(stream=stream, case=case, impl=str(sc[1]), model='same as unscaled: ' + str(base[1])))
    ctx.streams[stream] = dict(cases=n, deviations=bad)


def exhaustive_small(ctx, stream):
    """thorough tier: EVERY simple-vote profile over <= 3 candidates with totals 0..3, every n, scaled by 2, 7/3 and 10^17+3, for every
    scale-free simple-vote evaluator of the registry"""
    reg = evalreg.registry()
    names = [n for n, e in reg.items() if e['scale_free'] and e['vtype'] == 'simple']
    bad = n = 0
    for m in (1, 2, 3):
        for vals in itertools.product(range(0, 4), repeat=m):
            if sum(vals) == 0:
                continue
            prof = [[i + 1, v] for i, v in enumerate(vals)]
            for name in names:
                e = reg[name]
                for seats in range(1, m + 1):
                    base = evalreg.outcome(e, prof, seats)
                    for k in (2, '7/3', 10 ** 17 + 3):
                        if e['max_k'] and q(k) > e['max_k']:
                            continue
                        sc = evalreg.outcome(e, prof, seats, scale=q(k))
                        n += 1
                        ctx.evaluations += 1
                        b, s2 = base[1:], sc[1:]
                        if name == 'pure_proportionality' and sc[0] == 'ok':
                            s2 = ((sc[1][0], tuple((kk, v) for kk, v in sc[1][1])),) + tuple(sc[2:])
                        if base[0] != sc[0] or b != s2:
                            bad += 1
                            ctx.checker_false += 1
                            ctx.report(stream, dict(kind='scale', evaluator=name, profile=prof, n=seats, k=jq(q(k))), str(sc[1:]), str(base[1:]),
                                       '%s: outcome changes under %s-fold scaling' % (name, k))
    ctx.dist['stream:' + stream] += n
    ctx.streams[stream] = dict(cases=n, deviations=bad, exhaustive=True)


# ------------------------------------------------------------------ int vs Fraction representation at near-tie magnitudes
NEARK = [2 ** 52 + 1, 2 ** 52 + 2, 2 ** 53, 2 ** 53 + 1, 10 ** 16 + 1, 10 ** 30 + 1]


def type_metamorphic(ctx, stream, count, rng):
    """weights K*w + e (e in -1..2) with K beyond 2^52: the same numbers given as int and as Fraction must give the same
    outcome (true division of ints would round, Fractions stay exact), and no float may appear in the result"""
    reg = evalreg.registry()
    names = [n for n, e in reg.items() if e['vtype'] != 'score']
    bad = n = 0
    for i in range(count):
        e = reg[rng.choice(names)]
        focus = i % 3 == 0        # few ballot types with equal base weight: majorities decided by single votes
        prof = evalreg.gen_profile(rng, e['vtype'], shared=(e['needs'] != 'noshared'), small=(focus or e['needs'] == 'small'))
        if focus and e['vtype'] in ('ranked', 'approval'):
            prof = [[b, 1] for b, _ in prof[:rng.randint(2, 3)]]
        K = rng.choice(NEARK)
        prof2 = [[key, jq(max(q(w) * K + rng.choice([-1, 0, 0, 1, 2]), 0))] for key, w in prof]
        cands = evalreg.candidates_of(e['vtype'], prof2)
        seats = rng.randint(1, max(1, len(cands)))
        py = evalreg.to_python(e['vtype'], prof2)
        pf = {k_: Fraction(v) for k_, v in py.items()}
        a = common.call_impl(lambda: evalreg.canon_result(e, evalreg.run(e, py, seats), cnum), 10)
        b = common.call_impl(lambda: evalreg.canon_result(e, evalreg.run(e, pf, seats), cnum), 10)
        ctx.evaluations += 1
        ctx.dist['stream:' + stream] += 1
        n += 1
        case = dict(kind='int-vs-fraction', evaluator=e['name'], profile=prof2, n=seats)
        ctx.nontrivial.add(common.case_hash(case))
        if (a[0], a[1]) != (b[0], b[1]):
            if a[0] == 'err' and a[1] == common.E['TIMEOUT'] or b[0] == 'err' and b[1] == common.E['TIMEOUT']:
                continue
            bad += 1
            ctx.checker_false += 1
            ctx.report(stream, case, str(a[1:]), str(b[1:]),
                       '%s: integer and Fraction vote counts of the same value give different outcomes (rounding): %s vs %s' % (e['name'], a[1:], b[1:]))
    ctx.streams[stream] = dict(cases=n, deviations=bad)


# ------------------------------------------------------------------ near ties / equal representations
def near_tie_checks(ctx, stream, count, rng):
    import votelib.evaluate.core as core, votelib.evaluate.proportional as prop
    bad = n = 0
    for _ in range(count):
        v = rng.choice([10 ** 3, 2 ** 53, 10 ** 30, 2 ** 64 - 1])
        rep = rng.choice(['int', 'frac', 'dec'])
        mk = {'int': lambda x: x, 'frac': lambda x: Fraction(x), 'dec': lambda x: Decimal(x)}[rep]
        others = [rng.choice([v - 2, v + 3, 1, v * 2]) for _ in range(rng.randint(0, 3))]
        equal = rng.random() < 0.5
        votes = {'A': mk(v), 'B': (rng.choice([Fraction(v), Decimal(v), v]) if equal else mk(v + 1))}
        for i, o in enumerate(others):
            votes['O%d' % i] = o
        items = list(votes.items())
        rng.shuffle(items)
        votes = dict(items)
        for evname, ev, kw in (('get_n_best', None, {}), ('ha', prop.HighestAverages('d_hondt'), {}), ('lr', prop.LargestRemainder('hare'), {})):
            for seats in (1, 2):
                n += 1
                ctx.evaluations += 1
                ctx.dist['stream:' + stream] += 1
                r = common.call_impl(lambda: core.get_n_best(votes, seats) if ev is None else ev.evaluate(votes, seats), 5)
                case = dict(kind='near-tie', evaluator=evname, votes={k: str(x) for k, x in votes.items()}, n=seats, equal=equal)
                ctx.nontrivial.add(common.case_hash(case))
                if r[0] != 'ok':
                    if rep == 'dec' or equal:
                        ctx.dist['near-tie:refused-mixed-types'] += 1      # Fraction / Decimal mixing is outside the quantifier
                        continue
                    bad += 1
                    ctx.checker_false += 1
                    ctx.report(stream, case, str(r[1:]), 'n/a', 'near-tie input refused: %s' % (r[2],))
                    continue
                res = r[1]
                ties = [k for k in (res if isinstance(res, list) else res.keys()) if isinstance(k, core.Tie)]
                why = None
                if evname == 'get_n_best':
                    elected = [k for k in res if not isinstance(k, core.Tie)]
                    ina = 'A' in elected, any('A' in t for t in ties)
                    inb = 'B' in elected, any('B' in t for t in ties)
                    if not equal and any('A' in t and 'B' in t for t in ties):
                        why = 'totals %s and %s reported as tied' % (votes['A'], votes['B'])
                    if equal and ina != inb:
                        why = 'equal totals %r and %r treated differently: %s' % (votes['A'], votes['B'], res)
                else:
                    if not equal and any('A' in t and 'B' in t for t in ties) and seats == 1 and not others:
                        why = 'first quotients %s and %s reported as tied' % (votes['A'], votes['B'])
                    if equal and isinstance(res, dict):
                        sa = res.get('A', 0), any('A' in t for t in ties)
                        sb = res.get('B', 0), any('B' in t for t in ties)
                        if sa != sb:
                            why = 'equal totals %r and %r get different seats: %s' % (votes['A'], votes['B'], res)
                if why:
                    bad += 1
                    ctx.checker_false += 1
                    ctx.report(stream, case, str(res), 'n/a', '%s: %s' % (evname, why))
    ctx.streams[stream] = dict(cases=n, deviations=bad)


# ------------------------------------------------------------------ thresholds: parties on the line, one vote above, one vote below
THR_POOL = ['1/3', '3/100', '1/20', '7/100', '1/10', '3/200', '1/5', '1/4', '2/5', '1/2', '1/6', '1/100', '1/8', '2/3']
LINE_K = [1, 1, 2, 3, 7, 10 ** 6, 2 ** 53 + 1, 10 ** 25 + 7, 10 ** 30, 10 ** 30 + 7, 3 * 10 ** 40 + 1]
HB = {1: 'hare', 4: 'hagenbach_bischoff'}


def rep_num(x, rep):
    """exact value -> the Python number handed to the library: 'frac' = always a Fraction, otherwise int when integral"""
    return Fraction(q(x)) if rep == 'frac' else evalreg.num(x)


def line_votes(c):
    return {cname(p): rep_num(v, c['rep']) for p, v in c['votes']}


def passes(v, line, ae):
    return v > line or (ae and v == line)


def sel_exact(sel, exact):
    """declarative reading of a threshold selector on exact rational totals -> set of passing parties"""
    if sel[0] == 2:
        return set().union(*[sel_exact(p, exact) for p in sel[1]])
    line = c16.qn(sel[1]) * (sum(exact.values()) if sel[0] == 1 else 1)
    return {p for p, v in exact.items() if passes(v, line, sel[2])}


def _as_decimal(fr):
    """the exact Decimal of a rational with a terminating expansion of at most 12 digits, else None"""
    for e in range(13):
        if (fr * 10 ** e).denominator == 1:
            return Decimal(int(fr * 10 ** e)).scaleb(-e)
    return None


def sel_obj(s, rep, thr_rep='frac'):
    """thr_rep 'dec': a relative threshold is handed over as a Decimal (0.05, not 1/20) when the counts are ints - the same number,
    but Decimal arithmetic is bound to a 28-digit context, so an implementation that multiplies it with a huge total goes wrong"""
    import votelib.evaluate.threshold as th
    if s[0] == 0:
        return th.AbsoluteThreshold(rep_num(c16.qn(s[1]), rep), accept_equal=s[2])
    if s[0] == 1:
        t = c16.qn(s[1])
        d = _as_decimal(t) if thr_rep == 'dec' and rep == 'int' else None
        return th.RelativeThreshold(t if d is None else d, accept_equal=s[2])
    return th.AlternativeThresholds([sel_obj(p_, rep, thr_rep) for p_ in s[1]])


def thr_impl(c):
    return ok([cnum(x) for x in sel_obj(c['sel'], c['rep'], c.get('thr_rep', 'frac')).evaluate(line_votes(c))])


def thr_spec(c, io, mo):
    """the exact rule n_i * q > total * p (>= when equal shares are accepted), computed here in rationals"""
    exact = {p: q(v) for p, v in c['votes']}
    want = sel_exact(c['sel'], exact)
    v = common.parse_sx(io)
    if v[0] != 0:
        return 'threshold selector refused exact rational votes: %s' % c.get('_exc')
    got = v[1]
    if set(got) != want or len(got) != len(want):
        return ('selector %s returns %s; in exact arithmetic the parties passing are %s (totals %s, sum %s)'
                % (c['sel'], sorted(got), sorted(want), {p: str(x) for p, x in sorted(exact.items())}, sum(exact.values())))
    if c['sel'][0] != 2 and any(exact[a] < exact[b] for a, b in zip(got, got[1:])):
        return 'passing parties are not listed by decreasing exact totals: %s' % got
    return None


def cond_passing(c):
    exact = {p: q(v) for p, v in c['votes']}
    keep = sel_exact(c['sel'], exact)
    return [[p, v] for p, v in c['votes'] if p in keep]


def cond_model_line(c):
    """Conditioned(threshold, highest averages) = the composed MODEL Model/Conditioned.v conditioned_ha (threshold selector model, the
    parties it returns kept in the order of the votes, highest-averages model over them) - the function the theorems
    C11_scale_conditioned_highest_averages / _relative are about"""
    return '%d (%s %s %s %d () ())' % (BLOCK['C11'] + 0, c16.sel_sx(c['sel']), c01.dsx(c['div']), sx([[p, q(v)] for p, v in c['votes']]), c['n'])


def cond_exact_model_line(c):
    """... and, independently, the highest-averages MODEL on the parties that pass the exact threshold rule computed in the harness"""
    return c01.model_line(dict(c, votes=cond_passing(c), prev=[], caps=[]))


def cond_spec(c, io, mo):
    if c01.canon(c, io) != c01.canon(c, mo):
        return ('Conditioned(%s, highest averages %s) distributes %s; the parties passing the exact threshold rule are %s and highest averages over them gives %s'
                % (c['sel'], c['div'], io, sorted(p for p, _ in cond_passing(c)), mo))
    return None


def cond_impl(c):
    import votelib.evaluate.core as core, votelib.evaluate.proportional as prop
    ev = core.Conditioned(sel_obj(c['sel'], c['rep'], c.get('thr_rep', 'frac')), prop.HighestAverages(c01.divisor_obj(c['div'])))
    return ok(c01.enc_dist(ev.evaluate(line_votes(c), c['n'])))


def qsel_impl(c):
    import votelib.evaluate.approval as ap
    ev = ap.QuotaSelector(c09.QN[c['quota']], accept_equal=c['ae'], on_more_over_quota='select' if c['select'] else 'error')
    return ok(c09.enc_sel(ev.evaluate(line_votes(c), c['n'])))


def qsel_spec(c, io, mo):
    """who is over the exact quota total/n (hare) resp. total/(n+1) (hagenbach_bischoff): every plain winner must be, and when
    at most n parties are, exactly those are returned"""
    exact = {p: q(v) for p, v in c['votes']}
    line = sum(exact.values()) / (c['n'] + (1 if c['quota'] == 4 else 0))
    over = {p for p, v in exact.items() if passes(v, line, c['ae'])}
    v = common.parse_sx(io)
    if v[0] != 0:
        return None if v[1] == common.E['VSE'] and len(over) > c['n'] and not c['select'] else 'quota selector refused: %s' % c.get('_exc')
    flat = [x for r in v[1] for x in (r if isinstance(r, list) else [r])]
    if not set(flat) <= over or (len(over) <= c['n'] and set(flat) != over):
        return 'quota selector returns %s; exactly over the quota %s are %s' % (v[1], line, sorted(over))
    return None


def gen_line_profiles(rng, count):
    """simple-vote profiles with one or two parties exactly on a rational share t of the total, or one vote off it (the offset is applied
    either before the k-fold scaling - plain scale metamorphism - or after it: one vote at magnitude k*total), total kept at k*T0"""
    for _ in range(count):
        if rng.random() < 0.75:
            t = Fraction(rng.choice(THR_POOL))
        else:
            d = rng.randint(2, 200)
            t = Fraction(rng.randint(1, max(1, d // 2)), d)
        m = rng.randint(2, 6)
        T0 = t.denominator * rng.randint(1, 60) * rng.choice([1, 1, 10, 1000, 10 ** 5])
        line = t * T0
        assert line.denominator == 1
        line = int(line)
        k = rng.choice(LINE_K)
        near = rng.random() < 0.5
        nline = 2 if (m >= 3 and 2 * line < T0 and rng.random() < 0.3) else 1
        rest = T0 - nline * line
        nfree = m - nline
        cuts = sorted(rng.randint(0, rest) for _ in range(nfree - 1))
        free = [b - a for a, b in zip([0] + cuts, cuts + [rest])]
        if rng.random() < 0.5:
            free.sort()         # the filler (last) is the largest
        deltas = [rng.choice([0, 0, -1, 1]) for _ in range(nline)]
        filler = free[-1] * k if near else free[-1]
        if filler - sum(deltas) < 0:
            deltas = [0] * nline
        base = [line] * nline + free
        dl = deltas + [0] * (nfree - 1) + [-sum(deltas)]
        vals = [(b * k + d_) if near else (b + d_) * k for b, d_ in zip(base, dl)]
        assert sum(vals) == T0 * k and min(vals) >= 0
        rep = rng.choice(['int', 'int', 'frac', 'rational'])
        ratio = Fraction(1, rng.choice([2, 3, 7])) if rep == 'rational' else 1
        ids = list(range(1, m + 1))
        rng.shuffle(ids)
        votes = [[i, jq(v * ratio)] for i, v in zip(ids, vals)]
        rng.shuffle(votes)
        yield dict(t=t, ae=rng.random() < 0.5, votes=votes, rep=rep, thr_rep=rng.choice(['frac', 'dec']), k=str(k), near=near, on_line=jq(line * k * ratio), deltas=deltas,
                   n=rng.randint(1, 40))


def big_or_on_line(c):
    return int(c['k']) > 2 ** 53 or 0 in c.get('deltas', [])


def threshold_line(ctx, count, rng):
    thr_cases, cond_cases, qs_cases = [], [], []
    for g in gen_line_profiles(rng, count):
        t, ae = g.pop('t'), g.pop('ae')
        rel = [1, 'f:%s' % t, ae]
        absl = [0, 'f:%s' % q(g['on_line']), rng.choice([ae, not ae])]
        thr_cases.append(dict(g, unit='threshold', sel=rel))
        r = rng.random()
        if r < 0.3:
            thr_cases.append(dict(g, unit='threshold', sel=absl))
        elif r < 0.5:
            thr_cases.append(dict(g, unit='threshold', sel=[2, [absl, [1, 'f:%s' % t, not ae]]]))
        cond = dict(g, unit='conditioned_ha', sel=rng.choice([rel, rel, rel, absl]), div=[rng.choice([1, 1, 2, 3, 4, 5])])
        if cond_passing(cond):        # nobody passes: the inner evaluator gets no votes at all (not a question of arithmetic)
            cond_cases.append(cond)
        if t.numerator == 1 and t.denominator <= 12:
            for qn_ in (1, 4):
                n = t.denominator - (1 if qn_ == 4 else 0)
                if n >= 1:
                    qs_cases.append(dict(g, unit='quota_selector', quota=qn_, ae=ae, select=rng.random() < 0.7, n=n))
    for cs in (thr_cases, cond_cases, qs_cases):
        for c in cs:
            ctx.dist['line:k>2^53' if int(c['k']) > 2 ** 53 else 'line:k<=2^53'] += 1
            ctx.dist['line:rep=' + c['rep']] += 1
    ctx.differential('threshold-line', thr_cases, c16.thr_model_line, thr_impl, canon=c16.thr_canon, nontrivial=big_or_on_line, spec=thr_spec)
    ctx.differential('threshold-conditioned', cond_cases, cond_model_line, cond_impl, canon=c01.canon, nontrivial=big_or_on_line, spec=cond_spec)
    ctx.differential('threshold-conditioned-exact-rule', cond_cases, cond_exact_model_line, cond_impl, canon=c01.canon, nontrivial=big_or_on_line, spec=cond_spec)
    ctx.differential('threshold-quota-selector', qs_cases, c09.qs_model_line, qsel_impl, canon=c09.canon, nontrivial=big_or_on_line, spec=qsel_spec)


# ------------------------------------------------------------------ open lists: a candidate on the jump line, one vote above, one vote below
def ol_line_impl(c):
    import votelib.evaluate.openlist as ol
    kw = {}
    if c['jump'] is not None:
        kw['jump_fraction'] = c16.pynum(c['jump'])
    if c['quota'] is not None:
        kw['quota_function'] = c16.QN[c['quota']]
        if c['qfrac'] != 'i:1':
            kw['quota_fraction'] = c16.pynum(c['qfrac'])
    ev = ol.ThresholdOpenList(take_higher=bool(c['th']), accept_equal=bool(c['ae']), list_precedence=bool(c['lp']), **kw)
    return ok([cnum(x) for x in ev.evaluate(line_votes(c), c['n'], [cname(p) for p in c['list']])])


def ol_exact(c):
    """ThresholdOpenList read declaratively on exact rationals: who is over the jump line (the lower / higher of fraction * total and
    quota_fraction * quota(total, n)), cut to n by votes or by list order, filled up from the list"""
    exact = {p: q(v) for p, v in c['votes']}
    total = sum(exact.values())
    lines = []
    if c['jump'] is not None:
        lines.append(total * c16.qn(c['jump']))
    if c['quota'] is not None:
        lines.append(total / (c['n'] + {1: 0, 4: 1, 7: 2}[c['quota']]) * c16.qn(c['qfrac']))
    if not lines:
        return c['list'][:c['n']]
    line = max(lines) if c['th'] else min(lines)
    order = sorted(exact, key=lambda p: -exact[p])           # stable: equal votes keep the order of the votes
    jumping = [p for p in order if passes(exact[p], line, c['ae'])]
    if len(jumping) > c['n']:
        if c['lp']:
            kept = sorted(jumping, key=c['list'].index)[:c['n']]
            return sorted(kept, key=lambda p: -exact[p])
        return jumping[:c['n']]
    out = list(jumping)
    for p in c['list']:
        if len(out) == c['n']:
            break
        if p not in out:
            out.append(p)
    return out


def ol_line_spec(c, io, mo):
    v = common.parse_sx(io)
    if v[0] != 0:
        return 'open list refused exact rational votes: %s' % c.get('_exc')
    want = ol_exact(c)
    if v[1] != want:
        return ('open list (jump %s, quota %s x %s, %s of the two lines) returns %s; in exact arithmetic the result is %s'
                % (c['jump'], c16.QN.get(c['quota']), c['qfrac'], 'higher' if c['th'] else 'lower', v[1], want))
    return None


def open_list_line(ctx, count, rng):
    cases = []
    for g in gen_line_profiles(rng, count):
        t = g.pop('t')
        g.pop('thr_rep')
        ids = [p for p, _ in g['votes']]
        lst = ids[:]
        rng.shuffle(lst)
        jump = 'f:%s' % t
        d = _as_decimal(t)
        if d is not None and g['rep'] == 'int' and rng.random() < 0.5:      # a Decimal fraction only with int counts (Fraction x Decimal is a TypeError: outside the quantifier)
            jump = 'd:%s' % d
        r = rng.random()
        quota = rng.choice([1, 4, 7]) if r < 0.4 else None
        if r > 0.85:
            jump, quota = None, rng.choice([1, 4, 7])
        cases.append(dict(g, unit='openlist', jump=jump, quota=quota, qname=True, qfrac=rng.choice(['i:1', 'f:1/2', 'f:3/2']) if quota else 'i:1',
                          th=rng.randint(0, 1), ae=1 if g.pop('ae') else 0, lp=rng.randint(0, 1), n=rng.randint(1, len(ids)), list=lst))
    for c in cases:
        ctx.dist['open-list:k>2^53' if int(c['k']) > 2 ** 53 else 'open-list:k<=2^53'] += 1
        ctx.dist['open-list:jump=%s' % (c['jump'] or 'none')[:1]] += 1
    ctx.differential('open-list-line', cases, c16.ol_model_line, ol_line_impl, canon=c16.ol_canon, nontrivial=big_or_on_line, spec=ol_line_spec)


# ------------------------------------------------------------------ PureProportionality: implementation on k-fold votes vs the model on the votes
def pp_model_line(c):
    return '%d (%s %d %s %s)' % (BLOCK['C11'] + 1, sx([[p, q(v)] for p, v in c['votes']]), c['n'],
                                 sx([[p, v] for p, v in c['prev']]), sx([[p, v] for p, v in c['caps']]))


def pp_impl(c):
    import votelib.evaluate.proportional as prop
    k = q(c['k'])
    votes = {cname(p): rep_num(q(v) * k, c['rep']) for p, v in c['votes']}
    res = prop.PureProportionality().evaluate(votes, c['n'], prev_gains={cname(p): v for p, v in c['prev']},
                                              max_seats={cname(p): v for p, v in c['caps']})
    out = []
    for cand, seats in res.items():
        if isinstance(seats, float):
            raise common.FloatLeak('float seats %r for %s' % (seats, cand))
        out.append([cnum(cand), q(seats)])
    return ok(out)


def pp_canon(c, wire):
    v = common.parse_sx(wire)
    if v[0] != 0:
        return ('err', v[1])
    return ('ok', tuple(sorted((p, Fraction(*s) if isinstance(s, list) else Fraction(s)) for p, s in v[1])))


def pp_spec(c, io, mo):
    """declarative reading without floors / ceilings: every party gets exactly v * n / total seats (a share of the house: the factor k cancels)"""
    v = pp_canon(c, io)
    if v[0] != 'ok':
        return None if v[1] == common.E['ZERODIV'] else 'pure proportionality refused exact rational votes: %s' % c.get('_exc')
    if c['prev'] or c['caps']:
        return None
    exact = {p: q(x) for p, x in c['votes']}
    total = sum(exact.values())
    want = tuple(sorted((p, x * c['n'] / total) for p, x in exact.items()))       # a party without votes (or a house without seats) is listed with 0 seats
    if v[1] != want:
        return 'pure proportionality on %s-fold votes gives %s; the exact shares v * n / total are %s' % (c['k'], v[1], want)
    return None


def gen_pure(rng, count):
    for _ in range(count):
        m = rng.randint(1, 6)
        style = rng.choice(['small', 'mid', 'zeros', 'frac', 'equal'])
        ids = list(range(1, m + 1))
        rng.shuffle(ids)
        votes = []
        for p in ids:
            x = {'small': lambda: rng.randint(0, 9), 'mid': lambda: rng.randint(1, 1000), 'zeros': lambda: rng.choice([0, 0, rng.randint(1, 20)]),
                 'frac': lambda: Fraction(rng.randint(0, 40), rng.randint(1, 6)), 'equal': lambda: rng.choice([12, 24])}[style]()
            votes.append([p, jq(x)])
        r = rng.random()
        prev = [[p, rng.randint(0, 3)] for p in ids if rng.random() < 0.4] if r < 0.5 else []
        caps = [[p, rng.randint(0, 5)] for p in ids if rng.random() < 0.4] if 0.3 < r < 0.8 else []
        yield dict(unit='pure_proportionality', votes=votes, n=rng.randint(0, 20), prev=prev, caps=caps,
                   k=jq(rng.choice(BIGK + [1, 1, 10 ** 30])), rep=rng.choice(['int', 'int', 'frac']))


# ------------------------------------------------------------------ PAV / SPAV: exactly tied committees and one-vote leads
def harmonic(n):
    return [sum(Fraction(1, j + 1) for j in range(i)) for i in range(n + 1)]


def pav_scores(prof, n):
    cands = sorted({x for b, _ in prof for x in b})
    h = harmonic(n)
    return {com: sum(h[len(set(b) & set(com))] * q(w) for b, w in prof) for com in itertools.combinations(cands, n)}


def spav_exact(prof, n, trace=None):
    """exact sequential PAV: -> list of elected, or None when a round's leaders tie exactly"""
    cands = sorted({x for b, _ in prof for x in b})
    elected = []
    while len(elected) < n:
        sc = {x: sum(Fraction(q(w), 1 + len(set(b) & set(elected))) for b, w in prof if x in b) for x in cands if x not in elected}
        if not sc:
            return elected
        top = max(sc.values())
        lead = [x for x, v in sc.items() if v == top]
        if trace is not None:
            trace.append((list(elected), sc))
        if len(lead) > 1:
            return None
        elected.append(lead[0])
    return elected


def ap_votes(c):
    return {frozenset(cname(x) for x in b): rep_num(w, c['rep']) for b, w in c['votes']}


def ap_impl(c):
    import votelib.evaluate.approval as ap
    ev = ap.ProportionalApproval() if c['unit'] == 'pav' else ap.SequentialProportionalApproval()
    return ok(c12.enc_sel(ev.evaluate(ap_votes(c), c['n'])))


def ap_spec(c, io, mo):
    """exact Fraction PAV / SPAV computed here: the library must refuse (tie) iff the optimum / a round's leader is exactly tied"""
    v = common.parse_sx(io)
    if v[0] != 0 and v[1] != common.E['NIE']:
        return 'refused exact rational approval votes: %s' % c.get('_exc')
    prof, n = c['votes'], c['n']
    if c['unit'] == 'pav':
        sc = pav_scores(prof, n)
        top = max(sc.values())
        best = [com for com, s_ in sc.items() if s_ == top]
        if len(best) > 1:
            if v[0] == 0:
                return 'committees %s have exactly equal satisfaction %s, yet %s is returned instead of the tie refusal' % (best[:3], top, v[1])
            return None
        if v[0] != 0:
            second = max(s_ for s_ in sc.values() if s_ != top) if len(sc) > 1 else None
            return 'committee %s is the unique optimum (satisfaction %s, runner-up %s), yet a tie is reported' % (list(best[0]), top, second)
        flat = [x for r in v[1] for x in (r if isinstance(r, list) else [r])]
        if sorted(flat) != list(best[0]):
            return 'returned %s; the unique exact optimum is %s' % (v[1], list(best[0]))
        h = harmonic(n)
        without = {x: sum(h[len((set(b) & set(best[0])) - {x})] * q(w) for b, w in prof) for x in best[0]}
        if all(not isinstance(r, list) for r in v[1]) and any(without[a] > without[b] for a, b in zip(v[1], v[1][1:])):
            return 'committee members not ordered by decreasing exact satisfaction drop: %s' % v[1]
        return None
    want = spav_exact(prof, n)
    if want is None:
        return None if v[0] != 0 else 'a round of sequential PAV is exactly tied, yet %s is returned instead of the tie refusal' % v[1]
    if v[0] != 0:
        return 'no round of sequential PAV is tied in exact arithmetic (%s elected), yet a tie is reported' % want
    if v[1] != want:
        return 'returned %s; exact sequential PAV elects %s' % (v[1], want)
    return None


def merge_ballot(prof, ballot, w):
    ballot = sorted(ballot)
    for e in prof:
        if e[0] == ballot:
            e[1] += w
            return e
    prof.append([ballot, w])
    return prof[-1]


def random_approval(rng, m):
    ids = list(range(1, m + 1))
    prof = []
    for _b in range(rng.randint(2, 7)):
        merge_ballot(prof, rng.sample(ids, rng.randint(1, min(m, 4))), rng.randint(1, 9))
    missing = [x for x in ids if not any(x in b for b, _ in prof)]
    if missing:
        merge_ballot(prof, missing, rng.randint(1, 9))      # every candidate is approved by somebody: more candidates than seats
    return prof


def close_pav_gap(rng, prof, n):
    """one balancing ballot with j approved members of a runner-up committee c2 and i < j of the best committee c1, weighted
    gap / (h[j] - h[i]).  Weights are NOT pre-multiplied by lcm(1..n) and, of several shapes, one with an integral weight is preferred:
    the tied satisfactions then keep different non-integral summands (11/6 * 2 + ... = 11/6 * 8 + ...)"""
    sc = pav_scores(prof, n)
    order = sorted(sc, key=lambda com: (-sc[com], rng.random()))
    c1, h, options = order[0], harmonic(n), []
    for _try in range(8):
        c2 = rng.choice(order[1:min(len(order), 5)])
        only2, only1 = sorted(set(c2) - set(c1)), sorted(set(c1) - set(c2))
        common_ = sorted(set(c1) & set(c2))
        extra = rng.sample(common_, rng.randint(0, len(common_))) if rng.random() < 0.5 else []
        take2 = rng.sample(only2, rng.randint(1, len(only2)))
        take1 = rng.sample(only1, rng.randint(0, min(len(only1), len(take2) - 1)))
        w = (sc[c1] - sc[c2]) / (h[len(extra) + len(take2)] - h[len(extra) + len(take1)])
        if w > 0:
            options.append((w.denominator, rng.random(), extra + take2 + take1, w))
    if not options:
        return prof, None
    _d, _r, ballot, w = min(options)
    prof = [[b, x * w.denominator] for b, x in prof]
    return prof, merge_ballot(prof, ballot, int(w * w.denominator))


def close_spav_gap(rng, prof, n):
    """balancing ballot {elected so far} + {runner-up of a round}, weight = gap * (number elected + 1)"""
    tr = []
    spav_exact(prof, n, tr)
    rounds = [(el, s_) for el, s_ in tr if len(s_) >= 2]
    if not rounds:
        return prof, None
    el, s_ = rng.choice(rounds[-2:])
    lead = sorted(s_, key=lambda x: (-s_[x], rng.random()))
    w = (s_[lead[0]] - s_[lead[1]]) * (len(el) + 1)
    if w <= 0:
        return prof, None
    prof = [[bb, x * w.denominator] for bb, x in prof]
    return prof, merge_ballot(prof, el + [lead[1]], int(w * w.denominator))


def exactly_tied(unit, prof, n):
    if unit == 'spav':
        return spav_exact(prof, n) is None
    sc = pav_scores(prof, n)
    top = max(sc.values())
    return sum(1 for v in sc.values() if v == top) > 1


def tie_summands_differ(prof, n):
    """PAV: at least two optimal committees, and their (equal) satisfactions are sums of different non-integral terms h[j] * w"""
    sc = pav_scores(prof, n)
    top = max(sc.values())
    best = [com for com, v in sc.items() if v == top]
    h = harmonic(n)
    sigs = {tuple(sorted(t for t in (h[len(set(b) & set(com))] * q(w) for b, w in prof) if t.denominator != 1)) for com in best}
    return len(best) > 1 and len(sigs) > 1


def gen_tied_committees(rng, count):
    """approval profiles (3 or 4 seats mostly) with exactly tied optimal committees (PAV) / round leaders (SPAV): 'natural' = the first
    of up to 60 random small-weight profiles that is exactly tied (PAV: mostly with tied satisfactions that are sums of DIFFERENT non-integral
    terms, 11/6 * 2 + ... = 11/6 * 8 + ...); 'tie' = the gap closed exactly by one balancing ballot; 'lead' = that
    ballot one vote heavier or lighter; 'plain' = random profile.  Every profile at k = 1 and at two other magnitudes up to 10^30
    (the one-vote change applied after the scaling), weights as int, Fraction or genuinely rational."""
    for _ in range(count):
        m = rng.randint(4, 6)
        n = rng.choice([2, 3, 3, 3, 4]) if m > 4 else rng.choice([2, 3, 3])
        unit = rng.choice(['pav', 'pav', 'spav'])
        mode = rng.choice(['tie', 'tie', 'lead', 'lead', 'natural', 'natural', 'plain'])
        prof, bal = random_approval(rng, m), None
        if mode == 'natural':
            want = tie_summands_differ if (unit == 'pav' and n >= 3 and rng.random() < 0.7) else (lambda p_, n_: exactly_tied(unit, p_, n_))
            for _try in range(60):
                if want(prof, n):
                    break
                prof = random_approval(rng, m)
        elif mode in ('tie', 'lead'):
            prof, bal = (close_pav_gap if unit == 'pav' else close_spav_gap)(rng, prof, n)
            if bal is None:
                mode = 'plain'
        rep = rng.choice(['int', 'int', 'int', 'frac', 'rational'])
        ratio = Fraction(1, rng.choice([2, 3, 7])) if rep == 'rational' else 1
        rng.shuffle(prof)
        for k in [1] + rng.sample(LINE_K[2:], 2):
            e = rng.choice([1, 1, -1]) if mode == 'lead' else 0
            votes = [[b, jq((x * k + (e if ent is bal and x * k + e > 0 else 0)) * ratio)] for ent in prof for b, x in [ent]]
            yield dict(unit=unit, votes=votes, n=n, rep=rep, k=str(k), mode=mode)


def tie_or_big(c):
    return c['mode'] != 'plain' or int(c['k']) > 2 ** 53


def approval_ties(ctx, count, rng):
    cases = list(gen_tied_committees(rng, count))
    for c in cases:
        ctx.dist['approval:%s/%s' % (c['unit'], c['mode'])] += 1
        ctx.dist['approval:seats=%d' % c['n']] += 1
        ctx.dist['approval:exactly-tied' if exactly_tied(c['unit'], c['votes'], c['n']) else 'approval:unique'] += 1
        if c['unit'] == 'pav' and tie_summands_differ(c['votes'], c['n']):
            ctx.dist['approval:pav-tie-of-different-sums'] += 1
    ctx.differential('approval-exact-ties', cases, c12.model_line, ap_impl, canon=c12.canon, nontrivial=tie_or_big, spec=ap_spec, limit=10)


# ------------------------------------------------------------------ exact types
def find_float(x, path='result'):
    if isinstance(x, float):
        return path
    if isinstance(x, dict):
        for k, v in x.items():
            r = find_float(k, path + '.key') or find_float(v, '%s[%r]' % (path, k))
            if r:
                return r
    elif isinstance(x, (list, tuple, set, frozenset)):
        for i, v in enumerate(x):
            r = find_float(v, '%s[%d]' % (path, i))
            if r:
                return r
    return None


def exact_type_checks(ctx, stream, count, rng):
    import votelib.evaluate.proportional as prop, votelib.convert as conv, votelib.evaluate.sequential as seq, votelib.util as util
    bad = n = 0
    for _ in range(count):
        kind = rng.choice(['pure', 'split', 'mean', 'stv', 'exact_mean'])
        ctx.evaluations += 1
        ctx.dist['stream:' + stream] += 1
        scale = rng.choice([1, 1, 10 ** 20 + 1])
        if kind == 'pure':
            prof = evalreg.gen_profile(rng, 'simple')
            fn = lambda: prop.PureProportionality().evaluate(evalreg.to_python('simple', prof, scale=scale), rng.randint(1, 20))     # noqa
        elif kind == 'split':
            prof = evalreg.gen_profile(rng, 'approval')
            fn = lambda: conv.ApprovalToSimpleVotes(split=True).convert(evalreg.to_python('approval', prof, scale=scale))     # noqa
        elif kind == 'mean':
            prof = evalreg.gen_profile(rng, 'score')
            fn = lambda: conv.ScoreToSimpleVotes('mean').convert(evalreg.to_python('score', prof))     # noqa
        elif kind == 'exact_mean':
            prof = [rng.randint(0, 10 ** 18) for _ in range(rng.randint(1, 6))]
            fn = lambda: util.exact_mean(prof) if hasattr(util, 'exact_mean') else 0     # noqa
        else:
            prof = evalreg.gen_profile(rng, 'ranked', shared=True)
            qf = rng.choice(['droop', 'hare'])
            def fn():     # noqa
                d = seq.TransferableVoteDistributor(quota_function=qf)
                votes = evalreg.to_python('ranked', prof, scale=scale)
                out = []
                for i in range(1, 4):
                    try:
                        alloc, elected = d.nth_count(votes, 2, i)
                    except Exception:   # noqa
                        break
                    out.append(seq.allocation_totals(alloc))
                return out
        r = common.call_impl(fn, 10)
        n += 1
        if r[0] != 'ok':
            continue
        where = find_float(r[1])
        case = dict(kind='exact-' + kind, profile=prof if kind != 'exact_mean' else [str(x) for x in prof], scale=str(scale))
        if scale > 1:
            ctx.nontrivial.add(common.case_hash(case))
        if where:
            bad += 1
            ctx.checker_false += 1
            ctx.report(stream, case, repr(r[1])[:300], 'n/a', '%s reports a float at %s' % (kind, where))
    ctx.streams[stream] = dict(cases=n, deviations=bad)


def score_magnitude_check(ctx, stream):
    """finding C11-score-materialises (fixed, fixes/C12-score-counted): the score family built one list element per voter; the
    repaired aggregation works on the (score -> count) dictionary, so every score-family evaluator answers at 10^12-fold counts -
    the same outcome as unscaled (C11_scale_score_voting, C12_counted_aggregate) - within the time limit"""
    import votelib.evaluate.cardinal as card
    prof = [[[[1, 3], [2, 1]], 2], [[[1, 0], [2, 2]], 1], [[[1, 2]], 1]]
    bad = 0
    for nm, mk in (('score_sum', lambda: card.ScoreVoting('sum')), ('score_mean', lambda: card.ScoreVoting('mean')),
                   ('score_median_low', lambda: card.ScoreVoting('median_low')), ('score_mean_min_trunc', lambda: card.ScoreVoting('mean', unscored_value='min', truncation=Fraction(1, 4))),
                   ('mj_default', lambda: card.MajorityJudgment()), ('mj_plus', lambda: card.MajorityJudgment(tie_breaking='plus')), ('star', lambda: card.STAR())):
        ctx.evaluations += 1
        ctx.dist['stream:' + stream] += 1
        base = common.call_impl(lambda: mk().evaluate(evalreg.to_python('score', prof), 1), 2)
        big = common.call_impl(lambda: mk().evaluate(evalreg.to_python('score', prof, scale=10 ** 12), 1), 2)
        case = dict(kind='score-magnitude', evaluator=nm, profile=prof, k=10 ** 12)
        if not (big[0] == 'ok' and base[0] == 'ok' and big[1] == base[1]):
            bad += 1
            ctx.checker_false += 1
            ctx.report(stream, case, str(big[1:]), str(base[1:]), '%s: no answer / another outcome at 10^12-fold vote counts' % nm)
    ctx.streams[stream] = dict(cases=7, deviations=bad)


def corpus():
    import os, json, glob
    for p in sorted(glob.glob(os.path.join(common.VERIF, 'corpus', ID, '*.json'))):
        yield json.load(open(p))


def replay_case(ctx, c, stream):
    if c.get('kind') == 'int-vs-fraction':
        e = evalreg.registry()[c['evaluator']]
        py = evalreg.to_python(e['vtype'], c['profile'])
        pf = {k_: Fraction(v) for k_, v in py.items()}
        a = common.call_impl(lambda: evalreg.canon_result(e, evalreg.run(e, py, c['n']), cnum), 10)
        b = common.call_impl(lambda: evalreg.canon_result(e, evalreg.run(e, pf, c['n']), cnum), 10)
        ctx.evaluations += 1
        if (a[0], a[1]) != (b[0], b[1]):
            ctx.checker_false += 1
            ctx.report(stream, c, str(a[1:]), str(b[1:]), '%s: integer and Fraction vote counts give different outcomes' % c['evaluator'])
    elif c.get('kind') == 'scale':
        e = reg_all()[c['evaluator']]
        base = evalreg.outcome(e, c['profile'], c['n'])
        sc = evalreg.outcome(e, c['profile'], c['n'], scale=q(c['k']))
        ctx.evaluations += 1
        if (base[0], base[1]) != (sc[0], sc[1]):
            ctx.checker_false += 1
            ctx.report(stream, c, str(sc[1:]), str(base[1:]), '%s: outcome changes under %s-fold scaling' % (c['evaluator'], c['k']))
    elif c.get('kind') == 'score-magnitude':
        score_magnitude_check(ctx, stream)
    elif c.get('unit') == 'threshold':
        ctx.differential(stream, [c], c16.thr_model_line, thr_impl, canon=c16.thr_canon, nontrivial=lambda cc: True, spec=thr_spec)
    elif c.get('unit') == 'conditioned_ha':
        ctx.differential(stream, [c], cond_model_line, cond_impl, canon=c01.canon, nontrivial=lambda cc: True, spec=cond_spec)
        ctx.differential(stream, [c], cond_exact_model_line, cond_impl, canon=c01.canon, nontrivial=lambda cc: True, spec=cond_spec)
    elif c.get('unit') == 'quota_selector':
        ctx.differential(stream, [c], c09.qs_model_line, qsel_impl, canon=c09.canon, nontrivial=lambda cc: True, spec=qsel_spec)
    elif c.get('unit') in ('pav', 'spav'):
        ctx.differential(stream, [c], c12.model_line, ap_impl, canon=c12.canon, nontrivial=lambda cc: True, spec=ap_spec, limit=10)
    elif c.get('unit') == 'openlist':
        ctx.differential(stream, [c], c16.ol_model_line, ol_line_impl, canon=c16.ol_canon, nontrivial=lambda cc: True, spec=ol_line_spec)
    elif c.get('unit') == 'pure_proportionality':
        ctx.differential(stream, [c], pp_model_line, pp_impl, canon=pp_canon, nontrivial=lambda cc: True, spec=pp_spec)
    elif c.get('unit') == 'highest_averages':
        ctx.differential(stream, [c], c01.model_line, lambda cc: c01.impl(scaled_ha(cc)), canon=c01.canon, nontrivial=lambda cc: True)
    elif c.get('unit') == 'get_n_best':
        ctx.differential(stream, [c], gnb_model_line, gnb_impl, canon=gnb_canon, nontrivial=lambda cc: True)


def explore(ctx, widen=1):
    rng = ctx.rng
    ncorp = 0
    for c in corpus():
        replay_case(ctx, c, 'corpus')
        ncorp += 1
    ctx.streams['corpus'] = dict(cases=ncorp, deviations=sum(1 for v in ctx.violations if v['stream'] == 'corpus'))

    def with_k(gen):
        for c in gen:
            yield dict(c, k=jq(rng.choice(BIGK)))
    big = lambda c: q(c['k']) > 2 ** 53 or c01.nontrivial(c)     # noqa
    ctx.differential('magnitude-ha', with_k(itertools.chain(c01.gen_random(rng, ctx.n(1200, 15000) * widen), c01.gen_ties(rng, ctx.n(500, 6000) * widen),
                                                            c01.gen_zero_caps(rng, ctx.n(200, 2000)))),
                     c01.model_line, lambda c: c01.impl(scaled_ha(c)), canon=c01.canon, nontrivial=big)
    ctx.differential('magnitude-get_n_best', gen_gnb(rng, ctx.n(1500, 20000) * widen), gnb_model_line, gnb_impl, canon=gnb_canon,
                     nontrivial=lambda c: q(c['k']) > 2 ** 53)
    scale_metamorphic(ctx, 'scale-metamorphic', ctx.n(2500, 40000) * widen, rng)
    type_metamorphic(ctx, 'int-vs-fraction', ctx.n(2500, 40000) * widen, rng)
    near_tie_checks(ctx, 'near-tie', ctx.n(150, 2000), rng)
    threshold_line(ctx, ctx.n(900, 12000) * widen, rng)
    open_list_line(ctx, ctx.n(700, 9000) * widen, rng)
    approval_ties(ctx, ctx.n(500, 6000) * widen, rng)
    ctx.differential('pure-proportionality', gen_pure(rng, ctx.n(1200, 15000) * widen), pp_model_line, pp_impl, canon=pp_canon,
                     nontrivial=lambda c: q(c['k']) > 2 ** 53 or bool(c['prev'] or c['caps']), spec=pp_spec)
    exact_type_checks(ctx, 'exact-types', ctx.n(300, 4000), rng)
    # exactness where a float would only show on an exact tie: the withdrawal of over-awarded seats (equal margins under the
    # Imperiali quota) and the positional scores of rank scorers with non-dyadic fractions (geometric base 3, 5, 10; Dowdall),
    # both against the extracted models of C02 / C13
    import props.c02 as c02
    import props.c13 as c13

    def over_award(n):
        for c in itertools.chain(c02.gen_boundary(rng, n), c02.gen_random(rng, n)):
            yield dict(c, quota=[7], pol=2, caps=[], prev=[])
        yield from c02.gen_equal_margins(rng, n // 3)
    c02.differential(ctx, 'exact-overaward-subtract', over_award(ctx.n(900, 9000) * widen))

    def positional(n):
        made = 0
        for c in c13.gen(rng, n * 30):
            if c['kind'] == 'positional' and made < n:
                made += 1
                yield dict(c, cfg=rng.choice([['geometric', 3], ['geometric', 5], ['geometric', 10], ['dowdall', 0], ['geometric', 3]]))
    ctx.differential('exact-positional', positional(ctx.n(900, 9000) * widen), c13.model_line, c13.impl, canon=c13.canon, nontrivial=c13.nontrivial, spec=c13.spec)
    score_magnitude_check(ctx, 'score-magnitude')
    if ctx.tier == 'thorough':
        exhaustive_small(ctx, 'exhaustive-small-simple')


def replay(ctx, case, stream=None):
    replay_case(ctx, case, 'replay')
