"""C14 - composition wrappers equal the explicit composition of their parts."""
import os, json, glob, copy, inspect
from fractions import Fraction
import common
from units import BLOCK
from props import c14_trees as T

ID = 'C14'
ZERO_LABELS = True      # a share of the cases is asked with candidates numbered from 0 (harness/common.py LABEL_MODE)
LEVEL = 'proof'
B = BLOCK['C14']
TIE = {'core.PreConverted / PostConverted / FixedSeatCount / Conditioned / ByConstituency (incl. preselector) / PreApportioned / RemovedApportionment / '
       'ByParty / MultistageDistributor / UnusedVotesDistributor / AdjustedSeatCount / AllowOverhang / LevelOverhang / LevelOverhangByConstituency / TieBreaking / PartyListEvaluator / '
       'VotingSystem (evaluate / calculate methods)': 'correspondence (extracted run_impl with the '
       'leaf evaluators, converters, quota functions and calculator objects answered by the real objects through an oracle table)',
       'inspect.signature of every evaluate() / core.accepts_seats / accepts_prev_gains': 'translator (tools/py2v.py part 5: evaluate parameter lists and the accepts_seats '
       'attribute read from the source) + Props/GenTie_Signatures_C14.v (Gen signatures = Wrappers.sig_of / attr_of for every wrapper tree); and compared with '
       'Wrappers.sig_of / acc_seats / acc_prev on every node of every generated tree',
       'Python argument binding': 'Wrappers.bind compared with CPython on generated signatures and calls',
       'TieBreaking._replace_sel_ties / _replace_distr_ties, convert.VoteTotals / SubsettedVotes (code-shaped AND declarative definitions), util.add_dict_to_dict': 'correspondence (direct unit streams)'}
RULE = ('corpus (zero-seat constituencies, omitted seat counts, seat dictionary vs fixed apportioner, PreApportioned around generic wrappers, unused votes with previous gains / '
        'by constituency, adjusted seat counts with caps, seatless parts, preselector); '
        'random well-typed wrapper trees of depth <= 4 over real votelib leaves (Plurality, '
        'HighestAverages d\'Hondt/Sainte-Lague, LargestRemainder hare, QuotaDistributor, Absolute/Relative/Alternative/PreviousGain thresholds, VotesPerSeat, '
        'ListOrderTieBreaker), converters (VoteTotals, MergedDistributions, SelectionToDistribution, identity, halving), quota functions (hare, droop, '
        'hagenbach_bischoff, imperiali, constant) and seat count calculators (AllowOverhang, LevelOverhang, LevelOverhangByConstituency); simple and '
        'per-constituency votes with constructed ties; seats as int / per-constituency dict / fixed int or dict apportioner / distributor '
        'apportioner (seated or seatless) / omitted, every seat specification (incl. a dictionary from the caller, an enclosing PreApportioned or FixedSeatCount) '
        'against every apportioner kind; generic-signature wrappers (PreConverted, PostConverted, TieBreaking, FixedSeatCount, VotingSystem) '
        'at the constituency level, also directly below PreApportioned / RemovedApportionment / MultistageDistributor; UnusedVotesDistributor at depth 1 and 2 '
        '(Fraction votes in later stages), AdjustedSeatCount as a later stage and at the root; '
        'prev_gains and max_seats (flat and nested), seat count positionally or by keyword. Each case: implementation '
        'vs extracted run_impl (oracle leaves), implementation vs the by-hand composition on the same leaf objects, run_spec vs by-hand. '
        'non-trivial = tree depth >= 2 or prev_gains/max_seats supplied or a tie / zero-seat constituency occurred; distinct by case hash')
PARTIAL = ['ByConstituency with a preselector AND a distributor apportioner, non-simple vote subsetters: not embedded '
           '(implementation vs by-hand composition only)',
           'util.add_dict_to_dict at one level, tie replacement, the unused-vote arithmetic and the levelling loop are one definition used by both semantics '
           '(tied by correspondence; the tie replacement characterised by separate theorems); VoteTotals / SubsettedVotes have a declarative spec-side '
           'definition proved equal to the code-shaped one on every value',
           'C14_compose is proved for faithful trees (inspect-based dispatch = what the inspected part takes); the excluded class is a known finding',
           'a seat NUMBER reaching a seatless apportioner / a seat count reaching a seatless overall evaluator is excluded by seat_fits (refuted otherwise)']
TRUSTED = ['harness/props/c14_trees.py: encoding of Python values, the by-hand composition used as the declarative clause']
EXTRA_PROOF_FILES = []
# the hand-written signature table of Model/Wrappers.v (sig_of / lsig / attr_of) IS the one regenerated from the source
# (tools/py2v.py part 5 -> Gen/Signatures.v): Props/GenTie_Signatures_C14.v; fallback = the inspect comparison on every node (explore_trees)
GEN_TIES = {'Signatures': 'Props/GenTie_Signatures_C14.v'}


# ---------------------------------------------------------------- running one batch of cases
def split_call(case):
    """the implementation call: (positional, keywords)"""
    a = dict(case['args'])
    if case.get('style') == 'pos' and 'n_seats' in a:
        n = a.pop('n_seats')
        return [n], a
    return [], a


def call_sx(case):
    pos, kw = split_call(case)
    return '((%s) %s)' % (' '.join(T.enc(x) for x in pos), T.kwrec_sx(kw))


def impl_result(case):
    built = T.Built(case['tree'])
    pos, kw = split_call(case)
    limit = 2 if has_kind(case['tree'], ('adj',)) else 10       # a levelling loop that does not end is cut early
    r = common.call_impl(lambda: built.obj.evaluate(copy.deepcopy(case['votes']), *copy.deepcopy(pos), **copy.deepcopy(kw)), limit)
    return r


def hand_result(case):
    built = T.Built(case['tree'])
    h = T.Hand(built)
    limit = 2 if has_kind(case['tree'], ('adj',)) else 10
    return common.call_impl(lambda: h.run(case['tree'], copy.deepcopy(case['votes']), **copy.deepcopy(case['args'])), limit)


def answer_miss(built, m):
    """m = [4, id, votes, opts] -> table row"""
    pid, v, opts = m[1], m[2], m[3]
    obj = built.parts[pid]
    votes = T.dec(v)
    if hasattr(obj, 'convert') and not hasattr(obj, 'evaluate'):
        r = common.call_impl(lambda: obj.convert(votes), 10)
        osx = '()'
    elif hasattr(obj, 'calculate'):        # a seat count calculator: calculate(votes, n_seats, prev_gains=, max_seats=)
        kw = {T.KW[i]: T.dec(o[0]) for i, o in enumerate(opts) if o}
        n = kw.pop('n_seats')
        r = common.call_impl(lambda: obj.calculate(votes, n, **kw), 2)
        osx = raw(opts)
    elif not hasattr(obj, 'evaluate'):     # a quota function: (total votes, seats) -> number
        n = T.dec(opts[0][0])
        r = common.call_impl(lambda: obj(votes, n), 10)
        osx = raw(opts)
    else:
        kw = {T.KW[i]: T.dec(o[0]) for i, o in enumerate(opts) if o}
        r = common.call_impl(lambda: obj.evaluate(votes, **kw), 10)
        osx = raw(opts)
    res = '(0 %s)' % T.enc(r[1]) if r[0] == 'ok' else '(1 %d)' % r[1]
    return '(%d %s %s %s)' % (pid, raw(v), osx, res)


def raw(s):
    if isinstance(s, list):
        return '(' + ' '.join(raw(x) for x in s) + ')'
    return str(s)


def run_models(cases):
    """iterate the oracle protocol; returns per case (impl_model_wire, spec_model_wire, info_wire) or None (unencodable)"""
    n = len(cases)
    built = [T.Built(c['tree']) for c in cases]
    tables = [[] for _ in cases]
    out = [[None, None] for _ in cases]
    dead = set()
    trees, votes, calls, sas = [], [], [], []
    for i, c in enumerate(cases):
        try:
            trees.append(T.wire(c['tree']))
            votes.append(T.enc(c['votes']))
            calls.append(call_sx(c))
            sas.append(T.kwrec_sx(c['args']))
        except T.Unencodable:
            dead.add(i)
            trees.append(None); votes.append(None); calls.append(None); sas.append(None)
    pending = [(i, k) for i in range(n) if i not in dead for k in (0, 1)]
    rounds = 0
    while pending and rounds < 700:
        rounds += 1
        lines = []
        for i, k in pending:
            tb = '(%s)' % ' '.join(tables[i])
            lines.append('%d (%s %s %s %s %s)' % (B + k, trees[i], votes[i], calls[i] if k == 0 else sas[i], tb, tb))
        res = common.run_model(lines)
        nxt = []
        for (i, k), r in zip(pending, res):
            if i in dead:
                continue
            if r.startswith('(4 '):
                try:
                    row = answer_miss(built[i], common.parse_sx(r))
                except T.Unencodable:
                    dead.add(i)
                    continue
                tables[i].append(row)
                nxt.append((i, k))
            else:
                out[i][k] = r
        pending = nxt
    infos = common.run_model(['%d (%s %s)' % (B + 2, trees[i], sas[i]) if i not in dead else '%d ()' % (B + 2) for i in range(n)])
    return [None if i in dead else (out[i][0], out[i][1], infos[i], built[i], len(tables[i])) for i in range(n)]


def wire_of_result(r):
    """('ok', v) / ('err', code, text) -> comparable"""
    if r[0] == 'ok':
        return ('ok', T.canon(r[1]))
    return ('err', r[1])


def wire_of_model(w):
    v = common.parse_sx(w)
    if v[0] == 0:
        return ('ok', T.canon(T.dec(v[1])))
    if v[0] == 1:
        return ('err', v[1])
    return ('bad', w[:80])


def depth_of(t):
    subs = [x for x in t[1:] if isinstance(x, list) and x and isinstance(x[0], str) and x[0] != 'ev']
    if t[0] in ('multi', 'unused'):
        subs = t[1]
    if t[0] == 'adj':
        subs = [t[2]] + ([t[1][1]] if t[1][0] in ('allow', 'level', 'levelc') else []) + ([t[1][2]] if t[1][0] == 'levelc' and t[1][2] is not None else [])
    if t[0] in ('bycons', 'preapp') and isinstance(t[2], list):
        subs = subs + [t[2][1]]
    return 1 + max([depth_of(s) for s in subs] or [0])


def shape_tags(case):
    """coverage of two regions the quantifier names: a seat dictionary meeting a fixed apportioner, and a non-inspecting constituency-level
    wrapper (PreApportioned, RemovedApportionment, multi-stage depth 2) directly around a generic-signature wrapper with gains / caps supplied"""
    tags = set()
    gains = bool(case['args'].get('prev_gains')) or bool(case['args'].get('max_seats'))

    def walk(t, seats):        # seats: kind of n_seats this node is called with ('dict' | 'other' | None = unknown)
        k = t[0]
        if k in ('bycons', 'preapp'):
            if seats == 'dict' and isinstance(t[2], (int, dict)):
                tags.add('seat-dict-meets-fixed-apportioner')
            if k == 'preapp':
                if t[1][0] in ('pre', 'post', 'tiebr', 'fixed', 'vsys'):
                    tags.add('preapp-around-generic' + ('+gains' if gains else ''))
                walk(t[1], 'dict')
            return
        if k == 'fixed':
            walk(t[1], 'dict' if isinstance(t[2], dict) else 'other')
        elif k == 'remapp':
            walk(t[1], 'other')
        elif k == 'cond' and t[3] == 2:
            walk(t[2], seats)
        elif k == 'multi' and t[2] == 2:
            for st in t[1]:
                walk(st, seats)
        elif k == 'pre':
            walk(t[3], seats)
        elif k in ('post', 'tiebr', 'vsys'):
            walk(t[1], seats)
    walk(case['tree'], 'dict' if isinstance(case['args'].get('n_seats'), dict) else 'other')
    return tags


def has_kind(t, kinds):
    if not isinstance(t, list) or not t:
        return False
    if isinstance(t[0], str) and t[0] in kinds:
        return True
    return any(has_kind(x, kinds) for x in t[1:] if isinstance(x, list)) if isinstance(t[0], str) else any(has_kind(x, kinds) for x in t)


def has_tie(v):
    import votelib.evaluate.core as core
    if isinstance(v, core.Tie):
        return True
    if isinstance(v, dict):
        return any(has_tie(k) or has_tie(x) for k, x in v.items())
    if isinstance(v, list):
        return any(has_tie(x) for x in v)
    return False


def known_class_of(case, flags, ri, rh, rm, wi=None):
    """decidable classes of the recorded findings (flags from the model: wt, faithful, fits)"""
    if rh[0] == 'err' and 'AllZero' in str(rh[2]) and ri[0] == 'err' and ri[1] == common.E['STOP'] and rm == ('err', common.E['STOP']):
        return 'C14-byconstituency-all-zero'
    if not flags[1] and (wi if wi is not None else wire_of_result(ri)) == rm:
        return 'C14-generic-wrapper-hides-prev-gains'
    return None


def noend(w):
    """a levelling loop that does not end: the implementation is cut by the alarm, the model runs out of fuel - the same answer"""
    return ('err', common.E['FUEL']) if w[0] == 'err' and w[1] in (common.E['TIMEOUT'], common.E['FUEL'], common.E['OTHER']) else w


def explore_trees(ctx, stream, cases):
    cases = list(cases)
    if not cases:
        return
    res = run_models(cases)
    nd = 0
    for c, r in zip(cases, res):
        ctx.evaluations += 1
        ctx.dist['stream:' + stream] += 1
        ctx.dist['root:' + c['tree'][0]] += 1
        if r is None:
            ctx.dist['unencodable'] += 1
            continue
        mi, ms, info, built, ncalls = r
        iv = common.parse_sx(info)
        if iv[0] == 0 and (mi is None or ms is None) and has_kind(c['tree'], ('adj',)):
            ctx.dist['levelling-loop-too-long'] += 1      # more leaf calls than the oracle protocol answers: case dropped
            continue
        if iv[0] != 0 or mi is None or ms is None:
            ctx.broken('harness', 'model rejected its input (%s): %s / %s / %s' % (stream, info[:100], mi, json.dumps(c)[:300]))
            continue
        wt, faithful, fits, nodes, seated = iv[1]
        ctx.dist['seated=%d' % seated] += 1
        flags = (wt, faithful, fits)
        ctx.dist['wt=%d faithful=%d fits=%d' % flags] += 1
        ctx.dist['depth:%d' % depth_of(c['tree'])] += 1
        for tag in shape_tags(c):
            ctx.dist['shape:' + tag] += 1
        for kind in ('unused', 'adj', 'vsys', 'byconsp'):
            if has_kind(c['tree'], (kind,)):
                ctx.dist['has:' + kind] += 1
        ctx.dist['leaf-calls:%s' % ('0' if ncalls == 0 else '1-3' if ncalls < 4 else '4-9' if ncalls < 10 else '10+')] += 1
        # (0) signature / inspect tie on every node
        import votelib.evaluate.core as core
        for (spec, obj), ni in zip(built.nodes, nodes):
            real = [int(core.accepts_seats(obj)), int(core.accepts_prev_gains(obj)), common.parse_sx(T.sig_sx(obj))]
            if real != ni:
                nd += 1
                ctx.disagreements += 1
                ctx.report(stream, dict(c, _node=spec[0]), str(real), str(ni),
                           'signature / accepts_seats / accepts_prev_gains of %s differ from the model table' % type(obj).__name__)
                break
        ri = impl_result(c)
        rh = hand_result(c)
        wi = wire_of_result(ri)
        wm = wire_of_model(mi)
        wsm = wire_of_model(ms)
        try:
            wh = wire_of_result(rh)
        except Exception:   # noqa
            wh = ('err', -1)
        if has_kind(c['tree'], ('adj',)):
            wi, wm, wsm, wh = noend(wi), noend(wm), noend(wsm), noend(wh)
            if wm == ('err', common.E['FUEL']) and wi[0] == 'ok':
                ctx.dist['levelling-loop-too-long'] += 1      # the loop ends, but not within the model's fuel: case dropped
                continue
        if ri[0] == 'ok':
            try:
                T.enc(ri[1])
            except T.Unencodable:
                ctx.dist['unencodable-result'] += 1
                continue
        nt = depth_of(c['tree']) >= 2 or 'prev_gains' in c['args'] or 'max_seats' in c['args'] or (ri[0] == 'ok' and has_tie(ri[1]))
        if nt:
            ctx.nontrivial.add(common.case_hash(c))
        ctx.dist['outcome:' + ('value' if ri[0] == 'ok' else 'error-' + common.E_NAME.get(ri[1], '?'))] += 1
        why = None
        # (a) implementation vs the proved model's run_impl
        if wi != wm:
            if wi[0] == 'err' and wm[0] == 'err':
                ctx.dist['error-class-differs'] += 1      # both refuse; only the exception class differs (ill-shaped input)
            else:
                ctx.disagreements += 1
                why = 'implementation differs from the modelled forwarding (run_impl): impl %s, model %s' % (short(wi), short(wm))
        # (b) the declarative clause on the implementation: equals the by-hand composition
        illformed = rh[0] == 'err' and ('IllFormedBreak' in str(rh[2]))
        if rh[0] == 'err' and 'AllZero' in str(rh[2]) and ri[0] == 'err' and ri[1] == common.E['STOP']:
            why = 'every constituency has zero seats: the wrapper raises StopIteration instead of returning empty results'
        if not illformed and not (wi[0] == 'err' and wh[0] == 'err') and wi != wh:
            ctx.checker_false += 1
            why = 'wrapper result differs from the by-hand composition: wrapper %s, by hand %s' % (short(wi), short(wh))
            c = dict(c, _hand=str(rh)[:300])
        # (c) the proved statement, instance-wise: run_impl = run_spec on well-typed faithful trees
        if wt and faithful and fits and wm != wsm:
            ctx.disagreements += 1
            why = why or 'model: run_impl %s <> run_spec %s on a well-typed faithful tree (theorem C14_compose contradicted?)' % (short(wm), short(wsm))
        if wt and faithful and fits and not illformed and wsm != wh and not (wsm[0] == 'err' and wh[0] == 'err'):
            ctx.dist['spec-model-vs-hand-differs'] += 1
            why = why or 'run_spec %s differs from the by-hand composition %s' % (short(wsm), short(wh))
        if why:
            kid = known_class_of(c, flags, ri, rh, wm, wi)
            if kid and any(k['id'] == kid for k in ctx.known):
                ctx.known_hits[kid] += 1
            else:
                nd += 1
                ctx.violations.append(dict(stream=stream, case=c, impl=str(ri)[:600], model=str(mi)[:600], why=why))
        elif len(ctx.samples) < 3 and nt and ri[0] == 'ok':
            ctx.samples.append(dict(stream=stream, case=c, impl=str(ri[1]), model=mi))
    ctx.streams[stream] = dict(cases=len(cases), deviations=nd)


def short(w):
    s = str(w)
    return s if len(s) < 260 else s[:260] + '...'


# ---------------------------------------------------------------- generators
class Gen:
    def __init__(self, rng):
        self.rng = rng
        self.nid = 0

    def id(self):
        self.nid += 1
        return self.nid

    def pick(self, opts):
        return self.rng.choice(opts)

    def leaf(self, nm, params=()):
        return ['leaf', self.id(), nm, list(params)]

    def dist_leaf(self):
        return self.pick([self.leaf('ha', ['d_hondt']), self.leaf('ha', ['sainte_lague']), self.leaf('lr', ['hare'])])

    def conv_simple(self):
        return self.pick(['ident', 'halve'])

    # ---- UnusedVotesDistributor / AdjustedSeatCount
    def quota(self):
        return [self.id(), self.pick(['hare', 'droop', 'droop', 'hagenbach_bischoff', 'imperiali', 'imperiali', self.rng.randint(3, 30)])]

    def stage_leaf(self):
        return self.pick([self.leaf('qd', [self.pick(['droop', 'imperiali', 'hare'])]), self.leaf('qd', ['droop']), self.dist_leaf()])

    def ustage(self, d):
        r = self.rng.random()
        if d <= 0 or r < 0.6:
            return self.stage_leaf()
        if r < 0.7:
            return ['cond', self.elim(0), self.stage_leaf(), 1]
        if r < 0.8:
            return ['tiebr', self.stage_leaf(), self.leaf('plurality')]
        if r < 0.9:
            return self.pick([['pre', self.id(), self.conv_simple(), self.stage_leaf()], ['vsys', self.stage_leaf()]])
        return self.dist(d - 1, True)

    def nquotas(self, n):
        r = self.rng.random()
        return n - 1 if r < 0.85 else (n if r < 0.93 else max(0, n - 2))      # zip() truncates

    def unused(self, d):
        n = self.rng.randint(1, 3)
        return ['unused', [self.ustage(d - 1) for _ in range(n)], [self.quota() for _ in range(self.nquotas(n))], 1]

    def pe(self, d):
        """the proportional evaluator inside a seat count calculator: called with (votes, n, max_seats=...)"""
        r = self.rng.random()
        if d <= 0 or r < 0.55:
            return self.dist_leaf()
        if r < 0.7:
            return ['pre', self.id(), 'ident', self.dist_leaf()]
        if r < 0.8:
            return ['cond', self.elim(0), self.dist_leaf(), 1]
        if r < 0.9:
            return ['tiebr', self.dist_leaf(), self.leaf('plurality')]
        return ['vsys', self.dist_leaf()]

    def adj(self, d):
        spec = ['ha', [self.pick(['d_hondt', 'sainte_lague'])]]
        k = self.pick(['calc-allow', 'calc-level', 'allow', 'allow', 'level', 'level'])
        if k.startswith('calc'):
            calc = ['calc', self.id(), k[5:], [spec]]
        else:
            calc = [k, self.pe(d - 1)]
        return ['adj', calc, self.dist(d - 1, True) if self.rng.random() < 0.4 else self.dist_leaf()]

    def elim(self, d):
        r = self.rng.random()
        if d <= 0 or r < 0.55:
            return self.pick([self.leaf('abs_thr', [self.rng.randint(0, 25)]), self.leaf('rel_thr', [self.rng.randint(1, 6), 20]),
                              self.leaf('alt_thr', [self.rng.randint(5, 40), self.rng.randint(1, 2)]),
                              self.leaf('abs_thr', [self.rng.randint(0, 8)]), self.leaf('prevgain_thr', [self.rng.randint(0, 2)])])
        if r < 0.8:
            return ['pre', self.id(), self.conv_simple(), self.elim(d - 1)]
        return ['cond', self.elim(d - 1), self.elim(d - 1), 1]

    def sel(self, d):
        r = self.rng.random()
        if d <= 0 or r < 0.35:
            return self.leaf('plurality')
        if r < 0.6:
            return ['tiebr', self.sel(d - 1), self.pick([self.leaf('plurality'), ['pre', self.id(), 'halve', self.leaf('plurality')]])]
        if r < 0.8:
            return ['cond', self.elim(d - 1), self.sel(d - 1), 1]
        if r < 0.86:
            return ['vsys', self.sel(d - 1)]
        return ['pre', self.id(), self.conv_simple(), self.sel(d - 1)]

    def dist(self, d, strict=True):
        """simple votes -> distribution; strict: takes prev_gains and max_seats"""
        r = self.rng.random()
        if d <= 0 or r < 0.3:
            return self.dist_leaf()
        if r < 0.45:
            return ['tiebr', self.dist(d - 1, strict), self.leaf('plurality')]
        if r < 0.5:     # a seatless distributor behind Conditioned: the seat count must stop at the wrapper
            return ['cond', self.elim(d - 1), self.leaf('vps', [self.rng.randint(5, 60)]), 1]
        if r < 0.65:
            return ['cond', self.elim(d - 1), self.dist(d - 1, strict), 1]
        if r < 0.72:
            return ['pre', self.id(), self.conv_simple(), self.dist(d - 1, strict)]
        if r < 0.75:
            return ['vsys', self.dist(d - 1, strict)]
        if r < 0.83:
            return self.unused(d)
        if r < 0.92 or strict:
            # later stages are always handed the gains so far: an AdjustedSeatCount (prev_gains required) may stand there
            return ['multi', [self.dist(d - 1, True)] + [self.adj(d - 1) if self.rng.random() < 0.25 else self.dist(d - 1, True)
                                                         for _ in range(self.rng.randint(0, 2))], 1]
        return ['post', self.sel(d - 1), self.id(), 'sel2dist']

    def aspec(self, kinds, consts):
        k = self.pick(kinds)
        if k == 'none':
            return None
        if k == 'int':
            return self.rng.randint(0, 4) if self.rng.random() < 0.15 else self.rng.randint(1, 5)
        if k == 'dict':
            cs = [c for c in consts if self.rng.random() < 0.85]
            return {c: self.pick([0, 1, 2, 3, 4]) for c in cs}
        if k == 'vps':
            return ['ev', self.leaf('vps', [self.rng.randint(10, 200)])]
        return ['ev', self.dist_leaf()]

    def cdist(self, d, want, consts, lists_ok=True, flat=False):
        """nested votes -> nested result; want = kind of n_seats at the call: 'int' | 'dict' | 'none'.
        A seat DICTIONARY (want='dict': handed in at the root, or produced by an enclosing PreApportioned / FixedSeatCount) may meet every
        kind of apportioner, also a fixed int / dict one (which then wins).  flat: the parent does not need a per-constituency result."""
        r = self.rng.random()
        inner = lambda: (self.dist(d - 1, False) if (self.rng.random() < 0.8 or not lists_ok) else self.sel(d - 1))   # noqa
        if d <= 1 or r < 0.36:
            kinds = {'int': ['none', 'none', 'int', 'dict', 'ev', 'ev'], 'dict': ['none', 'none', 'ev', 'int', 'dict', 'dict'],
                     'none': ['int', 'dict', 'vps']}[want]
            if self.rng.random() < 0.12:       # with a preselector on the national totals (seated or seatless)
                static = {'int': ['none', 'int', 'dict'], 'dict': ['none', 'int', 'dict'], 'none': ['int', 'dict']}[want]
                pre = self.pick([self.leaf('plurality'), self.elim(0), self.elim(1), ['tiebr', self.leaf('plurality'), self.leaf('plurality')]])
                return ['byconsp', inner(), self.aspec(static, consts), pre]
            return ['bycons', inner(), self.aspec(kinds, consts)]
        if r < 0.48:
            return ['cond', self.elim(d - 1), self.cdist(d - 1, want, consts, lists_ok, flat), 2]
        if r < 0.55 and want != 'none':
            return ['multi', [self.cdist(d - 1, want, consts, False) for _ in range(self.rng.randint(1, 2))], 2]
        if r < 0.60 and want != 'none':
            n = self.rng.randint(1, 3)
            return ['unused', [self.cdist(d - 1, want, consts, False) for _ in range(n)], [self.quota() for _ in range(self.nquotas(n))], 2]
        if r < 0.68 and want == 'int':
            return ['byparty', self.dist(d - 1, True), self.pick([None, self.dist_leaf(), self.dist(d - 1, True)])]
        if r < 0.68 and want == 'none':
            return ['byparty', self.leaf('vps', [self.rng.randint(20, 90)]), self.dist_leaf()]
        if r < 0.76 and want == 'dict':
            return ['remapp', self.cdist(d - 1, 'int', consts, lists_ok, flat)]
        if r < 0.76 and want == 'none':     # a fixed seat count (int or per-constituency dict) in front of a seated per-constituency part
            w2 = self.pick(['int', 'dict'])
            n = self.rng.randint(1, 9) if w2 == 'int' else {c: self.rng.randint(0, 4) for c in consts}
            return ['fixed', self.cdist(d - 1, w2, consts, lists_ok, flat), n]
        if r < 0.88:
            return self.cgeneric(d, want, consts, lists_ok, flat)
        kinds = {'int': ['int', 'dict', 'ev'], 'dict': ['none', 'none', 'int', 'dict', 'ev'], 'none': ['int', 'dict', 'vps']}[want]
        body = self.cgeneric(d - 1, 'dict', consts, lists_ok, flat) if self.rng.random() < 0.3 else self.cdist(d - 1, 'dict', consts, lists_ok, flat)
        return ['preapp', body, self.aspec(kinds, consts)]

    def cgeneric(self, d, want, consts, lists_ok=True, flat=False):
        """a wrapper with a generic (votes, *args, **kwargs) signature at the constituency level: whatever the enclosing wrapper is given
        (seat dictionary, nested prev_gains / max_seats) must pass through it unchanged"""
        k = self.pick(['pre', 'pre', 'post', 'tiebr', 'vsys'] + (['merged'] if flat else []))
        if k == 'pre':
            return ['pre', self.id(), self.conv_simple(), self.cdist(d - 1, want, consts, lists_ok, flat)]
        if k == 'vsys':
            return ['vsys', self.cdist(d - 1, want, consts, lists_ok, flat)]
        if k == 'post':
            return ['post', self.cdist(d - 1, want, consts, lists_ok, flat), self.id(), 'ident']
        if k == 'tiebr':
            return ['tiebr', self.cdist(d - 1, want, consts, lists_ok, flat), self.leaf('plurality')]
        return ['post', self.cdist(d - 1, want, consts, False, False), self.id(), 'merged']

    # ---- inputs
    def simple_votes(self, parties, tied=False):
        lo = self.pick([(0, 9), (3, 40), (5, 200), (20, 300)]) if not tied else (1, 4)
        return {p: self.rng.randint(*lo) * (10 if self.rng.random() < 0.3 else 1) for p in parties}

    def nested_votes(self, consts, parties, tied=False):
        out = {}
        for c in consts:
            ps = [p for p in parties if self.rng.random() < 0.9] or parties[:1]
            out[c] = self.simple_votes(ps, tied)
        return out

    def gains(self, parties, hi=3):
        return {p: self.rng.randint(0, hi) for p in parties if self.rng.random() < 0.6}

    def case(self, d):
        rng = self.rng
        self.nid = 0
        parties = T.PARTIES[:rng.randint(2, 5)]
        consts = T.CONSTS[:rng.randint(1, 4)]
        tied = rng.random() < 0.35
        root = self.pick(['dist', 'dist', 'sel', 'cdist', 'cdist', 'cdist', 'fixed', 'plist', 'merge', 'totals', 'adj'])
        args = {}
        style = self.pick(['pos', 'kw'])
        if root == 'adj':
            tree = self.adj(d)
            if rng.random() < 0.3:
                tree = self.pick([['vsys', tree], ['pre', self.id(), 'ident', tree], ['fixed', tree, rng.randint(2, 9)]])
            votes = {p: rng.randint(20, 300) for p in parties}
            if tree[0] != 'fixed':
                args['n_seats'] = rng.randint(2, 12)
            else:
                style = 'kw'
            top = sorted(parties, key=lambda p: -votes[p])[:2]
            if rng.random() < 0.93:
                args['prev_gains'] = {p: rng.randint(0, 3) for p in top if rng.random() < 0.8}
            if rng.random() < 0.2:
                args['max_seats'] = {p: rng.randint(2, 8) for p in parties if rng.random() < 0.5}
        elif root in ('dist', 'sel'):
            tree = self.dist(d, rng.random() < 0.8) if root == 'dist' else self.sel(d)
            votes = self.simple_votes(parties, tied)
            if tree[0] == 'multi' and rng.random() < 0.3:
                votes = [self.simple_votes(parties, tied) for _ in tree[1]]
            args['n_seats'] = rng.randint(1, 9) if rng.random() < 0.9 else rng.choice([0, 0, 12, 25, 40])
            if root == 'dist' and rng.random() < 0.5:
                args['prev_gains'] = self.gains(parties)
            if root == 'dist' and rng.random() < 0.3:
                args['max_seats'] = {p: rng.randint(1, 6) for p in parties if rng.random() < 0.5}
        elif root in ('cdist', 'merge'):
            want = self.pick(['int', 'int', 'dict', 'none'])
            tree = self.cdist(d if root == 'cdist' else d - 1, want, consts, root == 'cdist', root == 'cdist')
            votes = self.nested_votes(consts, parties, tied)
            if want == 'int':
                args['n_seats'] = rng.randint(1, 12) if rng.random() < 0.93 else 0
            elif want == 'dict':
                args['n_seats'] = {c: rng.randint(0, 5) for c in consts if rng.random() < 0.9}
            elif rng.random() < 0.3:
                args['n_seats'] = None
            if rng.random() < 0.4:
                args['prev_gains'] = {c: self.gains(parties, 2) for c in consts if rng.random() < 0.7}
            if rng.random() < 0.25:
                args['max_seats'] = {c: {p: rng.randint(1, 5) for p in parties if rng.random() < 0.5} for c in consts if rng.random() < 0.7}
            if root == 'merge':
                tree = ['post', tree, self.id(), 'merged']
        elif root == 'totals':
            tree = ['pre', self.id(), 'totals', self.dist(d - 1, True)]
            votes = self.nested_votes(consts, parties, tied)
            args['n_seats'] = rng.randint(1, 9)
            if rng.random() < 0.4:
                args['prev_gains'] = self.gains(parties)
        elif root == 'fixed':
            if rng.random() < 0.5:
                tree = ['fixed', self.dist(d - 1, True) if rng.random() < 0.7 else self.sel(d - 1), rng.randint(0, 8)]
                votes = self.simple_votes(parties, tied)
                if tree[1][0] != 'leaf' or tree[1][2] != 'plurality':
                    if rng.random() < 0.4 and self.is_dist(tree[1]):
                        args['prev_gains'] = self.gains(parties)
            else:
                want = self.pick(['int', 'dict'])
                n = rng.randint(1, 9) if want == 'int' else {c: rng.randint(0, 4) for c in consts}
                tree = ['fixed', self.cdist(d - 1, want, consts), n]
                votes = self.nested_votes(consts, parties, tied)
                if rng.random() < 0.4:
                    args['prev_gains'] = {c: self.gains(parties, 2) for c in consts if rng.random() < 0.7}
            style = 'kw'
        else:   # plist
            pe = self.dist(d - 1, True)
            open_ = rng.random() < 0.5
            tree = ['plist', pe, self.leaf('listorder') if open_ else None, ([self.id(), 'ident'] if open_ and rng.random() < 0.4 else None)]
            votes = self.simple_votes(parties, tied)
            args['n_seats'] = rng.randint(0, 9)
            lists = {p: ['%s%d' % (p, i) for i in range(1, rng.randint(1, 5))] for p in parties}
            if rng.random() < 0.1:
                lists.pop(parties[-1])
            args['party_lists'] = lists
            if open_ or rng.random() < 0.1:
                args['list_votes'] = {p: {x: rng.randint(0, 5) for x in l} for p, l in lists.items()}
            if rng.random() < 0.3:
                args['prev_gains'] = self.gains(parties)
        return dict(unit='tree', tree=tree, votes=votes, args=args, style=style)

    def is_dist(self, t):
        return not (t[0] == 'leaf' and t[2] == 'plurality') and t[0] not in ('post',) and not (
            t[0] in ('tiebr', 'cond', 'pre') and not self.is_dist(t[{'tiebr': 1, 'cond': 2, 'pre': 3}[t[0]]]))


def gen_random(rng, count, dmax=4):
    g = Gen(rng)
    for _ in range(count):
        yield g.case(rng.choice([1, 2, 2, 3, 3, 4][:dmax + 2]))


def gen_boundary(rng, count):
    """what the property names: prev_gains / max_seats through inspecting wrappers, zero-seat constituencies, omitted seats,
    subsetting depth, multi-stage accumulation at depth 1 and 2, nested tie-breaking, every pairing of seat specification
    (int / dict / omitted) with apportioner kind, non-inspecting PreApportioned directly around generic-signature wrappers"""
    g = Gen(rng)
    for i in range(count):
        g.nid = 0
        parties = T.PARTIES[:rng.randint(2, 4)]
        consts = T.CONSTS[:rng.randint(2, 3)]
        k = i % 16
        if k == 0:    # zero-seat constituencies through every kind of apportioner
            a = rng.choice([{c: rng.choice([0, 0, 1, 2]) for c in consts}, ['ev', g.dist_leaf()], 0])
            tree = ['bycons', rng.choice([g.dist_leaf(), g.leaf('plurality')]), a]
            yield dict(unit='tree', tree=tree, votes=g.nested_votes(consts, parties), args={'n_seats': rng.randint(0, 2)}, style='pos')
        elif k == 1:  # Conditioned at depth 2 over constituencies: subsetting at the ballot level
            tree = ['cond', g.elim(1), ['bycons', g.dist_leaf(), None], 2]
            yield dict(unit='tree', tree=tree, votes=g.nested_votes(consts, parties),
                       args={'n_seats': rng.randint(1, 5), 'prev_gains': {c: g.gains(parties, 2) for c in consts}}, style=rng.choice(['pos', 'kw']))
        elif k == 2:  # multi-stage depth 2 with accumulated gains, nested multi-stage
            inner = ['bycons', g.dist_leaf(), None]
            st = [inner, ['bycons', g.dist_leaf(), None]]
            if rng.random() < 0.4:
                st.append(['multi', [['bycons', g.dist_leaf(), None]], 2])
            tree = ['multi', st, 2]
            args = {'n_seats': rng.randint(1, 4)}
            if rng.random() < 0.6:
                args['prev_gains'] = {c: g.gains(parties, 2) for c in consts if rng.random() < 0.8}
            yield dict(unit='tree', tree=tree, votes=g.nested_votes(consts, parties), args=args, style='pos')
        elif k == 3:  # omitted seat count through Conditioned / ByParty (repaired sites)
            if rng.random() < 0.5:
                tree = ['cond', g.elim(0), rng.choice([g.leaf('plurality'), g.leaf('vps', [rng.randint(5, 40)]),
                                                        ['pre', g.id(), 'ident', g.leaf('vps', [rng.randint(5, 40)])]]), 1]
                args = {'n_seats': rng.randint(1, 5)} if tree[2][0] == 'leaf' and tree[2][2] == 'vps' and rng.random() < 0.5 else {}
                yield dict(unit='tree', tree=tree, votes=g.simple_votes(parties), args=args, style=rng.choice(['pos', 'kw']))
            else:
                tree = ['byparty', g.leaf('vps', [rng.randint(20, 120)]), g.dist_leaf()]
                yield dict(unit='tree', tree=tree, votes=g.nested_votes(consts, parties), args={}, style='kw')
        elif k == 4:  # nested tie-breaking on tied votes, selection and distribution
            main = rng.choice([g.leaf('plurality'), g.dist_leaf()])
            tree = ['tiebr', ['tiebr', main, ['pre', g.id(), 'halve', g.leaf('plurality')]], g.leaf('plurality')]
            v = {p: rng.choice([3, 3, 4, 6]) for p in parties}
            yield dict(unit='tree', tree=tree, votes=v, args={'n_seats': rng.randint(1, 4)}, style=rng.choice(['pos', 'kw']))
        elif k == 5:  # prev_gains / max_seats through generic wrappers below an inspecting wrapper (known class)
            inner = rng.choice([['tiebr', g.dist_leaf(), g.leaf('plurality')], ['pre', g.id(), 'ident', g.dist_leaf()]])
            tree = rng.choice([['bycons', inner, None], ['cond', g.elim(0), ['bycons', inner, None], 2]])
            yield dict(unit='tree', tree=tree, votes=g.nested_votes(consts, parties),
                       args={'n_seats': rng.randint(1, 5), 'prev_gains': {c: g.gains(parties, 2) for c in consts}}, style='pos')
        elif k == 6:  # PreApportioned / RemovedApportionment chains
            tree = ['preapp', ['multi', [['bycons', g.dist_leaf(), None], ['remapp', ['byparty', g.dist_leaf(), None]]], 2],
                    rng.choice([['ev', g.dist_leaf()], {c: rng.randint(0, 3) for c in consts}])]
            yield dict(unit='tree', tree=tree, votes=g.nested_votes(consts, parties), args={'n_seats': rng.randint(1, 8)}, style=rng.choice(['pos', 'kw']))
        elif k == 7:  # fixed seat count with keyword arguments
            tree = ['fixed', ['cond', g.elim(0), g.dist_leaf(), 1], rng.randint(1, 7)]
            yield dict(unit='tree', tree=tree, votes=g.simple_votes(parties),
                       args={'prev_gains': g.gains(parties), 'max_seats': {p: rng.randint(1, 4) for p in parties}}, style='kw')
        elif k == 8:  # a seat DICTIONARY arrives at a wrapper whose apportioner is fixed (int / dict): the fixed apportionment counts.
            # The dictionary comes from the caller, from an enclosing PreApportioned (any apportioner kind) or from a FixedSeatCount
            fixed = lambda: rng.choice([rng.randint(1, 4), {c: rng.randint(0, 4) for c in consts if rng.random() < 0.9}])   # noqa
            leaf = lambda: rng.choice([g.dist_leaf(), g.dist_leaf(), g.leaf('plurality')])   # noqa
            target = rng.choice([lambda: ['bycons', leaf(), fixed()], lambda: ['preapp', ['bycons', leaf(), rng.choice([None, None, fixed()])], fixed()]])()
            outside = {c: rng.randint(0, 5) for c in consts if rng.random() < 0.9}
            how = rng.choice(['direct', 'direct', 'preapp-ev', 'preapp-fixed', 'fixedcount', 'cond'])
            if how == 'direct':
                tree, args = target, {'n_seats': outside}
            elif how == 'preapp-ev':
                tree, args = ['preapp', target, ['ev', g.dist_leaf()]], {'n_seats': rng.randint(2, 12)}
            elif how == 'preapp-fixed':
                tree, args = ['preapp', target, fixed()], ({'n_seats': rng.randint(1, 9)} if rng.random() < 0.5 else {})
            elif how == 'fixedcount':
                tree, args = ['fixed', target, outside], {}
            else:
                tree, args = ['cond', g.elim(0), target, 2], {'n_seats': outside}
            if rng.random() < 0.3 and how != 'fixedcount':
                args['prev_gains'] = {c: g.gains(parties, 2) for c in consts if rng.random() < 0.8}
            yield dict(unit='tree', tree=tree, votes=g.nested_votes(consts, parties), args=args,
                       style='kw' if how == 'fixedcount' else rng.choice(['pos', 'kw']))
        elif k == 10:  # unused-votes distribution with previous gains: the seats left for the next stage come from the stage result
            n = rng.randint(2, 3)
            stages = [g.leaf('qd', [rng.choice(['droop', 'imperiali', 'hare'])])] + [rng.choice([g.stage_leaf(), g.ustage(1)]) for _ in range(n - 1)]
            tree = ['unused', stages, [g.quota() for _ in range(n - 1)], 1]
            if rng.random() < 0.3:
                tree = rng.choice([['pre', g.id(), 'ident', tree], ['cond', g.elim(0), tree, 1], ['vsys', tree], ['tiebr', tree, g.leaf('plurality')]])
            votes = {p: rng.randint(30, 400) for p in parties}
            args = {'n_seats': rng.randint(3, 14)}
            if rng.random() < 0.85:
                args['prev_gains'] = {p: rng.randint(1, 4) for p in parties if rng.random() < 0.7}
            yield dict(unit='tree', tree=tree, votes=votes, args=args, style=rng.choice(['pos', 'kw']))
        elif k == 11:  # unused votes by constituency (depth 2) with a seat dictionary: constituency stage, then the rest by party
            first = ['bycons', g.leaf('qd', [rng.choice(['imperiali', 'droop'])]), None]
            second = rng.choice([['remapp', ['byparty', g.dist_leaf(), rng.choice([None, g.dist_leaf()])]], ['bycons', g.dist_leaf(), None]])
            un = ['unused', [first, second], [[g.id(), rng.choice(['imperiali', 'imperiali', 'droop', 'hagenbach_bischoff'])]], 2]
            how = rng.choice(['dict', 'preapp', 'preapp-cond', 'int'])
            votes = {c: {p: rng.randint(20, 300) for p in parties} for c in consts}
            args = {}
            if how == 'dict':
                tree, args['n_seats'] = un, {c: rng.randint(1, 6) for c in consts}
            elif how == 'int':
                tree, args['n_seats'] = un, rng.randint(1, 5)
            else:
                body = un if how == 'preapp' else ['cond', g.leaf('rel_thr', [rng.randint(1, 4), 20]), un, 2]
                tree, args['n_seats'] = ['preapp', body, ['ev', g.leaf('lr', ['hare'])]], rng.randint(4, 16)
            if rng.random() < 0.4:
                args['prev_gains'] = {c: g.gains(parties, 2) for c in consts if rng.random() < 0.8}
            yield dict(unit='tree', tree=tree, votes=votes, args=args, style=rng.choice(['pos', 'kw']))
        elif k == 12:  # a second stage with an adjusted seat count: overhang kept (AllowOverhang) or levelled (LevelOverhang)
            spec = ['ha', [rng.choice(['d_hondt', 'sainte_lague'])]]
            calc = rng.choice([['calc', g.id(), 'allow', [spec]], ['calc', g.id(), 'level', [spec]], ['allow', g.pe(1)], ['level', g.pe(1)]])
            second = ['adj', calc, rng.choice([g.dist_leaf(), ['tiebr', g.dist_leaf(), g.leaf('plurality')]])]
            first = rng.choice([g.dist_leaf(), ['post', g.leaf('plurality'), g.id(), 'sel2dist']])
            tree = ['multi', [first, second], 1]
            v1 = {p: rng.randint(20, 300) for p in parties}
            v2 = {p: rng.randint(20, 300) for p in parties}
            n = rng.randint(2, 9)
            args = {'n_seats': n}
            if rng.random() < 0.35:     # seat caps reach the calculator and the evaluator alike
                args['max_seats'] = {p: rng.randint(1, 4) for p in parties if rng.random() < 0.6}
            yield dict(unit='tree', tree=tree, votes=[v1, v2] if rng.random() < 0.75 else v1, args=args, style=rng.choice(['pos', 'kw']))
        elif k == 13:  # the adjusted seat count by constituency: the calculator is a part (LevelOverhangByConstituency), ByParty distributes
            spec = ['ha', [rng.choice(['d_hondt', 'sainte_lague'])]]
            ap = {c: rng.randint(1, 4) for c in consts}
            calc = ['calc', g.id(), 'levelbyc', [spec, ap, ['ha', [rng.choice(['d_hondt', 'sainte_lague'])]]]]     # with the default overall evaluator a fixed apportionment never grows
            if rng.random() < 0.6:      # the same calculator over TREES (embedded in the model): constituency evaluator, overall evaluator or None
                ce = rng.choice([lambda: ['bycons', g.dist_leaf(), dict(ap)], lambda: ['bycons', g.dist_leaf(), ['ev', g.dist_leaf()]],
                                 lambda: ['pre', g.id(), 'ident', ['bycons', g.dist_leaf(), ['ev', g.dist_leaf()]]]])()
                oe = rng.choice([g.dist_leaf(), g.dist_leaf(), ['tiebr', g.dist_leaf(), g.leaf('plurality')], None])
                if oe is None and isinstance(ce[2], dict):
                    oe = g.dist_leaf()
                calc = ['levelc', ce, oe]
            second = ['adj', calc, ['byparty', g.dist_leaf(), g.dist_leaf()]]
            first = ['bycons', g.dist_leaf(), rng.randint(1, 2)]
            tree = ['multi', [first, second], 2]
            votes = {c: {p: rng.randint(30, 300) for p in parties} for c in consts}
            yield dict(unit='tree', tree=tree, votes=votes, args={'n_seats': sum(ap.values()) + rng.randint(0, 3)}, style=rng.choice(['pos', 'kw']))
        elif k == 14:  # tie-breaking inside per-constituency evaluation inside a post-conversion, on tied votes
            tb = ['tiebr', g.leaf('plurality'), rng.choice([g.leaf('plurality'), ['pre', g.id(), 'halve', g.leaf('plurality')]])]
            if rng.random() < 0.5:
                tb = ['tiebr', tb, g.leaf('plurality')]
            if rng.random() < 0.3:
                tb = ['cond', g.leaf('abs_thr', [rng.randint(0, 3)]), tb, 1]
            inner = ['bycons', tb, rng.choice([None, rng.randint(1, 3), {c: rng.randint(0, 3) for c in consts}])]
            tree = ['post', inner, g.id(), 'ident']
            if rng.random() < 0.4:
                tree = rng.choice([['vsys', tree], ['pre', g.id(), 'halve', tree], ['post', tree, g.id(), 'ident']])
            votes = {c: {p: rng.choice([3, 3, 4, 6, 6]) for p in parties} for c in consts}
            yield dict(unit='tree', tree=tree, votes=votes, args={'n_seats': rng.randint(1, 3)}, style=rng.choice(['pos', 'kw']))
        elif k == 15:  # seatless apportioner / seatless overall evaluator: seat count omitted, None, a dictionary, or (ill-typed) a number
            vps = lambda lo, hi: g.leaf('vps', [rng.randint(lo, hi)])   # noqa
            shape = rng.choice(['bycons', 'bycons', 'preapp', 'byparty', 'byparty', 'cond-bycons', 'multi-byparty', 'presel', 'presel'])
            votes = g.nested_votes(consts, parties)
            if shape == 'presel':    # a preselector that takes a seat count (Plurality: default 1) / does not; count omitted, None, int, dict
                pre = rng.choice([g.leaf('plurality'), g.leaf('plurality'), g.elim(0)])
                tree = ['byconsp', rng.choice([g.dist_leaf(), g.leaf('plurality')]), rng.choice([rng.randint(1, 3), {c: rng.randint(0, 3) for c in consts}]), pre]
                if rng.random() < 0.3:
                    tree = rng.choice([['cond', g.elim(0), tree, 2], ['pre', g.id(), 'ident', tree], ['multi', [tree], 2]])
                what = 'int' if tree[0] == 'multi' else rng.choice(['omit', 'omit', 'none', 'int', 'dict'])
                args = {} if what == 'omit' else {'n_seats': None if what == 'none' else ({c: rng.randint(0, 4) for c in consts} if what == 'dict' else rng.randint(1, 3))}
                yield dict(unit='tree', tree=tree, votes=votes, args=args, style=rng.choice(['pos', 'kw']))
                continue
            if shape in ('bycons', 'cond-bycons'):
                tree = ['bycons', rng.choice([g.dist_leaf(), g.leaf('plurality')]), ['ev', vps(10, 150)]]
                if shape == 'cond-bycons':
                    tree = ['cond', g.elim(0), tree, 2]
            elif shape == 'preapp':
                tree = ['preapp', ['bycons', g.dist_leaf(), None], ['ev', vps(10, 150)]]
            elif shape == 'byparty':
                tree = ['byparty', vps(20, 120), g.dist_leaf()]
            else:
                tree = ['pre', g.id(), 'ident', ['byparty', vps(20, 120), g.dist_leaf()]]
            what = rng.choice(['omit', 'omit', 'none', 'dict', 'int'] if 'byparty' not in shape else ['omit', 'omit', 'none', 'int'])
            args = {} if what == 'omit' else {'n_seats': None if what == 'none' else ({c: rng.randint(0, 4) for c in consts} if what == 'dict' else rng.randint(1, 6))}
            if rng.random() < 0.3:
                args['prev_gains'] = {c: g.gains(parties, 2) for c in consts if rng.random() < 0.8}
            yield dict(unit='tree', tree=tree, votes=votes, args=args, style=rng.choice(['pos', 'kw']))
        else:         # PreApportioned DIRECTLY around a wrapper with a generic signature, previous gains / seat caps supplied:
            # both must reach the per-constituency evaluation below the generic wrapper (singly and stacked generic wrappers)
            def generic(child, top=True):
                w = rng.choice(['pre', 'pre', 'post', 'tiebr'] + (['merged'] if top else []))
                if w == 'pre':
                    return ['pre', g.id(), g.conv_simple(), child]
                if w == 'post':
                    return ['post', child, g.id(), 'ident']
                if w == 'tiebr':
                    return ['tiebr', child, g.leaf('plurality')]
                return ['post', child, g.id(), 'merged']
            core_ = rng.choice([lambda: ['bycons', g.dist_leaf(), None],
                                lambda: ['multi', [['bycons', g.dist_leaf(), None] for _ in range(rng.randint(1, 2))], 2],
                                lambda: ['cond', g.elim(0), ['bycons', g.dist_leaf(), None], 2]])()
            body = generic(generic(core_, False)) if rng.random() < 0.3 else generic(core_)
            tree = ['preapp', body, rng.choice([['ev', g.dist_leaf()], ['ev', g.dist_leaf()], rng.randint(1, 5), {c: rng.randint(0, 4) for c in consts}])]
            if rng.random() < 0.3:      # ... as a later stage of a multi-stage distribution (gains accumulated by the first stage)
                tree = ['multi', [['bycons', g.dist_leaf(), rng.randint(1, 2)], tree], 2] if body[-1] != 'merged' else tree
            args = {'n_seats': rng.randint(1, 10)}
            what = rng.choice(['prev', 'max', 'both'])
            if what != 'max':
                args['prev_gains'] = {c: g.gains(parties, 3) for c in consts if rng.random() < 0.9}
            if what != 'prev':
                args['max_seats'] = {c: {p: rng.choice([0, 1, 2, 3, 3, 4]) for p in parties if rng.random() < 0.7} for c in consts if rng.random() < 0.9}
            yield dict(unit='tree', tree=tree, votes=g.nested_votes(consts, parties), args=args, style=rng.choice(['pos', 'kw']))


# ---------------------------------------------------------------- unit streams: binding, tie replacement, parts
def bind_cases(rng, count):
    for _ in range(count):
        names = rng.sample(range(6), rng.randint(0, 4))
        npos = rng.randint(0, len(names))
        def par(k):
            return [k, rng.choice([None, ['d', rng.randint(0, 3)]])]
        yield dict(unit='bind', pos=[par(k) for k in names[:npos]], varpos=rng.random() < 0.3,
                   kwonly=[par(k) for k in names[npos:]], varkw=rng.random() < 0.4,
                   args=[rng.randint(10, 19) for _ in range(rng.randint(0, 3))],
                   kw={str(k): rng.randint(20, 29) for k in rng.sample(range(6), rng.randint(0, 3))})


def bind_model_line(c):
    def ps(l):
        return '(%s)' % ' '.join('(%d %s)' % (k, '()' if d is None else '((1 %d))' % d[1]) for k, d in l)
    kw = {T.KW[int(k)]: v for k, v in c['kw'].items()}
    return '%d ((%s %d %s %d) ((%s) %s))' % (B + 3, ps(c['pos']), c['varpos'], ps(c['kwonly']), c['varkw'],
                                             ' '.join('(1 %d)' % a for a in c['args']), T.kwrec_sx(kw))


def bind_impl(c):
    # required parameters must precede defaulted ones in Python source: order is kept, invalid signatures are skipped upstream
    def p(k, d):
        return T.KW[k] + ('' if d is None else '=%d' % d[1])
    parts = [p(k, d) for k, d in c['pos']]
    if c['varpos']:
        parts.append('*args')
    elif c['kwonly']:
        parts.append('*')
    parts += [p(k, d) for k, d in c['kwonly']]
    if c['varkw']:
        parts.append('**kwargs')
    ns = {}
    names = [T.KW[k] for k, _ in c['pos'] + c['kwonly']]
    src = 'def f(%s):\n return ({%s}, %s, %s)' % (', '.join(parts), ', '.join('%r: %s' % (n, n) for n in names),
                                                 'list(args)' if c['varpos'] else '[]', 'kwargs' if c['varkw'] else '{}')
    try:
        exec(src, ns)
    except SyntaxError:
        return '(4)'
    named, extra, kwargs = ns['f'](*c['args'], **{T.KW[int(k)]: v for k, v in c['kw'].items()})
    return common.ok([T.kwrec_sx(named), '(%s)' % ' '.join('(1 %d)' % a for a in extra), T.kwrec_sx(kwargs)])


def bind_canon(c, w):
    v = common.parse_sx(w)
    if v[0] == 4:
        return ('unmodelled',)
    return ('ok', str(v[1])) if v[0] == 0 else ('err', v[1])


def bind_valid(c):
    seen_default = False
    for k, d in c['pos']:
        if d is not None:
            seen_default = True
        elif seen_default:
            return False
    return True


def tie_cases(rng, count):
    for _ in range(count):
        cands = list(range(1, rng.randint(3, 6)))
        tie = sorted(rng.sample(cands, rng.randint(2, len(cands))))
        other = sorted(rng.sample(cands, 2))
        if rng.random() < 0.5:
            l = [rng.choice([['c', rng.choice(cands)], ['t', tie], ['t', tie], ['t', other]]) for _ in range(rng.randint(1, 6))]
            n = sum(1 for x in l if x == ['t', tie])
            repl = [['c', rng.choice(tie)] for _ in range(rng.choice([n, n, n, max(0, n - 1), n + 1]))]
            if rng.random() < 0.1:
                repl = [['t', tie]] * n
            yield dict(unit='tie', kind='sel', result=l, tie=tie, repl=repl)
        else:
            d = [[['c', c], rng.randint(1, 3)] for c in rng.sample(cands, rng.randint(0, len(cands)))]
            d.insert(rng.randint(0, len(d)), [['t', tie], rng.randint(1, 3)])
            if rng.random() < 0.3 and other != tie:
                d.append([['t', other], 1])
            repl = [['c', rng.choice(tie)] for _ in range(rng.randint(0, 3))]
            yield dict(unit='tie', kind='distr', result=d, tie=tie, repl=repl)


def _py(x):
    import votelib.evaluate.core as core
    return T.name(x[1]) if x[0] == 'c' else core.Tie(T.name(c) for c in x[1])


def tie_model_line(c):
    if c['kind'] == 'sel':
        return '%d (0 %s %s %s)' % (B + 4, T.enc([_py(x) for x in c['result']]), T.enc(_py(['t', c['tie']])), T.enc([_py(x) for x in c['repl']]))
    return '%d (1 %s %s %s)' % (B + 4, T.enc({_py(k): v for k, v in c['result']}), T.enc(_py(['t', c['tie']])), T.enc([_py(x) for x in c['repl']]))


def tie_impl(c):
    import votelib.evaluate.core as core
    tie = _py(['t', c['tie']])
    repl = [_py(x) for x in c['repl']]
    if c['kind'] == 'sel':
        r = [_py(x) for x in c['result']]
        core.TieBreaking._replace_sel_ties(r, tie, repl)
    else:
        r = {_py(k): v for k, v in c['result']}
        core.TieBreaking._replace_distr_ties(r, tie, repl)
    return '(0 %s)' % T.enc(r)


def tie_canon(c, w):
    v = common.parse_sx(w)
    return ('ok', T.canon(T.dec(v[1]))) if v[0] == 0 else ('err', v[1])


def tie_spec(c, io, mo):
    """C14_tiebreak on the implementation: the i-th occurrence of the tie becomes the i-th choice, nothing else changes"""
    v = common.parse_sx(io)
    if v[0] != 0:
        return None
    out = T.dec(v[1])
    tie = _py(['t', c['tie']])
    repl = [_py(x) for x in c['repl']]
    if any(x == tie for x in repl):
        return None
    if c['kind'] == 'sel':
        before = [_py(x) for x in c['result']]
        places = [i for i, x in enumerate(before) if x == tie]
        if len(repl) > len(places):
            return None
        want = list(before)
        for i, x in zip(places, repl):
            want[i] = x
        return None if want == out else 'selection after tie replacement is %s, expected %s' % (out, want)
    before = {_py(k): s for k, s in c['result']}
    want = {k: s for k, s in before.items() if k != tie}
    for x in repl:
        want[x] = want.get(x, 0) + 1
    return None if want == out else 'distribution after tie replacement is %s, expected %s' % (out, want)


def parts_cases(rng, count):
    g = Gen(rng)
    for i in range(count):
        parties = T.PARTIES[:rng.randint(1, 5)]
        consts = T.CONSTS[:rng.randint(0, 4)]
        k = i % 5
        # a Fraction count is written 'n/d' in the case (JSON); counts of that kind arise inside UnusedVotesDistributor
        frac = (lambda v: {p: ('%d/%d' % (x, rng.randint(2, 5)) if rng.random() < 0.5 else x) for p, x in v.items()}) if rng.random() < 0.12 else (lambda v: v)   # noqa
        if k in (0, 3):      # 3: the declarative definition of the spec side (totals_s)
            yield dict(unit='parts', kind='totals' if k == 0 else 'totals_s', votes={c: frac(v) for c, v in g.nested_votes(consts, parties).items()})
        elif k in (1, 4):    # 4: subset_s
            sub = rng.sample(T.PARTIES[:6], rng.randint(0, 4))
            yield dict(unit='parts', kind='subset' if k == 1 else 'subset_s', votes=frac(g.simple_votes(parties)), subset=sub,
                       as_tie=rng.random() < 0.4 and len(sub) > 0)
        else:
            yield dict(unit='parts', kind='add', a=g.gains(parties, 5), b=g.gains(T.PARTIES[:5], 5))


def unq(v):
    if isinstance(v, str) and '/' in v:
        return Fraction(v)
    if isinstance(v, dict):
        return {k: unq(x) for k, x in v.items()}
    return v


def parts_model_line(c):
    import votelib.evaluate.core as core
    c = dict(c, votes=unq(c.get('votes')))
    if c['kind'] in ('totals', 'totals_s'):
        return '%d (%d %s)' % (B + 5, 0 if c['kind'] == 'totals' else 3, T.enc(c['votes']))
    if c['kind'] in ('subset', 'subset_s'):
        s = core.Tie(c['subset']) if c['as_tie'] else c['subset']
        return '%d (%d %s %s)' % (B + 5, 1 if c['kind'] == 'subset' else 4, T.enc(c['votes']), T.enc(s))
    return '%d (2 %s %s)' % (B + 5, T.enc(c['a']), T.enc(c['b']))


def parts_impl(c):
    import votelib.convert as conv, votelib.util, votelib.evaluate.core as core
    c = dict(c, votes=unq(c.get('votes')))
    if c['kind'] in ('totals', 'totals_s'):
        return '(0 %s)' % T.enc(conv.VoteTotals().convert(c['votes']))
    if c['kind'] in ('subset', 'subset_s'):
        s = core.Tie(c['subset']) if c['as_tie'] else c['subset']
        return '(0 %s)' % T.enc(conv.SubsettedVotes(core.DEFAULT_SUBSETTER).convert(c['votes'], s))
    a = dict(c['a'])
    votelib.util.add_dict_to_dict(a, c['b'])
    return '(0 %s)' % T.enc(a)


def parts_canon(c, w):
    v = common.parse_sx(w)
    return ('ok', str(v[1])) if v[0] == 0 else ('err', v[1])     # insertion order is compared too



# ---------------------------------------------------------------- wrappers that are not embedded in the model: implementation vs by hand
# VotingSystem adds nothing to the evaluator it wraps - at the root, and at every inner position whose parent does not inspect the
# signature of its part (below ByConstituency / Conditioned / ByParty a generic signature is the known finding's class)
VSYS_SLOTS = {'pre': [3], 'post': [1], 'fixed': [1], 'preapp': [1], 'remapp': [1], 'tiebr': [1], 'plist': [1]}


def vsys_spots(t, path=()):
    """paths of the parts that may be wrapped in a VotingSystem without changing anything"""
    out = []
    k = t[0]
    if k == 'leaf':
        return out
    if k == 'multi':
        for i, st in enumerate(t[1]):
            out.append(path + (1, i))
            out += vsys_spots(st, path + (1, i))
        return out
    for i in VSYS_SLOTS.get(k, []):
        out.append(path + (i,))
    for i, x in enumerate(t):
        if i > 0 and isinstance(x, list) and x and isinstance(x[0], str) and x[0] != 'ev':
            out += vsys_spots(x, path + (i,))
        elif i == 2 and k in ('bycons', 'preapp') and isinstance(x, list):
            out += vsys_spots(x[1], path + (2, 1))
    return out


def vsys_case(c, rng):
    spots = vsys_spots(c['tree'])
    vtree = copy.deepcopy(c['tree'])
    if spots and rng.random() < 0.7:
        path = rng.choice(spots)
        node = vtree
        for i in path[:-1]:
            node = node[i]
        node[path[-1]] = ['vsys', node[path[-1]]]
    else:
        vtree = ['vsys', vtree]
    return dict(c, unit='vsys', vtree=vtree)


def vsys_eval(case):
    """(evaluation with the VotingSystem in place, evaluation of the same composition without it)"""
    built = T.Built(case['vtree'])
    pos, kw = split_call(case)
    ri = common.call_impl(lambda: built.obj.evaluate(copy.deepcopy(case['votes']), *copy.deepcopy(pos), **copy.deepcopy(kw)), 10)
    return ri, impl_result(case)


def unembedded_checks(ctx, rng, count):
    """VotingSystem, UnusedVotesDistributor (depth 1), ByConstituency with a preselector: the declarative clause only"""
    import votelib, votelib.evaluate.core as core, votelib.evaluate.proportional as prop, votelib.evaluate.threshold as thr
    import votelib.component.quota as quota
    g = Gen(rng)
    bad = 0
    for i in range(count):
        ctx.evaluations += 1
        kind = ('vsys', 'unused', 'presel')[i % 3]
        ctx.dist['unembedded:' + kind] += 1
        parties = T.PARTIES[:rng.randint(2, 5)]
        if kind == 'vsys':
            c = g.case(rng.choice([1, 2, 3]))
            case = vsys_case(c, rng)
            ri, want = vsys_eval(case)
        elif kind == 'unused':
            names = [rng.choice(['hare', 'droop', 'hagenbach_bischoff']) for _ in range(rng.randint(1, 2))]
            stages = [prop.LargestRemainder(rng.choice(['hare', 'droop'])) if rng.random() < 0.5 else prop.QuotaDistributor(rng.choice(['hare', 'droop']))
                      for _ in range(len(names) + 1)]
            votes = {p: rng.randint(1, 400) for p in parties}
            n = rng.randint(1, 12)
            prev = g.gains(parties) if rng.random() < 0.3 else {}
            case = dict(unit='unused', quotas=names, stages=[type(x).__name__ + ':' + str(getattr(x, 'quota_function', '')) for x in stages], votes=votes, n=n, prev=prev)
            ri = common.call_impl(lambda: core.UnusedVotesDistributor(stages, names).evaluate(dict(votes), n, prev_gains=dict(prev)), 10)

            def by_hand():
                elected, v, left = dict(prev), dict(votes), n
                for k, st in enumerate(stages):
                    res = st.evaluate(v, left)
                    for cnd, sts in res.items():
                        elected[cnd] = elected.get(cnd, 0) + sts
                    if k < len(names):
                        q = quota.construct(names[k])(sum(v.values()), left)
                        nv = {}
                        for cnd, x in v.items():
                            used = q * res.get(cnd, 0)
                            if x < used:
                                raise core.VotingSystemError('more votes used than cast')
                            nv[cnd] = x - used
                        v, left = nv, left - sum(res.values())
                return elected
            want = common.call_impl(by_hand, 10)
        else:
            consts = T.CONSTS[:rng.randint(2, 4)]
            votes = g.nested_votes(consts, parties)
            ev = rng.choice([prop.HighestAverages('d_hondt'), prop.LargestRemainder('hare'), core.Plurality()])
            seated = rng.random() < 0.3
            pre = core.Plurality() if seated else rng.choice([thr.RelativeThreshold(Fraction(rng.randint(1, 6), 20)),
                                                              thr.AbsoluteThreshold(rng.randint(5, 200))])
            app = rng.choice([None, rng.randint(1, 4), {c: rng.randint(0, 3) for c in consts}])
            n = rng.randint(1, 6)
            case = dict(unit='presel', votes=votes, ev=type(ev).__name__, pre=type(pre).__name__, app=app, n=n)
            ri = common.call_impl(lambda: core.ByConstituency(ev, app, preselector=pre).evaluate(copy.deepcopy(votes), n), 10)

            def by_hand2():
                nat = {}
                for v in votes.values():
                    for p, x in v.items():
                        nat[p] = nat.get(p, 0) + x
                keep = pre.evaluate(nat, n) if seated else pre.evaluate(nat)
                seats = {c: app for c in votes} if isinstance(app, int) else (app if isinstance(app, dict) else {c: n for c in votes})
                out, empty = {}, []
                for c, v in votes.items():
                    if seats.get(c, 0) == 0:
                        empty.append(c)
                        continue
                    out[c] = ev.evaluate({p: x for p, x in v.items() if p in keep}, seats[c])
                if empty and not out:
                    raise T.AllZero()
                for c in empty:
                    out[c] = type(next(iter(out.values())))()
                return out
            want = common.call_impl(by_hand2, 10)
        try:
            a, b = wire_of_result(ri), wire_of_result(want)
        except Exception as exc:   # noqa
            continue
        ctx.nontrivial.add(common.case_hash(case))
        if a != b and not (a[0] == 'err' and b[0] == 'err'):
            bad += 1
            ctx.checker_false += 1
            ctx.violations.append(dict(stream='unembedded', case=case, impl=str(ri)[:500], model='by hand: ' + str(want)[:500],
                                       why='%s differs from the by-hand composition: wrapper %s, by hand %s' % (kind, short(a), short(b))))
    ctx.streams['unembedded'] = dict(cases=count, deviations=bad)

# ---------------------------------------------------------------- entry points
def corpus():
    for p in sorted(glob.glob(os.path.join(common.VERIF, 'corpus', ID, '*.json'))):
        d = json.load(open(p))
        for c in (d if isinstance(d, list) else [d]):
            yield c


def by_unit(ctx, stream, cases):
    cases = list(cases)
    trees = [c for c in cases if c.get('unit') == 'tree']
    explore_trees(ctx, stream, trees)
    for unit, ml, im, cn, sp in (('bind', bind_model_line, bind_impl, bind_canon, None),
                                 ('tie', tie_model_line, tie_impl, tie_canon, tie_spec),
                                 ('parts', parts_model_line, parts_impl, parts_canon, None)):
        sub = [c for c in cases if c.get('unit') == unit]
        if sub:
            ctx.differential(stream + ':' + unit if len(sub) != len(cases) else stream, sub, ml, im, canon=cn, spec=sp, limit=5)


def explore(ctx, widen=1):
    by_unit(ctx, 'corpus', corpus())
    by_unit(ctx, 'bind', [c for c in bind_cases(ctx.rng, ctx.n(600, 6000) * widen) if bind_valid(c)])
    by_unit(ctx, 'tie-replace', tie_cases(ctx.rng, ctx.n(500, 5000) * widen))
    by_unit(ctx, 'parts', parts_cases(ctx.rng, ctx.n(300, 3000) * widen))
    by_unit(ctx, 'boundary', gen_boundary(ctx.rng, ctx.n(1920, 12800) * widen))
    by_unit(ctx, 'random-trees', gen_random(ctx.rng, ctx.n(3000, 24000) * widen))
    unembedded_checks(ctx, ctx.rng, ctx.n(900, 6000) * widen)


def replay(ctx, case, stream=None):
    if case.get('unit') == 'vsys' and 'vtree' in case:
        ri, want = vsys_eval(case)
        a, b = wire_of_result(ri), wire_of_result(want)
        ctx.evaluations += 1
        if a != b and not (a[0] == 'err' and b[0] == 'err'):
            ctx.checker_false += 1
            ctx.violations.append(dict(stream='unembedded', case=case, impl=str(ri)[:500], model='without VotingSystem: ' + str(want)[:500],
                                       why='vsys differs from the by-hand composition: wrapper %s, by hand %s' % (short(a), short(b))))
        return
    if case.get('unit') in ('vsys', 'unused', 'presel'):
        # implementation-side clause of a wrapper without a model: re-run that stream with the recorded seed
        unembedded_checks(ctx, common.mk_rng(ctx.seed, ID + '/unembedded'), 450)
        return
    by_unit(ctx, 'replay', [case])
