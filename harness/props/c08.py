"""C08 - result shape and declared refusals.
Theorems (Props/C08.v): normal form / declarative shape of every get_n_best result, the verified boolean shape
checker (sel_shape_ok <-> sel_shape), seat accounting of HighestAverages.evaluate, and the seat-count theorems of
largest remainder (C02) and transferable vote (C04).  This check runs EVERY evaluator configuration of
harness/evalreg.py (all public selector / distributor classes that can be built without further components are
covered; the rest is listed in the evidence) plus the distributor form of allocated score (registered here) on random
profiles AND on symmetrised profiles (orbit sums under a candidate permutation: exact ties of 2..4 candidates at every
stage of a neutral rule - the region the tie clauses speak about) with positive total weight and 1 <= n <= number of
candidates, and judges each outcome: selections by the EXTRACTED verified checker, distributions by the declarative
clauses, exceptions by the declared-refusal rule for the families the property names."""
import inspect
import math
import common
from common import cname, cnum, sx
from units import BLOCK
import evalreg

ID = 'C08'
LEVEL = 'proof'
TIE = {'core.get_n_best / Plurality and every evaluator ending in it; HighestAverages; LargestRemainder; TransferableVote*':
           'models shared with C09 / C01 / C02 / C03 (correspondence there); shape theorems here',
       'Copeland / Schulze / MinimaxCondorcet / RankedPairs / KemenyYoung; ScoreVoting / MajorityJudgment / STAR; ProportionalApproval / SequentialProportionalApproval; PreferenceAddition':
           'models shared with C05 / C12 / C17 (correspondence there); shape theorems here (Proofs/Shape2_proofs.v), and their outputs are judged by the extracted checker as well',
       'sequential.Baldwin (+ Baldwin._compute_negative_scores = the negated RankedToPositionalVotes.convert)': 'Model/Elimination.v, wire units 111 / 112: correspondence stream baldwin (extracted model vs the implementation: result lists in order, score dictionaries in order and value; candidates with equal scores compared as a set where a shared rank makes the order a frozenset iteration order); shape theorems C08_shape_baldwin / C08_shape_positional',
       'convert.ApprovalToSimpleVotes in front of plurality': 'Model/ApprovalSimple.v, wire unit 113: correspondence stream approval-simple (dictionaries as sets of items, exact values); theorem C08_shape_approval',
       'sequential.Benham / TidemanAlternative; threshold selectors, bracketers, open lists, QuotaSelector; CondorcetWinner / SmithSet / SchwartzSet': 'models shared with C05 / C16 (correspondence there); shape theorems here (Proofs/Shape3_proofs.v, ShapeElim_proofs.v, HybridTiers_proofs.v)',
       'every other evaluator of harness/evalreg.py': 'outputs judged by the extracted verified checker sel_shape_ok (selections) / declarative clauses (distributions)'}
RULE = ('sweep: for each of the 65 evaluator configurations (63 of harness/evalreg.py + AllocatedScoreDistributor hare / droop; simple / approval / ranked incl. shared ranks / score / pairwise votes) random profiles '
        'with positive total weight, every n in 1..#candidates (sampled); selection results are encoded and judged by the extracted checker '
        '(exactly n entries, distinct candidates of the votes, a tie repeated fewer times than it has members and disjoint from the elected), '
        'distributions by: positive integer seats, candidate or tie keys, a tie key standing for fewer seats than it has members, sum = n '
        '(highest averages, largest remainder, STV distributor, allocated score distributor); sym-sweep: the same judgement on profiles closed '
        'under a random candidate permutation (one or two cycles of 2..4 candidates, ballots of the orbit merged), so that exact ties among k '
        'candidates meet k, fewer and more open seats; a rejected selection matches a known finding only in its recorded shape (one tie listed '
        'once for r >= 2 seats with more than r members: allocated score; fewer than n distinct plain candidates: Bucklin / Oklahoma / STAR); an '
        'exception other than VotingSystemError / NotImplementedError is a violation for the families the property names (plurality, highest '
        'averages, largest remainder, transferable vote, Schulze, Copeland, minimax, positional, approval, score). model-shape: the checker on the '
        'extracted get_n_best model (sanity of the wire encoding). baldwin: differential of the extracted Model/Elimination.v against sequential.Baldwin (six rank scorers; 1..6 candidates, bullet / truncated ballots, shared ranks, zero weights and weights up to 10^20, symmetrised profiles, tied losers ranked together at the bottom, one all-inclusive shared rank, an empty shared rank (ValueError on both sides), n in {0, 1, k-1, k, k+1, random}; 12 % of the cases compare the negative-score dictionary itself) with the declarative clause of C08_shape_baldwin evaluated on the implementation answer (well-formed profile, 1 <= n <= candidates: exactly n entries in shape, never an exception). sweeps: an exception other than VotingSystemError / NotImplementedError is also a violation for Baldwin, for Benham (one seat) and TidemanAlternative (every n) on a profile on which somebody stands, a single candidate included (theorems C08_shape_baldwin / benham / tideman / tideman_outcomes / hybrids_single_candidate; the TypeError of TidemanAlternative for n >= 2 - finding C08-tideman-multiseat - and the IndexError on a single candidate are fixed and count as violations). approval-simple: the extracted Model/ApprovalSimple.v against ApprovalToSimpleVotes(split).convert on random / symmetrised approval profiles with blank ballots and zero weights. non-trivial = result contains a tie or a refusal; distinct by case hash')
PARTIAL = ['no shape theorem (decided per explored case by the verified checker): the first-preference composite, '
           'allocated score: C08_shape_allocated_score is about the repaired selector (fixes/C12-allocated-score-exhausted, -tie-seats; the pinned routine: C08_shape_allocated_score_refuted); Benham / Tideman / Baldwin / positional theorems are over well-formed profiles '
           '(no candidate twice on a ballot, no negative weight resp. no empty shared rank); Benham / TidemanAlternative theorems are about the library with '
           'fixes/C05-tideman-tiers.diff and fixes/C05-hybrid-single-candidate.diff (for the code without them: C08_shape_tideman_multiseat_refuted, '
           'C08_shape_hybrids_single_candidate_refuted); the library has no Coombs class',
           'wrapper classes that need components (ByConstituency, Conditioned, TieBreaking, MultistageDistributor, PartyListEvaluator, ...) are swept by C14, '
           'BiproportionalEvaluator by C07, open-list evaluators by C16, seeded random selectors by C18']
TRUSTED = []
LISTED = {'plurality', 'highest_averages', 'largest_remainder', 'transferable_vote', 'schulze', 'copeland', 'minimax', 'positional', 'approval', 'score'}
SUM_EXACT = ('ha_', 'lr_', 'stv_dist', 'allocated_score_dist', 'tiebreak_')       # distributors that must hand out exactly n seats


_REG = None


def registry():
    """the shared configurations of harness/evalreg.py + the ones only this check sweeps (the distributor form of
    allocated score: a public distributor class of evaluate.cardinal that needs no further component)"""
    global _REG
    if _REG is None:
        import votelib.evaluate.cardinal as card
        _REG = dict(evalreg.registry())
        for qn in ('hare', 'droop'):
            nm = 'allocated_score_dist_' + qn
            _REG[nm] = dict(name=nm, vtype='score', kind='dist', make=(lambda qn=qn: card.AllocatedScoreDistributor(qn)), family=None,
                            scale_free=(qn != 'droop'), seats=True, max_k=1000, det=True, needs=None, exact=True, min_cands=1)
        # open lists: evaluate(votes, n_seats, candidate_list) - the list order is the sorted candidate names here
        import votelib.evaluate.openlist as ol, votelib.evaluate.core as core
        from fractions import Fraction as _F

        class _WithList:
            def __init__(self, inner):
                self.inner = inner

            def evaluate(self, votes, n_seats):
                return self.inner.evaluate(votes, n_seats, sorted(votes))
        for nm, mk in (('list_order_plurality', lambda: _WithList(ol.ListOrderTieBreaker(core.Plurality()))),
                       ('open_list_jump', lambda: _WithList(ol.ThresholdOpenList(jump_fraction=_F(1, 10)))),
                       ('open_list_quota', lambda: _WithList(ol.ThresholdOpenList(quota_function='droop', quota_fraction=_F(1, 2))))):
            _REG[nm] = dict(name=nm, vtype='simple', kind='sel', make=mk, family=None, scale_free=True, seats=True, max_k=None, det=True,
                            needs=None, exact=True, min_cands=1)
        # tie breaking around distributors: a tie over several seats must come back as that many seats
        import votelib.evaluate.proportional as prop, votelib.evaluate.auxiliary as aux
        for nm, mk in (('tiebreak_dhondt', lambda: core.TieBreaking(prop.HighestAverages('d_hondt'), aux.Sortitor(seed=3))),
                       ('tiebreak_lr_hare', lambda: core.TieBreaking(prop.LargestRemainder('hare'), aux.Sortitor(seed=3))),
                       ('tiebreak_plurality', lambda: core.TieBreaking(core.Plurality(), aux.Sortitor(seed=3))),
                       # a tie breaker that hands the tie back unresolved (level votes): the tied seats must stay in the result
                       ('tiebreak_dhondt_by_votes', lambda: core.TieBreaking(prop.HighestAverages('d_hondt'), core.Plurality()))):
            _REG[nm] = dict(name=nm, vtype='simple', kind=('sel' if 'plurality' in nm else 'dist'), make=mk, family=None, scale_free=True, seats=True,
                            max_k=None, det=True, needs=None, exact=True, min_cands=1)
    return _REG


def rename_profile(vtype, prof, f):
    """image of a JSON profile under the candidate renaming f (equal ballots merged, weights added)"""
    out = {}
    for key, w in prof:
        if vtype == 'simple':
            k = f(key)
        elif vtype == 'approval':
            k = tuple(sorted(f(c) for c in key))
        elif vtype == 'ranked':
            k = tuple(tuple(sorted(f(c) for c in it)) if isinstance(it, list) else f(it) for it in key)
        elif vtype == 'score':
            k = tuple(sorted((f(c), sc) for c, sc in key))
        elif vtype == 'pairwise':
            k = (f(key[0]), f(key[1]))
        else:
            raise ValueError(vtype)
        out[k] = out.get(k, 0) + common.q(w)
    return out


def unkey(vtype, k):
    if vtype == 'simple':
        return k
    if vtype == 'ranked':
        return [list(it) if isinstance(it, tuple) else it for it in k]
    if vtype == 'score':
        return [list(x) for x in k]
    return list(k)


def symmetrise(rng, vtype, prof):
    """orbit sum of a profile under a random candidate permutation sigma (one or two disjoint cycles): the result is
    invariant under sigma, so the candidates of one cycle are indistinguishable - exact ties among 2..m candidates at
    every stage of every neutral rule, which is where the tie clauses of the property live"""
    cands = evalreg.candidates_of(vtype, prof)
    if len(cands) < 2:
        return prof
    pool = cands[:]
    rng.shuffle(pool)
    k1 = rng.randint(2, min(len(pool), 4))
    cycles = [pool[:k1]]
    rest = pool[k1:]
    if len(rest) >= 2 and rng.random() < 0.3:
        cycles.append(rest[:rng.randint(2, min(len(rest), 3))])
    sigma = {}
    order = 1
    for cyc in cycles:
        for i, c in enumerate(cyc):
            sigma[c] = cyc[(i + 1) % len(cyc)]
        order = order * len(cyc) // math.gcd(order, len(cyc))
    tot, cur = {}, prof
    for _ in range(order):
        img = rename_profile(vtype, cur, lambda c: sigma.get(c, c))
        for k, w in img.items():
            tot[k] = tot.get(k, 0) + w
        cur = [[unkey(vtype, k), common.jq(w)] for k, w in img.items()]
    out = [[unkey(vtype, k), common.jq(w)] for k, w in tot.items()]
    rng.shuffle(out)
    return out


def gen_random(rng, e):
    return evalreg.gen_profile(rng, e['vtype'], shared=(e['needs'] != 'noshared'), small=(e['needs'] == 'small'))


def gen_symmetric(rng, e):
    return symmetrise(rng, e['vtype'], gen_random(rng, e))


def total_weight(vtype, prof):
    return sum(common.q(w) for _, w in prof)


def enc_sel(val):
    """canonical selection (cand numbers / sorted tuples) -> wire"""
    return sx([list(x) if isinstance(x, tuple) else x for x in val])


def sweep(ctx, stream, count, rng, gen=gen_random, only=None, seats_fn=None):
    reg = registry()
    names = list(only) if only else list(reg)
    pending = []        # (case, cands, n, val)
    bad = n_cases = 0
    for _ in range(count):
        e = reg[rng.choice(names)]
        prof = gen(rng, e)
        if total_weight(e['vtype'], prof) <= 0:
            continue
        cands = evalreg.candidates_of(e['vtype'], prof)
        present = evalreg.present_candidates(e, prof)
        if len(present) < e['min_cands']:
            continue
        seats = seats_fn(rng, len(present)) if seats_fn else rng.randint(1, max(1, len(present)))
        ctx.evaluations += 1
        n_cases += 1
        ctx.dist['stream:' + stream] += 1
        ctx.dist['vtype:' + e['vtype']] += 1
        case = dict(kind='shape', evaluator=e['name'], profile=prof, n=seats)
        try:
            r = common.call_impl(lambda: evalreg.canon_result(e, evalreg.run(e, evalreg.to_python(e['vtype'], prof), seats), cnum), 10)
        except Exception as exc:   # noqa
            r = ('err', common.E['OTHER'], repr(exc))
        why = judge_error(e, r, case)
        if r[0] == 'ok':
            kind, val = r[1]
            if kind == 'sel':
                if any(isinstance(x, tuple) for x in val):
                    ctx.nontrivial.add(common.case_hash(case))
                pending.append((case, e, cands, seats if (e['seats'] and e['exact']) else len(val), val))
                if e['seats'] and len(val) > seats:
                    why = 'selection has %d entries for %d seats' % (len(val), seats)
            else:
                why = judge_dist(e, cands, seats, val, case)
                if any(isinstance(k, tuple) for k, _ in val):
                    ctx.nontrivial.add(common.case_hash(case))
        else:
            ctx.nontrivial.add(common.case_hash(case))
            ctx.dist['outcome:' + common.E_NAME.get(r[1], str(r[1]))] += 1
        if why:
            bad += 1
            ctx.checker_false += 1
            ctx.report(stream, case, str(r[1:])[:400], 'n/a', '%s: %s' % (e['name'], why), known_class=known_class)
    # selections: the extracted verified checker
    lines = ['%d (%s %d %s)' % (BLOCK['C08'], sx(c), n, enc_sel(val)) for _case, _e, c, n, val in pending]
    outs = common.run_model(lines)
    for (case, e, c, n, val), o in zip(pending, outs):
        v = common.parse_sx(o)
        if v[0] != 0:
            ctx.broken('harness', 'shape checker rejected its input: %s -> %s' % (lines[0][:200], o))
            continue
        if v[1] != 1:
            bad += 1
            ctx.checker_false += 1
            case['_class'] = shape_class(c, n, val)
            ctx.report(stream, case, str(val), 'sel_shape_ok = false', '%s: selection %s does not have the shape of %d seats over candidates %s'
                       % (e['name'], val, n, c), known_class=known_class)
        elif len(ctx.samples) < 3 and any(isinstance(x, tuple) for x in val):
            ctx.samples.append(dict(stream=stream, case=case, impl=str(val), model='sel_shape_ok = true'))
    ctx.streams[stream] = dict(cases=n_cases, deviations=bad)


def shape_class(cands, n, val):
    """class of a rejected selection.  'shape:tie-once': distinct plain winners of the votes followed or preceded by ONE
    tie object, listed once, that stands for the r >= 2 seats the plain winners leave open, has more than r members and
    is disjoint from the winners - i.e. the selection becomes well-shaped by repeating the tie r times (the recorded
    witness shape of C08-allocated-score-shape).  'shape:short': fewer than n entries, all of them distinct plain
    candidates of the votes, no tie object (the recorded shape of the Bucklin / Oklahoma / STAR short lists).
    Everything else (a tie no larger than the seats it contests, a repeated candidate, a stranger, a tie beside a
    missing entry, ...) is plain 'shape' and matches no known finding."""
    plain = [x for x in val if not isinstance(x, tuple)]
    ties = [x for x in val if isinstance(x, tuple)]
    r = n - len(plain)
    if (len(ties) == 1 and r >= 2 and len(set(plain)) == len(plain) and all(x in cands for x in plain)
            and len(set(ties[0])) == len(ties[0]) > r and all(x in cands for x in ties[0]) and not set(ties[0]) & set(plain)):
        return 'shape:tie-once'
    if not ties and len(val) < n and len(set(plain)) == len(plain) and all(x in cands for x in plain):
        return 'shape:short'
    return 'shape'


def judge_error(e, r, case):
    if r[0] == 'ok':
        return None
    code = r[1]
    if code in (common.E['VSE'], common.E['NIE']):
        return None
    if code == common.E['TIMEOUT']:
        return None
    case['_class'] = 'crash:' + common.E_NAME.get(code, str(code))
    if e['family'] in LISTED:
        return 'undeclared exception %s' % (r[2],)
    if e['name'].startswith('allocated_score'):
        # C08_shape_allocated_score / C12_alloc_answers (repaired library, fixes/C12-allocated-score-exhausted): the allocation loop
        # has no error outcome on a profile with positive weights - the ValueError / IndexError of the exhausted ballots is fixed
        return 'allocated score raises %s although the repaired allocation loop answers for every profile' % (r[2],)
    if e['name'] == 'baldwin':
        # C08_shape_baldwin: on a well-formed profile Baldwin always answers (the registry's ranked profiles are well-formed)
        return 'Baldwin raises %s although it has an answer for every well-formed profile' % (r[2],)
    if e['name'] in ('benham', 'tideman_alt'):
        # C08_shape_benham / C08_shape_tideman / C08_shape_tideman_outcomes / C08_shape_hybrids_single_candidate (repaired
        # library: fixes/C05-tideman-tiers.diff, fixes/C05-hybrid-single-candidate.diff): on a well-formed profile on which
        # somebody stands - a single candidate included - the only outcome besides an answer is NotImplementedError, for every
        # number of seats of TidemanAlternative.  The TypeError of the further tiers (finding C08-tideman-multiseat) and the
        # IndexError of a contest with a single candidate (finding C05-hybrid-empty-pairwise) are fixed: a violation if they return.
        # Benham is a single-winner rule by construction (assert n_seats == 1): only one-seat calls are judged.
        if len(evalreg.candidates_of(e['vtype'], case['profile'])) >= 1 and (e['name'] == 'tideman_alt' or case['n'] == 1):
            return '%s raises %s on a well-formed profile on which somebody stands' % (e['name'], r[2])
    return None        # other families: the declared-refusal clause does not name them (counted in the distribution)


def judge_dist(e, cands, seats, val, case):
    tot = 0
    for k, v in val:
        if isinstance(k, tuple):
            if len(k) < 2 or any(x not in cands for x in k):
                return 'tie key %s is not a tie of candidates of the votes' % (k,)
            if not isinstance(v, int) or v <= 0 or v >= len(k):
                return 'tie %s stands for %s seats' % (k, v)
        elif k not in cands:
            return 'seats for %r, which is not a candidate of the votes' % (k,)
        if e['name'] == 'pure_proportionality':
            continue        # documented fractional shares
        if not isinstance(v, int) or v <= 0:
            case['_class'] = 'nonpositive'
            return 'candidate %s is awarded %r seats (not a positive integer)' % (k, v)
        tot += v
    if e['name'].startswith(SUM_EXACT) and tot != seats:
        case['_class'] = 'sum'
        return 'awarded seats sum to %d, %d to fill' % (tot, seats)
    return None


def known_class(c, io, mo):
    ev, cls = c.get('evaluator', ''), c.get('_class', '')
    # wave 6: C08-allocated-score-shape is repaired (fixes/C12-allocated-score-tie-seats, C08_shape_allocated_score): a tie listed
    # once for several seats is a violation again
    if ev in ('bucklin', 'oklahoma') and cls == 'shape:short':
        return 'C08-preference-addition-short'
    if ev == 'star' and cls == 'shape:short':
        return 'C08-star-short'
    if ev == 'tideman_alt' and cls == 'crash:TYPE' and c.get('n', 1) >= 2 and len(evalreg.candidates_of('ranked', c['profile'])) >= 2:
        return 'C08-tideman-multiseat'
    return None


def model_shape(ctx, stream, count, rng):
    """sanity of encoding + checker on the extracted get_n_best model itself (theorem C08_selection_shape says: always accepted)"""
    from units import U
    cases = []
    for _ in range(count):
        prof = evalreg.gen_profile(rng, 'simple')
        n = rng.randint(1, len(prof))
        cases.append((prof, n))
    outs = common.run_model(['%d (%s %d)' % (U['get_n_best'], sx([[k, common.q(v)] for k, v in p]), n) for p, n in cases])
    lines = []
    for (p, n), o in zip(cases, outs):
        v = common.parse_sx(o)
        lines.append('%d (%s %d %s)' % (BLOCK['C08'], sx([k for k, _ in p]), n, sx(v[1])))
    res = common.run_model(lines)
    bad = 0
    for (p, n), o in zip(cases, res):
        ctx.evaluations += 1
        ctx.dist['stream:' + stream] += 1
        if common.parse_sx(o) != [0, 1]:
            bad += 1
            ctx.broken('checker', 'verified checker rejects a get_n_best model result: %s %s -> %s' % (p, n, o))
    ctx.streams[stream] = dict(cases=len(cases), deviations=bad)


# ------------------------------------------------------------------ Baldwin against Model/Elimination.v (units 111 / 112)
SCORERS = [('borda0', [1, 0]), ('borda1', [1, 1]), ('dowdall', [2]), ('geometric2', [3, 2]), ('modified', [4]), ('fixedtop2', [5, 2])]


def mk_scorer(code):
    import votelib.component.rankscore as rs
    k = code[0]
    return {1: lambda: rs.Borda(base=code[1]), 2: lambda: rs.Dowdall(), 3: lambda: rs.Geometric(code[1]), 4: lambda: rs.ModifiedBorda(),
            5: lambda: rs.FixedTop(code[1])}[k]()


def bald_line(c):
    if c['unit'] == 'neg_scores':
        return '%d (%s %s)' % (BLOCK['C08'] + 2, sx(c['scorer']), sx(c['profile']))
    return '%d (%s %s %d)' % (BLOCK['C08'] + 1, sx(c['scorer']), sx(c['profile']), c['n'])


def bald_eval(c):
    import votelib.evaluate.sequential as seq, votelib.convert as conv
    ev = seq.Baldwin(conv.RankedToPositionalVotes(rank_scorer=mk_scorer(c['scorer'])))
    py = evalreg.to_python('ranked', c['profile'])
    if c['unit'] == 'neg_scores':
        return ev, ev._compute_negative_scores(py)
    return ev, ev.evaluate(py, c['n'])


def bald_impl(c):
    import votelib.evaluate.core as core
    _ev, r = bald_eval(c)
    if c['unit'] == 'neg_scores':
        return common.ok([[cnum(k), common.q(v)] for k, v in r.items()])
    return common.ok([sorted(cnum(x) for x in e) if isinstance(e, core.Tie) else cnum(e) for e in r])


def bald_canon(c, wire):
    v = common.parse_sx(wire)
    if v[0] != 0:
        return ('err', v[1])
    # the iteration order of a frozenset (shared rank) is not specified: where the profile has shared ranks, candidates with
    # equal scores may come in either order - the dictionary is compared as a set of items, the selection as plain winners
    # (sorted) followed by its tie objects; without shared ranks the exact order is compared
    shared = evalreg.has_shared(c['profile'])
    if c['unit'] == 'neg_scores':
        items = tuple((k, common.unq(x)) for k, x in v[1])
        return ('ok', tuple(sorted(items)) if shared else items)
    sel = tuple(tuple(sorted(e)) if isinstance(e, list) else e for e in v[1])
    if shared:
        sel = tuple(sorted(x for x in sel if not isinstance(x, tuple))) + tuple(x for x in sel if isinstance(x, tuple))
    return ('ok', sel)


def wf_ranked(prof):
    """no candidate twice on a ballot, no empty shared rank, no negative weight (the hypotheses of C08_shape_baldwin)"""
    for b, w in prof:
        flat = [x for it in b for x in (it if isinstance(it, list) else [it])]
        if len(set(flat)) != len(flat) or any(isinstance(it, list) and not it for it in b) or common.q(w) < 0:
            return False
    return True


def py_shape(cands, n, val):
    """the declarative clause of Proofs/Shape_proofs.v sel_shape on a canonical selection (ties = sorted tuples)"""
    plain = [x for x in val if not isinstance(x, tuple)]
    ties = [x for x in val if isinstance(x, tuple)]
    if len(val) != n or len(set(plain)) != len(plain) or any(x not in cands for x in plain):
        return False
    for t in set(ties):
        if len(set(t)) != len(t) or any(x not in cands or x in plain for x in t) or ties.count(t) >= len(t):
            return False
    return True


_BALD_DIST = {}


def bald_spec(c, io, mo):
    """C08_shape_baldwin on the implementation's own answer: a well-formed profile and 1 <= n <= candidates -> a well-shaped
    selection of exactly n entries, never an exception"""
    v = common.parse_sx(io)
    key = 'baldwin-outcome:' + ('err-' + common.E_NAME.get(v[1], str(v[1])) if v[0] != 0 else c['unit'] + ('-tie' if any(isinstance(e, list) for e in v[1]) and c['unit'] == 'baldwin' else ''))
    _BALD_DIST[key] = _BALD_DIST.get(key, 0) + 1
    if c['unit'] != 'baldwin' or not wf_ranked(c['profile']):
        return None
    cands = evalreg.candidates_of('ranked', c['profile'])
    if not 1 <= c['n'] <= len(cands):
        return None
    r = bald_canon(c, io)
    if r[0] != 'ok':
        c['_class'] = 'crash:' + common.E_NAME.get(r[1], str(r[1]))
        return 'Baldwin raises %s on a well-formed profile' % common.E_NAME.get(r[1], str(r[1]))
    if not py_shape(cands, c['n'], list(r[1])):
        c['_class'] = shape_class(cands, c['n'], list(r[1]))
        return 'Baldwin: selection %s does not have the shape of %d seats over candidates %s' % (list(r[1]), c['n'], cands)
    return None


def bald_nontrivial(c):
    return c['unit'] == 'baldwin' and c.get('_style') in ('sym', 'tiedlosers', 'alltied')


def gen_bald_ballot(rng, ids, shared_p):
    perm = ids[:]
    rng.shuffle(perm)
    r = rng.random()
    if r < 0.15:
        perm = perm[:1]
    elif r < 0.5:
        perm = perm[:rng.randint(1, len(perm))]
    out, i = [], 0
    while i < len(perm):
        if rng.random() < shared_p and i + 1 < len(perm):
            k = rng.randint(2, min(3, len(perm) - i))
            out.append(sorted(perm[i:i + k]))
            i += k
        else:
            out.append(perm[i])
            i += 1
    return out


def gen_baldwin(rng, count):
    import json
    for _ in range(count):
        m = 1 if rng.random() < 0.03 else rng.choice([2, 3, 3, 4, 4, 5, 6])
        ids = list(range(1, m + 1))
        shared_p = rng.choice([0, 0, 0.2, 0.4])
        style = rng.random()
        prof = {}
        tag = 'random'
        if style < 0.12 and m >= 3:
            # two or three candidates always ranked together at the bottom (tied losers), the others above them in turn
            tag = 'tiedlosers'
            k = rng.randint(2, m - 1)
            low, top = ids[:k], ids[k:]
            for _b in range(rng.randint(1, 4)):
                t = top[:]
                rng.shuffle(t)
                b = t + ([sorted(low)] if rng.random() < 0.7 else [])
                prof[json.dumps(b)] = prof.get(json.dumps(b), 0) + rng.randint(1, 3)
        elif style < 0.2:
            tag = 'alltied'
            b = [sorted(ids)] if m > 1 else ids
            prof[json.dumps(b)] = rng.randint(0, 3)
        else:
            wmax = rng.choice([1, 2, 5, 5, 10 ** 20])
            for _b in range(rng.randint(1, 7)):
                b = gen_bald_ballot(rng, ids, shared_p)
                prof[json.dumps(b)] = prof.get(json.dumps(b), 0) + rng.randint(0 if rng.random() < 0.08 else 1, wmax)
        profile = [[json.loads(b), w] for b, w in prof.items()]
        if tag == 'random' and rng.random() < 0.45:
            profile = symmetrise(rng, 'ranked', profile)
            tag = 'sym'
        if rng.random() < 0.02:
            # malformed: an empty shared rank in front (more ranks than candidates for a full ballot: ValueError of Borda)
            profile = [[[[]] + b, w] for b, w in profile]
            tag = 'emptyrank'
        k = len(evalreg.candidates_of('ranked', profile))
        sc = SCORERS[0][1] if rng.random() < 0.6 else rng.choice(SCORERS)[1]
        if rng.random() < 0.12:
            yield dict(kind='baldwin', unit='neg_scores', scorer=sc, profile=profile, n=0, _style=tag)
        else:
            n = rng.choice([rng.randint(1, max(1, k)), rng.randint(1, max(1, k)), max(1, k - 1), k, 0, k + 1, 1])
            yield dict(kind='baldwin', unit='baldwin', scorer=sc, profile=profile, n=n, _style=tag)


BALD_KW = dict(canon=bald_canon, nontrivial=bald_nontrivial, spec=bald_spec, known_class=None, limit=20)


# ------------------------------------------------------------------ ApprovalToSimpleVotes against Model/ApprovalSimple.v (unit 113)
def appr_line(c):
    return '%d (%d %s)' % (BLOCK['C08'] + 3, 1 if c['split'] else 0, sx(c['profile']))


def appr_impl(c):
    import votelib.convert as conv
    r = conv.ApprovalToSimpleVotes(split=c['split']).convert(evalreg.to_python('approval', c['profile']))
    return common.ok([[cnum(k), common.q(v)] for k, v in r.items()])


def appr_canon(c, wire):
    v = common.parse_sx(wire)
    if v[0] != 0:
        return ('err', v[1])
    # the candidates of one ballot enter the dictionary in the iteration order of a frozenset: compared as a set of items
    return ('ok', tuple(sorted((k, common.unq(x)) for k, x in v[1])))


def appr_spec(c, io, mo):
    """C08_shape_approval needs: one key per approved candidate (so that n <= candidates can be filled)"""
    r = appr_canon(c, io)
    if r[0] != 'ok':
        return 'ApprovalToSimpleVotes raises %s' % common.E_NAME.get(r[1], str(r[1]))
    keys = [k for k, _ in r[1]]
    cands = evalreg.candidates_of('approval', c['profile'])
    if sorted(keys) != sorted(cands):
        return 'converted dictionary has keys %s, the ballots approve %s' % (keys, cands)
    return None


def gen_approval(rng, count):
    for _ in range(count):
        prof = evalreg.gen_profile(rng, 'approval')
        tag = 'random'
        if rng.random() < 0.4:
            prof = symmetrise(rng, 'approval', prof)
            tag = 'sym'
        if rng.random() < 0.1:
            prof = prof + [[[], rng.randint(1, 3)]]      # a blank ballot (split: skipped, not divided by zero)
            tag = 'blank'
        if rng.random() < 0.1:
            prof = [[b, 0] for b, _w in prof[:1]] + prof[1:]
        yield dict(kind='approval-simple', split=rng.random() < 0.5, profile=prof, _style=tag)


APPR_KW = dict(canon=appr_canon, nontrivial=lambda c: c['split'], spec=appr_spec, known_class=None, limit=10)


def coverage(ctx):
    """which public evaluator classes of votelib.evaluate.* are exercised by this sweep"""
    import votelib.evaluate.core as core, votelib.evaluate.sequential as seq, votelib.evaluate.proportional as prop
    import votelib.evaluate.cardinal as card, votelib.evaluate.approval as appr, votelib.evaluate.condorcet as cd
    import votelib.evaluate.threshold as thr, votelib.evaluate.auxiliary as aux, votelib.evaluate.openlist as ol
    used = set()
    for e in registry().values():
        ev = e['make']()
        for o in (ev, getattr(ev, 'evaluator', None), getattr(ev, '_inner', None)):
            if o is not None:
                used.add(type(o).__name__)
    allc = []
    for mod in (core, seq, prop, card, appr, cd, thr, aux, ol):
        for n, c in inspect.getmembers(mod, inspect.isclass):
            if c.__module__ == mod.__name__ and hasattr(c, 'evaluate') and not n.startswith('_'):
                allc.append(n)
    ctx.notes.append('evaluator classes swept here: %s' % sorted(set(allc) & used))
    ctx.notes.append('evaluator classes not swept here (abstract bases, wrappers needing components -> C14, biproportional -> C07, open lists -> C16, '
                     'random / order based selectors -> C18): %s' % sorted(set(allc) - used))


def corpus():
    import os, json, glob
    for p in sorted(glob.glob(os.path.join(common.VERIF, 'corpus', ID, '*.json'))):
        yield json.load(open(p))


def replay_case(ctx, c, stream):
    e = registry()[c['evaluator']]
    prof, seats = c['profile'], c['n']
    cands = evalreg.candidates_of(e['vtype'], prof)
    ctx.evaluations += 1
    r = common.call_impl(lambda: evalreg.canon_result(e, evalreg.run(e, evalreg.to_python(e['vtype'], prof), seats), cnum), 10)
    why = judge_error(e, r, c)
    if r[0] == 'ok':
        kind, val = r[1]
        if kind == 'sel':
            o = common.run_model(['%d (%s %d %s)' % (BLOCK['C08'], sx(cands), seats if (e['seats'] and e['exact']) else len(val), enc_sel(val))])[0]
            if common.parse_sx(o) != [0, 1]:
                c['_class'] = shape_class(cands, seats if (e['seats'] and e['exact']) else len(val), val)
                why = 'selection %s does not have the shape of %d seats over candidates %s' % (val, seats, cands)
        else:
            why = judge_dist(e, cands, seats, val, c)
    if why:
        ctx.checker_false += 1
        ctx.report(stream, c, str(r[1:])[:400], 'n/a', '%s: %s' % (e['name'], why), known_class=known_class)


def explore(ctx, widen=1):
    rng = ctx.rng
    cp = list(corpus())
    for c in cp:
        if c.get('kind') != 'baldwin':
            replay_case(ctx, c, 'corpus')
    ctx.differential('corpus-baldwin', [c for c in cp if c.get('kind') == 'baldwin'], bald_line, bald_impl, **BALD_KW)
    model_shape(ctx, 'model-shape', ctx.n(300, 3000), rng)
    sweep(ctx, 'sweep', ctx.n(5000, 80000) * widen, rng)
    sweep(ctx, 'sym-sweep', ctx.n(5000, 60000) * widen, rng, gen_symmetric)
    # tie breaking around distributors / plurality on level vote totals (three and more parties level for the last two and more seats)
    def gen_level(r, e):
        m = r.randint(3, 6)
        return [[k, r.choice([6, 6, 6, 12, 12, 7])] for k in range(1, m + 1)]
    sweep(ctx, 'tiebreak-level', ctx.n(600, 8000) * widen, rng, gen=gen_level, only=['tiebreak_dhondt', 'tiebreak_lr_hare', 'tiebreak_plurality', 'tiebreak_dhondt_by_votes'])
    # majority judgment on the level-median profiles of C12 (equal medians across the cut, several candidates separating in
    # the same removal round), three and more seats preferred: the recursive tie-break must return exactly n names
    import props.c12 as c12
    sweep(ctx, 'mj-level', ctx.n(1500, 20000) * widen, rng, gen=lambda r, e: next(c12.gen_mj_seats(r, 1))['votes'],
          only=['mj_default', 'mj_plus'], seats_fn=lambda r, m: min(m, r.choice([3, 3, 4, 2, r.randint(1, max(1, m))])))
    cases = list(gen_baldwin(rng, ctx.n(4000, 60000) * widen))
    for c in cases:
        ctx.dist['baldwin:' + c['_style']] += 1
    ctx.differential('baldwin', cases, bald_line, bald_impl, **BALD_KW)
    for k, v in _BALD_DIST.items():
        ctx.dist[k] += v
    ctx.differential('approval-simple', list(gen_approval(rng, ctx.n(1500, 20000) * widen)), appr_line, appr_impl, **APPR_KW)
    coverage(ctx)


def replay(ctx, case, stream=None):
    if case.get('kind') == 'baldwin':
        ctx.differential('replay', [case], bald_line, bald_impl, **BALD_KW)
        return
    if case.get('kind') == 'approval-simple':
        ctx.differential('replay', [case], appr_line, appr_impl, **APPR_KW)
        return
    replay_case(ctx, case, 'replay')
