"""Shared plumbing of the votelib verification harness.

Runs under /venv/bin/python (the interpreter that has votelib's dependencies).
votelib itself is imported from $VERIF_REPO (default /repo) -- whatever is in
the working tree *now*.
"""
import os, sys, json, time, signal, subprocess, hashlib, random, traceback
from fractions import Fraction
from decimal import Decimal

VERIF = os.path.dirname(os.path.dirname(os.path.abspath(__file__)))
REPO = os.environ.get('VERIF_REPO', '/repo')
GUARD = 'VOTELIB_VERIF'
os.environ[GUARD] = '1'
os.environ.setdefault('PYTHONDONTWRITEBYTECODE', '1')
sys.dont_write_bytecode = True
if REPO not in sys.path[:1]:
    sys.path.insert(0, REPO)

DRIVER = os.path.join(VERIF, 'ocaml', 'driver')

# ---------------------------------------------------------------- error enum
E = dict(VSE=1, NIE=2, VOTE=3, CAND=4, PARSE=5, VALUE=6, INDEX=7, KEY=8,
         TYPE=9, OTHER=10, TIMEOUT=11, ZERODIV=12, STOP=13, STATS=14, ATTR=15, RUNTIME=16, FUEL=99)
E_NAME = {v: k for k, v in E.items()}


class ImplTimeout(Exception):
    pass


def _alarm(signum, frame):
    raise ImplTimeout()


signal.signal(signal.SIGALRM, _alarm)


def classify_exc(exc):
    import votelib.evaluate.core as vc
    import votelib.vote as vv
    import votelib.candidate as vcand
    name = type(exc).__name__
    if isinstance(exc, ImplTimeout):
        return E['TIMEOUT']
    if isinstance(exc, vc.VotingSystemError):
        return E['VSE']
    if isinstance(exc, NotImplementedError):
        return E['NIE']
    if isinstance(exc, vv.VoteError):
        return E['VOTE']
    if isinstance(exc, vcand.CandidateError):
        return E['CAND']
    if 'ParseError' in name:
        return E['PARSE']
    if isinstance(exc, RuntimeError) and not isinstance(exc, NotImplementedError):
        return E['RUNTIME']
    if isinstance(exc, StopIteration):
        return E['STOP']
    if name == 'StatisticsError':
        return E['STATS']
    if isinstance(exc, AttributeError):
        return E['ATTR']
    if isinstance(exc, ZeroDivisionError):
        return E['ZERODIV']
    if isinstance(exc, IndexError):
        return E['INDEX']
    if isinstance(exc, KeyError):
        return E['KEY']
    if isinstance(exc, TypeError):
        return E['TYPE']
    if isinstance(exc, ValueError):
        return E['VALUE']
    return E['OTHER']


def call_impl(fn, limit=5):
    """Run fn() under a wall-clock limit; return ('ok', value) or ('err', code, text)."""
    signal.alarm(limit)
    try:
        v = fn()
        signal.alarm(0)
        return ('ok', v)
    except BaseException as exc:  # noqa
        signal.alarm(0)
        if isinstance(exc, (KeyboardInterrupt, SystemExit)):
            raise
        return ('err', classify_exc(exc), '%s: %s' % (type(exc).__name__, str(exc)[:200]))


# ---------------------------------------------------------------- sx encoding
def q(x):
    """Python number -> Fraction (exact); floats are NOT accepted."""
    if isinstance(x, bool):
        raise TypeError('bool as number')
    if isinstance(x, int):
        return Fraction(x)
    if isinstance(x, Fraction):
        return x
    if isinstance(x, Decimal):
        return Fraction(x)
    if isinstance(x, str):
        return Fraction(x)
    raise FloatLeak('non-exact number %r of type %s' % (x, type(x).__name__))


class FloatLeak(Exception):
    pass


def sx(x):
    """Encode ints, Fractions, nested lists/tuples to the wire syntax."""
    if isinstance(x, bool):
        return '1' if x else '0'
    if isinstance(x, int):
        return str(x)
    if isinstance(x, (Fraction, Decimal)):
        f = Fraction(x)
        if f.denominator == 1:
            return str(f.numerator)
        return '(%d %d)' % (f.numerator, f.denominator)
    if isinstance(x, str):
        # strings only appear as pre-encoded sx fragments
        return x
    if isinstance(x, (list, tuple)):
        return '(' + ' '.join(sx(y) for y in x) + ')'
    if x is None:
        return '()'
    if isinstance(x, float):
        raise FloatLeak('float %r in output' % x)
    raise TypeError('cannot encode %r' % (x,))


def sx_q(x):
    """always-rational encoding used for inputs: int stays int"""
    return sx(q(x))


def parse_sx(s):
    """wire syntax -> nested Python lists of ints"""
    toks = s.replace('(', ' ( ').replace(')', ' ) ').split()
    pos = 0

    def val():
        nonlocal pos
        t = toks[pos]
        pos += 1
        if t == '(':
            out = []
            while toks[pos] != ')':
                out.append(val())
            pos += 1
            return out
        return int(t) if t.lstrip('-').isdigit() else t
    v = val()
    return v


def unq(v):
    """decoded sx number -> Fraction"""
    if isinstance(v, int):
        return Fraction(v)
    return Fraction(v[0], v[1])


def ok(v):
    return '(0 %s)' % sx(v)


def err(code):
    return '(1 %d)' % code


# sample of (input line, output line) pairs of the extracted model, re-evaluated inside Coq by run.py (kernel_crosscheck)
MODEL_SAMPLE = []
_SAMPLE_RNG = random.Random(12345)
_SAMPLE_SEEN = [0]


def _sample(lines, out, cap=400):
    for l, o in zip(lines, out):
        if len(l) > 4000 or o.startswith('(3'):
            continue
        _SAMPLE_SEEN[0] += 1
        if len(MODEL_SAMPLE) < cap:
            MODEL_SAMPLE.append((l, o))
        else:
            j = _SAMPLE_RNG.randrange(_SAMPLE_SEEN[0])      # reservoir sampling
            if j < cap:
                MODEL_SAMPLE[j] = (l, o)


def run_model(lines, chunk=None):
    """Feed case lines to the extracted model; one output line per input line."""
    if not lines:
        return []
    # the driver is a pure line filter: a long batch is cut into contiguous parts answered by several driver processes at once
    jobs = max(1, min(int(os.environ.get('VERIF_MODEL_JOBS', '8')), len(lines) // 200))
    size = -(-len(lines) // jobs)
    parts = [lines[i:i + size] for i in range(0, len(lines), size)]
    procs = [subprocess.Popen([DRIVER], stdin=subprocess.PIPE, stdout=subprocess.PIPE, stderr=subprocess.PIPE, text=True) for _ in parts]
    import threading
    res = [None] * len(parts)

    def feed(i):
        res[i] = procs[i].communicate('\n'.join(parts[i]) + '\n', timeout=3600)
    ths = [threading.Thread(target=feed, args=(i,)) for i in range(len(parts))]
    for t in ths:
        t.start()
    for t in ths:
        t.join()
    out = []
    for pr, part, r in zip(procs, parts, res):
        if r is None or pr.returncode != 0:
            raise RuntimeError('model driver failed: rc=%s %s' % (pr.returncode, (r[1] if r else '')[:500]))
        o = r[0].split('\n')
        if o and o[-1] == '':
            o.pop()
        if len(o) != len(part):
            raise RuntimeError('model driver returned %d lines for %d cases' % (len(o), len(part)))
        out.extend(o)
    _sample(lines, out)
    return out


# ---------------------------------------------------------------- candidates
NAMES = ['A', 'B', 'C', 'D', 'E', 'F', 'G', 'H', 'I', 'J', 'K', 'L', 'M', 'N', 'O', 'P']


# label mode of the implementation call in progress (set by Ctx.differential for a share of the cases): 'std' = 'A', 'B', ... ;
# 'ints0' = the integers 0, 1, ... - candidates numbered from 0, the first of them a falsy object (a test like `if winner:` where
# `if winner is not None:` is meant shows only there); 'objs' = opaque objects without an ordering (sorted() over candidates - say in an
# error message - is a TypeError there).  The wire values (1-based numbers) do not change.
LABEL_MODE = ['std']


class Cand:
    """an opaque candidate object: hashable, comparable for equality only (no ordering: sorted() over such candidates is a TypeError)"""
    __slots__ = ('k',)

    def __init__(self, k):
        self.k = k

    def __hash__(self):
        return hash(('Cand', self.k))

    def __eq__(self, other):
        return isinstance(other, Cand) and other.k == self.k

    def __repr__(self):
        return 'Cand(%d)' % self.k

    def __deepcopy__(self, memo):
        return self


_CANDS = {}


def cname(k):
    """candidate number (1-based) -> default Python object"""
    if LABEL_MODE[0] == 'ints0':
        return k - 1
    if LABEL_MODE[0] == 'objs':
        if k not in _CANDS:
            _CANDS[k] = Cand(k)
        return _CANDS[k]
    if LABEL_MODE[0] == 'fsets':      # a joint ticket: the label is itself a (frozen) set
        return frozenset(('t%d' % k, 'u%d' % k))
    return NAMES[k - 1] if k <= len(NAMES) else 'X%d' % k


def cnum(name):
    if isinstance(name, int) and not isinstance(name, bool) and LABEL_MODE[0] == 'ints0':
        return name + 1
    if isinstance(name, Cand):
        return name.k
    if isinstance(name, frozenset) and len(name) == 2 and LABEL_MODE[0] == 'fsets':
        return int(sorted(name)[0][1:])
    if name in NAMES:
        return NAMES.index(name) + 1
    return int(name[1:])


def jq(x):
    """JSON-able exact number"""
    f = q(x)
    return f.numerator if f.denominator == 1 else '%d/%d' % (f.numerator, f.denominator)


def case_hash(case):
    return hashlib.sha1(json.dumps(case, sort_keys=True, default=str).encode()).hexdigest()[:16]


def mk_rng(seed, salt=''):
    return random.Random('%s/%s' % (seed, salt))
