(* C19 - the repaired serialize_value of Model/Persist.v ([ser_fixed]): it is the pinned function [ser] guarded by the
   boolean [loadable]; from this the rejection clause, the round trip of the repaired function and the split
   representable = wf_value && loadable. *)
From Coq Require Import ZArith List Bool Lia.
From VL Require Import Model.Persist Proofs.Persist_proofs.
Import ListNotations.
Open Scope Z_scope.

(* ---------------------------------------------------------------- map shapes *)
Lemma map_snd_obj : forall {X} (f : pval -> X) (ps : list (str * pval)),
  map (fun kv : str * pval => let (_, x) := kv in f x) ps = map f (map snd ps).
Proof. intros X f ps. rewrite map_map. apply map_ext. intros [k x]. reflexivity. Qed.

Lemma map_snd_dict : forall {X} (f : pval -> X) (d : list (pval * pval)),
  map (fun kv : pval * pval => let (_, x) := kv in f x) d = map f (map snd d).
Proof. intros X f d. rewrite map_map. apply map_ext. intros [k x]. reflexivity. Qed.

Lemma map_fst_dict : forall {X} (f : pval -> X) (d : list (pval * pval)),
  map (fun kv : pval * pval => let (k, _) := kv in f k) d = map f (map fst d).
Proof. intros X f d. rewrite map_map. apply map_ext. intros [k x]. reflexivity. Qed.

Lemma forallb_snd_obj : forall (g : pval -> bool) (ps : list (str * pval)),
  forallb (fun kv : str * pval => let (_, x) := kv in g x) ps = forallb g (map snd ps).
Proof. intros g ps. induction ps as [|[k x] ps IH]; simpl; [reflexivity|]. now rewrite IH. Qed.

Lemma forallb_pair : forall (g : pval -> bool) (d : list (pval * pval)),
  forallb (fun kv : pval * pval => let (k, x) := kv in g k && g x) d = forallb g (map fst d) && forallb g (map snd d).
Proof.
  intros g d. induction d as [|[k x] d IH]; simpl; [reflexivity|]. rewrite IH.
  destruct (g k), (g x), (forallb g (map fst d)), (forallb g (map snd d)); reflexivity.
Qed.

Lemma str_keys_map_snd : forall d sd, str_keys d = Some sd -> map snd d = map snd sd.
Proof.
  intros d sd H. rewrite (str_keys_spec d sd H). rewrite map_map. reflexivity.
Qed.

Section Rejects.
  Variable E : env.

  (* keys that are all strings are loadable / well-formed by themselves *)
  Lemma str_keys_loadable : forall d sd, str_keys d = Some sd -> forallb (loadable E) (map fst d) = true.
  Proof.
    induction d as [|[k x] d IH]; intros sd H; simpl in *; [reflexivity|].
    destruct k; try discriminate. destruct (str_keys d) as [r|]; [|discriminate]. simpl. eapply IH. reflexivity.
  Qed.

  (* what the saved dictionary carries under a key is a string exactly when the value is that string *)
  Lemma sniff_saved : forall tup (ps : list (str * pval)) js,
    collect (map (ser tup) (map snd ps)) = Some js ->
    forall k, sniff E (combine (map fst ps) js) k = psniff E ps k.
  Proof.
    intros tup. induction ps as [|[k x] ps IH]; intros js Hc k0; simpl in *.
    - reflexivity.
    - destruct (ser tup x) as [j|] eqn:Hs; [|discriminate].
      destruct (collect (map (ser tup) (map snd ps))) as [js'|] eqn:Hc'; [|discriminate].
      inversion Hc; subst js. unfold sniff, psniff. simpl. destruct (str_eqb k0 k).
      + assert (Hj : forall s, j = JStr s -> x = PStr s).
        { intros s Ej. subst j. eapply ser_str_inv. exact Hs. }
        destruct x eqn:Ex;
          try (destruct j; try reflexivity; specialize (Hj _ eq_refl); discriminate).
        simpl in Hs. inversion Hs. reflexivity.
      + apply (IH js' eq_refl).
  Qed.

  Definition guarded (v : pval) : Prop :=
    forall tup, ser_fixed E tup v = if loadable E v then ser tup v else SErr.

  Lemma collect_guarded : forall tup l, Forall guarded l ->
    collect (map (ser_fixed E tup) l) = if forallb (loadable E) l then collect (map (ser tup) l) else None.
  Proof.
    intros tup l HF. induction HF as [|x l Hx HF IH]; simpl; [reflexivity|].
    rewrite (Hx tup), IH. destruct (loadable E x); simpl.
    - destruct (forallb (loadable E) l); [reflexivity|]. destruct (ser tup x); reflexivity.
    - reflexivity.
  Qed.

  Lemma reserved_key_plain : forall d,
    reserved_key E d = RPlain <-> (sniff E d s_type || sniff E d s_class || sniff E d s_callable) = false.
  Proof.
    intros d. unfold reserved_key.
    destruct (sniff E d s_type), (sniff E d s_class), (sniff E d s_callable); simpl; split; intros H; try discriminate; reflexivity.
  Qed.

  (* THE LEMMA: the repaired function is the pinned one guarded by [loadable] *)
  Theorem ser_fixed_guarded : forall v, guarded v.
  Proof.
    induction v using pval_nested_ind; intros tup; try reflexivity.
    - (* tuple *)
      cbn [ser_fixed ser loadable]. rewrite (collect_guarded tup l H).
      destruct (forallb (loadable E) l); reflexivity.
    - (* frozenset *)
      cbn [ser_fixed ser loadable]. rewrite (collect_guarded tup l H).
      destruct (forallb (loadable E) l); reflexivity.
    - (* list *)
      cbn [ser_fixed ser loadable]. rewrite (collect_guarded tup l H).
      destruct (forallb (loadable E) l); reflexivity.
    - (* dict *)
      assert (HFk : Forall guarded (map fst d)).
      { clear - H. induction H as [|[k x] d [Hk Hx] HF IH]; simpl; constructor; assumption. }
      assert (HFv : Forall guarded (map snd d)).
      { clear - H. induction H as [|[k x] d [Hk Hx] HF IH]; simpl; constructor; assumption. }
      cbn [ser_fixed ser loadable].
      rewrite !map_fst_dict, !map_snd_dict, forallb_pair.
      rewrite (collect_guarded tup _ HFk), (collect_guarded tup _ HFv).
      destruct (str_keys d) as [sd|] eqn:Hsk.
      + rewrite (str_keys_loadable d sd Hsk). cbn [andb].
        destruct (forallb (loadable E) (map snd d)); [|reflexivity]. cbn [andb].
        destruct (collect (map (ser tup) (map snd d))) as [js|] eqn:Hc.
        * rewrite (str_keys_map_snd d sd Hsk) in Hc.
          pose proof (sniff_saved tup sd js Hc) as Hsn.
          unfold reserved_key, reserved_hit. rewrite !Hsn.
          destruct (psniff E sd s_type), (psniff E sd s_class), (psniff E sd s_callable); reflexivity.
        * destruct (negb (reserved_hit E sd)); reflexivity.
      + rewrite andb_true_r.
        destruct (forallb (loadable E) (map fst d)); cbn [andb]; [|reflexivity].
        destruct (forallb (loadable E) (map snd d)); [reflexivity|].
        destruct (collect (map (ser tup) (map fst d))); reflexivity.
    - (* object *)
      assert (HFv : Forall guarded (map snd ps)).
      { clear - H. induction H as [|[k x] d Hx HF IH]; simpl; constructor; assumption. }
      cbn [ser_fixed ser loadable].
      rewrite !map_snd_obj, forallb_snd_obj. rewrite (collect_guarded tup _ HFv).
      destruct (forallb (loadable E) (map snd ps)); cbn [andb]; [|reflexivity].
      destruct (collect (map (ser tup) (map snd ps))) as [js|] eqn:Hc.
      + pose proof (sniff_saved tup ps js Hc) as Hsn.
        unfold reserved_key.
        rewrite (sniff_cons_ne E s_type s_class) by reflexivity. rewrite Hsn.
        assert (Hs2 : sniff E ((s_class, JStr c) :: combine (map fst ps) js) s_class = is_scoped_identifier E c).
        { unfold sniff. simpl. reflexivity. }
        rewrite Hs2.
        destruct (psniff E ps s_type), (is_scoped_identifier E c), (class_exists E c), (class_accepts E c (map fst ps));
          try reflexivity; destruct (sniff E _ s_callable); reflexivity.
      + destruct (is_scoped_identifier E c && class_exists E c && class_accepts E c (map fst ps) && negb (psniff E ps s_type)); reflexivity.
  Qed.

  (* ------------------------------------------------------------ representable = wf_value && loadable *)
  Lemma forallb_and : forall {X} (f g h : X -> bool) l,
    Forall (fun x => f x = g x && h x) l -> forallb f l = forallb g l && forallb h l.
  Proof.
    intros X f g h l HF. induction HF as [|x l Hx HF IH]; simpl; [reflexivity|]. rewrite Hx, IH.
    destruct (g x), (h x), (forallb g l), (forallb h l); reflexivity.
  Qed.

  Theorem representable_split : forall v, representable E v = wf_value E v && loadable E v.
  Proof.
    induction v using pval_nested_ind; try reflexivity.
    - cbn [representable wf_value loadable]. rewrite andb_true_r. reflexivity.
    - cbn [representable wf_value loadable]. rewrite andb_true_r. reflexivity.
    - cbn [representable wf_value loadable]. apply forallb_and. exact H.
    - cbn [representable wf_value loadable]. rewrite (forallb_and _ _ _ l H).
      destruct (forallb (wf_value E) l), (forallb (loadable E) l), (forallb hashable l), (nodupb pval_eqb l); reflexivity.
    - cbn [representable wf_value loadable]. apply forallb_and. exact H.
    - cbn [representable wf_value loadable]. rewrite andb_false_r. reflexivity.
    - (* dict *)
      cbn [representable wf_value loadable].
      assert (HFk : Forall (fun x => representable E x = wf_value E x && loadable E x) (map fst d)).
      { clear - H. induction H as [|[k x] d [Hk Hx] HF IH]; simpl; constructor; assumption. }
      assert (HFv : Forall (fun x => representable E x = wf_value E x && loadable E x) (map snd d)).
      { clear - H. induction H as [|[k x] d [Hk Hx] HF IH]; simpl; constructor; assumption. }
      rewrite !forallb_pair. rewrite (forallb_and _ _ _ _ HFk), (forallb_and _ _ _ _ HFv).
      destruct (forallb (wf_value E) (map fst d)), (forallb (wf_value E) (map snd d)),
               (forallb (loadable E) (map fst d)), (forallb (loadable E) (map snd d)),
               (forallb hashable (map fst d)), (nodupb pval_eqb (map fst d)),
               (match str_keys d with Some sd => negb (reserved_hit E sd) | None => true end); reflexivity.
    - (* object *)
      cbn [representable wf_value loadable].
      assert (HFv : Forall (fun x => representable E x = wf_value E x && loadable E x) (map snd ps)).
      { clear - H. induction H as [|[k x] d Hx HF IH]; simpl; constructor; assumption. }
      rewrite !forallb_snd_obj. rewrite (forallb_and _ _ _ _ HFv).
      destruct (forallb (wf_value E) (map snd ps)), (forallb (loadable E) (map snd ps)),
               (is_scoped_identifier E c), (class_exists E c), (class_accepts E c (map fst ps)),
               (memb str_eqb s_class (map fst ps)), (psniff E ps s_type); reflexivity.
  Qed.

  Lemma representable_loadable : forall v, representable E v = true -> loadable E v = true.
  Proof. intros v H. rewrite representable_split in H. apply andb_true_iff in H. tauto. Qed.

  Lemma representable_wf : forall v, representable E v = true -> wf_value E v = true.
  Proof. intros v H. rewrite representable_split in H. apply andb_true_iff in H. tauto. Qed.

  (* a loadable value contains nothing opaque: the pinned function does not refuse it either *)
  Lemma loadable_no_opaque : forall v, loadable E v = true -> has_opaque v = false.
  Proof.
    induction v using pval_nested_ind; intros Hl; cbn [loadable has_opaque] in *; try reflexivity; try discriminate.
    - induction H as [|x l Hx HF IH]; simpl in *; [reflexivity|]. apply andb_true_iff in Hl. destruct Hl as [H1 H2].
      rewrite (Hx H1). simpl. apply IH. exact H2.
    - induction H as [|x l Hx HF IH]; simpl in *; [reflexivity|]. apply andb_true_iff in Hl. destruct Hl as [H1 H2].
      rewrite (Hx H1). simpl. apply IH. exact H2.
    - induction H as [|x l Hx HF IH]; simpl in *; [reflexivity|]. apply andb_true_iff in Hl. destruct Hl as [H1 H2].
      rewrite (Hx H1). simpl. apply IH. exact H2.
    - apply andb_true_iff in Hl. destruct Hl as [Hl _].
      induction H as [|[k x] d [Hk Hx] HF IH]; simpl in *; [reflexivity|].
      apply andb_true_iff in Hl. destruct Hl as [H1 H2]. apply andb_true_iff in H1. destruct H1 as [Ha Hb].
      rewrite (Hk Ha), (Hx Hb). simpl. apply IH. exact H2.
    - do 4 (apply andb_true_iff in Hl; destruct Hl as [Hl _]).
      induction H as [|[k x] d Hx HF IH]; simpl in *; [reflexivity|].
      apply andb_true_iff in Hl. destruct Hl as [Ha Hb]. rewrite (Hx Ha). simpl. apply IH. exact Hb.
  Qed.

  (* ------------------------------------------------------------ the clauses *)
  (* saving is refused EXACTLY for the values that are not loadable *)
  Theorem ser_fixed_refuses_iff : forall v tup, ser_fixed E tup v = SErr <-> loadable E v = false.
  Proof.
    intros v tup. rewrite (ser_fixed_guarded v tup). destruct (loadable E v) eqn:Hl.
    - split; [|discriminate]. intros Hs. apply ser_refuses_iff in Hs. rewrite (loadable_no_opaque v Hl) in Hs. discriminate.
    - split; reflexivity.
  Qed.

  Theorem rejects : forall v, wf_value E v = true -> representable E v = false -> serialize_value E v = SErr.
  Proof.
    intros v Hw Hr. apply ser_fixed_refuses_iff. rewrite representable_split, Hw in Hr. exact Hr.
  Qed.

  (* what is saved at all reloads to itself (given a well-formed encoding): nothing is silently altered *)
  Theorem saved_reloads : forall v j, wf_value E v = true -> serialize_value E v = SOk j ->
    deser E j = DOk v /\ deser E (json_rt j) = DOk v.
  Proof.
    intros v j Hw Hs. unfold serialize_value in Hs.
    assert (Hl : loadable E v = true).
    { destruct (loadable E v) eqn:Hl; [reflexivity|]. apply (ser_fixed_refuses_iff v true) in Hl. rewrite Hl in Hs. discriminate. }
    assert (Hr : representable E v = true) by (rewrite representable_split, Hw, Hl; reflexivity).
    rewrite (ser_fixed_guarded v true), Hl in Hs.
    destruct (roundtrip_json_pinned E v Hr) as [j' [Hs' [Hd Hdj]]]. unfold serialize_value_pinned in Hs'.
    rewrite Hs in Hs'. inversion Hs'; subst j'. split; assumption.
  Qed.

  Theorem roundtrip_json : forall v, representable E v = true ->
    exists j, serialize_value E v = SOk j /\ deser E j = DOk v /\ deser E (json_rt j) = DOk v.
  Proof.
    intros v Hr. destruct (roundtrip_json_pinned E v Hr) as [j [Hs [Hd Hdj]]]. exists j. split; [|split; assumption].
    unfold serialize_value. rewrite (ser_fixed_guarded v true), (representable_loadable v Hr). exact Hs.
  Qed.

  Theorem system_roundtrip : forall c ps, representable E (PObj c ps) = true ->
    exists j, serialize_value E (PObj c ps) = SOk j /\
              from_dict E j = DOk (PObj c ps) /\ from_dict E (json_rt j) = DOk (PObj c ps).
  Proof.
    intros c ps Hr. destruct (system_roundtrip_pinned E c ps Hr) as [j [Hs Hd]]. exists j. split; [|exact Hd].
    unfold serialize_value. rewrite (ser_fixed_guarded _ true), (representable_loadable _ Hr). exact Hs.
  Qed.

  (* the repaired function changes nothing where it saves: same dictionary as before the repair *)
  Theorem fixed_agrees_with_pinned : forall v j, serialize_value E v = SOk j -> serialize_value_pinned v = SOk j.
  Proof.
    intros v j Hs. unfold serialize_value in Hs. rewrite (ser_fixed_guarded v true) in Hs.
    destruct (loadable E v); [exact Hs|discriminate].
  Qed.
End Rejects.
