(* Scale invariance (C11) of the Condorcet-runoff hybrids and the positional elimination rule (Model/Hybrids.v,
   Model/Elimination.v): Benham, Tideman's alternative, Baldwin - and of the converter RankedToCondorcetVotes in
   its pairwise-dictionary form (Hybrids.pairwise), which closes the composed registry entries
   "ranked votes -> RankedToCondorcetVotes -> Condorcet evaluator".  Ballot weights are integers; the factor is a
   positive integer.  pairwise (k votes) = scalez k (pairwise votes); subset_votes commutes with the scaling;
   eliminate_one sees first-preference totals related by x' == k x (STVScale_proofs) and get_n_best only an order
   embedding; the positional scores of Baldwin are k-fold up to == . *)
From Coq Require Import ZArith QArith Qround List Bool Lia Lqa.
From VL Require Import Prelude.Sx Prelude.PyDict Prelude.GDict Model.GetNBest Model.Convert Model.STV Model.Condorcet Model.Hybrids Model.Elimination
     Proofs.Dict_proofs Proofs.GetNBest_proofs Proofs.QOrd Proofs.Scale_proofs Proofs.LRScale_proofs Proofs.STVScale_proofs
     Proofs.Scale2Score_proofs.
Import ListNotations.

Section HybScale.
  Variable k : Z.
  Hypothesis Hk : (0 < k)%Z.

  Notation kq := (inject_Z k).
  Lemma kq_pos : (0 < kq)%Q.
  Proof. unfold Qlt. cbn. lia. Qed.

  Notation qs := (qsc kq).

  (* ------------------------------------------------------------ the rational view of the ballots *)
  Lemma qv_rel (votes : rvotes) : plrel kq (qv votes) (qv (scale_z k votes)).
  Proof.
    induction votes as [|bw votes IH]; cbn [qv scale_z map]; constructor; [|exact IH].
    split; [reflexivity|]. cbn [fst snd]. unfold qsc. rewrite inject_Z_mult. reflexivity.
  Qed.

  Lemma cands_ranked_rel (v v' : list (ranked * Q)) : plrel kq v v' -> cands_ranked v' = cands_ranked v.
  Proof.
    intros H. unfold cands_ranked. f_equal.
    induction H as [|y y' l l' Hy Hl IH]; cbn [flat_map]; [reflexivity|]. rewrite IH. f_equal. f_equal. symmetry. exact (proj1 Hy).
  Qed.

  Lemma arc_scale votes : all_ranked_candidates (qv (scale_z k votes)) = all_ranked_candidates (qv votes).
  Proof. exact (arc_rel kq _ _ (qv_rel votes)). Qed.

  (* ------------------------------------------------------------ RankedToCondorcetVotes *)
  Lemma hpadd_scale (v : pvotes) p n : Hybrids.padd (scalez k v) p (k * n) = scalez k (Hybrids.padd v p n).
  Proof.
    induction v as [|[p' n'] v IH]; cbn [scalez map Hybrids.padd fst snd]; [reflexivity|].
    destruct (peqb p p'); cbn [map fst snd].
    - rewrite Z.mul_add_distr_l. reflexivity.
    - f_equal. exact IH.
  Qed.

  Lemma hpadd_fold_scale (ps : list pair) w : forall acc,
    fold_left (fun acc p => Hybrids.padd acc p (k * w)) ps (scalez k acc)
    = scalez k (fold_left (fun acc p => Hybrids.padd acc p w) ps acc).
  Proof. induction ps as [|p ps IH]; intros acc; cbn [fold_left]; [reflexivity|]. rewrite hpadd_scale. apply IH. Qed.

  Theorem pairwise_scale votes : pairwise (scale_z k votes) = scalez k (pairwise votes).
  Proof.
    unfold pairwise. rewrite (cands_ranked_rel _ _ (qv_rel votes)). generalize (cands_ranked (qv votes)) as cs. intros cs.
    change (@nil (pair * Z)) with (scalez k []) at 1. generalize (@nil (pair * Z)) as acc.
    induction votes as [|bw votes IH]; intros acc; cbn [scale_z map fold_left fst snd]; [reflexivity|].
    rewrite hpadd_fold_scale. apply IH.
  Qed.

  (* ------------------------------------------------------------ RANKED_SUBSETTER *)
  Lemma vadd_scale (v : rvotes) b w : vadd (scale_z k v) b (k * w) = scale_z k (vadd v b w).
  Proof.
    induction v as [|[b' w'] v IH]; cbn [scale_z map vadd fst snd]; [reflexivity|].
    destruct (ballot_eqb b b'); cbn [map fst snd].
    - rewrite Z.mul_add_distr_l. reflexivity.
    - f_equal. exact IH.
  Qed.

  Theorem subset_votes_scale subset votes : subset_votes subset (scale_z k votes) = scale_z k (subset_votes subset votes).
  Proof.
    unfold subset_votes. change (@nil (ranked * Z)) with (scale_z k (@nil (ranked * Z))) at 1.
    generalize (@nil (ranked * Z)) as acc.
    induction votes as [|bw votes IH]; intros acc; cbn [scale_z map fold_left fst snd]; [reflexivity|].
    rewrite vadd_scale. apply IH.
  Qed.

  (* ------------------------------------------------------------ eliminate_one *)
  Theorem eliminate_one_scale votes : eliminate_one (scale_z k votes) = eliminate_one votes.
  Proof.
    unfold eliminate_one. rewrite arc_scale.
    pose proof (some_totals_rel kq _ _ (totals_rel kq _ _ (initial_allocation_rel kq _ _ (qv_rel votes)))) as Ht.
    destruct (length (all_ranked_candidates (qv votes))) as [|[|n]]; try reflexivity.
    f_equal. exact (get_n_best_rel Qle_bool Qle_bool _ (qsc_le kq kq_pos) _ _ (S n) Ht).
  Qed.

  (* ------------------------------------------------------------ Benham *)
  Lemma benham_cw_scale sc cur : benham_cw sc (scale_z k cur) = benham_cw sc cur.
  Proof. unfold benham_cw. rewrite arc_scale, pairwise_scale, (condorcet_winner_scale k Hk). reflexivity. Qed.

  Lemma benham_loop_scale fx sc fuel votes0 : forall cur,
    benham_loop fx sc fuel (scale_z k votes0) (scale_z k cur) = benham_loop fx sc fuel votes0 cur.
  Proof.
    induction fuel as [|f IH]; intros cur; cbn [benham_loop]; rewrite benham_cw_scale;
      destruct (benham_cw sc cur) as [|c r]; try reflexivity.
    rewrite eliminate_one_scale. destruct (eliminate_one cur) as [remains|]; [|reflexivity].
    destruct remains as [|r1 [|r2 rest]]; try reflexivity.
    - destruct (fx && has_tie []); [reflexivity|]. rewrite subset_votes_scale. apply IH.
    - destruct (fx && has_tie (r1 :: r2 :: rest)); [reflexivity|]. rewrite subset_votes_scale. apply IH.
  Qed.

  Theorem benham_scale fx sc votes : benham fx sc (scale_z k votes) = benham fx sc votes.
  Proof. unfold benham. rewrite arc_scale. apply benham_loop_scale. Qed.

  (* ------------------------------------------------------------ Tideman's alternative *)
  Lemma winner_set_scale sc round : winner_set sc (scale_z k round) = winner_set sc round.
  Proof. unfold winner_set. rewrite pairwise_scale, (smith_schwartz_scale k Hk), arc_scale. reflexivity. Qed.

  Lemma tideman_tier_scale fx sc fuel : forall round, tideman_tier fx sc fuel (scale_z k round) = tideman_tier fx sc fuel round.
  Proof.
    induction fuel as [|f IH]; intros round; destruct round as [|bw round]; try reflexivity.
    change (scale_z k (bw :: round)) with ((fst bw, (k * snd bw)%Z) :: scale_z k round).
    cbn [tideman_tier]. change ((fst bw, (k * snd bw)%Z) :: scale_z k round) with (scale_z k (bw :: round)).
    set (rd := bw :: round). rewrite winner_set_scale.
    assert (Hgen : forall sset,
      match eliminate_one (subset_votes sset (scale_z k rd)) with
      | Some rem =>
          if fx && has_tie rem then inr H_nie
          else match rem with
               | [r] => inl r
               | _ => tideman_tier fx sc f (subset_votes (plain rem) (subset_votes sset (scale_z k rd)))
               end
      | None => inr H_index
      end =
      match eliminate_one (subset_votes sset rd) with
      | Some rem =>
          if fx && has_tie rem then inr H_nie
          else match rem with
               | [r] => inl r
               | _ => tideman_tier fx sc f (subset_votes (plain rem) (subset_votes sset rd))
               end
      | None => inr H_index
      end).
    { intros sset. rewrite subset_votes_scale, eliminate_one_scale.
      destruct (eliminate_one (subset_votes sset rd)) as [rem|]; [|reflexivity].
      destruct (fx && has_tie rem); [reflexivity|].
      destruct rem as [|r1 [|r2 rest]]; try reflexivity; rewrite subset_votes_scale; apply IH. }
    destruct (winner_set sc rd) as [|w [|w2 rest]]; [apply Hgen|reflexivity|apply Hgen].
  Qed.

  Lemma tier_fuel_scale round : tier_fuel_of (scale_z k round) = tier_fuel_of round.
  Proof. unfold tier_fuel_of. rewrite arc_scale. reflexivity. Qed.

  Lemma tideman_loop_scale fx sc tr fuel : forall tier_votes elig n acc,
    tideman_loop fx sc tr fuel (scale_z k tier_votes) elig n acc = tideman_loop fx sc tr fuel tier_votes elig n acc.
  Proof.
    induction fuel as [|f IH]; intros tier_votes elig n acc; cbn [tideman_loop]; [reflexivity|].
    rewrite tier_fuel_scale, tideman_tier_scale.
    destruct (tideman_tier fx sc (tier_fuel_of tier_votes) tier_votes) as [[w|t]|e]; try reflexivity.
    destruct (cmem w elig); [|reflexivity].
    destruct (Nat.eqb _ _ || _); [reflexivity|]. destruct tr; [|reflexivity].
    rewrite subset_votes_scale. apply IH.
  Qed.

  Theorem tideman_alt_scale fx sc tr votes n : tideman_alt fx sc tr (scale_z k votes) n = tideman_alt fx sc tr votes n.
  Proof. unfold tideman_alt. cbv zeta. rewrite arc_scale. apply tideman_loop_scale. Qed.

  (* ------------------------------------------------------------ Baldwin *)
  Notation drel := (lrel (K := C) qs).

  Lemma dget_or_drel d d' c : drel d d' -> qs (dget_or d c 0%Q) (dget_or d' c 0%Q).
  Proof.
    intros H. unfold dget_or. pose proof (dget_lrel qs d d' c H) as Hg.
    destruct (dget d c), (dget d' c); cbn in Hg; try contradiction; [exact Hg|]. unfold qsc. ring.
  Qed.

  Lemma qadd_rel d d' c x x' : drel d d' -> qs x x' -> drel (qadd d c x) (qadd d' c x').
  Proof.
    intros Hd Hx. unfold qadd. apply dset_lrel; [exact Hd|].
    pose proof (dget_or_drel d d' c Hd) as Hg. unfold qsc in *. rewrite Hg, Hx. ring.
  Qed.

  Lemma pos_ballot_rel sc m d d' (b : ranked) (w : Z) : drel d d' ->
    match pos_ballot sc m d (b, w), pos_ballot sc m d' (b, (k * w)%Z) with
    | Some r, Some r' => drel r r'
    | None, None => True
    | _, _ => False
    end.
  Proof.
    intros Hd. unfold pos_ballot. cbn [fst snd]. destruct (rank_scores sc m (length b)) as [scs|]; [|exact I].
    generalize (combine b scs) as items. intros items. revert d d' Hd.
    induction items as [|[it s] items IH]; intros d d' Hd; cbn [fold_left]; [exact Hd|].
    apply IH. cbn [fst snd]. generalize (members it) as ms. intros ms. revert d d' Hd.
    induction ms as [|c ms IHm]; intros d d' Hd; cbn [fold_left]; [exact Hd|].
    apply IHm. apply qadd_rel; [exact Hd|]. unfold qsc. rewrite inject_Z_mult. ring.
  Qed.

  Lemma positional_fold_rel sc m (votes : rvotes) : forall (acc acc' : option (list (C * Q))),
    orel drel acc acc' ->
    orel drel
      (fold_left (fun acc bw => match acc with None => None | Some d => pos_ballot sc m d bw end) votes acc)
      (fold_left (fun acc bw => match acc with None => None | Some d => pos_ballot sc m d bw end) (scale_z k votes) acc').
  Proof.
    induction votes as [|[b w] votes IH]; intros acc acc' Ha; cbn [scale_z map fold_left fst snd]; [exact Ha|].
    apply IH. destruct acc as [d|], acc' as [d'|]; cbn [orel] in Ha; try contradiction; [|exact I].
    pose proof (pos_ballot_rel sc m d d' b w Ha) as Hp.
    destruct (pos_ballot sc m d (b, w)), (pos_ballot sc m d' (b, (k * w)%Z)); cbn [orel]; exact Hp.
  Qed.

  Lemma neg_scores_rel sc votes : orel drel (neg_scores sc votes) (neg_scores sc (scale_z k votes)).
  Proof.
    unfold neg_scores, positional. rewrite arc_scale. set (cands := all_ranked_candidates (qv votes)).
    assert (H0 : orel drel (Some (map (fun c : C => (c, 0%Q)) cands)) (Some (map (fun c : C => (c, 0%Q)) cands))).
    { cbn [orel]. induction cands as [|c cs IHc]; cbn [map]; constructor; [|exact IHc]. split; [reflexivity|]. cbn [snd]. unfold qsc. ring. }
    pose proof (positional_fold_rel sc (length cands) votes _ _ H0) as Hf.
    destruct (fold_left _ votes _) as [d|], (fold_left _ (scale_z k votes) _) as [d'|]; cbn [orel] in Hf |- *; try contradiction; [|exact I].
    pose proof (sort_desc_rel Qle_bool Qle_bool _ (qsc_le kq kq_pos) _ _ Hf) as Hs.
    clear -Hs. induction Hs as [|y y' l l' Hy Hl IH]; cbn [map]; constructor; [|exact IH].
    split; [exact (proj1 Hy)|]. cbn [snd]. destruct Hy as [_ Hy]. unfold qsc in *. rewrite Hy. ring.
  Qed.

  Lemma baldwin_loop_scale sc fuel n : forall cur, baldwin_loop sc fuel (scale_z k cur) n = baldwin_loop sc fuel cur n.
  Proof.
    induction fuel as [|f IH]; intros cur; cbn [baldwin_loop]; pose proof (neg_scores_rel sc cur) as Hn;
      destruct (neg_scores sc cur) as [ns|], (neg_scores sc (scale_z k cur)) as [ns'|]; cbn [orel] in Hn; try contradiction; try reflexivity;
      rewrite (lrel_length _ _ _ Hn);
      destruct (Nat.ltb n (length ns)); try reflexivity;
      try (f_equal; exact (get_n_best_rel Qle_bool Qle_bool _ (qsc_le kq kq_pos) _ _ n Hn)).
    rewrite (get_n_best_rel Qle_bool Qle_bool _ (qsc_le kq kq_pos) _ _ 1%nat Hn), (STVScale_proofs.lrel_keys _ _ _ Hn).
    destruct (get_n_best Qle_bool ns 1) as [|[l|T] rest]; [reflexivity| |].
    - rewrite subset_votes_scale. apply IH.
    - destruct (Nat.ltb (length ns - length T) n).
      + rewrite subset_votes_scale.
        pose proof (neg_scores_rel sc (subset_votes (filter (fun c : C => negb (cmem c T)) (map fst ns)) cur)) as Hr.
        destruct (neg_scores sc (subset_votes _ cur)) as [rs|], (neg_scores sc (scale_z k (subset_votes _ cur))) as [rs'|];
          cbn [orel] in Hr; try contradiction; [|reflexivity].
        rewrite (get_n_best_rel Qle_bool Qle_bool _ (qsc_le kq kq_pos) _ _ _ Hr). reflexivity.
      + rewrite subset_votes_scale. apply IH.
  Qed.

  Theorem baldwin_scale sc votes n : baldwin sc (scale_z k votes) n = baldwin sc votes n.
  Proof. unfold baldwin. rewrite arc_scale. apply baldwin_loop_scale. Qed.
End HybScale.
