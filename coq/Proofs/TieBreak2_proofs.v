(* Tie.break_by_list (core.py L80-101; Model/Threshold.v break_by_list): the defining clause for
   every input.  The k-th occurrence of a tie receives the k-th member of that tie in the order
   of the breaker list; plain entries are copied; the length is preserved.  Exact behaviour
   outside well-shaped selections: a tie of m >= 2 members listed more than m times starts over
   (its (m+1)-th occurrence receives the first member again), a one-member tie listed twice is an
   IndexError. *)
From Coq Require Import ZArith List Bool Arith Lia Permutation Sorted.
From VL Require Import Prelude.PyDict Model.GetNBest Model.QuotaDistributor Model.Threshold
     Proofs.Dict_proofs Proofs.GetNBest_proofs Proofs.Threshold_proofs.
Import ListNotations.

(* ------------------------------------------------------------------ ties as sets *)
Definition seq (a b : list C) : Prop := forall c, In c a <-> In c b.

Lemma same_set_spec a b : same_set a b = true <-> seq a b.
Proof.
  unfold same_set, seq. rewrite andb_true_iff, !forallb_forall. split.
  - intros [H1 H2] c. split; intro H; [apply cmem_In, H1, H|apply cmem_In, H2, H].
  - intros H. split; intros c Hc; apply cmem_In, H, Hc.
Qed.
Lemma seq_refl a : seq a a. Proof. intro c; tauto. Qed.
Lemma seq_sym a b : seq a b -> seq b a. Proof. intros H c; split; apply H. Qed.
Lemma seq_trans a b c : seq a b -> seq b c -> seq a c.
Proof. intros H1 H2 x. rewrite (H1 x). apply H2. Qed.
Lemma same_set_refl a : same_set a a = true.
Proof. apply same_set_spec, seq_refl. Qed.
Lemma same_set_sym a b : same_set a b = same_set b a.
Proof. unfold same_set. apply andb_comm. Qed.
Lemma bool_iff_eq (a b : bool) : (a = true <-> b = true) -> a = b.
Proof.
  destruct a, b; intros [H1 H2]; try reflexivity.
  - symmetry. apply H1. reflexivity.
  - apply H2. reflexivity.
Qed.
Lemma same_set_cong_r k t t' : seq t t' -> same_set k t = same_set k t'.
Proof.
  intros H. apply bool_iff_eq. rewrite !same_set_spec. split; intros H1.
  - eapply seq_trans; eassumption.
  - eapply seq_trans; [eassumption|apply seq_sym, H].
Qed.
Lemma same_set_cong_l k t t' : seq t t' -> same_set t k = same_set t' k.
Proof. intros H. rewrite (same_set_sym t k), (same_set_sym t' k). apply same_set_cong_r, H. Qed.

(* ------------------------------------------------------------------ the dictionary of ties *)
Lemma tie_lookup_cong ties t t' : seq t t' -> tie_lookup ties t = tie_lookup ties t'.
Proof.
  intros H. induction ties as [|[k v] r IH]; simpl; [reflexivity|].
  rewrite (same_set_cong_r k t t' H), IH. reflexivity.
Qed.

Lemma lookup_update_some ties t v t' :
  tie_lookup (tie_update ties t (Some v)) t' = if same_set t t' then Some v else tie_lookup ties t'.
Proof.
  induction ties as [|[k v0] r IH]; simpl; [reflexivity|].
  destruct (same_set k t) eqn:E; simpl.
  - apply same_set_spec in E. rewrite <- (same_set_cong_l t' k t E).
    destruct (same_set k t'); reflexivity.
  - rewrite IH. destruct (same_set t t') eqn:E1; [|reflexivity].
    apply same_set_spec in E1. rewrite <- (same_set_cong_r k t t' E1), E. reflexivity.
Qed.

Fixpoint keys_ok (ties : list (list C * list C)) : Prop :=
  match ties with
  | [] => True
  | (k, _) :: r => tie_lookup r k = None /\ keys_ok r
  end.

Lemma lookup_update_none ties t t' : keys_ok ties ->
  tie_lookup (tie_update ties t None) t' = if same_set t t' then None else tie_lookup ties t'.
Proof.
  induction ties as [|[k v0] r IH]; simpl; intros Hk.
  - destruct (same_set t t'); reflexivity.
  - destruct Hk as [Hk Hr]. destruct (same_set k t) eqn:E; simpl.
    + apply same_set_spec in E. rewrite <- (same_set_cong_l t' k t E).
      destruct (same_set k t') eqn:E1; [|reflexivity].
      apply same_set_spec in E1. rewrite <- (tie_lookup_cong r k t' E1). exact Hk.
    + rewrite (IH Hr). destruct (same_set t t') eqn:E1; [|reflexivity].
      apply same_set_spec in E1. rewrite <- (same_set_cong_r k t t' E1), E. reflexivity.
Qed.

Lemma keys_ok_update ties t v : keys_ok ties -> keys_ok (tie_update ties t v).
Proof.
  induction ties as [|[k v0] r IH]; simpl; intros Hk.
  - destruct v; simpl; auto.
  - destruct Hk as [Hk Hr]. destruct (same_set k t) eqn:E.
    + destruct v; simpl; auto.
    + simpl. split; [|apply IH, Hr].
      destruct v as [v|].
      * rewrite lookup_update_some, (same_set_sym t k), E. exact Hk.
      * rewrite (lookup_update_none _ _ _ Hr), (same_set_sym t k), E. exact Hk.
Qed.

(* ------------------------------------------------------------------ sorted(item, key=breaker.index) *)
Definition idx_le (lst : list C) (a b : C) : Prop := (index_of a lst <= index_of b lst)%nat.

Lemma index_of_inj lst a b : In a lst -> index_of a lst = index_of b lst -> a = b.
Proof.
  induction lst as [|x l IH]; simpl; [tauto|]. intros Ha.
  destruct (ceqb a x) eqn:Ea, (ceqb b x) eqn:Eb; try discriminate.
  - intros _. apply ceqb_eq in Ea, Eb. congruence.
  - intros H. apply IH; [|congruence]. destruct Ha as [Ha|Ha]; [|exact Ha].
    subst. unfold ceqb in Ea. rewrite Pos.eqb_refl in Ea. discriminate.
Qed.

Lemma sort_by_list_perm lst t : Permutation (sort_by_list lst t) t.
Proof.
  unfold sort_by_list.
  rewrite (Permutation_map fst (sort_asc_nat_perm (map (fun c => (c, index_of c lst)) t))).
  rewrite map_map. simpl. rewrite map_id. reflexivity.
Qed.
Lemma sort_by_list_length lst t : length (sort_by_list lst t) = length t.
Proof. apply Permutation_length, sort_by_list_perm. Qed.

Lemma sort_by_list_sorted lst t : StronglySorted (idx_le lst) (sort_by_list lst t).
Proof.
  unfold sort_by_list.
  set (l := map (fun c => (c, index_of c lst)) t).
  assert (Hs : StronglySorted (fun a b : C * nat => Nat.leb (snd a) (snd b) = true) (sort_asc Nat.leb l)).
  { apply (@sort_asc_sorted C nat Nat.leb).
    - intros a b. rewrite !Nat.leb_le. lia.
    - intros a b c. rewrite !Nat.leb_le. lia. }
  assert (Hf : Forall (fun p : C * nat => snd p = index_of (fst p) lst) (sort_asc Nat.leb l)).
  { apply Forall_forall. intros p Hp.
    apply (Permutation_in _ (sort_asc_nat_perm l)) in Hp. unfold l in Hp.
    apply in_map_iff in Hp. destruct Hp as (c & <- & _). reflexivity. }
  induction Hs as [|p s Hs IH Hall]; simpl; [constructor|].
  inversion Hf as [|? ? Hp Hf']; subst. constructor; [apply IH, Hf'|].
  apply Forall_forall. intros c Hc. apply in_map_iff in Hc. destruct Hc as (q & <- & Hq).
  unfold idx_le. rewrite Forall_forall in Hall, Hf'.
  specialize (Hall q Hq). apply Nat.leb_le in Hall. rewrite <- Hp, <- (Hf' q Hq). exact Hall.
Qed.

Lemma sorted_perm_unique (key : C -> nat) l1 : forall l2,
  (forall a b, In a l1 -> In b l1 -> key a = key b -> a = b) ->
  StronglySorted (fun a b => (key a <= key b)%nat) l1 ->
  StronglySorted (fun a b => (key a <= key b)%nat) l2 ->
  Permutation l1 l2 -> l1 = l2.
Proof.
  induction l1 as [|x l1 IH]; intros l2 Hinj H1 H2 Hp.
  - apply Permutation_nil in Hp. congruence.
  - destruct l2 as [|y l2]; [apply Permutation_sym, Permutation_nil in Hp; discriminate|].
    inversion H1 as [|? ? H1' A1]; subst. inversion H2 as [|? ? H2' A2]; subst.
    assert (Hxy : x = y).
    { assert (Hy : In y (x :: l1)) by (eapply Permutation_in; [apply Permutation_sym, Hp|left; reflexivity]).
      assert (Hx : In x (y :: l2)) by (eapply Permutation_in; [apply Hp|left; reflexivity]).
      apply Hinj; [left; reflexivity|exact Hy|].
      rewrite Forall_forall in A1, A2.
      assert (key x <= key y)%nat by (destruct Hy as [->|Hy]; [lia|apply A1, Hy]).
      assert (key y <= key x)%nat by (destruct Hx as [->|Hx]; [lia|apply A2, Hx]).
      lia. }
    subst y. f_equal. apply IH; auto.
    + intros a b Ha Hb. apply Hinj; right; assumption.
    + eapply Permutation_cons_inv, Hp.
Qed.

Definition wf_tie (lst t : list C) : Prop := t <> [] /\ NoDup t /\ incl t lst.

(* the result does not depend on how the (frozen)set is enumerated *)
Lemma sort_by_list_indep lst t t' : wf_tie lst t -> wf_tie lst t' -> seq t t' ->
  sort_by_list lst t = sort_by_list lst t'.
Proof.
  intros (_ & Hn & Hi) (_ & Hn' & _) Hs.
  apply (sorted_perm_unique (fun c => index_of c lst)).
  - intros a b Ha _. apply index_of_inj, Hi.
    eapply Permutation_in; [apply sort_by_list_perm|exact Ha].
  - apply sort_by_list_sorted.
  - apply sort_by_list_sorted.
  - rewrite !sort_by_list_perm. apply NoDup_Permutation; assumption.
Qed.

Lemma wf_seq_length lst t t' : wf_tie lst t -> wf_tie lst t' -> seq t t' -> length t = length t'.
Proof. intros (_ & Hn & _) (_ & Hn' & _) Hs. apply Permutation_length, NoDup_Permutation; assumption. Qed.

Lemma StronglySorted_impl_in {X} (R R' : X -> X -> Prop) l :
  (forall a b, In a l -> In b l -> R a b -> R' a b) -> StronglySorted R l -> StronglySorted R' l.
Proof.
  induction l as [|x l IH]; intros H Hs; [constructor|].
  inversion Hs as [|? ? Hs' Hall]; subst. constructor.
  - apply IH; [|exact Hs']. intros a b Ha Hb. apply H; right; assumption.
  - rewrite Forall_forall in *. intros y Hy. apply H; [left; reflexivity|right; exact Hy|apply Hall, Hy].
Qed.
Lemma StronglySorted_filter {X} (R : X -> X -> Prop) f l : StronglySorted R l -> StronglySorted R (filter f l).
Proof.
  induction 1 as [|x l Hs IH Hall]; simpl; [constructor|].
  destruct (f x); [|exact IH]. constructor; [exact IH|].
  rewrite Forall_forall in *. intros y Hy. apply filter_In in Hy. apply Hall, Hy.
Qed.
Lemma nodup_sorted_by_index lst : NoDup lst -> StronglySorted (idx_le lst) lst.
Proof.
  induction 1 as [|x l Hx Hn IH]; [constructor|]. constructor.
  - eapply StronglySorted_impl_in; [|exact IH]. unfold idx_le. intros a b Ha Hb Hab. simpl.
    destruct (ceqb a x) eqn:Ea; [apply ceqb_eq in Ea; subst; contradiction|].
    destruct (ceqb b x) eqn:Eb; [apply ceqb_eq in Eb; subst; contradiction|]. lia.
  - apply Forall_forall. intros y _. unfold idx_le. simpl. unfold ceqb at 1. rewrite Pos.eqb_refl. lia.
Qed.

(* closed form: the members of the tie in the order of the breaker list *)
Theorem sort_by_list_closed lst t : NoDup lst -> NoDup t -> incl t lst ->
  sort_by_list lst t = filter (fun c => cmem c t) lst.
Proof.
  intros Hl Hn Hi.
  apply (sorted_perm_unique (fun c => index_of c lst)).
  - intros a b Ha _. apply index_of_inj, Hi.
    eapply Permutation_in; [apply sort_by_list_perm|exact Ha].
  - apply sort_by_list_sorted.
  - apply (StronglySorted_filter (idx_le lst)), nodup_sorted_by_index, Hl.
  - rewrite sort_by_list_perm. apply NoDup_Permutation; [exact Hn|apply NoDup_filter, Hl|].
    intros c. rewrite filter_In, cmem_In. split; [intros H; split; [apply Hi, H|exact H]|tauto].
Qed.

(* ------------------------------------------------------------------ the declarative rule *)
Definition tcount (seen : list (list C)) (t : list C) : nat :=
  length (filter (fun s => same_set s t) seen).

Lemma tcount_cong seen t t' : seq t t' -> tcount seen t = tcount seen t'.
Proof.
  intros H. unfold tcount. f_equal. apply filter_ext. intros s. apply same_set_cong_r, H.
Qed.
Lemma tcount_cons s seen t : tcount (s :: seen) t = ((if same_set s t then 1 else 0) + tcount seen t)%nat.
Proof. unfold tcount. simpl. destruct (same_set s t); reflexivity. Qed.
Lemma tcount_app a b t : tcount (a ++ b) t = (tcount a t + tcount b t)%nat.
Proof. unfold tcount. rewrite filter_app, app_length. reflexivity. Qed.

(* [seen]: the ties met so far.  None = IndexError (a one-member tie met again) *)
Fixpoint bbl_spec (seen : list (list C)) (el : list (res C)) (lst : list C) : option (list C) :=
  match el with
  | [] => Some []
  | Cand c :: r => option_map (cons c) (bbl_spec seen r lst)
  | TieR t :: r =>
      if (length t =? 1)%nat && negb (tcount seen t =? 0)%nat then None
      else option_map (cons (nth (tcount seen t mod length t) (sort_by_list lst t) 1%positive))
                      (bbl_spec (t :: seen) r lst)
  end.

Definition wf_sel (lst : list C) (el : list (res C)) : Prop := forall t, In (TieR t) el -> wf_tie lst t.

Definition expected (lst : list C) (seen : list (list C)) (t : list C) : option (list C) :=
  let n := tcount seen t in
  if (length t =? 1)%nat then (if (n =? 0)%nat then None else Some [])
  else let k := (n mod length t)%nat in
       if (k =? 0)%nat then None else Some (skipn k (sort_by_list lst t)).

Definition inv (lst : list C) (ties : list (list C * list C)) (seen : list (list C)) : Prop :=
  forall t, wf_tie lst t -> tie_lookup ties t = expected lst seen t.

Lemma skipn_nth_cons {X} (d : X) k (l : list X) : (k < length l)%nat ->
  skipn k l = nth k l d :: skipn (S k) l.
Proof.
  revert l. induction k as [|k IH]; intros [|x l] H; simpl in *; try lia; [reflexivity|].
  apply IH. lia.
Qed.

Lemma expected_other lst seen t t' : same_set t t' = false ->
  expected lst (t :: seen) t' = expected lst seen t'.
Proof. intros E. unfold expected. rewrite tcount_cons, E. reflexivity. Qed.

Lemma bl_result_app acc x (o : option (list C)) :
  match o with Some r => BL_ok ((acc ++ [x]) ++ r) | None => BL_index end =
  match option_map (cons x) o with Some r => BL_ok (acc ++ r) | None => BL_index end.
Proof. destruct o; simpl; [rewrite <- app_assoc; reflexivity|reflexivity]. Qed.

Theorem break_by_list_sim lst : forall el seen ties acc,
  wf_sel lst el -> inv lst ties seen -> keys_ok ties ->
  break_by_list el lst ties acc =
    match bbl_spec seen el lst with Some r => BL_ok (acc ++ r) | None => BL_index end.
Proof.
  induction el as [|[c|t] r IH]; intros seen ties acc Hwf Hinv Hk.
  - simpl. rewrite app_nil_r. reflexivity.
  - cbn [break_by_list bbl_spec]. rewrite (IH seen); auto.
    + apply bl_result_app.
    + intros t Ht. apply Hwf. right. exact Ht.
  - assert (Hwt : wf_tie lst t) by (apply Hwf; left; reflexivity).
    assert (Hwr : wf_sel lst r) by (intros t' Ht'; apply Hwf; right; exact Ht').
    cbn [break_by_list bbl_spec]. rewrite (Hinv t Hwt).
    set (S0 := sort_by_list lst t). set (n := tcount seen t).
    assert (HlS : length S0 = length t) by apply sort_by_list_length.
    assert (Hm : (1 <= length t)%nat).
    { destruct Hwt as (Hne & _). destruct t; [congruence|simpl; lia]. }
    (* the new invariant, given what is stored *)
    assert (Hstep : forall v,
      (forall t', wf_tie lst t' -> seq t t' -> expected lst (t :: seen) t' = v) ->
      inv lst (tie_update ties t v) (t :: seen)).
    { intros v Hv t' Hw'. destruct (same_set t t') eqn:E.
      - rewrite (Hv t' Hw' (proj1 (same_set_spec _ _) E)).
        destruct v; [rewrite lookup_update_some|rewrite (lookup_update_none _ _ _ Hk)]; rewrite E; reflexivity.
      - rewrite (expected_other _ _ _ _ E), <- (Hinv t' Hw').
        destruct v; [rewrite lookup_update_some|rewrite (lookup_update_none _ _ _ Hk)]; rewrite E; reflexivity. }
    assert (Hexp : forall t', wf_tie lst t' -> seq t t' ->
      expected lst (t :: seen) t' =
        if (length t =? 1)%nat then Some []
        else if (S n mod length t =? 0)%nat then None else Some (skipn (S n mod length t) S0)).
    { intros t' Hw' Hs. unfold expected.
      rewrite tcount_cons, (proj2 (same_set_spec _ _) Hs), <- (tcount_cong seen t t' Hs).
      rewrite <- (wf_seq_length lst t t' Hwt Hw' Hs), <- (sort_by_list_indep lst t t' Hwt Hw' Hs).
      fold n. simpl. reflexivity. }
    unfold expected. fold n. fold S0.
    destruct (length t =? 1)%nat eqn:E1.
    + apply Nat.eqb_eq in E1. destruct (n =? 0)%nat eqn:E0; simpl; [|reflexivity].
      rewrite E1. simpl.
      destruct S0 as [|x rest] eqn:ES; [simpl in HlS; lia|].
      destruct rest; [|simpl in HlS; lia].
      rewrite (IH (t :: seen) _ _ Hwr); [apply bl_result_app| |apply keys_ok_update, Hk].
      apply Hstep. exact Hexp.
    + apply Nat.eqb_neq in E1. simpl.
      assert (Hk0 : (n mod length t < length t)%nat) by (apply Nat.mod_upper_bound; lia).
      assert (HSn : (S n mod length t = (n mod length t + 1) mod length t)%nat).
      { replace (S n) with (n + 1)%nat by lia. rewrite Nat.add_mod by lia.
        rewrite (Nat.mod_small 1) by lia. reflexivity. }
      assert (Hrest : skipn (S (n mod length t)) S0 = [] <-> (S (n mod length t) = length t)%nat).
      { split; intros H.
        - assert (L := skipn_length (S (n mod length t)) S0). rewrite H in L. simpl in L. lia.
        - apply skipn_all2. lia. }
      destruct (n mod length t =? 0)%nat eqn:E0.
      * apply Nat.eqb_eq in E0. rewrite E0 in *.
        destruct S0 as [|x rest] eqn:ES; [simpl in HlS; lia|].
        rewrite (IH (t :: seen) _ _ Hwr); [apply bl_result_app| |apply keys_ok_update, Hk].
        apply Hstep. intros t' Hw' Hs. rewrite (Hexp t' Hw' Hs).
           rewrite HSn. change (0 + 1)%nat with 1%nat. rewrite (Nat.mod_small 1) by lia. reflexivity.
      * apply Nat.eqb_neq in E0.
        rewrite (@skipn_nth_cons C 1%positive (n mod length t) S0) by lia.
        destruct (skipn (S (n mod length t)) S0) as [|y rest'] eqn:ER.
        -- rewrite (IH (t :: seen) _ _ Hwr); [apply bl_result_app| |apply keys_ok_update, Hk].
           apply Hstep. intros t' Hw' Hs. rewrite (Hexp t' Hw' Hs).
              assert (ER' := proj1 Hrest eq_refl). rewrite HSn. replace (n mod length t + 1)%nat with (length t) by lia.
              rewrite Nat.mod_same by lia. reflexivity.
        -- assert (Hlt : (S (n mod length t) < length t)%nat).
           { destruct (Nat.eq_dec (S (n mod length t)) (length t)) as [e|e]; [|lia].
             apply Hrest in e. discriminate e. }
           rewrite (IH (t :: seen) _ _ Hwr); [apply bl_result_app| |apply keys_ok_update, Hk].
           apply Hstep. intros t' Hw' Hs. rewrite (Hexp t' Hw' Hs).
              rewrite HSn. rewrite (Nat.mod_small (n mod length t + 1)) by lia.
              replace (n mod length t + 1)%nat with (S (n mod length t)) by lia.
              cbn [Nat.eqb]. rewrite ER. reflexivity.
Qed.

(* the whole function, every well-formed input (each tie non-empty, duplicate-free, inside the
   breaker list): success and IndexError alike *)
Theorem break_by_list_exact lst el : wf_sel lst el ->
  break_by_list el lst [] [] =
    match bbl_spec [] el lst with Some r => BL_ok r | None => BL_index end.
Proof.
  intros H. rewrite (break_by_list_sim lst el [] [] [] H).
  - reflexivity.
  - intros t Hw. simpl. unfold expected. simpl.
    destruct (length t =? 1)%nat; [reflexivity|]. rewrite Nat.mod_0_l; [reflexivity|].
    destruct Hw as (Hne & _). destruct t; [congruence|simpl; lia].
  - exact I.
Qed.

(* ------------------------------------------------------------------ consequences *)
Definition replaces (e : res C) (x : C) : Prop :=
  match e with Cand c => x = c | TieR t => In x t end.

Lemma wf_tie_pos lst t : wf_tie lst t -> (length t <> 0)%nat.
Proof. intros (Hne & _). destruct t; [congruence|simpl; lia]. Qed.

Lemma wf_sel_tail lst e el : wf_sel lst (e :: el) -> wf_sel lst el.
Proof. intros H t Ht. apply H. right. exact Ht. Qed.

Lemma nth_sorted_in lst t k : wf_tie lst t -> (k < length t)%nat ->
  In (nth k (sort_by_list lst t) 1%positive) t.
Proof.
  intros Hw Hk. eapply Permutation_in; [apply sort_by_list_perm|].
  apply nth_In. rewrite sort_by_list_length. exact Hk.
Qed.

(* same length; a plain entry is copied; a tie is replaced by one of its members *)
Lemma bbl_spec_shape lst : forall el seen r, wf_sel lst el -> bbl_spec seen el lst = Some r ->
  Forall2 replaces el r.
Proof.
  induction el as [|[c|t] el IH]; intros seen r Hwf; simpl.
  - intros [= <-]. constructor.
  - destruct (bbl_spec seen el lst) as [r'|] eqn:E; simpl; [|discriminate]. intros [= <-].
    constructor; [reflexivity|]. eapply IH; [|exact E]. eapply wf_sel_tail, Hwf.
  - destruct ((length t =? 1)%nat && negb (tcount seen t =? 0)%nat); [discriminate|].
    destruct (bbl_spec (t :: seen) el lst) as [r'|] eqn:E; simpl; [|discriminate]. intros [= <-].
    assert (Hw : wf_tie lst t) by (apply Hwf; left; reflexivity).
    constructor.
    + simpl. apply (nth_sorted_in lst t _ Hw). apply Nat.mod_upper_bound, (wf_tie_pos lst t Hw).
    + eapply IH; [|exact E]. eapply wf_sel_tail, Hwf.
Qed.

Fixpoint ties_of (el : list (res C)) : list (list C) :=
  match el with
  | [] => []
  | Cand _ :: r => ties_of r
  | TieR t :: r => t :: ties_of r
  end.
Fixpoint cands_of (el : list (res C)) : list C :=
  match el with
  | [] => []
  | Cand c :: r => c :: cands_of r
  | TieR _ :: r => cands_of r
  end.
Lemma ties_of_In t el : In t (ties_of el) <-> In (TieR t) el.
Proof.
  induction el as [|[c|t0] el IH]; simpl; [tauto| |].
  - rewrite IH. split; [auto|intros [H|H]; [discriminate|exact H]].
  - rewrite IH. split; intros [H|H]; auto; [left; congruence|left; congruence].
Qed.
Lemma cands_of_In c el : In c (cands_of el) <-> In (Cand c) el.
Proof.
  induction el as [|[c0|t0] el IH]; simpl; [tauto| |].
  - rewrite IH. split; intros [H|H]; auto; [left; congruence|left; congruence].
  - rewrite IH. split; [auto|intros [H|H]; [discriminate|exact H]].
Qed.

(* position by position: entry i of the result, from entry i of the input and the number of
   earlier occurrences of the same tie *)
Lemma bbl_spec_nth lst : forall el seen r i, bbl_spec seen el lst = Some r ->
  (forall c, nth_error el i = Some (Cand c) -> nth_error r i = Some c) /\
  (forall t, nth_error el i = Some (TieR t) ->
     nth_error r i =
       Some (nth ((tcount seen t + tcount (ties_of (firstn i el)) t) mod length t)
                 (sort_by_list lst t) 1%positive)).
Proof.
  induction el as [|[c0|t0] el IH]; intros seen r i; simpl.
  - intros _. destruct i; split; intros ? [=].
  - destruct (bbl_spec seen el lst) as [r'|] eqn:E; simpl; [|discriminate]. intros [= <-].
    destruct i as [|i]; simpl.
    + split; [intros c [= ->]; reflexivity|intros t [=]].
    + apply (IH seen r' i E).
  - destruct ((length t0 =? 1)%nat && negb (tcount seen t0 =? 0)%nat); [discriminate|].
    destruct (bbl_spec (t0 :: seen) el lst) as [r'|] eqn:E; simpl; [|discriminate]. intros [= <-].
    destruct i as [|i]; simpl.
    + split; [intros c [=]|]. intros t [= ->]. unfold tcount at 2. simpl. rewrite Nat.add_0_r. reflexivity.
    + destruct (IH (t0 :: seen) r' i E) as [H1 H2]. split; [exact H1|].
      intros t Ht. rewrite (H2 t Ht). do 2 f_equal. rewrite !tcount_cons. f_equal. lia.
Qed.

(* when does it succeed: exactly when no one-member tie is met twice *)
Lemma bbl_spec_some lst : forall el seen,
  (forall t, In (TieR t) el -> length t = 1%nat -> (tcount seen t + tcount (ties_of el) t <= 1)%nat) ->
  exists r, bbl_spec seen el lst = Some r.
Proof.
  induction el as [|[c|t] el IH]; intros seen H; simpl.
  - eexists; reflexivity.
  - destruct (IH seen) as [r Hr]; [intros t Ht; apply H; right; exact Ht|].
    rewrite Hr. eexists; reflexivity.
  - destruct (length t =? 1)%nat eqn:E1; simpl.
    + apply Nat.eqb_eq in E1. assert (H0 := H t (or_introl eq_refl) E1).
      simpl in H0. rewrite tcount_cons, same_set_refl in H0.
      replace (tcount seen t) with 0%nat by lia. simpl.
      destruct (IH (t :: seen)) as [r Hr].
      { intros t' Ht' Hl'. specialize (H t' (or_intror Ht') Hl'). simpl in H.
        rewrite !tcount_cons in *. lia. }
      rewrite Hr. eexists; reflexivity.
    + destruct (IH (t :: seen)) as [r Hr].
      { intros t' Ht' Hl'. specialize (H t' (or_intror Ht') Hl'). simpl in H.
        rewrite !tcount_cons in *. lia. }
      rewrite Hr. eexists; reflexivity.
Qed.

Lemma tcount_pos_ex seen t : (1 <= tcount seen t)%nat -> exists s, In s seen /\ seq s t.
Proof.
  unfold tcount. induction seen as [|s seen IH]; simpl; [lia|].
  destruct (same_set s t) eqn:E.
  - intros _. exists s. split; [left; reflexivity|apply same_set_spec, E].
  - intros H. destruct (IH H) as (s' & Hs' & Hq). exists s'. split; [right; exact Hs'|exact Hq].
Qed.

Lemma bbl_spec_none lst : forall el seen, wf_sel lst el ->
  (exists t, In (TieR t) el /\ length t = 1%nat /\ (2 <= tcount seen t + tcount (ties_of el) t)%nat) ->
  bbl_spec seen el lst = None.
Proof.
  induction el as [|[c|t0] el IH]; intros seen Hwf (t & Hin & Hl & Hc); simpl.
  - destruct Hin.
  - rewrite (IH seen); [reflexivity|eapply wf_sel_tail, Hwf|].
    exists t. destruct Hin as [Hin|Hin]; [discriminate|]. auto.
  - destruct ((length t0 =? 1)%nat && negb (tcount seen t0 =? 0)%nat) eqn:E; [reflexivity|].
    rewrite (IH (t0 :: seen)); [reflexivity|eapply wf_sel_tail, Hwf|].
    simpl in Hc. rewrite tcount_cons in Hc.
    destruct Hin as [Hin|Hin].
    + injection Hin as ->. rewrite same_set_refl in Hc.
      rewrite Hl in E. simpl in E. apply negb_false_iff, Nat.eqb_eq in E.
      destruct (tcount_pos_ex (ties_of el) t) as (s & Hs & Hq); [lia|].
      apply ties_of_In in Hs. exists s. split; [exact Hs|]. split.
      * rewrite <- Hl. eapply wf_seq_length; [apply Hwf; right; exact Hs|apply Hwf; left; reflexivity|exact Hq].
      * rewrite tcount_cons, (tcount_cong _ s t Hq), (tcount_cong (ties_of el) s t Hq).
        rewrite (proj2 (same_set_spec _ _) (seq_sym _ _ Hq)). lia.
    + exists t. split; [exact Hin|]. split; [exact Hl|]. rewrite tcount_cons. lia.
Qed.

(* well-shaped selections: every tie listed at most as many times as it has members, plain entries
   distinct and outside the ties, different ties disjoint (what get_n_best and the selectors return) *)
Record shaped (el : list (res C)) : Prop := {
  sh_count : forall t, In (TieR t) el -> (tcount (ties_of el) t <= length t)%nat;
  sh_cands : NoDup (cands_of el);
  sh_sep : forall c t, In (Cand c) el -> In (TieR t) el -> ~ In c t;
  sh_disj : forall t t', In (TieR t) el -> In (TieR t') el -> seq t t' \/ (forall c, In c t -> ~ In c t')
}.

Lemma bbl_spec_nodup lst : forall el seen r, wf_sel lst el -> bbl_spec seen el lst = Some r ->
  (forall t, In (TieR t) el -> (tcount seen t + tcount (ties_of el) t <= length t)%nat) ->
  NoDup (cands_of el) ->
  (forall c t, In (Cand c) el -> In (TieR t) el -> ~ In c t) ->
  (forall t t', In (TieR t) el -> In (TieR t') el -> seq t t' \/ (forall c, In c t -> ~ In c t')) ->
  NoDup r /\
  forall x, In x r -> In (Cand x) el \/
    exists t j, In (TieR t) el /\ (tcount seen t <= j < length t)%nat /\ x = nth j (sort_by_list lst t) 1%positive.
Proof.
  induction el as [|[c|t] el IH]; intros seen r Hwf; simpl.
  - intros [= <-] _ _ _ _. split; [constructor|intros x []].
  - destruct (bbl_spec seen el lst) as [r'|] eqn:E; simpl; [|discriminate]. intros [= <-] Hc Hn Hsep Hdis.
    inversion Hn as [|? ? Hc0 Hn']; subst.
    assert (A1 : forall t, In (TieR t) el -> (tcount seen t + tcount (ties_of el) t <= length t)%nat)
      by (intros t Ht; apply Hc; right; exact Ht).
    assert (A3 : forall c t, In (Cand c) el -> In (TieR t) el -> ~ In c t)
      by (intros c' t H1 H2; apply Hsep; right; assumption).
    assert (A4 : forall t t', In (TieR t) el -> In (TieR t') el -> seq t t' \/ (forall c, In c t -> ~ In c t'))
      by (intros t t' H1 H2; apply Hdis; right; assumption).
    destruct (IH seen r' (wf_sel_tail _ _ _ Hwf) E A1 Hn' A3 A4) as [Hnd Hmem].
    split.
    + constructor; [|exact Hnd]. intros Hin. destruct (Hmem c Hin) as [H|(t & j & Ht & Hj & Hx)].
      * apply Hc0, cands_of_In, H.
      * apply (Hsep c t); [left; reflexivity|right; exact Ht|].
        rewrite Hx. apply nth_sorted_in; [apply Hwf; right; exact Ht|lia].
    + intros x [<-|Hx]; [left; left; reflexivity|].
      destruct (Hmem x Hx) as [H|(t & j & Ht & Hj & Hx')]; [left; right; exact H|].
      right. exists t, j. auto.
  - intros Hspec Hc Hn Hsep Hdis.
    assert (Hw : wf_tie lst t) by (apply Hwf; left; reflexivity).
    assert (Hk : (tcount seen t < length t)%nat).
    { specialize (Hc t (or_introl eq_refl)). rewrite tcount_cons, same_set_refl in Hc. lia. }
    destruct ((length t =? 1)%nat && negb (tcount seen t =? 0)%nat); [discriminate|].
    destruct (bbl_spec (t :: seen) el lst) as [r'|] eqn:E; simpl in Hspec; [|discriminate].
    injection Hspec as <-. rewrite Nat.mod_small by exact Hk.
    assert (A1 : forall t', In (TieR t') el -> (tcount (t :: seen) t' + tcount (ties_of el) t' <= length t')%nat).
    { intros t' Ht'. specialize (Hc t' (or_intror Ht')). rewrite !tcount_cons in *. lia. }
    assert (A3 : forall c t, In (Cand c) el -> In (TieR t) el -> ~ In c t)
      by (intros c' t0 H1 H2; apply Hsep; right; assumption).
    assert (A4 : forall t t', In (TieR t) el -> In (TieR t') el -> seq t t' \/ (forall c, In c t -> ~ In c t'))
      by (intros t0 t' H1 H2; apply Hdis; right; assumption).
    destruct (IH (t :: seen) r' (wf_sel_tail _ _ _ Hwf) E A1 Hn A3 A4) as [Hnd Hmem].
    split.
    + constructor; [|exact Hnd]. intros Hin.
      destruct (Hmem _ Hin) as [H|(t' & j & Ht' & Hj & Hx)].
      * apply (Hsep _ t (or_intror H) (or_introl eq_refl)). apply nth_sorted_in; assumption.
      * assert (Hw' : wf_tie lst t') by (apply Hwf; right; exact Ht').
        destruct (Hdis t t' (or_introl eq_refl) (or_intror Ht')) as [Hq|Hd].
        -- rewrite <- (sort_by_list_indep lst t t' Hw Hw' Hq) in Hx.
           rewrite tcount_cons, (proj2 (same_set_spec _ _) Hq), <- (tcount_cong seen t t' Hq) in Hj.
           rewrite <- (wf_seq_length lst t t' Hw Hw' Hq) in Hj.
           assert (Hnds : NoDup (sort_by_list lst t)).
           { eapply Permutation_NoDup; [apply Permutation_sym, sort_by_list_perm|apply Hw]. }
           rewrite NoDup_nth in Hnds. specialize (Hnds (tcount seen t) j).
           rewrite sort_by_list_length in Hnds. specialize (Hnds Hk (proj2 Hj) Hx). lia.
        -- apply (Hd (nth (tcount seen t) (sort_by_list lst t) 1%positive)).
           ++ apply nth_sorted_in; assumption.
           ++ rewrite Hx. apply nth_sorted_in; [exact Hw'|lia].
    + intros x [<-|Hx].
      * right. exists t, (tcount seen t). split; [left; reflexivity|]. split; [lia|reflexivity].
      * destruct (Hmem x Hx) as [H|(t' & j & Ht' & Hj & Hx')]; [left; right; exact H|].
        right. exists t', j. split; [right; exact Ht'|]. split; [|exact Hx'].
        rewrite tcount_cons in Hj. lia.
Qed.

Lemma Forall2_len {X Y} (R : X -> Y -> Prop) a b : Forall2 R a b -> length a = length b.
Proof. induction 1; simpl; congruence. Qed.

(* ------------------------------------------------------------------ the theorems for Props/C16.v *)
Definition occ_before (el : list (res C)) (i : nat) (t : list C) : nat := tcount (ties_of (firstn i el)) t.

(* 1. success: same length, plain entries untouched, the k-th occurrence (k from 0) of a tie gets
      member k mod m of that tie in breaker order *)
Theorem break_by_list_defining lst el :
  wf_sel lst el ->
  (forall t, In (TieR t) el -> length t = 1%nat -> (tcount (ties_of el) t <= 1)%nat) ->
  exists r, break_by_list el lst [] [] = BL_ok r /\
    length r = length el /\
    Forall2 replaces el r /\
    (forall i c, nth_error el i = Some (Cand c) -> nth_error r i = Some c) /\
    (forall i t, nth_error el i = Some (TieR t) ->
       nth_error r i = Some (nth (occ_before el i t mod length t) (sort_by_list lst t) 1%positive)).
Proof.
  intros Hwf H1. destruct (bbl_spec_some lst el []) as [r Hr].
  { intros t Ht Hl. simpl. apply H1; assumption. }
  exists r. rewrite (break_by_list_exact lst el Hwf), Hr. split; [reflexivity|].
  assert (Hs := bbl_spec_shape lst el [] r Hwf Hr).
  split; [symmetry; eapply Forall2_len, Hs|]. split; [exact Hs|].
  split.
  - intros i c. apply (bbl_spec_nth lst el [] r i Hr).
  - intros i t Ht. rewrite (proj2 (bbl_spec_nth lst el [] r i Hr) t Ht). reflexivity.
Qed.

(* 2. failure: a one-member tie listed twice is an IndexError, and that is the only failure *)
Theorem break_by_list_index_error lst el : wf_sel lst el ->
  (break_by_list el lst [] [] = BL_index <->
   exists t, In (TieR t) el /\ length t = 1%nat /\ (2 <= tcount (ties_of el) t)%nat).
Proof.
  intros Hwf. split.
  - intros H.
    assert (Hdec : forall el', (forall t, In (TieR t) el' -> length t = 1%nat -> (tcount (ties_of el) t <= 1)%nat) \/
                   exists t, In (TieR t) el' /\ length t = 1%nat /\ (2 <= tcount (ties_of el) t)%nat).
    { induction el' as [|[c|t] el' IH].
      - left. intros t [].
      - destruct IH as [IH|(t & Ht & Hl)]; [left|right; exists t; split; [right; exact Ht|exact Hl]].
        intros t [Ht|Ht]; [discriminate|apply IH, Ht].
      - destruct IH as [IH|(t' & Ht & Hl)]; [|right; exists t'; split; [right; exact Ht|exact Hl]].
        destruct (Nat.eq_dec (length t) 1) as [e|e].
        + destruct (le_lt_dec (tcount (ties_of el) t) 1) as [l|l].
          * left. intros t' [Ht'|Ht']; [injection Ht' as <-; intros _; exact l|apply IH, Ht'].
          * right. exists t. split; [left; reflexivity|]. split; [exact e|lia].
        + left. intros t' [Ht'|Ht']; [injection Ht' as <-; intros; contradiction|apply IH, Ht']. }
    destruct (Hdec el) as [Hok|Hbad]; [|exact Hbad].
    destruct (break_by_list_defining lst el Hwf Hok) as (r & Hr & _). congruence.
  - intros Hex. rewrite (break_by_list_exact lst el Hwf), (bbl_spec_none lst el [] Hwf); [reflexivity|].
    destruct Hex as (t & H1 & H2 & H3). exists t. simpl. auto.
Qed.

(* 3. well-shaped selections: distinct entries, no wrap-around, breaker order in closed form *)
Theorem break_by_list_distinct lst el : NoDup lst -> wf_sel lst el -> shaped el ->
  exists r, break_by_list el lst [] [] = BL_ok r /\ NoDup r /\ length r = length el /\
    (forall i c, nth_error el i = Some (Cand c) -> nth_error r i = Some c) /\
    (forall i t, nth_error el i = Some (TieR t) ->
       (occ_before el i t < length t)%nat /\
       nth_error r i = Some (nth (occ_before el i t) (filter (fun c => cmem c t) lst) 1%positive)).
Proof.
  intros Hl Hwf [Hc Hn Hsep Hdis].
  destruct (break_by_list_defining lst el Hwf) as (r & Hr & Hlen & _ & Hcand & Htie).
  { intros t Ht Hl1. rewrite <- Hl1. apply Hc, Ht. }
  exists r. split; [exact Hr|].
  assert (Hspec : bbl_spec [] el lst = Some r).
  { rewrite (break_by_list_exact lst el Hwf) in Hr. destruct (bbl_spec [] el lst); congruence. }
  split; [apply (bbl_spec_nodup lst el [] r Hwf Hspec); auto|].
  split; [exact Hlen|]. split; [exact Hcand|].
  intros i t Ht.
  assert (Hin : In (TieR t) el) by (eapply nth_error_In, Ht).
  assert (Hocc : (occ_before el i t < length t)%nat).
  { specialize (Hc t Hin). unfold occ_before.
    rewrite <- (firstn_skipn i el) in Hc at 1.
    assert (Hsk : exists rest, skipn i el = TieR t :: rest).
    { clear -Ht. revert i Ht. induction el as [|e el IH]; intros [|i] Ht; simpl in *; try discriminate.
      - injection Ht as ->. eexists; reflexivity.
      - apply IH, Ht. }
    destruct Hsk as [rest Hsk]. rewrite Hsk in Hc.
    assert (Hto : forall a b, ties_of (a ++ b) = ties_of a ++ ties_of b).
    { induction a as [|[c|t0] a IHa]; intros b; simpl; [reflexivity|apply IHa|rewrite IHa; reflexivity]. }
    rewrite Hto, tcount_app in Hc. simpl in Hc. rewrite tcount_cons, same_set_refl in Hc. lia. }
  split; [exact Hocc|]. rewrite (Htie i t Ht), (Nat.mod_small _ _ Hocc).
  destruct (Hwf t Hin) as (_ & Hnt & Hit). rewrite (sort_by_list_closed lst t Hl Hnt Hit). reflexivity.
Qed.

(* the two behaviours outside well-shaped selections, on concrete inputs *)
Example break_by_list_wraps :
  break_by_list [TieR [1; 2]; TieR [1; 2]; TieR [1; 2]]%positive [2; 1]%positive [] [] = BL_ok [2; 1; 2]%positive.
Proof. vm_compute. reflexivity. Qed.
Example break_by_list_singleton_twice :
  break_by_list [TieR [1]; TieR [1]]%positive [2; 1]%positive [] [] = BL_index.
Proof. vm_compute. reflexivity. Qed.
