(* Scale invariance (C11) of allocated score voting WITH the repairs of wave 6 (Model/AllocScore.v, the [_x]
   definitions, any set of repairs): the state simulation of Proofs/ScaleAlloc_proofs.v carries over - the search for
   the strongest supporters without the bootstrap reads the ballots only, and the round in which no remaining ballot
   scores anybody hands the same level-at-zero dictionary to get_n_best in both runs. *)
From Coq Require Import ZArith QArith Qround List Bool Lia Lqa Qfield.
From VL Require Import Prelude.PyDict Model.GetNBest Model.Convert Model.Quota Model.AllocScore
     Proofs.Dict_proofs Proofs.GetNBest_proofs Proofs.QOrd Proofs.LRScale_proofs Proofs.STVScale_proofs Proofs.Scale2Score_proofs
     Proofs.ScaleAlloc_proofs.
Import ListNotations.
Open Scope Q_scope.

Section AllocScaleX.
  Variable k : Q.
  Hypothesis Hk : 0 < k.
  Variable ra : arepairs.
  Notation qs := (qsc k).
  Notation wprel := (wprel k).
  Notation drel := (lrel (K := C) qs).

  Lemma first_score_rel cur cur' c : wprel cur cur' -> first_score cur' c = first_score cur c.
  Proof.
    intros H. unfold first_score.
    assert (E : flat_map (fun bw : sballot * Q => match dget (fst bw) c with Some s => [s] | None => [] end) cur' =
                flat_map (fun bw : sballot * Q => match dget (fst bw) c with Some s => [s] | None => [] end) cur).
    { induction H as [|y y' l l' Hy Hl IH]; cbn [flat_map]; [reflexivity|].
      destruct y as [b w], y' as [b' w']. destruct Hy as [Hb Hw]. cbn [fst snd] in Hb, Hw |- *. subst b'. rewrite IH. reflexivity. }
    rewrite E. reflexivity.
  Qed.

  Lemma fraction_out_r_rel c fuel : forall cur cur' ss ss', wprel cur cur' -> qs ss ss' ->
    wres_rel k (fraction_out_r fuel cur c ss) (fraction_out_r fuel cur' c ss').
  Proof.
    induction fuel as [|f IH]; intros cur cur' ss ss' Hc Hs; cbn [fraction_out_r];
      rewrite (qsc_le k Hk _ _ _ _ Hs (qs0 k)); destruct (Qle_bool ss 0); try exact Hc; [reflexivity|].
    rewrite (first_score_rel _ _ c Hc). destruct (first_score cur c) as [bs0|]; [|exact Hc].
    rewrite (best_score_rel k _ _ c Hc bs0). set (bs := best_score cur c bs0).
    pose proof (wprel_filter k (is_best c bs) _ _ Hc) as Hbest.
    pose proof (qs_red k _ _ (qsum_rel k _ _ Hbest)) as Hsize.
    set (size := Qred (qsum (map snd (filter (fun bw : sballot * Q => is_best c bs (fst bw)) cur)))) in *.
    set (size' := Qred (qsum (map snd (filter (fun bw : sballot * Q => is_best c bs (fst bw)) cur')))) in *.
    rewrite (qsc_eq k Hk _ _ _ _ Hsize (qs0 k)). destruct (Qeq_bool size 0) eqn:Ez; [exact Hc|].
    rewrite (qsc_le k Hk _ _ _ _ Hsize Hs). destruct (Qle_bool size ss).
    - apply IH; [exact (wprel_filter k (fun b => negb (is_best c bs b)) _ _ Hc)|].
      apply qs_red. unfold qsc in *. rewrite Hs, Hsize. ring.
    - cbn [wres_rel].
      assert (Hfr : Qred ((size' - ss') / size') == Qred ((size - ss) / size)).
      { rewrite !Qred_correct. apply (qsc_div k Hk); [|exact Hsize]. unfold qsc in *. rewrite Hs, Hsize. ring. }
      exact (spread_rel k c bs _ _ _ _ Hfr Hc).
  Qed.

  Lemma fraction_out_x_rel c fuel cur cur' ss ss' : wprel cur cur' -> qs ss ss' ->
    wres_rel k (fraction_out_x ra fuel cur c ss) (fraction_out_x ra fuel cur' c ss').
  Proof.
    intros Hc Hs. unfold fraction_out_x. destruct (ra_exhausted ra); [apply fraction_out_r_rel|apply (fraction_out_rel k Hk)]; assumption.
  Qed.

  Lemma subtract_votes_x_rel cur cur' c gained mx q q' : wprel cur cur' -> qs q q' ->
    wres_rel k (subtract_votes_x ra cur c gained mx q) (subtract_votes_x ra cur' c gained mx q').
  Proof.
    intros Hc Hq. unfold subtract_votes_x. rewrite (lrel_length _ _ _ Hc).
    pose proof (fraction_out_x_rel c (S (length cur)) _ _ _ _ Hc Hq) as Hf.
    destruct (fraction_out_x ra (S (length cur)) cur c q) as [a|e], (fraction_out_x ra (S (length cur)) cur' c q') as [a'|e'];
      cbn [wres_rel] in Hf; try contradiction; [|exact Hf].
    destruct mx as [m|]; [|exact Hf]. destruct (gained =? m)%Z; [|exact Hf]. cbn [wres_rel]. apply (subset_out_rel k), Hf.
  Qed.

  Lemma elect_one_x_rel cf cf' cur cur' el c : cfrel k cf cf' -> wprel cur cur' ->
    pres_rel k (elect_one_x ra cf cur el c) (elect_one_x ra cf' cur' el c).
  Proof.
    intros (Hq & Hp & Hm & _) Hc. unfold elect_one_x. rewrite Hp, Hm.
    pose proof (subtract_votes_x_rel _ _ c (eget (eincr el c) c + dget_or (ac_prev cf) c 0)%Z (dget (ac_max cf) c) _ _ Hc Hq) as Hs.
    destruct (subtract_votes_x ra cur c _ _ (ac_quota cf)) as [a|e], (subtract_votes_x ra cur' c _ _ (ac_quota cf')) as [a'|e'];
      cbn [wres_rel] in Hs; try contradiction; cbn [pres_rel]; [split; [exact Hs|reflexivity]|exact Hs].
  Qed.

  Lemma elect_all_x_rel cf cf' tied : cfrel k cf cf' -> forall cur cur' el, wprel cur cur' ->
    pres_rel k (elect_all_x ra cf tied cur el) (elect_all_x ra cf' tied cur' el).
  Proof.
    intros Hcf. induction tied as [|c t IH]; intros cur cur' el Hc; cbn [elect_all_x]; [split; [exact Hc|reflexivity]|].
    pose proof (elect_one_x_rel cf cf' _ _ el c Hcf Hc) as H1.
    destruct (elect_one_x ra cf cur el c) as [[a e]|e], (elect_one_x ra cf' cur' el c) as [[a' e']|e'];
      cbn [pres_rel] in H1; try contradiction; [|exact H1].
    destruct H1 as [Ha ->]. apply IH, Ha.
  Qed.

  Lemma zeros_rel (l : list C) : drel (map (fun c => (c, 0)) l) (map (fun c => (c, 0)) l).
  Proof. induction l as [|c l IH]; cbn [map]; constructor; [split; [reflexivity|apply (qs0 k)]|exact IH]. Qed.

  Lemma round_scores_rel cands cf cf' cur cur' el : cfrel k cf cf' -> wprel cur cur' ->
    drel (round_scores ra cands cf cur el) (round_scores ra cands cf' cur' el).
  Proof.
    intros (_ & Hp & Hm & _) Hc. unfold round_scores. pose proof (sum_scores_rel k _ _ Hc) as Hs.
    destruct (sum_scores cur) as [|p l], (sum_scores cur') as [|p' l']; try (inversion Hs; fail); [|exact Hs].
    destruct (ra_exhausted ra); [|constructor].
    assert (Hg : forall c, may_gain cf' el c = may_gain cf el c) by (intros c; unfold may_gain; rewrite Hp, Hm; reflexivity).
    rewrite (filter_ext _ _ Hg). apply zeros_rel.
  Qed.

  Lemma alloc_step_x_rel cands cf cf' cur cur' el rem : cfrel k cf cf' -> wprel cur cur' ->
    step_rel k (alloc_step_x ra cands cf cur el rem) (alloc_step_x ra cands cf' cur' el rem).
  Proof.
    intros Hcf Hc. unfold alloc_step_x. destruct rem as [|r]; [reflexivity|].
    rewrite (get_n_best_rel Qle_bool Qle_bool _ (qsc_le k Hk) _ _ 1%nat (round_scores_rel cands _ _ _ _ el Hcf Hc)).
    destruct (get_n_best Qle_bool (round_scores ra cands cf cur el) 1) as [|[c|t] rest]; [destruct (ra_exhausted ra); reflexivity| |].
    - pose proof (elect_one_x_rel cf cf' _ _ el c Hcf Hc) as H1.
      destruct (elect_one_x ra cf cur el c) as [[a e]|e], (elect_one_x ra cf' cur' el c) as [[a' e']|e'];
        cbn [pres_rel] in H1; try contradiction; cbn [step_rel]; [|congruence].
      destruct H1 as [Ha ->]. split; [exact Ha|split; reflexivity].
    - destruct (Nat.leb (length t) (S r)); [|reflexivity].
      destruct Hcf as (Hq & Hp & Hm & Ho). rewrite Ho.
      pose proof (elect_all_x_rel cf cf' (tie_iter (ac_orders cf) t) (conj Hq (conj Hp (conj Hm Ho))) _ _ el Hc) as H1.
      destruct (elect_all_x ra cf _ cur el) as [[a e]|e], (elect_all_x ra cf' _ cur' el) as [[a' e']|e'];
        cbn [pres_rel] in H1; try contradiction; cbn [step_rel]; [|congruence].
      destruct H1 as [Ha ->]. split; [exact Ha|split; reflexivity].
  Qed.

  Lemma alloc_loop_x_rel cands cf cf' : cfrel k cf cf' -> forall fuel cur cur' el rem, wprel cur cur' ->
    alloc_loop_x ra cands fuel cf' cur' el rem = alloc_loop_x ra cands fuel cf cur el rem.
  Proof.
    intros Hcf. induction fuel as [|f IH]; intros cur cur' el rem Hc; cbn [alloc_loop_x]; [reflexivity|].
    pose proof (alloc_step_x_rel cands cf cf' _ _ el rem Hcf Hc) as Hs.
    destruct (alloc_step_x ra cands cf cur el rem) as [a e r|e|e], (alloc_step_x ra cands cf' cur' el rem) as [a' e' r'|e'|e'];
      cbn [step_rel] in Hs; try contradiction; try congruence.
    destruct Hs as (Ha & -> & ->). apply IH, Ha.
  Qed.

  Lemma ballots_rel votes votes' : wprel votes votes' ->
    flat_map (fun bw : sballot * Q => map fst (fst bw)) votes' = flat_map (fun bw : sballot * Q => map fst (fst bw)) votes.
  Proof.
    intros Hv. induction Hv as [|y y' l l' Hy Hl IH]; cbn [flat_map]; [reflexivity|].
    destruct y as [b w], y' as [b' w']. destruct Hy as [Hb Hw]. cbn [fst snd] in Hb, Hw |- *. subst b'. rewrite IH. reflexivity.
  Qed.

  Theorem alloc_distribute_x_rel q orders votes votes' n prev mx : qspec_homog q = true -> wprel votes votes' ->
    alloc_distribute_x ra (qspec_scale k q) orders votes' n prev mx = alloc_distribute_x ra q orders votes n prev mx.
  Proof.
    intros Hh Hv. unfold alloc_distribute_x.
    assert (Hd : quota_divides_by_seats (qspec_scale k q) = quota_divides_by_seats q) by (destruct q; reflexivity).
    rewrite Hd. destruct (quota_divides_by_seats q && Nat.eqb n 0); [reflexivity|].
    assert (Hcs : cands_score votes' = cands_score votes) by (unfold cands_score; f_equal; exact (ballots_rel _ _ Hv)).
    rewrite Hcs. apply alloc_loop_x_rel; [|exact Hv].
    unfold cfrel, alloc_cfg. cbn [ac_quota ac_prev ac_max ac_orders]. repeat split.
    apply qs_red, (qspec_rel k); [exact Hh|apply qsum_rel, Hv].
  Qed.

  Theorem alloc_select_x_rel q orders votes votes' n : qspec_homog q = true -> wprel votes votes' ->
    alloc_select_x ra (qspec_scale k q) orders votes' n = alloc_select_x ra q orders votes n.
  Proof.
    intros Hh Hv. unfold alloc_select_x.
    assert (Ha : all_scored votes' = all_scored votes) by (unfold all_scored; apply ballots_rel, Hv).
    rewrite Ha, (alloc_distribute_x_rel q orders _ _ n [] _ Hh Hv). reflexivity.
  Qed.
End AllocScaleX.
