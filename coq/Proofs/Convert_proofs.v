(* Converters are accumulating folds: additivity, per-ballot image, conservation. *)
From Coq Require Import ZArith QArith List Bool Lia Lqa Permutation.
From VL Require Import Prelude.Sx Prelude.GDict.
Import ListNotations.
Open Scope Q_scope.

(* structural equality on wire values is Leibniz equality *)
Lemma sx_eqb_refl : forall a, sx_eqb a a = true.
Proof.
  fix IH 1. intros [z|l]; simpl; [apply Z.eqb_refl|].
  induction l as [|x t IHl]; [reflexivity|]. rewrite (IH x). simpl. exact IHl.
Qed.

Lemma sx_eqb_eq : forall a b, sx_eqb a b = true -> a = b.
Proof.
  fix IH 1. intros [z|l] [z'|l']; simpl; try discriminate.
  - intros H. apply Z.eqb_eq in H. subst. reflexivity.
  - revert l'. induction l as [|x t IHl]; intros [|y t'] H; try discriminate; [reflexivity|].
    apply andb_true_iff in H. destruct H as [H1 H2].
    apply IH in H1. subst y. specialize (IHl t' H2). injection IHl as ->. reflexivity.
Qed.

Lemma sx_eqb_spec a b : sx_eqb a b = true <-> a = b.
Proof. split; [apply sx_eqb_eq|intros ->; apply sx_eqb_refl]. Qed.

Section ADD.
  Context {K : Type}.
  Variable keqb : K -> K -> bool.
  Hypothesis keqb_spec : forall a b, keqb a b = true <-> a = b.

  Notation gget := (gget keqb).
  Notation gadd := (gadd keqb).
  Notation conv := (conv keqb).

  Lemma keqb_refl a : keqb a a = true.
  Proof. apply keqb_spec. reflexivity. Qed.

  Lemma gget_gadd d k x k' : gget (gadd d k x) k' == gget d k' + (if keqb k' k then x else 0).
  Proof.
    induction d as [|[k0 v] d IH]; simpl.
    - destruct (keqb k' k); ring.
    - destruct (keqb k k0) eqn:E; simpl.
      + apply keqb_spec in E. subst k0. destruct (keqb k' k); ring.
      + destruct (keqb k' k0) eqn:E2.
        * assert (keqb k' k = false) as ->; [|ring].
          apply not_true_iff_false. intros H. apply keqb_spec in H. apply keqb_spec in E2. subst.
          rewrite keqb_refl in E. discriminate.
        * exact IH.
  Qed.

  (* total coefficient a ballot image gives to key k *)
  Definition coef (img : list (K * Q)) (k : K) : Q :=
    fold_right (fun kc acc => (if keqb k (fst kc) then snd kc else 0) + acc) 0 img.

  Lemma fold_image img w : forall d k,
    gget (fold_left (fun acc kc => gadd acc (fst kc) (snd kc * w)) img d) k == gget d k + w * coef img k.
  Proof.
    induction img as [|[k0 c] img IH]; intros d k; simpl; [ring|].
    rewrite IH, gget_gadd. simpl. destruct (keqb k k0); ring.
  Qed.

  Section CONV.
    Context {B : Type}.
    Variable image : B -> list (K * Q).

    Definition total (votes : list (B * Q)) (k : K) : Q :=
      fold_right (fun bw acc => snd bw * coef (image (fst bw)) k + acc) 0 votes.

    Lemma conv_from votes : forall d k,
      gget (fold_left (fun acc bw =>
              fold_left (fun acc kc => gadd acc (fst kc) (snd kc * snd bw)) (image (fst bw)) acc) votes d) k
      == gget d k + total votes k.
    Proof.
      induction votes as [|[b w] votes IH]; intros d k; simpl; [ring|].
      rewrite IH, fold_image. simpl. ring.
    Qed.

    (* every converted count is the weighted sum of the per-ballot images *)
    Theorem conv_value votes k : gget (conv image votes) k == total votes k.
    Proof. unfold GDict.conv. rewrite conv_from. simpl. ring. Qed.

    Lemma total_app a b k : total (a ++ b) k == total a k + total b k.
    Proof. induction a as [|x a IH]; simpl; [ring|]. rewrite IH. ring. Qed.

    (* converting the union of two profiles = the sum of their conversions *)
    Theorem conv_additive a b k :
      gget (conv image (a ++ b)) k == gget (conv image a) k + gget (conv image b) k.
    Proof. rewrite !conv_value. apply total_app. Qed.

    (* a single ballot converts to exactly its image, scaled by its weight *)
    Theorem conv_single b w k : gget (conv image [(b, w)]) k == w * coef (image b) k.
    Proof. rewrite conv_value. simpl. ring. Qed.

    (* the order of the ballots is irrelevant *)
    Theorem conv_perm a b k : Permutation a b ->
      gget (conv image a) k == gget (conv image b) k.
    Proof.
      intros H. rewrite !conv_value.
      induction H as [|x l l' _ IH|x y l|l l' l'' _ IH1 _ IH2]; simpl; try ring.
      - rewrite IH. ring.
      - rewrite IH1. exact IH2.
    Qed.
  End CONV.

  (* ---- total weight *)
  Definition gsum (d : list (K * Q)) : Q := fold_right (fun kv acc => snd kv + acc) 0 d.

  Lemma gsum_gadd d k x : gsum (gadd d k x) == gsum d + x.
  Proof.
    induction d as [|[k0 v] d IH]; simpl; [ring|].
    destruct (keqb k k0); simpl; [ring|]. rewrite IH. ring.
  Qed.

  Definition isum (img : list (K * Q)) : Q := fold_right (fun kc acc => snd kc + acc) 0 img.

  Theorem conv_total_weight {B} (image : B -> list (K * Q)) votes :
    gsum (conv image votes) == fold_right (fun bw acc => snd bw * isum (image (fst bw)) + acc) 0 votes.
  Proof.
    unfold GDict.conv.
    assert (H : forall vs d, gsum (fold_left (fun acc (bw : B * Q) =>
                  fold_left (fun acc kc => gadd acc (fst kc) (snd kc * snd bw)) (image (fst bw)) acc) vs d)
                == gsum d + fold_right (fun bw acc => snd bw * isum (image (fst bw)) + acc) 0 vs).
    { induction vs as [|[b w] vs IH]; intros d; simpl; [ring|]. rewrite IH.
      assert (H2 : forall img d0, gsum (fold_left (fun acc kc => gadd acc (fst kc) (snd kc * w)) img d0) == gsum d0 + w * isum img).
      { induction img as [|[k c] img IHi]; intros d0; simpl; [ring|]. rewrite IHi, gsum_gadd. simpl. ring. }
      rewrite H2. simpl. ring. }
    rewrite H. simpl. ring.
  Qed.

  (* where the image is one item per ballot, total weight is conserved *)
  Corollary conv_conserves {B} (image : B -> list (K * Q)) votes :
    (forall b, isum (image b) == 1) ->
    gsum (conv image votes) == fold_right (fun bw acc => snd bw + acc) 0 votes.
  Proof.
    intros H1. rewrite conv_total_weight. induction votes as [|[b w] votes IH]; simpl; [reflexivity|].
    rewrite IH, H1. ring.
  Qed.
End ADD.
