(* C10, renaming: QuotaDistributor.evaluate (scan with caps, _subtract_overaward with and without Tie keys),
   LargestRemainder.evaluate and QuotaSelector commute with every injective renaming of the candidates - EXACT equality
   of the result dictionaries (candidate keys renamed, Tie keys renamed member by member, same seats, same errors).
   The model compares candidates with [ceqb] / [cmem] only; no order on candidates is consulted. *)
From Coq Require Import ZArith QArith List Bool Arith Lia.
From VL Require Import Prelude.PyDict Prelude.PyNum Model.GetNBest Model.Quota Model.QuotaDistributor
     Proofs.Dict_proofs Proofs.Order_proofs Proofs.HARename_proofs Proofs.Equivariant.
Import ListNotations.
Open Scope Z_scope.

Section QREN.
  Variable f : C -> C.
  Hypothesis f_inj : forall a b, f a = f b -> a = b.

  Definition rk (k : key) : key := match k with K c => K (f c) | KT l => KT (map f l) end.
  Definition rkv (kv : key * Z) : key * Z := (rk (fst kv), snd kv).
  Definition renkd (d : list (key * Z)) : list (key * Z) := map rkv d.
  Definition ren_qd (r : qd_result) : qd_result := match r with QD_ok sel => QD_ok (renkd sel) | x => x end.
  Definition ren_lr (r : lr_result) : lr_result :=
    match r with LR_ok sel => LR_ok (renkd sel) | LR_err e => LR_err (ren_qd e) | LR_index => LR_index end.
  Definition ren_qs (r : qsel_result) : qsel_result := match r with QS_ok l => QS_ok (map (ren_res f) l) | QS_vse => QS_vse end.

  Lemma renkd_app a b : renkd (a ++ b) = renkd a ++ renkd b.
  Proof. apply map_app. Qed.
  Lemma kmap_ren (d : list (C * Z)) :
    map (fun kv : C * Z => (K (fst kv), snd kv)) (renl f d) = renkd (map (fun kv : C * Z => (K (fst kv), snd kv)) d).
  Proof. unfold renl, renkd. rewrite !map_map. reflexivity. Qed.

  Lemma qsumv_ren votes : qsumv (renl f votes) = qsumv votes.
  Proof. unfold qsumv. rewrite (renl_vals f). reflexivity. Qed.
  Lemma zsumv_renl d : zsumv (renl f d) = zsumv d.
  Proof. unfold zsumv. rewrite (renl_vals f). reflexivity. Qed.

  Lemma scan_ren ae q prev caps votes : forall sel,
    scan ae (renl f votes) q (renl f prev) (renl f caps) (renl f sel) = renl f (scan ae votes q prev caps sel).
  Proof.
    induction votes as [|[c v] votes IH]; intros sel; [reflexivity|].
    change (renl f ((c, v) :: votes)) with ((f c, v) :: renl f votes).
    cbn [scan]. unfold cap_whole. rewrite !(dget_or_ren f f_inj), (dget_ren f f_inj).
    destruct (fulfills ae v q); [|apply IH].
    destruct (0 <? _); [|apply IH].
    rewrite (dset_ren f f_inj). apply IH.
  Qed.

  Lemma add_dict_ren d1 d2 : add_dict (renl f d1) (renl f d2) = renl f (add_dict d1 d2).
  Proof.
    unfold add_dict. unfold renl at 2.
    apply (fold_left_eqv (fun cv : C * Z => (f (fst cv), snd cv)) (renl f)).
    intros a x. cbn [fst snd]. rewrite (dget_or_ren f f_inj), (dset_ren f f_inj). reflexivity.
  Qed.

  Lemma dec_key_ren d c : dec_key (renl f d) (f c) = renl f (dec_key d c).
  Proof.
    induction d as [|[c' s] d IH]; [reflexivity|].
    change (renl f ((c', s) :: d)) with ((f c', s) :: renl f d). cbn [dec_key]. rewrite (ceqb_f f f_inj), IH.
    destruct (ceqb c c'); [destruct (s =? 1)|]; reflexivity.
  Qed.

  Lemma key_eqb_ren a b : key_eqb (rk a) (rk b) = key_eqb a b.
  Proof.
    destruct a as [x|x], b as [y|y]; cbn [rk key_eqb]; try reflexivity.
    - apply (ceqb_f f f_inj).
    - rewrite !(forallb_cmem_ren f f_inj). reflexivity.
  Qed.

  Lemma krem_ren votes q prev k s : krem (renl f votes) q (renl f prev) (rk k, s) = krem votes q prev (k, s).
  Proof. destruct k as [c|l]; unfold krem; cbn [rk fst snd]; [rewrite !(dget_or_ren f f_inj)|]; reflexivity. Qed.

  Lemma kdec_ren d k : kdec (renkd d) (rk k) = renkd (kdec d k).
  Proof.
    induction d as [|[k' s] d IH]; [reflexivity|].
    change (renkd ((k', s) :: d)) with ((rk k', s) :: renkd d). cbn [kdec]. rewrite key_eqb_ren, IH.
    destruct (key_eqb k k'); [destruct (s =? 1)|]; reflexivity.
  Qed.
  Lemma kmem_ren d k : kmem (renkd d) (rk k) = kmem d k.
  Proof. unfold kmem, renkd. apply existsb_map_eqv. intros [k' s]. unfold rkv. cbn [fst]. apply key_eqb_ren. Qed.
  Lemma all_plain_ren ks : all_plain (map rk ks) = option_map (map f) (all_plain ks).
  Proof.
    induction ks as [|[c|l] ks IH]; [reflexivity| |reflexivity].
    cbn [map rk all_plain]. rewrite IH. destruct (all_plain ks); reflexivity.
  Qed.
  Lemma kincr_ren d k : kincr (renkd d) (rk k) = renkd (kincr d k).
  Proof.
    induction d as [|[k' s] d IH]; [reflexivity|].
    change (renkd ((k', s) :: d)) with ((rk k', s) :: renkd d). cbn [kincr]. rewrite key_eqb_ren, IH.
    destruct (key_eqb k k'); reflexivity.
  Qed.

  Lemma krem_map_ren votes q prev sel :
    map (fun ks : key * Z => (fst ks, krem (renl f votes) q (renl f prev) ks)) (renkd sel)
    = renk rk (map (fun ks : key * Z => (fst ks, krem votes q prev ks)) sel).
  Proof.
    unfold renkd, renk. rewrite !map_map. apply map_ext. intros [k s]. unfold rkv. cbn [fst snd]. rewrite krem_ren. reflexivity.
  Qed.

  Lemma ksubtract_ren fuel : forall votes q prev sel over,
    ksubtract fuel (renl f votes) q (renl f prev) (renkd sel) over = ren_qd (ksubtract fuel votes q prev sel over).
  Proof.
    induction fuel as [|fu IH]; intros votes q prev sel over.
    - cbn [ksubtract]. destruct (over <=? 0); reflexivity.
    - cbn [ksubtract]. destruct (over <=? 0); [reflexivity|]. cbv zeta.
      rewrite krem_map_ren, (get_n_best_rename Qle_bool rk).
      destruct (get_n_best Qle_bool _ 1) as [|[k|ks] r]; [reflexivity| |].
      + cbn [map ren_res]. rewrite kdec_ren. apply IH.
      + cbn [map ren_res]. rewrite all_plain_ren. destruct (all_plain ks) as [l|]; [|reflexivity]. cbn [option_map].
        change (KT (map f l)) with (rk (KT l)). rewrite kmem_ren. destruct (kmem sel (KT l)).
        * rewrite kdec_ren. apply IH.
        * assert (E : map K (map f l) = map rk (map K l)) by (rewrite !map_map; reflexivity).
          rewrite E, (fold_left_eqv rk renkd kdec kdec) by (intros a x; apply kdec_ren).
          rewrite map_length.
          change [(rk (KT l), Z.of_nat (length l) - 1)] with (renkd [(KT l, Z.of_nat (length l) - 1)]).
          rewrite <- renkd_app. apply IH.
  Qed.

  Lemma rem_map_ren votes q prev sel :
    map (fun cs : C * Z => let (c, s) := cs in (c, (- (dget_or (renl f votes) c 0%Q - q * inject_Z (s + dget_or (renl f prev) c 0)%Z))%Q)) (renl f sel)
    = renl f (map (fun cs : C * Z => let (c, s) := cs in (c, (- (dget_or votes c 0%Q - q * inject_Z (s + dget_or prev c 0)%Z))%Q)) sel).
  Proof.
    unfold renl at 3 4. rewrite !map_map. apply map_ext. intros [c s]. cbn [fst snd]. rewrite !(dget_or_ren f f_inj). reflexivity.
  Qed.

  Lemma subtract_ren fuel : forall votes q prev sel over,
    subtract fuel (renl f votes) q (renl f prev) (renl f sel) over = ren_qd (subtract fuel votes q prev sel over).
  Proof.
    induction fuel as [|fu IH]; intros votes q prev sel over.
    - cbn [subtract]. destruct (over <=? 0); [|reflexivity]. cbn [ren_qd]. rewrite kmap_ren. reflexivity.
    - cbn [subtract]. destruct (over <=? 0); [cbn [ren_qd]; rewrite kmap_ren; reflexivity|]. cbv zeta.
      rewrite rem_map_ren, get_n_best_renl.
      destruct (get_n_best Qle_bool _ 1) as [|[c|l] r]; [reflexivity| |].
      + cbn [map ren_res]. rewrite dec_key_ren. apply IH.
      + cbn [map ren_res]. rewrite (fold_left_eqv f (renl f) dec_key dec_key) by (intros a x; apply dec_key_ren).
        rewrite map_length, kmap_ren.
        change [(KT (map f l), Z.of_nat (length l) - 1)] with (renkd [(KT l, Z.of_nat (length l) - 1)]).
        rewrite <- renkd_app. destruct (over - 1 <=? 0); [reflexivity|]. apply ksubtract_ren.
  Qed.

  Lemma has_kt_ren extra :
    existsb (fun kv : key * Z => match fst kv with KT _ => true | _ => false end) (renkd extra)
    = existsb (fun kv : key * Z => match fst kv with KT _ => true | _ => false end) extra.
  Proof. unfold renkd. apply existsb_map_eqv. intros [[c|l] s]; reflexivity. Qed.
  Lemma plain_part_ren extra :
    flat_map (fun kv : key * Z => match fst kv with K c => [(c, snd kv)] | _ => [] end) (renkd extra)
    = renl f (flat_map (fun kv : key * Z => match fst kv with K c => [(c, snd kv)] | _ => [] end) extra).
  Proof. unfold renkd, renl. apply flat_map_eqv. intros [[c|l] s]; reflexivity. Qed.

  Section WITHQ.
    Variable quota : Q -> Z -> Q.
    Variable ae : bool.
    Variable pol : policy.

    Theorem qd_evaluate_ren votes n prev caps :
      qd_evaluate quota ae pol (renl f votes) n (renl f prev) (renl f caps) = ren_qd (qd_evaluate quota ae pol votes n prev caps).
    Proof.
      unfold qd_evaluate. rewrite qsumv_ren. cbv zeta. set (q := quota (qsumv votes) n).
      assert (Ex : existsb (fun cv : C * Q => fulfills ae (snd cv) q) (renl f votes) = existsb (fun cv : C * Q => fulfills ae (snd cv) q) votes)
        by (unfold renl; apply existsb_map_eqv; intros x; reflexivity).
      rewrite Ex. destruct (Qeq_bool q 0 && existsb _ votes); [reflexivity|].
      assert (Es : scan ae (renl f votes) q (renl f prev) (renl f caps) [] = renl f (scan ae votes q prev caps []))
        by exact (scan_ren ae q prev caps votes []).
      rewrite Es, !zsumv_renl.
      set (sel := scan ae votes q prev caps []).
      destruct (n <? zsumv sel + zsumv prev).
      - destruct pol; [cbn [ren_qd]; rewrite kmap_ren; reflexivity|reflexivity|apply subtract_ren].
      - cbn [ren_qd]. rewrite kmap_ren. reflexivity.
    Qed.

    Theorem lr_evaluate_ren votes n prev caps :
      lr_evaluate quota ae pol (renl f votes) n (renl f prev) (renl f caps) = ren_lr (lr_evaluate quota ae pol votes n prev caps).
    Proof.
      unfold lr_evaluate.
      rewrite (qd_evaluate_ren votes n prev caps).
      destruct (qd_evaluate quota ae pol votes n prev caps) as [qe| | | | |]; try reflexivity.
      cbn [ren_qd]. rewrite has_kt_ren. destruct (existsb _ qe); [reflexivity|]. cbv zeta.
      rewrite qsumv_ren, plain_part_ren, add_dict_ren, zsumv_renl.
      set (q := quota (qsumv votes) n). set (gained := add_dict _ prev).
      destruct (Qeq_bool q 0); [reflexivity|].
      assert (Er : flat_map (fun cv : C * Q => let (c, v) := cv in
                      match dget (renl f caps) c with
                      | Some m => if dget_or (renl f gained) c 0 <? m then [(c, (v / q - inject_Z (dget_or (renl f gained) c 0%Z))%Q)] else []
                      | None => [(c, (v / q - inject_Z (dget_or (renl f gained) c 0%Z))%Q)]
                      end) (renl f votes)
                   = renl f (flat_map (fun cv : C * Q => let (c, v) := cv in
                      match dget caps c with
                      | Some m => if dget_or gained c 0 <? m then [(c, (v / q - inject_Z (dget_or gained c 0%Z))%Q)] else []
                      | None => [(c, (v / q - inject_Z (dget_or gained c 0%Z))%Q)]
                      end) votes)).
      { unfold renl at 5 6. apply flat_map_eqv. intros [c v]. cbn [fst snd]. rewrite (dget_ren f f_inj), !(dget_or_ren f f_inj).
        destruct (dget caps c) as [m|]; [destruct (dget_or gained c 0 <? m)|]; reflexivity. }
      rewrite Er. destruct (n - zsumv gained <=? 0); [reflexivity|].
      rewrite get_n_best_renl. cbn [ren_lr]. f_equal.
      apply (fold_left_eqv (ren_res f) renkd). intros a [c|l]; cbn [ren_res].
      - apply (kincr_ren a (K c)).
      - apply (kincr_ren a (KT l)).
    Qed.
  End WITHQ.

  Theorem qsel_evaluate_ren quota ae select votes n :
    qsel_evaluate quota ae select (renl f votes) n = ren_qs (qsel_evaluate quota ae select votes n).
  Proof.
    unfold qsel_evaluate. rewrite qsumv_ren. cbv zeta.
    rewrite (renl_filter_vals f (fun v => fulfills ae v (quota (qsumv votes) n))), (renl_length f).
    destruct ((n <? Z.of_nat (length _)) && negb select); [reflexivity|]. cbn [ren_qs]. rewrite get_n_best_renl. reflexivity.
  Qed.

  (* the per-candidate reading of a result dictionary commutes too *)
  Lemma kdget_ren d c : kdget (renkd d) (f c) = kdget d c.
  Proof.
    unfold kdget, renkd. apply fold_left_inv. intros a [[c'|l] s]; unfold rkv; cbn [fst snd rk]; [|reflexivity].
    rewrite (ceqb_f f f_inj). reflexivity.
  Qed.
End QREN.
