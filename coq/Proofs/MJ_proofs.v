(* Majority judgment (Model/Cardinal.v majority_judgment, mj_plus, mj_default):
   the elected candidates have the highest (lower) medians; the tie-break clauses. *)
From Coq Require Import ZArith QArith Qround Qabs List Bool Arith Lia Lqa Permutation Sorted.
From VL Require Import Prelude.PyDict Model.GetNBest Model.Convert Model.Cardinal
     Proofs.GetNBest_proofs Proofs.QOrd Proofs.Dict_proofs.
Import ListNotations.
Open Scope Q_scope.

(* ---- keys of the score dictionaries *)
Lemma dset_keys_in {X} (d : list (C * X)) k x c :
  In c (map fst (dset d k x)) -> c = k \/ In c (map fst d).
Proof.
  induction d as [|[k1 v1] d IHd]; simpl; intros Hc; [destruct Hc as [<-|[]]; left; reflexivity|].
  destruct (ceqb k k1); simpl in *; [destruct Hc; [right; left; assumption|right; right; assumption]|].
  destruct Hc as [<-|Hc]; [right; left; reflexivity|]. destruct (IHd Hc); [left; assumption|right; right; assumption].
Qed.

Lemma dset_keys_nodup_gen {X} (d : list (C * X)) k x : NoDup (map fst d) -> NoDup (map fst (dset d k x)).
Proof.
  induction d as [|[k0 v0] d IH]; simpl; intros H; [constructor; [intros []|constructor]|].
  inversion H as [|? ? Hk Hn]; subst. destruct (ceqb k k0) eqn:E; simpl; [exact H|].
  constructor; [|apply IH, Hn]. intros Hin.
  destruct (dset_keys_in _ _ _ _ Hin) as [->|H1]; [rewrite ceqb_refl in E; discriminate|exact (Hk H1)].
Qed.

Lemma raw_scores_nodup votes : NoDup (map fst (raw_scores votes)).
Proof.
  unfold raw_scores.
  assert (Hin : forall (b : sballot) (w : Z) d, NoDup (map fst d) ->
    NoDup (map fst (fold_left (fun (d : list (C * cscores)) (cs : C * Q) =>
      let old := match dget d (fst cs) with Some x => x | None => [] end in
      dset d (fst cs) (cs_set old (snd cs) (match cs_get old (snd cs) with Some k => k | None => 0%Z end + w))) b d))).
  { induction b as [|cs b IH]; intros w d Hd; [exact Hd|]. cbn [fold_left]. apply IH. cbv zeta.
    apply dset_keys_nodup_gen. exact Hd. }
  assert (H : forall (vs : sprofile) d, NoDup (map fst d) ->
    NoDup (map fst (fold_left (fun d bn =>
      fold_left (fun (d : list (C * cscores)) (cs : C * Q) =>
        let old := match dget d (fst cs) with Some x => x | None => [] end in
        dset d (fst cs) (cs_set old (snd cs) (match cs_get old (snd cs) with Some k => k | None => 0%Z end + snd bn)))
        (fst bn) d) vs d))).
  { induction vs as [|bn vs IH]; intros d Hd; [exact Hd|]. cbn [fold_left]. apply IH. apply Hin. exact Hd. }
  apply H. constructor.
Qed.

Lemma sequence_keys {X Y} (l : list (X * (Y + serr))) : forall r, sequence l = inl r -> map fst r = map fst l.
Proof.
  induction l as [|[x [y|e]] l IH]; intros r; simpl.
  - intros [= <-]. reflexivity.
  - destruct (sequence l) as [r'|e]; [|discriminate]. intros [= <-]. simpl. f_equal. apply IH. reflexivity.
  - discriminate.
Qed.

Lemma sequence_in {X Y} (l : list (X * (Y + serr))) : forall r x y, sequence l = inl r -> In (x, y) r -> In (x, inl y) l.
Proof.
  induction l as [|[x0 [y0|e]] l IH]; intros r x y; simpl.
  - intros [= <-] [].
  - destruct (sequence l) as [r'|e] eqn:E; [|discriminate]. intros [= <-] [H|H].
    + injection H as -> ->. left. reflexivity.
    + right. eapply IH; [reflexivity|exact H].
  - discriminate.
Qed.

Lemma corrected_scores_nodup cf votes sc : corrected_scores cf votes = inl sc -> NoDup (map fst sc).
Proof.
  unfold corrected_scores. intros H. apply sequence_keys in H. rewrite H, map_map. simpl.
  apply raw_scores_nodup.
Qed.

Lemma aggregate_keys fn sc med : aggregate fn sc = inl med -> map fst med = map fst sc.
Proof. unfold aggregate. intros H. apply sequence_keys in H. rewrite H, map_map. reflexivity. Qed.

(* the aggregate of a candidate is the aggregate of its own score counts *)
Lemma aggregate_in fn sc med c v : aggregate fn sc = inl med -> In (c, v) med ->
  exists d, In (c, d) sc /\ aggregate_one fn d = inl v.
Proof.
  unfold aggregate. intros H Hin. apply (sequence_in _ _ _ _ H) in Hin.
  apply in_map_iff in Hin. destruct Hin as ([c0 d] & Heq & Hd). simpl in Heq. injection Heq as -> Hv.
  exists d. split; [exact Hd|exact Hv].
Qed.

Lemma firstn_incl {X} k (l : list X) : incl (firstn k l) l.
Proof. revert k. induction l as [|x l IH]; intros [|k] y H; simpl in *; try tauto. destruct H; [left; assumption|right; eapply IH; eassumption]. Qed.

(* ---- whoever get_n_best lists plainly is one of the keys *)
Lemma get_n_best_cand_in (votes : list (C * Q)) n c :
  In (Cand c) (get_n_best Qle_bool votes n) -> In c (map fst votes).
Proof.
  assert (Hs : forall k, In (Cand c) (map (fun it : C * Q => Cand (fst it)) (firstn k (sort_desc Qle_bool votes))) ->
                         In c (map fst votes)).
  { intros k H. apply in_map_iff in H. destruct H as ([c0 v0] & Heq & Hin). simpl in Heq. injection Heq as ->.
    apply firstn_incl in Hin. apply in_map_iff. exists (c, v0). split; [reflexivity|].
    eapply Permutation_in; [apply sort_desc_perm|exact Hin]. }
  unfold get_n_best. destruct (Nat.ltb n (length (sort_desc Qle_bool votes))).
  - destruct (nth_error (sort_desc Qle_bool votes) (n - 1)) as [[c1 thr]|]; [|intros []].
    destruct (nth_error (sort_desc Qle_bool votes) n) as [[c2 nxt]|]; [|intros []].
    destruct (eqv Qle_bool nxt thr).
    + intros H. apply in_app_or in H. destruct H as [H|H]; [exact (Hs _ H)|].
      apply repeat_spec in H. discriminate.
    + apply Hs.
  - intros H. apply (Hs (length (sort_desc Qle_bool votes))). rewrite firstn_all. exact H.
Qed.

(* ---- the tie-breakers only ever name members of the tie *)
Lemma mj_plus_cands sub k r c : mj_plus sub k = inl r -> In (Cand c) r -> In c (map fst sub).
Proof.
  unfold mj_plus. destruct sub as [|[c0 d0] sub']; [discriminate|].
  destruct (aggregate_one FMedianLow d0) as [med|e]; [|discriminate].
  intros [= <-] H. apply get_n_best_cand_in in H. cbn [map fst] in H |- *. rewrite map_map in H. exact H.
Qed.

Lemma filter_keys_incl {X} (f : C * X -> bool) (l : list (C * X)) c : In c (map fst (filter f l)) -> In c (map fst l).
Proof.
  intros H. apply in_map_iff in H. destruct H as (y & <- & Hy). apply filter_In in Hy. apply in_map. tauto.
Qed.

Lemma mj_default_cands : forall fuel sub k r c, mj_default fuel sub k = inl r -> In (Cand c) r -> In c (map fst sub).
Proof.
  induction fuel as [|f IH]; intros sub k r c; [discriminate|]. cbn [mj_default]. cbv zeta.
  destruct (fold_left Z.max (map (fun cd : C * cscores => cs_total (snd cd)) sub) 0%Z <=? 0)%Z; [discriminate|].
  destruct (aggregate FMedianLow sub) as [medians|e] eqn:Ea; [|discriminate].
  pose proof (aggregate_keys _ _ _ Ea) as Hk.
  destruct (Nat.eqb (count_tie (get_n_best Qle_bool medians k)) 0).
  - intros [= <-] H. apply get_n_best_cand_in in H. rewrite <- Hk. exact H.
  - destruct (Nat.ltb 0 _).
    + match goal with |- context [mj_default f ?s ?m] => destruct (mj_default f s m) as [r'|e] eqn:Er end; [|discriminate].
      intros [= <-] H. apply in_app_or in H. destruct H as [H|H].
      * apply firstn_incl in H. apply get_n_best_cand_in in H. rewrite <- Hk. exact H.
      * apply (IH _ _ _ _ Er) in H. apply filter_keys_incl in H. exact H.
    + intros Hr H. apply (IH _ _ _ _ Hr) in H. rewrite map_map in H. apply filter_keys_incl in H. exact H.
Qed.

(* ---- shape of the get_n_best answer *)
Lemma last_tie_cands (l : list (C * Q)) : last_tie (map cand_of l) = None.
Proof.
  unfold last_tie. rewrite <- map_rev. destruct (rev l); reflexivity.
Qed.

Lemma repeat_snoc {X} (x : X) k : repeat x (S k) = repeat x k ++ [x].
Proof. induction k as [|k IH]; [reflexivity|]. change (x :: repeat x (S k) = x :: (repeat x k ++ [x])). f_equal. exact IH. Qed.

Lemma last_tie_app (l : list (res C)) T k : last_tie (l ++ repeat (TieR T) (S k)) = Some T.
Proof.
  unfold last_tie. rewrite repeat_snoc, app_assoc, rev_app_distr. reflexivity.
Qed.

Lemma count_tie_app (l : list (C * Q)) T k : count_tie (map cand_of l ++ repeat (TieR T) k) = k.
Proof.
  unfold count_tie. rewrite filter_app, app_length.
  assert (H1 : filter (fun r : res C => match r with TieR _ => true | Cand _ => false end) (map cand_of l) = []).
  { induction l as [|x l IHl]; [reflexivity|exact IHl]. }
  assert (H2 : filter (fun r : res C => match r with TieR _ => true | Cand _ => false end) (repeat (TieR T) k) = repeat (TieR T) k).
  { induction k as [|k IHk]; [reflexivity|]. simpl. f_equal. exact IHk. }
  rewrite H1, H2, repeat_length. reflexivity.
Qed.

Lemma NoDup_keys_val {X} (l : list (C * X)) c v v' : NoDup (map fst l) -> In (c, v) l -> In (c, v') l -> v = v'.
Proof.
  intros Hnd H1 H2. apply (In_dget _ _ _ Hnd) in H1. apply (In_dget _ _ _ Hnd) in H2. congruence.
Qed.

Lemma ltb_Qlt a b : GetNBest.ltb Qle_bool a b = true -> a < b.
Proof.
  unfold GetNBest.ltb. intros H. apply negb_true_iff in H. apply Qnot_le_lt. intros Hle. apply Qle_bool_iff in Hle. congruence.
Qed.
Lemma eqv_Qeq a b : GetNBest.eqv Qle_bool a b = true -> a == b.
Proof.
  unfold GetNBest.eqv. intros H. apply andb_true_iff in H. destruct H as [H1 H2]. apply Qle_bool_iff in H1, H2. lra.
Qed.

(* ---- majority judgment elects the candidates with the highest medians *)
Theorem mj_highest_median plus cf votes n sc med r :
  (1 <= n)%nat ->
  corrected_scores cf votes = inl sc -> aggregate FMedianLow sc = inl med ->
  majority_judgment plus cf votes n = inl r ->
  forall c, In (Cand c) r ->
    exists vc, In (c, vc) med /\
      forall c' vc', In (c', vc') med -> ~ In (Cand c') r -> vc' <= vc.
Proof.
  intros Hn Hsc Hmed. unfold majority_judgment. rewrite Hsc, Hmed.
  pose proof (corrected_scores_nodup _ _ _ Hsc) as Hnd_sc.
  assert (Hnd : NoDup (map fst med)) by (rewrite (aggregate_keys _ _ _ Hmed); exact Hnd_sc).
  destruct (get_n_best_spec Qle_bool Qle_bool_total Qle_bool_trans med n Hn) as [Hsmall Hbig].
  destruct (Nat.le_gt_cases (length med) n) as [Hle|Hgt].
  - (* every candidate is elected *)
    destruct (Hsmall Hle) as (s & Hp & _ & Hs). rewrite Hs, last_tie_cands. intros [= <-] c Hc.
    apply in_map_iff in Hc. destruct Hc as ([c0 vc] & Heq & Hin). injection Heq as ->.
    exists vc. split; [eapply Permutation_in; [exact Hp|exact Hin]|].
    intros c' vc' Hin' Hnot. exfalso. apply Hnot. apply in_map_iff. exists (c', vc'). split; [reflexivity|].
    eapply Permutation_in; [apply Permutation_sym, Hp|exact Hin'].
  - destruct (Hbig Hgt) as (above & level & below & thr & Hp & _ & Ha & Hl & Hb & Hpos & Heq & Htie).
    rewrite Forall_forall in Ha, Hl, Hb.
    assert (Hval : forall c v, In (c, v) (above ++ level ++ below) -> In (c, v) med)
      by (intros c v H; eapply Permutation_in; [exact Hp|exact H]).
    assert (Hsplit : forall c v, In (c, v) med -> In (c, v) above \/ In (c, v) level \/ In (c, v) below).
    { intros c v H. apply (Permutation_in _ (Permutation_sym Hp)) in H.
      apply in_app_or in H. destruct H as [H|H]; [left; exact H|]. apply in_app_or in H. tauto. }
    assert (Hlow : forall c' vc', In (c', vc') med -> ~ In (c', vc') above -> vc' <= thr).
    { intros c' vc' H Hna. destruct (Hsplit _ _ H) as [H1|[H1|H1]]; [tauto| |].
      - apply Hl in H1. apply eqv_Qeq in H1. simpl in H1. lra.
      - apply Hb in H1. apply ltb_Qlt in H1. simpl in H1. lra. }
    destruct (Nat.eq_dec (length above + length level) n) as [En|En].
    + (* clean cut *)
      rewrite (Heq En), last_tie_cands. intros [= <-] c Hc.
      apply in_map_iff in Hc. destruct Hc as ([c0 vc] & Hceq & Hin). injection Hceq as ->.
      exists vc. split; [apply Hval; rewrite app_assoc; apply in_or_app; left; exact Hin|].
      intros c' vc' Hin' Hnot.
      destruct (Hsplit _ _ Hin') as [H1|[H1|H1]].
      * exfalso. apply Hnot. apply in_map_iff. exists (c', vc'). split; [reflexivity|apply in_or_app; left; exact H1].
      * exfalso. apply Hnot. apply in_map_iff. exists (c', vc'). split; [reflexivity|apply in_or_app; right; exact H1].
      * apply Hb in H1. apply ltb_Qlt in H1. simpl in H1.
        apply in_app_or in Hin. destruct Hin as [Hin|Hin].
        -- apply Ha in Hin. apply ltb_Qlt in Hin. simpl in Hin. lra.
        -- apply Hl in Hin. apply eqv_Qeq in Hin. simpl in Hin. lra.
    + (* the last seats are tied: the tie-breaker decides among the tie *)
      assert (Hlt : (n < length above + length level)%nat) by lia.
      rewrite (Htie Hlt).
      destruct (n - length above)%nat as [|k] eqn:Ek; [lia|].
      rewrite last_tie_app, count_tie_app.
      replace (length (map cand_of above ++ repeat (TieR (map fst level)) (S k)) - S k)%nat with (length (map cand_of above))
        by (rewrite app_length, repeat_length; lia).
      rewrite firstn_app, firstn_all, Nat.sub_diag, firstn_O, app_nil_r.
      set (sub := filter (fun cd : C * cscores => cmem (fst cd) (map fst level)) sc).
      intros Hr.
      assert (Hbreak : exists r', r = map cand_of above ++ r' /\
                forall c, In (Cand c) r' -> In c (map fst level)).
      { destruct plus.
        - destruct (mj_plus sub (S k)) as [r'|e] eqn:Er; [|discriminate]. injection Hr as <-.
          exists r'. split; [reflexivity|]. intros c Hc. apply (mj_plus_cands _ _ _ _ Er) in Hc.
          unfold sub in Hc. apply in_map_iff in Hc. destruct Hc as (y & <- & Hy). apply filter_In in Hy.
          destruct Hy as [_ Hy]. clear - Hy. induction (map fst level) as [|x t IH]; [discriminate|].
          simpl in Hy. apply orb_true_iff in Hy. destruct Hy as [Hy|Hy]; [left; symmetry; apply ceqb_eq, Hy|right; apply IH, Hy].
        - match type of Hr with context [mj_default ?f sub (S k)] => destruct (mj_default f sub (S k)) as [r'|e] eqn:Er end; [|discriminate].
          injection Hr as <-.
          exists r'. split; [reflexivity|]. intros c Hc. apply (mj_default_cands _ _ _ _ _ Er) in Hc.
          unfold sub in Hc. apply in_map_iff in Hc. destruct Hc as (y & <- & Hy). apply filter_In in Hy.
          destruct Hy as [_ Hy]. clear - Hy. induction (map fst level) as [|x t IH]; [discriminate|].
          simpl in Hy. apply orb_true_iff in Hy. destruct Hy as [Hy|Hy]; [left; symmetry; apply ceqb_eq, Hy|right; apply IH, Hy]. }
      destruct Hbreak as (r' & -> & Hr'). intros c Hc.
      assert (Hcv : exists vc, (In (c, vc) above \/ In (c, vc) level) /\ thr <= vc).
      { apply in_app_or in Hc. destruct Hc as [Hc|Hc].
        - apply in_map_iff in Hc. destruct Hc as ([c0 vc] & Hceq & Hin). injection Hceq as ->.
          exists vc. split; [left; exact Hin|]. apply Ha in Hin. apply ltb_Qlt in Hin. simpl in Hin. lra.
        - apply Hr' in Hc. apply in_map_iff in Hc. destruct Hc as ([c0 vc] & Hceq & Hin). simpl in Hceq. subst c0.
          exists vc. split; [right; exact Hin|]. apply Hl in Hin. apply eqv_Qeq in Hin. simpl in Hin. lra. }
      destruct Hcv as (vc & Hcin & Hge). exists vc. split.
      * apply Hval. destruct Hcin as [H|H]; [apply in_or_app; left; exact H|apply in_or_app; right; apply in_or_app; left; exact H].
      * intros c' vc' Hin' Hnot.
        assert (Hna : ~ In (c', vc') above).
        { intros H. apply Hnot. apply in_or_app. left. apply in_map_iff. exists (c', vc'). split; [reflexivity|exact H]. }
        pose proof (Hlow _ _ Hin' Hna). lra.
Qed.

(* ================================================================ single seat *)
Corollary mj_single_highest_median plus cf votes sc med c :
  corrected_scores cf votes = inl sc -> aggregate FMedianLow sc = inl med ->
  majority_judgment plus cf votes 1 = inl [Cand c] ->
  exists vc, In (c, vc) med /\ forall c' vc', In (c', vc') med -> vc' <= vc.
Proof.
  intros Hsc Hmed Hr.
  destruct (mj_highest_median plus cf votes 1 sc med _ (le_n 1) Hsc Hmed Hr c (or_introl eq_refl)) as (vc & Hin & Hmax).
  exists vc. split; [exact Hin|]. intros c' vc' Hin'.
  destruct (Pos.eq_dec c' c) as [->|Hne].
  - pose proof (corrected_scores_nodup _ _ _ Hsc) as Hnd. rewrite <- (aggregate_keys _ _ _ Hmed) in Hnd.
    rewrite (NoDup_keys_val _ _ _ _ Hnd Hin' Hin). lra.
  - apply (Hmax c' vc' Hin'). intros [H|[]]. injection H as ->. apply Hne. reflexivity.
Qed.

(* the answer of get_n_best for one seat *)
Lemma get_n_best_1_shape (votes : list (C * Q)) :
  get_n_best Qle_bool votes 1 = [] \/
  (exists c, get_n_best Qle_bool votes 1 = [Cand c]) \/
  (exists level below thr, get_n_best Qle_bool votes 1 = [TieR (map fst level)] /\
     Permutation (level ++ below) votes /\ (2 <= length level)%nat /\
     (forall it, In it level -> snd it == thr) /\ (forall it, In it below -> snd it < thr)).
Proof.
  destruct (get_n_best_spec Qle_bool Qle_bool_total Qle_bool_trans votes 1 (le_n 1)) as [Hsmall Hbig].
  destruct (Nat.le_gt_cases (length votes) 1) as [Hle|Hgt].
  - destruct (Hsmall Hle) as (s & Hp & _ & ->). apply Permutation_length in Hp.
    destruct s as [|[c v] [|y t]]; simpl in *; [left; reflexivity|right; left; exists c; reflexivity|lia].
  - destruct (Hbig Hgt) as (above & level & below & thr & Hp & _ & Ha & Hl & Hb & Hpos & Heq & Htie).
    assert (above = []) as -> by (destruct above; [reflexivity|simpl in Hpos; lia]).
    simpl in *. destruct level as [|[c v] [|y t]].
    + simpl in Hpos. lia.
    + right. left. exists c. rewrite (Heq eq_refl). reflexivity.
    + right. right. exists ((c, v) :: y :: t), below, thr. split; [rewrite Htie by (simpl; lia); reflexivity|].
      split; [exact Hp|]. split; [simpl; lia|]. rewrite Forall_forall in Hl, Hb. split.
      * intros it Hit. apply eqv_Qeq. apply Hl. exact Hit.
      * intros it Hit. apply ltb_Qlt. apply Hb. exact Hit.
Qed.

Lemma cmem_In c l : cmem c l = true <-> In c l.
Proof.
  induction l as [|x l IH]; simpl; [split; [discriminate|tauto]|].
  rewrite orb_true_iff, IH. unfold ceqb. rewrite Pos.eqb_eq. split; intros [H|H]; auto.
Qed.

Lemma counts_over_compat d a b : a == b -> counts_over d a = counts_over d b.
Proof.
  intros Hab. unfold counts_over. f_equal. f_equal. apply filter_ext. intros [s k]. simpl.
  destruct (Qle_bool a s) eqn:E1, (Qle_bool b s) eqn:E2; try reflexivity.
  - apply Qle_bool_iff in E1. assert (H : b <= s) by lra. apply Qle_bool_iff in H. congruence.
  - apply Qle_bool_iff in E2. assert (H : a <= s) by lra. apply Qle_bool_iff in H. congruence.
Qed.

Lemma filter_keys_NoDup_gen {X} (f : C * X -> bool) (l : list (C * X)) :
  NoDup (map fst l) -> NoDup (map fst (filter f l)).
Proof.
  induction l as [|x t IH]; simpl; intros H; [constructor|].
  inversion H as [|? ? Hx Hn]; subst. destruct (f x); simpl; [|apply IH, Hn].
  constructor; [|apply IH, Hn]. intros Hin. apply Hx. eapply filter_keys_incl. exact Hin.
Qed.

(* ---- majority judgment plus, one seat: among the candidates sharing the highest median the winner has
   strictly the most scores at or above that median *)
Theorem mj_plus_rule cf votes sc med c :
  corrected_scores cf votes = inl sc -> aggregate FMedianLow sc = inl med ->
  majority_judgment true cf votes 1 = inl [Cand c] ->
  forall vc d c' vc' d', In (c, vc) med -> In (c, d) sc ->
    In (c', vc') med -> In (c', d') sc -> c' <> c -> vc' == vc ->
    (counts_over d' vc < counts_over d vc)%Z.
Proof.
  intros Hsc Hmed Hr vc d c' vc' d' Hc Hd Hc' Hd' Hne Heqv.
  pose proof (corrected_scores_nodup _ _ _ Hsc) as Hnd_sc.
  assert (Hnd : NoDup (map fst med)) by (rewrite (aggregate_keys _ _ _ Hmed); exact Hnd_sc).
  unfold majority_judgment in Hr. rewrite Hsc, Hmed in Hr.
  destruct (get_n_best_1_shape med) as [E|[[c0 E]|(level & below & thr & E & Hp & Hlen & Hl & Hb)]]; rewrite E in Hr.
  - discriminate.
  - cbn in Hr. injection Hr as ->.
    destruct (get_n_best_1_cand Qle_bool Qle_bool_total Qle_bool_trans med c [] Hnd E) as (_ & v & Hin & Hmax).
    rewrite (NoDup_keys_val _ _ _ _ Hnd Hc Hin) in Heqv. apply (Hmax _ _ Hc') in Hne. apply ltb_Qlt in Hne. lra.
  - cbn [last_tie rev app count_tie filter length firstn Nat.sub] in Hr.
    set (tied := map fst level) in *.
    set (sub := filter (fun cd : C * cscores => cmem (fst cd) tied) sc) in *.
    destruct (mj_plus sub 1) as [r'|e] eqn:Er; [|discriminate]. cbn in Hr. injection Hr as ->.
    assert (Hnd_sub : NoDup (map fst sub)) by (apply filter_keys_NoDup_gen; exact Hnd_sc).
    unfold mj_plus in Er. destruct sub as [|[c0 d0] sub'] eqn:Esub; [discriminate|]. rewrite <- Esub in *.
    destruct (aggregate_one FMedianLow d0) as [m0|e] eqn:Em0; [|discriminate]. injection Er as Er.
    set (cnt := map (fun cd : C * cscores => (fst cd, inject_Z (counts_over (snd cd) m0))) sub) in *.
    assert (Hnd_cnt : NoDup (map fst cnt)) by (unfold cnt; rewrite map_map; exact Hnd_sub).
    destruct (get_n_best_1_cand Qle_bool Qle_bool_total Qle_bool_trans cnt c [] Hnd_cnt Er) as (_ & v & Hin & Hmax).
    (* members of the tie have the median thr *)
    assert (Hin_level : forall x vx, In (x, vx) med -> In x tied -> vx == thr).
    { intros x vx Hx Ht. unfold tied in Ht. apply in_map_iff in Ht. destruct Ht as ([x0 v0] & Hx0 & Hlv). simpl in Hx0. subst x0.
      assert (In (x, v0) med) by (eapply Permutation_in; [exact Hp|apply in_or_app; left; exact Hlv]).
      rewrite (NoDup_keys_val _ _ _ _ Hnd Hx H). apply (Hl _ Hlv). }
    assert (Hsub_in : forall x dx, In (x, dx) sub <-> In (x, dx) sc /\ In x tied).
    { intros x dx. unfold sub. rewrite filter_In. simpl. rewrite cmem_In. tauto. }
    (* the shared median is the median of the first member *)
    assert (Hm0 : m0 == thr).
    { assert (H0 : In (c0, d0) sub) by (rewrite Esub; left; reflexivity). apply Hsub_in in H0. destruct H0 as [H0 H0t].
      assert (Hk : In c0 (map fst med)) by (rewrite (aggregate_keys _ _ _ Hmed); apply in_map_iff; exists (c0, d0); auto).
      apply in_map_iff in Hk. destruct Hk as ([c1 v1] & Hc1 & Hv1). simpl in Hc1. subst c1.
      destruct (aggregate_in _ _ _ _ _ Hmed Hv1) as (d1 & Hd1 & Ha1).
      rewrite (NoDup_keys_val _ _ _ _ Hnd_sc Hd1 H0) in Ha1. rewrite Em0 in Ha1. injection Ha1 as ->.
      apply (Hin_level _ _ Hv1 H0t). }
    (* the winner is a member *)
    unfold cnt in Hin. apply in_map_iff in Hin. destruct Hin as ([c1 d1] & Heq1 & Hin1). simpl in Heq1. injection Heq1 as -> <-.
    apply Hsub_in in Hin1. destruct Hin1 as [Hin1 Hct].
    rewrite (NoDup_keys_val _ _ _ _ Hnd_sc Hin1 Hd) in Hmax.
    pose proof (Hin_level _ _ Hc Hct) as Hvc.
    (* the rival is a member, too *)
    assert (Hc't : In c' tied).
    { apply (Permutation_in _ (Permutation_sym Hp)) in Hc'. apply in_app_or in Hc'. destruct Hc' as [H|H].
      - unfold tied. apply in_map_iff. exists (c', vc'). split; [reflexivity|exact H].
      - apply Hb in H. simpl in H. lra. }
    assert (Hcnt' : In (c', inject_Z (counts_over d' m0)) cnt).
    { unfold cnt. apply in_map_iff. exists (c', d'). split; [reflexivity|]. apply Hsub_in. split; assumption. }
    apply (Hmax _ _ Hcnt') in Hne. apply ltb_Qlt in Hne. rewrite <- Zlt_Qlt in Hne.
    assert (Hmv : m0 == vc) by lra.
    rewrite <- (counts_over_compat d' _ _ Hmv), <- (counts_over_compat d _ _ Hmv). exact Hne.
Qed.

(* ---- the default tie-break, one seat: rounds of median removal among the candidates still level *)
Definition mj_level (sub : list (C * cscores)) (tied : list C) : list (C * cscores) :=
  filter (fun cd : C * cscores => cmem (fst cd) tied) sub.

Definition mj_ch (sub : list (C * cscores)) (medians : list (C * Q)) : Z :=
  let ch0 := closest_change sub medians in if (ch0 =? 0)%Z then 1%Z else ch0.

Definition mj_remove (sub : list (C * cscores)) (medians : list (C * Q)) (ch : Z) : list (C * cscores) :=
  map (fun cd : C * cscores =>
         let m := dget_or medians (fst cd) 0%Q in
         (fst cd, cs_set (snd cd) m (match cs_get (snd cd) m with Some k => k | None => 0%Z end - ch)%Z)) sub.

(* one round: the highest median is shared by the candidates T (no unique leader); everybody else leaves the contest,
   and mj_ch >= 1 copies of the current median grade are removed from each of T *)
Definition mj_round (sub : list (C * cscores)) (medians : list (C * Q)) (T : list C) : list (C * cscores) :=
  mj_remove (mj_level sub T) medians (mj_ch (mj_level sub T) medians).

(* [mj_rounds sub sub']: sub' is one of the states the removal rounds go through, starting from sub *)
Inductive mj_rounds : list (C * cscores) -> list (C * cscores) -> Prop :=
| mjr_done sub : mj_rounds sub sub
| mjr_step sub medians T sub' :
    aggregate FMedianLow sub = inl medians ->
    get_n_best Qle_bool medians 1 = [TieR T] ->
    mj_rounds (mj_round sub medians T) sub' ->
    mj_rounds sub sub'.

Lemma fold_min_lower (l : list Z) : forall x b, (b <= x)%Z -> Forall (fun y => (b <= y)%Z) l -> (b <= fold_left Z.min l x)%Z.
Proof.
  induction l as [|y l IH]; intros x b Hx Hl; simpl; [exact Hx|].
  inversion Hl; subst. apply IH; [lia|assumption].
Qed.

Lemma Qceiling_abs_nonneg x : (0 <= Qceiling (Qabs x))%Z.
Proof.
  pose proof (Qabs_nonneg x) as H1. pose proof (Qle_ceiling (Qabs x)) as H2.
  assert (H : inject_Z 0 <= inject_Z (Qceiling (Qabs x))) by (change (inject_Z 0) with 0; lra).
  rewrite <- Zle_Qle in H. exact H.
Qed.

Lemma closest_change_nonneg sub medians : (0 <= closest_change sub medians)%Z.
Proof.
  unfold closest_change. destruct sub as [|cd sub]; [simpl; lia|]. cbn [map].
  apply fold_min_lower.
  - cbv zeta. apply Z.min_glb; apply Qceiling_abs_nonneg.
  - apply Forall_forall. intros y Hy. apply in_map_iff in Hy. destruct Hy as (cd' & <- & _).
    cbv zeta. apply Z.min_glb; apply Qceiling_abs_nonneg.
Qed.

(* every round removes at least one copy *)
Lemma mj_ch_pos sub medians : (1 <= mj_ch sub medians)%Z.
Proof.
  unfold mj_ch. pose proof (closest_change_nonneg sub medians). cbv zeta.
  destruct (closest_change sub medians =? 0)%Z eqn:Ez; lia.
Qed.

Lemma mj_round_keys sub medians T : map fst (mj_round sub medians T) = map fst (mj_level sub T).
Proof. unfold mj_round, mj_remove. rewrite map_map. reflexivity. Qed.

(* who stays in the contest after a round: exactly the candidates on the shared highest median *)
Lemma mj_round_level sub medians T c :
  aggregate FMedianLow sub = inl medians -> get_n_best Qle_bool medians 1 = [TieR T] ->
  In c (map fst (mj_round sub medians T)) ->
  In c (map fst sub) /\ exists v, In (c, v) medians /\ forall c' v', In (c', v') medians -> v' <= v.
Proof.
  intros Ea Eb Hc. rewrite mj_round_keys in Hc. unfold mj_level in Hc.
  apply in_map_iff in Hc. destruct Hc as ([c0 d0] & Hc0 & Hin). simpl in Hc0. subst c0.
  apply filter_In in Hin. destruct Hin as [Hin Hmem]. simpl in Hmem. apply cmem_In in Hmem.
  split; [apply in_map_iff; exists (c, d0); auto|].
  destruct (get_n_best_1_shape medians) as [E|[[c0 E]|(level & below & thr & E & Hp & _ & Hl & Hb)]]; rewrite E in Eb; try discriminate.
  injection Eb as <-. apply in_map_iff in Hmem. destruct Hmem as ([c1 v] & Hc1 & Hlv). simpl in Hc1. subst c1.
  exists v. split; [eapply Permutation_in; [exact Hp|apply in_or_app; left; exact Hlv]|].
  intros c' v' Hin'. apply (Permutation_in _ (Permutation_sym Hp)) in Hin'. apply in_app_or in Hin'.
  pose proof (Hl _ Hlv) as Hv. simpl in Hv. destruct Hin' as [H|H].
  - apply Hl in H. simpl in H. lra.
  - apply Hb in H. simpl in H. lra.
Qed.

Lemma mj_default_step f sub medians T :
  (fold_left Z.max (map (fun cd : C * cscores => cs_total (snd cd)) sub) 0%Z <=? 0)%Z = false ->
  aggregate FMedianLow sub = inl medians -> get_n_best Qle_bool medians 1 = [TieR T] ->
  mj_default (S f) sub 1 = mj_default f (mj_round sub medians T) 1.
Proof.
  intros Hmx Ea Eb. cbn [mj_default]. cbv zeta. rewrite Hmx, Ea, Eb. reflexivity.
Qed.

Theorem mj_default_rule : forall fuel sub c,
  NoDup (map fst sub) ->
  mj_default fuel sub 1 = inl [Cand c] ->
  exists sub' medians' v,
    mj_rounds sub sub' /\ aggregate FMedianLow sub' = inl medians' /\
    In (c, v) medians' /\ forall c' v', In (c', v') medians' -> c' <> c -> v' < v.
Proof.
  induction fuel as [|f IH]; intros sub c Hnd; [discriminate|].
  destruct (fold_left Z.max (map (fun cd : C * cscores => cs_total (snd cd)) sub) 0%Z <=? 0)%Z eqn:Hmx;
    [cbn [mj_default]; cbv zeta; rewrite Hmx; discriminate|].
  destruct (aggregate FMedianLow sub) as [medians|e] eqn:Ea; [|cbn [mj_default]; cbv zeta; rewrite Hmx, Ea; discriminate].
  assert (Hndm : NoDup (map fst medians)) by (rewrite (aggregate_keys _ _ _ Ea); exact Hnd).
  destruct (get_n_best_1_shape medians) as [E|[[c0 E]|(level & below & thr & E & _)]].
  - cbn [mj_default]. cbv zeta. rewrite Hmx, Ea, E. cbn. discriminate.
  - cbn [mj_default]. cbv zeta. rewrite Hmx, Ea, E. cbn. intros [= ->]. exists sub, medians.
    destruct (get_n_best_1_cand Qle_bool Qle_bool_total Qle_bool_trans medians c [] Hndm E) as (_ & v & Hin & Hmax).
    exists v. split; [constructor|]. split; [exact Ea|]. split; [exact Hin|].
    intros c' v' Hin' Hne. apply ltb_Qlt. apply (Hmax _ _ Hin' Hne).
  - rewrite (mj_default_step f sub medians _ Hmx Ea E). intros Hr.
    assert (Hnd' : NoDup (map fst (mj_round sub medians (map fst level)))).
    { rewrite mj_round_keys. apply filter_keys_NoDup_gen. exact Hnd. }
    destruct (IH _ _ Hnd' Hr) as (sub' & medians' & v & Hrounds & Hrest).
    exists sub', medians', v. split; [|exact Hrest].
    eapply mjr_step; [exact Ea|exact E|exact Hrounds].
Qed.

(* the documented rule: in every state the rounds go through - the last one included - the eventual winner is still in
   the contest and nobody there has a higher median (a candidate that falls behind is out for good, mj_round_level) *)
Theorem mj_default_documented : forall fuel sub c,
  NoDup (map fst sub) ->
  mj_default fuel sub 1 = inl [Cand c] ->
  forall sub1 medians1, mj_rounds sub sub1 -> aggregate FMedianLow sub1 = inl medians1 ->
  exists v, In (c, v) medians1 /\ forall c' v', In (c', v') medians1 -> v' <= v.
Proof.
  induction fuel as [|f IH]; intros sub c Hnd; [discriminate|].
  destruct (fold_left Z.max (map (fun cd : C * cscores => cs_total (snd cd)) sub) 0%Z <=? 0)%Z eqn:Hmx;
    [cbn [mj_default]; cbv zeta; rewrite Hmx; discriminate|].
  destruct (aggregate FMedianLow sub) as [medians|e] eqn:Ea; [|cbn [mj_default]; cbv zeta; rewrite Hmx, Ea; discriminate].
  assert (Hndm : NoDup (map fst medians)) by (rewrite (aggregate_keys _ _ _ Ea); exact Hnd).
  destruct (get_n_best_1_shape medians) as [E|[[c0 E]|(level & below & thr & E & Hshape)]].
  - cbn [mj_default]. cbv zeta. rewrite Hmx, Ea, E. cbn. discriminate.
  - cbn [mj_default]. cbv zeta. rewrite Hmx, Ea, E. cbn. intros [= ->] sub1 medians1 Hr Ha1.
    inversion Hr as [s|s m T s' Ha Hb Hrest]; subst.
    + rewrite Ea in Ha1. injection Ha1 as <-.
      destruct (get_n_best_1_cand Qle_bool Qle_bool_total Qle_bool_trans medians c [] Hndm E) as (_ & v & Hin & Hmax).
      exists v. split; [exact Hin|]. intros c' v' Hin'. destruct (Pos.eq_dec c' c) as [->|Hne].
      * rewrite (NoDup_keys_val _ _ _ _ Hndm Hin' Hin). lra.
      * apply (Hmax _ _ Hin') in Hne. apply ltb_Qlt in Hne. lra.
    + rewrite Ea in Ha. injection Ha as <-. rewrite E in Hb. discriminate.
  - rewrite (mj_default_step f sub medians _ Hmx Ea E). intros Hres sub1 medians1 Hr Ha1.
    assert (Hnd' : NoDup (map fst (mj_round sub medians (map fst level)))).
    { rewrite mj_round_keys. apply filter_keys_NoDup_gen. exact Hnd. }
    inversion Hr as [s|s m T s' Ha Hb Hrest]; subst.
    + (* the state itself: the winner survives the round, so it is level with the lead *)
      rewrite Ea in Ha1. injection Ha1 as <-.
      assert (Hc : In c (map fst (mj_round sub1 medians (map fst level))))
        by (apply (mj_default_cands _ _ _ _ _ Hres); left; reflexivity).
      destruct (mj_round_level _ _ _ _ Ea E Hc) as [_ H]. exact H.
    + rewrite Ea in Ha. injection Ha as <-. rewrite E in Hb. injection Hb as <-.
      exact (IH _ _ Hnd' Hres sub1 medians1 Hrest Ha1).
Qed.

(* the whole evaluator with the default tie-break, one seat *)
Theorem mj_default_tiebreak cf votes sc med c :
  corrected_scores cf votes = inl sc -> aggregate FMedianLow sc = inl med ->
  majority_judgment false cf votes 1 = inl [Cand c] ->
  (exists v, In (c, v) med /\ forall c' v', In (c', v') med -> c' <> c -> v' < v) \/
  (exists tied sub' medians' v,
     get_n_best Qle_bool med 1 = [TieR tied] /\
     mj_rounds (mj_level sc tied) sub' /\
     aggregate FMedianLow sub' = inl medians' /\
     In (c, v) medians' /\ forall c' v', In (c', v') medians' -> c' <> c -> v' < v).
Proof.
  intros Hsc Hmed Hr.
  pose proof (corrected_scores_nodup _ _ _ Hsc) as Hnd_sc.
  assert (Hnd : NoDup (map fst med)) by (rewrite (aggregate_keys _ _ _ Hmed); exact Hnd_sc).
  unfold majority_judgment in Hr. rewrite Hsc, Hmed in Hr.
  destruct (get_n_best_1_shape med) as [E|[[c0 E]|(level & below & thr & E & _)]]; rewrite E in Hr.
  - discriminate.
  - cbn in Hr. injection Hr as ->. left.
    destruct (get_n_best_1_cand Qle_bool Qle_bool_total Qle_bool_trans med c [] Hnd E) as (_ & v & Hin & Hmax).
    exists v. split; [exact Hin|]. intros c' v' Hin' Hne. apply ltb_Qlt. apply (Hmax _ _ Hin' Hne).
  - right. cbn [last_tie rev app count_tie filter length firstn Nat.sub] in Hr.
    fold (mj_level sc (map fst level)) in Hr. set (sub := mj_level sc (map fst level)) in *.
    match type of Hr with context [mj_default ?f sub 1] => destruct (mj_default f sub 1) as [r'|e] eqn:Er end; [|discriminate].
    cbn in Hr. injection Hr as ->.
    assert (Hnd_sub : NoDup (map fst sub)) by (apply filter_keys_NoDup_gen; exact Hnd_sc).
    destruct (mj_default_rule _ _ _ Hnd_sub Er) as (sub' & medians' & v & H1 & H2 & H3 & H4).
    exists (map fst level), sub', medians', v. split; [exact E|]. split; [exact H1|]. split; [exact H2|]. split; [exact H3|exact H4].
Qed.

Theorem mj_default_tiebreak_documented cf votes sc med tied c sub1 medians1 :
  corrected_scores cf votes = inl sc -> aggregate FMedianLow sc = inl med ->
  get_n_best Qle_bool med 1 = [TieR tied] ->
  majority_judgment false cf votes 1 = inl [Cand c] ->
  mj_rounds (mj_level sc tied) sub1 -> aggregate FMedianLow sub1 = inl medians1 ->
  exists v, In (c, v) medians1 /\ forall c' v', In (c', v') medians1 -> v' <= v.
Proof.
  intros Hsc Hmed Et Hr Hrounds Ha1.
  pose proof (corrected_scores_nodup _ _ _ Hsc) as Hnd_sc.
  unfold majority_judgment in Hr. rewrite Hsc, Hmed, Et in Hr.
  cbn [last_tie rev app count_tie filter length firstn Nat.sub] in Hr.
  fold (mj_level sc tied) in Hr. set (sub := mj_level sc tied) in *.
  match type of Hr with context [mj_default ?f sub 1] => destruct (mj_default f sub 1) as [r'|e] eqn:Er end; [|discriminate].
  cbn in Hr. injection Hr as ->.
  assert (Hnd_sub : NoDup (map fst sub)) by (apply filter_keys_NoDup_gen; exact Hnd_sc).
  exact (mj_default_documented _ _ _ Hnd_sub Er sub1 medians1 Hrounds Ha1).
Qed.
