(* Allocated score (Model/AllocScore.v): one round elects the candidate with the strictly greatest weighted
   score sum and removes exactly one quota of ballot weight from its strongest supporters first (or all of
   its supporters' weight when they hold less), for every round of the run.  Exact crash condition of the
   subtraction loop. *)
From Coq Require Import ZArith QArith Qminmax Qround List Bool Arith Lia Lqa Permutation.
From VL Require Import Prelude.PyDict Model.GetNBest Model.Convert Model.Quota Model.AllocScore
     Proofs.GetNBest_proofs Proofs.QOrd Proofs.Dict_proofs Proofs.JR_proofs.
Import ListNotations.
Open Scope Q_scope.

(* ================================================================ vocabulary *)
Definition wtotal (cur : wprofile) : Q := lsum (fun bw : sballot * Q => snd bw) cur.
(* the supporters of [c]: the ballots that score it (at any level) *)
Definition asupport (c : C) (cur : wprofile) : Q :=
  lsum (fun bw : sballot * Q => if dmem (fst bw) c then snd bw else 0) cur.
Definition wpos (cur : wprofile) : Prop := Forall (fun bw : sballot * Q => 0 < snd bw) cur.
Definition wposb (cur : wprofile) : bool := forallb (fun bw : sballot * Q => negb (Qle_bool (snd bw) 0)) cur.
Definition has_empty (cur : wprofile) : Prop := exists bw, In bw cur /\ fst bw = [].
Definition no_supporters (c : C) (cur : wprofile) : Prop := forall bw, In bw cur -> dget (fst bw) c = None.
Definition all_support (c : C) (cur : wprofile) : Prop := forall bw, In bw cur -> dget (fst bw) c <> None.
Definition has_score (c : C) (cur : wprofile) (t : Q) : Prop :=
  exists bw s, In bw cur /\ dget (fst bw) c = Some s /\ s == t.
Definition maxsc (c : C) (cur : wprofile) (T : Q) : Prop :=
  forall bw s, In bw cur -> dget (fst bw) c = Some s -> s <= T.

Lemma wposb_iff cur : wposb cur = true <-> wpos cur.
Proof.
  unfold wposb, wpos. rewrite forallb_forall, Forall_forall. split; intros H bw Hin; specialize (H bw Hin).
  - apply negb_true_iff in H. apply Qnot_le_lt. intros Hle. apply Qle_bool_iff in Hle. congruence.
  - apply negb_true_iff. destruct (Qle_bool (snd bw) 0) eqn:E; [|reflexivity]. apply Qle_bool_iff in E. lra.
Qed.

(* the profile after [c]'s supporters above level [t] are exhausted, those at [t] keep the share [f] of their
   weight (nothing when f = 0), everybody else keeps all of it *)
Definition cut_one (c : C) (t f : Q) (bw : sballot * Q) : list (sballot * Q) :=
  match dget (fst bw) c with
  | None => [bw]
  | Some s => if Qle_bool s t then
                if Qeq_bool s t then (if Qeq_bool f 0 then [] else [(fst bw, Qred (snd bw * f))]) else [bw]
              else []
  end.
Definition cut_at (c : C) (t f : Q) (cur : wprofile) : wprofile := flat_map (cut_one c t f) cur.

(* ================================================================ sums *)
Lemma qsum_filter_lsum (p : sballot * Q -> bool) cur :
  qsum (map snd (filter p cur)) == lsum (fun bw => if p bw then snd bw else 0) cur.
Proof.
  rewrite qsum_lsum, lsum_map. induction cur as [|bw cur IH]; [reflexivity|].
  cbn [filter]. rewrite lsum_cons. destruct (p bw); [rewrite lsum_cons, IH; reflexivity|rewrite IH; lra].
Qed.

Lemma wtotal_filter_split (p : sballot * Q -> bool) cur :
  wtotal cur == wtotal (filter (fun bw => negb (p bw)) cur) + lsum (fun bw => if p bw then snd bw else 0) cur.
Proof.
  unfold wtotal. induction cur as [|bw cur IH]; [simpl; lra|].
  cbn [filter]. rewrite !lsum_cons. destruct (p bw); cbn [negb]; [|rewrite lsum_cons]; rewrite IH; lra.
Qed.

Lemma lsum_nonneg_pos {X} (f : X -> Q) l : (forall x, In x l -> 0 <= f x) -> 0 <= lsum f l.
Proof.
  induction l as [|x l IH]; intros H; [simpl; lra|]. rewrite lsum_cons.
  pose proof (H x (or_introl eq_refl)). assert (0 <= lsum f l) by (apply IH; intros y Hy; apply H; right; exact Hy). lra.
Qed.

Lemma lsum_pos_in {X} (f : X -> Q) l x : (forall y, In y l -> 0 <= f y) -> In x l -> 0 < f x -> 0 < lsum f l.
Proof.
  induction l as [|y l IH]; intros H Hin Hx; [destruct Hin|]. rewrite lsum_cons.
  assert (Hl : 0 <= lsum f l) by (apply lsum_nonneg_pos; intros z Hz; apply H; right; exact Hz).
  pose proof (H y (or_introl eq_refl)). destruct Hin as [->|Hin]; [lra|].
  assert (0 < lsum f l) by (apply IH; [intros z Hz; apply H; right; exact Hz|exact Hin|exact Hx]). lra.
Qed.

Lemma lsum_zero_all {X} (f : X -> Q) l : (forall y, In y l -> 0 <= f y) -> lsum f l == 0 -> forall x, In x l -> f x == 0.
Proof.
  intros H H0 x Hin. pose proof (H x Hin). destruct (Qlt_le_dec 0 (f x)) as [Hp|Hn]; [|lra].
  pose proof (lsum_pos_in f l x H Hin Hp). lra.
Qed.

(* ================================================================ _find_best_votes *)
Lemma qmin_le_l a b : qmin a b <= a.
Proof. unfold qmin. destruct (Qle_bool b a) eqn:E; [apply Qle_bool_iff in E; exact E|lra]. Qed.
Lemma qmin_le_r a b : qmin a b <= b.
Proof.
  unfold qmin. destruct (Qle_bool b a) eqn:E; [lra|].
  destruct (Qlt_le_dec a b) as [H|H]; [lra|]. apply Qle_bool_iff in H. congruence.
Qed.

Lemma fold_qmin_le l : forall x, fold_left qmin l x <= x /\ forall y, In y l -> fold_left qmin l x <= y.
Proof.
  induction l as [|z l IH]; intros x; cbn [fold_left]; [split; [lra|intros y []]|].
  destruct (IH (qmin x z)) as [H1 H2]. pose proof (qmin_le_l x z). pose proof (qmin_le_r x z). split; [lra|].
  intros y [->|Hy]; [lra|apply H2, Hy].
Qed.

Lemma min_list_le l m : min_list l = Some m -> forall y, In y l -> m <= y.
Proof.
  destruct l as [|x l]; [discriminate|]. cbn [min_list]. intros [= <-] y Hy.
  destruct (fold_qmin_le l x) as [H1 H2]. destruct Hy as [<-|Hy]; [exact H1|exact (H2 y Hy)].
Qed.

Lemma min_list_in l m : min_list l = Some m -> In m l.
Proof.
  destruct l as [|x l]; [discriminate|]. cbn [min_list]. intros [= <-]. revert x.
  induction l as [|z l IH]; intros x; cbn [fold_left]; [left; reflexivity|].
  destruct (IH (qmin x z)) as [H|H]; [|right; right; exact H].
  unfold qmin in H at 1. destruct (Qle_bool z x); [right; left; exact H|left; exact H].
Qed.

Lemma min_list_none l : min_list l = None <-> l = [].
Proof. destruct l; cbn; split; congruence. Qed.

Lemma ballot_mins_some cur l : ballot_mins cur = Some l ->
  length l = length cur /\ (forall bw, In bw cur -> fst bw <> []) /\
  forall bw p, In bw cur -> In p (fst bw) -> exists m, In m l /\ m <= snd p.
Proof.
  revert l. induction cur as [|bw cur IH]; intros l; cbn [ballot_mins].
  - intros [= <-]. split; [reflexivity|]. split; intros ? ? []; contradiction.
  - destruct (min_list (map snd (fst bw))) as [m|] eqn:Em; [|discriminate].
    destruct (ballot_mins cur) as [r|]; [|discriminate]. intros [= <-].
    destruct (IH r eq_refl) as (Hl & Hne & Hle). split; [simpl; congruence|]. split.
    + intros bw' [<-|Hin]; [intros E; rewrite E in Em; discriminate|apply Hne, Hin].
    + intros bw' p [<-|Hin] Hp.
      * exists m. split; [left; reflexivity|]. apply (min_list_le _ _ Em). apply in_map, Hp.
      * destruct (Hle bw' p Hin Hp) as (m' & Hm' & Hle'). exists m'. split; [right; exact Hm'|exact Hle'].
Qed.

Lemma ballot_mins_none cur : ballot_mins cur = None -> has_empty cur.
Proof.
  induction cur as [|bw cur IH]; cbn [ballot_mins]; [discriminate|].
  destruct (min_list (map snd (fst bw))) as [m|] eqn:Em.
  - destruct (ballot_mins cur); [discriminate|]. intros _. destruct (IH eq_refl) as (bw' & Hin & He).
    exists bw'. split; [right; exact Hin|exact He].
  - intros _. apply min_list_none in Em. exists bw. split; [left; reflexivity|].
    destruct (fst bw); [reflexivity|discriminate].
Qed.

(* the bootstrap value: defined exactly when there is a ballot and no ballot is empty; below every score *)
Lemma overall_min_some cur m : overall_min cur = Some m ->
  cur <> [] /\ ~ has_empty cur /\ forall bw p, In bw cur -> In p (fst bw) -> m <= snd p.
Proof.
  unfold overall_min. destruct (ballot_mins cur) as [l|] eqn:E; [|discriminate]. intros Hm.
  destruct (ballot_mins_some cur l E) as (Hl & Hne & Hle). split; [|split].
  - intros ->. destruct l; [discriminate|discriminate].
  - intros (bw & Hin & He). exact (Hne bw Hin He).
  - intros bw p Hin Hp. destruct (Hle bw p Hin Hp) as (m' & Hm' & Hle'). pose proof (min_list_le _ _ Hm m' Hm'). lra.
Qed.

Lemma overall_min_none cur : overall_min cur = None -> cur = [] \/ has_empty cur.
Proof.
  unfold overall_min. destruct (ballot_mins cur) as [l|] eqn:E; [|intros _; right; apply ballot_mins_none, E].
  intros Hm. apply min_list_none in Hm. subst l. destruct (ballot_mins_some cur [] E) as (Hl & _).
  left. destruct cur; [reflexivity|discriminate].
Qed.

Definition bs_next (c : C) (bs : Q) (bw : sballot * Q) : Q :=
  match dget (fst bw) c with Some s => if Qle_bool s bs then bs else s | None => bs end.

Lemma bs_next_spec c bw bs0 :
  bs0 <= bs_next c bs0 bw /\ (forall s, dget (fst bw) c = Some s -> s <= bs_next c bs0 bw) /\
  (bs_next c bs0 bw = bs0 \/ dget (fst bw) c = Some (bs_next c bs0 bw)).
Proof.
  unfold bs_next. destruct (dget (fst bw) c) as [s|]; [|split; [lra|split; [discriminate|left; reflexivity]]].
  destruct (Qle_bool s bs0) eqn:E.
  - apply Qle_bool_iff in E. split; [lra|]. split; [intros ? [= <-]; exact E|left; reflexivity].
  - assert (bs0 < s). { apply Qnot_le_lt. intros Hle. apply Qle_bool_iff in Hle. congruence. }
    split; [lra|]. split; [intros ? [= <-]; lra|right; reflexivity].
Qed.

Lemma best_score_fold c cur bs0 : best_score cur c bs0 = fold_left (bs_next c) cur bs0.
Proof. reflexivity. Qed.

Lemma best_score_spec c cur : forall bs0,
  let bs := best_score cur c bs0 in
  bs0 <= bs /\ maxsc c cur bs /\ (bs = bs0 \/ exists bw, In bw cur /\ dget (fst bw) c = Some bs).
Proof.
  intros bs0. cbv zeta. rewrite best_score_fold. unfold maxsc. revert bs0.
  induction cur as [|bw cur IH]; intros bs0; cbn [fold_left].
  - split; [lra|]. split; [intros ? ? []|left; reflexivity].
  - destruct (IH (bs_next c bs0 bw)) as (H1 & H2 & H3).
    destruct (bs_next_spec c bw bs0) as (Ha & Hb & Hc). split; [eapply Qle_trans; [exact Ha|exact H1]|]. split.
    + intros bw' s [<-|Hin] Hs; [eapply Qle_trans; [exact (Hb s Hs)|exact H1]|exact (H2 bw' s Hin Hs)].
    + destruct H3 as [H3|(bw' & Hin & Hs)].
      * destruct Hc as [Hc|Hc]; [left; rewrite H3; exact Hc|]. right. exists bw. split; [left; reflexivity|]. rewrite H3. exact Hc.
      * right. exists bw'. split; [right; exact Hin|exact Hs].
Qed.

Lemma dget_in_score (b : sballot) c s : dget b c = Some s -> In (c, s) b.
Proof. apply dget_In. Qed.

Lemma is_best_true c bs b : is_best c bs b = true <-> exists s, dget b c = Some s /\ s == bs.
Proof.
  unfold is_best. destruct (dget b c) as [s|].
  - rewrite Qeq_bool_iff. split; [intros H; exists s; split; [reflexivity|exact H]|intros (s' & [= <-] & H); exact H].
  - split; [discriminate|intros (s' & H & _); discriminate].
Qed.

(* ================================================================ the cut *)
Lemma cut_at_cons c t f bw cur : cut_at c t f (bw :: cur) = cut_one c t f bw ++ cut_at c t f cur.
Proof. reflexivity. Qed.

Lemma cut_at_no_supporters c t f cur : no_supporters c cur -> cut_at c t f cur = cur.
Proof.
  induction cur as [|bw cur IH]; intros H; [reflexivity|]. rewrite cut_at_cons, IH by (intros x Hx; apply H; right; exact Hx).
  unfold cut_one. rewrite (H bw (or_introl eq_refl)). reflexivity.
Qed.

(* deleting the top level, then cutting lower = cutting lower *)
Lemma cut_at_filter_top c t f bs cur : t < bs ->
  cut_at c t f (filter (fun bw => negb (is_best c bs (fst bw))) cur) = cut_at c t f cur.
Proof.
  intros Hlt. induction cur as [|bw cur IH]; [reflexivity|]. cbn [filter]. rewrite cut_at_cons, <- IH.
  destruct (is_best c bs (fst bw)) eqn:E; cbn [negb]; [|reflexivity].
  apply is_best_true in E. destruct E as (s & Hs & Heq). unfold cut_one. rewrite Hs.
  destruct (Qle_bool s t) eqn:E2; [|reflexivity]. apply Qle_bool_iff in E2. lra.
Qed.

(* deleting the top level = cutting at it with nothing kept *)
Lemma filter_top_cut c bs cur : maxsc c cur bs ->
  filter (fun bw => negb (is_best c bs (fst bw))) cur = cut_at c bs 0 cur.
Proof.
  intros Hmax. induction cur as [|bw cur IH]; [reflexivity|]. cbn [filter]. rewrite cut_at_cons.
  rewrite IH by (intros x s Hx; apply Hmax; right; exact Hx).
  unfold cut_one, is_best. destruct (dget (fst bw) c) as [s|] eqn:Es; [|reflexivity].
  assert (Hle : s <= bs) by (apply (Hmax bw s (or_introl eq_refl) Es)). apply Qle_bool_iff in Hle. rewrite Hle.
  destruct (Qeq_bool s bs); reflexivity.
Qed.

(* scaling the top level = cutting at it with the share kept *)
Lemma scale_top_cut c bs fr cur : maxsc c cur bs -> ~ fr == 0 ->
  map (fun bw => if is_best c bs (fst bw) then (fst bw, Qred (snd bw * fr)) else bw) cur = cut_at c bs fr cur.
Proof.
  intros Hmax Hfr. induction cur as [|bw cur IH]; [reflexivity|]. cbn [map]. rewrite cut_at_cons.
  rewrite IH by (intros x s Hx; apply Hmax; right; exact Hx).
  unfold cut_one, is_best. destruct (dget (fst bw) c) as [s|] eqn:Es; [|reflexivity].
  assert (Hle : s <= bs) by (apply (Hmax bw s (or_introl eq_refl) Es)). apply Qle_bool_iff in Hle. rewrite Hle.
  destruct (Qeq_bool s bs); [|reflexivity].
  destruct (Qeq_bool fr 0) eqn:E; [apply Qeq_bool_iff in E; contradiction|reflexivity].
Qed.

(* what the cut means ballot by ballot *)
Lemma cut_at_members c t f cur b' w' :
  In (b', w') (cut_at c t f cur) <->
  exists w, In (b', w) cur /\
    (   (dget b' c = None /\ w' = w)
     \/ (exists s, dget b' c = Some s /\ s < t /\ w' = w)
     \/ (exists s, dget b' c = Some s /\ s == t /\ ~ f == 0 /\ w' = Qred (w * f))).
Proof.
  unfold cut_at. rewrite in_flat_map. split.
  - intros ([b w] & Hin & Hc). unfold cut_one in Hc. cbn [fst snd] in Hc.
    destruct (dget b c) as [s|] eqn:Es.
    + destruct (Qle_bool s t) eqn:E1; [|destruct Hc]. apply Qle_bool_iff in E1.
      destruct (Qeq_bool s t) eqn:E2.
      * apply Qeq_bool_iff in E2. destruct (Qeq_bool f 0) eqn:E3; [destruct Hc|]. destruct Hc as [Hc|[]].
        injection Hc as <- <-. exists w. split; [exact Hin|]. right. right. exists s. repeat split; try assumption.
        intros H0. apply Qeq_bool_iff in H0. congruence.
      * destruct Hc as [Hc|[]]. injection Hc as <- <-. exists w. split; [exact Hin|]. right. left. exists s.
        repeat split; try assumption. apply Qle_lt_or_eq in E1. destruct E1 as [E1|E1]; [exact E1|].
        apply Qeq_bool_iff in E1. congruence.
    + destruct Hc as [Hc|[]]. injection Hc as <- <-. exists w. split; [exact Hin|]. left. split; [exact Es|reflexivity].
  - intros (w & Hin & Hcase). exists (b', w). split; [exact Hin|]. unfold cut_one. cbn [fst snd].
    destruct Hcase as [(Hn & ->)|[(s & Hs & Hlt & ->)|(s & Hs & Heq & Hf & ->)]].
    + rewrite Hn. left. reflexivity.
    + rewrite Hs. assert (H1 : Qle_bool s t = true) by (apply Qle_bool_iff; lra). rewrite H1.
      destruct (Qeq_bool s t) eqn:E; [apply Qeq_bool_iff in E; lra|left; reflexivity].
    + rewrite Hs. assert (H1 : Qle_bool s t = true) by (apply Qle_bool_iff; lra). rewrite H1.
      assert (H2 : Qeq_bool s t = true) by (apply Qeq_bool_iff; exact Heq). rewrite H2.
      destruct (Qeq_bool f 0) eqn:E; [apply Qeq_bool_iff in E; contradiction|left; reflexivity].
Qed.

Lemma cut_at_wpos c t f cur : 0 <= f -> wpos cur -> wpos (cut_at c t f cur).
Proof.
  intros Hf Hp. unfold wpos in *. rewrite Forall_forall in *. intros [b' w'] Hin.
  apply cut_at_members in Hin. destruct Hin as (w & Hin & Hcase). pose proof (Hp _ Hin) as Hw. cbn [snd] in *.
  destruct Hcase as [(_ & ->)|[(s & _ & _ & ->)|(s & _ & _ & Hf0 & ->)]]; try exact Hw.
  rewrite Qred_correct. apply Qmult_lt_0_compat; [exact Hw|]. apply Qle_lt_or_eq in Hf. destruct Hf as [Hf|Hf]; [exact Hf|].
  exfalso. apply Hf0. symmetry. exact Hf.
Qed.

(* ================================================================ weights of a level, of the supporters *)
Definition lvl (c : C) (bs : Q) (cur : wprofile) : Q :=
  lsum (fun bw : sballot * Q => if is_best c bs (fst bw) then snd bw else 0) cur.

Lemma lsum_filter_split (g : sballot * Q -> Q) (p : sballot * Q -> bool) cur :
  lsum g cur == lsum g (filter (fun bw => negb (p bw)) cur) + lsum (fun bw => if p bw then g bw else 0) cur.
Proof.
  induction cur as [|bw cur IH]; [simpl; lra|].
  cbn [filter]. rewrite !lsum_cons. destruct (p bw); cbn [negb]; [|rewrite lsum_cons]; rewrite IH; lra.
Qed.

Lemma is_best_dmem c bs b : is_best c bs b = true -> dmem b c = true.
Proof. unfold is_best, dmem. destruct (dget b c); [reflexivity|discriminate]. Qed.

Lemma wpos_in cur bw : wpos cur -> In bw cur -> 0 < snd bw.
Proof. unfold wpos. rewrite Forall_forall. intros H Hin. exact (H bw Hin). Qed.

Lemma lvl_le_support c bs cur : wpos cur -> lvl c bs cur <= asupport c cur.
Proof.
  intros Hp. apply lsum_le. intros bw Hin. pose proof (wpos_in _ _ Hp Hin).
  destruct (is_best c bs (fst bw)) eqn:E; [rewrite (is_best_dmem _ _ _ E); lra|].
  destruct (dmem (fst bw) c); lra.
Qed.

Lemma support_le_total c cur : wpos cur -> asupport c cur <= wtotal cur.
Proof.
  intros Hp. apply lsum_le. intros bw Hin. pose proof (wpos_in _ _ Hp Hin). destruct (dmem (fst bw) c); lra.
Qed.

Lemma support_nonneg c cur : wpos cur -> 0 <= asupport c cur.
Proof.
  intros Hp. apply lsum_nonneg_pos. intros bw Hin. pose proof (wpos_in _ _ Hp Hin). destruct (dmem (fst bw) c); lra.
Qed.

Lemma support_all c cur : all_support c cur -> asupport c cur == wtotal cur.
Proof.
  intros H. apply lsum_eq. intros bw Hin. specialize (H bw Hin). unfold dmem. destruct (dget (fst bw) c); [reflexivity|congruence].
Qed.

Lemma support_none c cur : no_supporters c cur -> asupport c cur == 0.
Proof.
  intros H. unfold asupport. rewrite (lsum_eq _ (fun _ => 0)).
  - rewrite lsum_const. lra.
  - intros bw Hin. unfold dmem. rewrite (H bw Hin). reflexivity.
Qed.

Lemma wtotal_filter_top c bs cur :
  wtotal (filter (fun bw => negb (is_best c bs (fst bw))) cur) == wtotal cur - lvl c bs cur.
Proof.
  unfold wtotal, lvl. rewrite (lsum_filter_split (fun bw => snd bw) (fun bw => is_best c bs (fst bw)) cur). lra.
Qed.

Lemma support_filter_top c bs cur :
  asupport c (filter (fun bw => negb (is_best c bs (fst bw))) cur) == asupport c cur - lvl c bs cur.
Proof.
  unfold asupport. rewrite (lsum_filter_split (fun bw => if dmem (fst bw) c then snd bw else 0) (fun bw => is_best c bs (fst bw)) cur).
  assert (H : lsum (fun bw : sballot * Q => if is_best c bs (fst bw) then if dmem (fst bw) c then snd bw else 0 else 0) cur == lvl c bs cur).
  { apply lsum_eq. intros bw _. destruct (is_best c bs (fst bw)) eqn:E; [rewrite (is_best_dmem _ _ _ E)|]; reflexivity. }
  rewrite H. lra.
Qed.

Lemma wtotal_scale_top c bs fr cur :
  wtotal (map (fun bw : sballot * Q => if is_best c bs (fst bw) then (fst bw, Qred (snd bw * fr)) else bw) cur)
  == wtotal cur - lvl c bs cur + lvl c bs cur * fr.
Proof.
  unfold wtotal, lvl. induction cur as [|bw cur IH]; [simpl; lra|]. cbn [map]. rewrite !lsum_cons, IH.
  destruct (is_best c bs (fst bw)); cbn [snd]; [rewrite Qred_correct|]; lra.
Qed.

Lemma wpos_filter p cur : wpos cur -> wpos (filter p cur).
Proof.
  unfold wpos. rewrite !Forall_forall. intros H bw Hin. apply filter_In in Hin. apply H, Hin.
Qed.

Lemma lvl_zero_none c bs cur : wpos cur -> lvl c bs cur == 0 -> forall bw, In bw cur -> is_best c bs (fst bw) = false.
Proof.
  intros Hp H0 bw Hin. destruct (is_best c bs (fst bw)) eqn:E; [|reflexivity].
  assert (H : (if is_best c bs (fst bw) then snd bw else 0) == 0).
  { apply (lsum_zero_all (fun bw : sballot * Q => if is_best c bs (fst bw) then snd bw else 0) cur); [|exact H0|exact Hin].
    intros y Hy. pose proof (wpos_in _ _ Hp Hy). destruct (is_best c bs (fst y)); lra. }
  rewrite E in H. pose proof (wpos_in _ _ Hp Hin). lra.
Qed.

Lemma lvl_pos_some c bs cur : wpos cur -> ~ lvl c bs cur == 0 -> exists bw, In bw cur /\ is_best c bs (fst bw) = true.
Proof.
  intros Hp Hn. induction cur as [|bw cur IH]; [exfalso; apply Hn; reflexivity|].
  destruct (is_best c bs (fst bw)) eqn:E; [exists bw; split; [left; reflexivity|exact E]|].
  destruct IH as (bw' & Hin & Hb).
  - inversion Hp; assumption.
  - intros H0. apply Hn. unfold lvl in *. rewrite lsum_cons, E, H0. lra.
  - exists bw'. split; [right; exact Hin|exact Hb].
Qed.

Lemma lvl_nonneg c bs cur : wpos cur -> 0 <= lvl c bs cur.
Proof.
  intros Hp. apply lsum_nonneg_pos. intros bw Hin. pose proof (wpos_in _ _ Hp Hin). destruct (is_best c bs (fst bw)); lra.
Qed.

Lemma filter_len_le {X} (p : X -> bool) l : (length (filter p l) <= length l)%nat.
Proof. induction l as [|y l IH]; [apply le_n|]. cbn [filter]. destruct (p y); cbn [length]; lia. Qed.

Lemma filter_length_lt {X} (p : X -> bool) l x : In x l -> p x = false -> (length (filter p l) < length l)%nat.
Proof.
  induction l as [|y l IH]; intros Hin Hx; [destruct Hin|]. cbn [filter length].
  destruct Hin as [->|Hin].
  - rewrite Hx. pose proof (filter_len_le p l). lia.
  - specialize (IH Hin Hx). destruct (p y); cbn [length]; lia.
Qed.

(* ================================================================ the subtraction loop *)
Definition crash_cond (c : C) (cur : wprofile) (ss : Q) : Prop :=
  has_empty cur \/ (all_support c cur /\ wtotal cur < ss).

Lemma fraction_out_nonpos fuel cur c ss : ss <= 0 -> fraction_out fuel cur c ss = inl cur.
Proof. intros H. apply Qle_bool_iff in H. destruct fuel; cbn [fraction_out]; rewrite H; reflexivity. Qed.

Lemma Qle_bool_false a b : Qle_bool a b = false <-> b < a.
Proof.
  split; intros H.
  - apply Qnot_le_lt. intros Hle. apply Qle_bool_iff in Hle. congruence.
  - destruct (Qle_bool a b) eqn:E; [apply Qle_bool_iff in E; lra|reflexivity].
Qed.

Lemma Qeq_bool_false a b : Qeq_bool a b = false <-> ~ a == b.
Proof.
  split; intros H.
  - intros He. apply Qeq_bool_iff in He. congruence.
  - destruct (Qeq_bool a b) eqn:E; [apply Qeq_bool_iff in E; contradiction|reflexivity].
Qed.

Lemma fraction_out_spec c : forall fuel cur ss, wpos cur -> (length cur < fuel)%nat -> 0 < ss ->
  match fraction_out fuel cur c ss with
  | inr AE_value => crash_cond c cur ss
  | inr _ => False
  | inl cur' =>
      ~ crash_cond c cur ss /\
      exists t f, cur' = cut_at c t f cur /\ 0 <= f /\ f < 1 /\ (no_supporters c cur \/ has_score c cur t) /\
                  wtotal cur' == wtotal cur - Qmin ss (asupport c cur)
  end.
Proof.
  induction fuel as [|fuel IH]; intros cur ss Hp Hfuel Hss; [lia|].
  cbn [fraction_out]. assert (E0 : Qle_bool ss 0 = false) by (apply Qle_bool_false; exact Hss). rewrite E0.
  destruct (overall_min cur) as [bs0|] eqn:Emin.
  2:{ apply overall_min_none in Emin. destruct Emin as [->|He]; [|left; exact He].
      right. split; [intros ? []|]. unfold wtotal. simpl. exact Hss. }
  destruct (overall_min_some cur bs0 Emin) as (Hne & Hnoempty & Hmin).
  destruct (best_score_spec c cur bs0) as (Hbs0 & Hmax & Hbs). cbv zeta in Hbs0, Hmax, Hbs.
  set (bs := best_score cur c bs0) in *.
  set (size := Qred (qsum (map snd (filter (fun bw : sballot * Q => is_best c bs (fst bw)) cur)))).
  assert (Hsize : size == lvl c bs cur).
  { unfold size. rewrite Qred_correct. apply (qsum_filter_lsum (fun bw => is_best c bs (fst bw))). }
  pose proof (lvl_le_support c bs cur Hp) as Hls. pose proof (support_le_total c cur Hp) as Hst.
  pose proof (lvl_nonneg c bs cur Hp) as Hl0.
  destruct (Qeq_bool size 0) eqn:Ez.
  - (* no more votes for the candidate *)
    apply Qeq_bool_iff in Ez. assert (Hl : lvl c bs cur == 0) by lra.
    pose proof (lvl_zero_none c bs cur Hp Hl) as Hnone.
    assert (Hns : no_supporters c cur).
    { intros bw Hin. destruct (dget (fst bw) c) as [s|] eqn:Es; [exfalso|reflexivity].
      destruct Hbs as [Hbs|(bw' & Hin' & Hs')].
      - (* bs = bs0 <= s <= bs: bw is at the best level *)
        pose proof (Hmin bw (c, s) Hin (dget_In _ _ _ Es)) as H1. cbn [snd] in H1. pose proof (Hmax bw s Hin Es) as H2.
        pose proof (Hnone bw Hin) as H3. unfold is_best in H3. rewrite Es in H3. apply Qeq_bool_false in H3.
        apply H3. rewrite Hbs in *. lra.
      - pose proof (Hnone bw' Hin') as H3. unfold is_best in H3. rewrite Hs' in H3. apply Qeq_bool_false in H3. apply H3. reflexivity. }
    split.
    + intros [He|(Hall & _)]; [exact (Hnoempty He)|]. destruct cur as [|bw cur]; [congruence|].
      exact (Hall bw (or_introl eq_refl) (Hns bw (or_introl eq_refl))).
    + exists 0, 0. split; [symmetry; apply cut_at_no_supporters, Hns|]. split; [lra|]. split; [lra|]. split; [left; exact Hns|].
      pose proof (support_none c cur Hns) as Hs0. destruct (Q.min_spec ss (asupport c cur)) as [(Ha & Hb)|(Ha & Hb)]; rewrite Hb; lra.
  - apply Qeq_bool_false in Ez. assert (Hlpos : 0 < lvl c bs cur) by (destruct (Qlt_le_dec 0 (lvl c bs cur)); [assumption|exfalso; apply Ez; lra]).
    destruct (lvl_pos_some c bs cur Hp) as (bwb & Hinb & Hbb); [intros H; lra|].
    assert (Hhas : has_score c cur bs).
    { apply is_best_true in Hbb. destruct Hbb as (s & Hs & Heq). exists bwb, s. auto. }
    destruct (Qle_bool size ss) eqn:Ele.
    + (* remove all best votes, one more round *)
      apply Qle_bool_iff in Ele.
      set (P1 := filter (fun bw : sballot * Q => negb (is_best c bs (fst bw))) cur).
      assert (Hp1 : wpos P1) by (apply wpos_filter, Hp).
      assert (Hlen : (length P1 < length cur)%nat).
      { apply (filter_length_lt _ cur bwb Hinb). rewrite Hbb. reflexivity. }
      pose proof (wtotal_filter_top c bs cur) as Ht1. pose proof (support_filter_top c bs cur) as Hs1. fold P1 in Ht1, Hs1.
      assert (Hss1 : Qred (ss - size) == ss - lvl c bs cur) by (rewrite Qred_correct; lra).
      assert (Hne1 : ~ has_empty P1).
      { intros (bw & Hin & He). apply Hnoempty. exists bw. split; [|exact He]. apply filter_In in Hin. apply Hin. }
      destruct (Qlt_le_dec 0 (Qred (ss - size))) as [Hpos1|Hnp1].
      * specialize (IH P1 (Qred (ss - size)) Hp1 ltac:(lia) Hpos1).
        destruct (fraction_out fuel P1 c (Qred (ss - size))) as [cur'|e].
        -- destruct IH as (Hnc & t & f & Hcut & Hf0 & Hf1 & Hwhere & Htot). split.
           ++ intros [He|(Hall & Hlt)]; [exact (Hnoempty He)|]. apply Hnc. right. split.
              ** intros bw Hin. apply Hall. apply filter_In in Hin. apply Hin.
              ** lra.
           ++ destruct Hwhere as [Hns1|(bw1 & s1 & Hin1 & Hs1' & Heq1)].
              ** exists bs, 0. split; [|split; [lra|split; [lra|split; [right; exact Hhas|]]]].
                 { rewrite Hcut, (cut_at_no_supporters _ _ _ _ Hns1). apply filter_top_cut, Hmax. }
                 pose proof (support_none c P1 Hns1) as Hz.
                 destruct (Q.min_spec (Qred (ss - size)) (asupport c P1)) as [(Ha & Hb)|(Ha & Hb)]; rewrite Hb in Htot;
                 destruct (Q.min_spec ss (asupport c cur)) as [(Ha' & Hb')|(Ha' & Hb')]; rewrite Hb'; lra.
              ** apply filter_In in Hin1. destruct Hin1 as (Hin1 & Hnb1). apply negb_true_iff in Hnb1.
                 unfold is_best in Hnb1. rewrite Hs1' in Hnb1. apply Qeq_bool_false in Hnb1.
                 pose proof (Hmax bw1 s1 Hin1 Hs1') as Hle1.
                 assert (Hlt : t < bs). { apply Qle_lt_or_eq in Hle1. destruct Hle1 as [H|H]; [lra|contradiction]. }
                 exists t, f. split; [|split; [exact Hf0|split; [exact Hf1|split; [right; exists bw1, s1; auto|]]]].
                 { rewrite Hcut. apply cut_at_filter_top, Hlt. }
                 destruct (Q.min_spec (Qred (ss - size)) (asupport c P1)) as [(Ha & Hb)|(Ha & Hb)]; rewrite Hb in Htot;
                 destruct (Q.min_spec ss (asupport c cur)) as [(Ha' & Hb')|(Ha' & Hb')]; rewrite Hb'; lra.
        -- destruct e; try contradiction. destruct IH as [He|(Hall & Hlt)]; [contradiction|]. right. split.
           ++ intros bw Hin. destruct (is_best c bs (fst bw)) eqn:Eb.
              ** apply is_best_true in Eb. destruct Eb as (s & Hs & _). congruence.
              ** apply Hall. apply filter_In. split; [exact Hin|]. rewrite Eb. reflexivity.
           ++ lra.
      * rewrite (fraction_out_nonpos fuel P1 c _ Hnp1). split.
        -- intros [He|(Hall & Hlt)]; [exact (Hnoempty He)|]. lra.
        -- exists bs, 0. split; [apply filter_top_cut, Hmax|]. split; [lra|]. split; [lra|]. split; [right; exact Hhas|].
           destruct (Q.min_spec ss (asupport c cur)) as [(Ha' & Hb')|(Ha' & Hb')]; rewrite Hb'; lra.
    + (* spread the subtraction across the best votes *)
      apply Qle_bool_false in Ele.
      set (fr := Qred ((size - ss) / size)).
      assert (Hfr : fr == (lvl c bs cur - ss) / lvl c bs cur).
      { unfold fr. rewrite Qred_correct, Hsize. reflexivity. }
      assert (Hfrl : lvl c bs cur * fr == lvl c bs cur - ss) by (rewrite Hfr; field; lra).
      assert (Hfr0 : 0 < fr).
      { rewrite Hfr. apply Qlt_shift_div_l; lra. }
      assert (Hfr1 : fr < 1).
      { rewrite Hfr. apply Qlt_shift_div_r; lra. }
      split.
      * intros [He|(Hall & Hlt)]; [exact (Hnoempty He)|]. lra.
      * exists bs, fr. split; [apply scale_top_cut; [exact Hmax|lra]|]. split; [lra|]. split; [exact Hfr1|]. split; [right; exact Hhas|].
        rewrite wtotal_scale_top, Hfrl.
        destruct (Q.min_spec ss (asupport c cur)) as [(Ha' & Hb')|(Ha' & Hb')]; rewrite Hb'; lra.
Qed.

(* ================================================================ _sum_scores *)
Definition bscore (b : sballot) (x : C) : Q := lsum (fun p : C * Q => if ceqb x (fst p) then snd p else 0) b.
(* the weighted score sum of [x] over the remaining ballots *)
Definition wscore (cur : wprofile) (x : C) : Q := lsum (fun bw : sballot * Q => bscore (fst bw) x * snd bw) cur.
Definition scored (x : C) (cur : wprofile) : Prop := exists bw, In bw cur /\ dmem (fst bw) x = true.

Lemma dget_dset {X} (d : list (C * X)) k v x : dget (dset d k v) x = if ceqb x k then Some v else dget d x.
Proof.
  induction d as [|[k0 v0] d IH]; cbn [dset dget].
  - destruct (ceqb x k); reflexivity.
  - destruct (ceqb k k0) eqn:E; cbn [dget].
    + apply ceqb_eq in E. subst k0. destruct (ceqb x k); reflexivity.
    + destruct (ceqb x k0) eqn:E2; [|exact IH].
      apply ceqb_eq in E2. subst k0. assert (ceqb x k = false) as ->; [|reflexivity].
      apply ceqb_neq. apply ceqb_neq in E. congruence.
Qed.

Lemma dmem_dset {X} (d : list (C * X)) k v x : dmem (dset d k v) x = ceqb x k || dmem d x.
Proof. unfold dmem. rewrite dget_dset. destruct (ceqb x k); reflexivity. Qed.

Lemma dmem_keys {X} (d : list (C * X)) x : dmem d x = true <-> In x (map fst d).
Proof.
  unfold dmem. induction d as [|[k v] d IH]; cbn [dget map fst In]; [split; [discriminate|tauto]|].
  destruct (ceqb x k) eqn:E.
  - apply ceqb_eq in E. split; auto.
  - apply ceqb_neq in E. rewrite IH. split; [auto|intros [H|H]; [congruence|exact H]].
Qed.

Definition ss_inner (w : Q) (d : list (C * Q)) (cs : C * Q) : list (C * Q) :=
  dset d (fst cs) (Qred (dget_or d (fst cs) 0 + snd cs * w)).

Lemma ss_inner_fold w b : forall d x,
  dget_or (fold_left (ss_inner w) b d) x 0 == dget_or d x 0 + bscore b x * w /\
  dmem (fold_left (ss_inner w) b d) x = dmem d x || dmem b x /\
  (NoDup (map fst d) -> NoDup (map fst (fold_left (ss_inner w) b d))).
Proof.
  induction b as [|[k s] b IH]; intros d x; cbn [fold_left].
  - unfold bscore. cbn. split; [lra|]. split; [destruct (dmem d x); reflexivity|auto].
  - destruct (IH (ss_inner w d (k, s)) x) as (H1 & H2 & H3).
    assert (Ed1 : ss_inner w d (k, s) = dset d k (Qred (dget_or d k 0 + s * w))) by reflexivity.
    split; [|split].
    + rewrite H1, Ed1, dget_or_dset. unfold bscore. rewrite lsum_cons. cbn [fst snd]. fold (bscore b x).
      destruct (ceqb x k) eqn:E; [apply ceqb_eq in E; subst k; rewrite Qred_correct|]; lra.
    + rewrite H2, Ed1, dmem_dset. unfold dmem at 4. cbn [dget]. fold (dmem b x). destruct (ceqb x k), (dmem d x); reflexivity.
    + intros Hnd. apply H3. rewrite Ed1. apply Cardinal_proofs.dset_keys_nodup, Hnd.
Qed.

Lemma sum_scores_fold cur : forall d x,
  let r := fold_left (fun d (bw : sballot * Q) => fold_left (ss_inner (snd bw)) (fst bw) d) cur d in
  dget_or r x 0 == dget_or d x 0 + wscore cur x /\
  (dmem r x = true <-> dmem d x = true \/ scored x cur) /\
  (NoDup (map fst d) -> NoDup (map fst r)).
Proof.
  induction cur as [|bw cur IH]; intros d x; cbn [fold_left].
  - unfold wscore, scored. cbn. split; [lra|]. split; [|auto]. split; [auto|intros [H|(? & [] & _)]; exact H].
  - destruct (IH (fold_left (ss_inner (snd bw)) (fst bw) d) x) as (H1 & H2 & H3).
    destruct (ss_inner_fold (snd bw) (fst bw) d x) as (G1 & G2 & G3). cbv zeta in *. split; [|split].
    + rewrite H1, G1. unfold wscore. rewrite lsum_cons. lra.
    + rewrite H2, G2, orb_true_iff. unfold scored. split.
      * intros [[H|H]|(bw' & Hin & Hm)]; [left; exact H|right; exists bw; split; [left; reflexivity|exact H]|
                                          right; exists bw'; split; [right; exact Hin|exact Hm]].
      * intros [H|(bw' & [<-|Hin] & Hm)]; [left; left; exact H|left; right; exact Hm|right; exists bw'; auto].
    + intros Hnd. apply H3, G3, Hnd.
Qed.

Lemma sum_scores_eq cur : sum_scores cur = fold_left (fun d (bw : sballot * Q) => fold_left (ss_inner (snd bw)) (fst bw) d) cur [].
Proof. reflexivity. Qed.

Lemma sum_scores_nodup cur : NoDup (map fst (sum_scores cur)).
Proof. rewrite sum_scores_eq. apply (sum_scores_fold cur [] 1%positive). constructor. Qed.

Lemma sum_scores_in cur x v : In (x, v) (sum_scores cur) -> v == wscore cur x /\ scored x cur.
Proof.
  intros Hin. pose proof (In_dget _ _ _ (sum_scores_nodup cur) Hin) as Hg.
  rewrite sum_scores_eq in Hg. destruct (sum_scores_fold cur [] x) as (H1 & H2 & _). cbv zeta in *. split.
  - unfold dget_or in H1 at 1. rewrite Hg in H1. rewrite H1. unfold dget_or. cbn. lra.
  - destruct H2 as [H2 _]. unfold dmem in H2 at 1. rewrite Hg in H2. destruct (H2 eq_refl) as [H|H]; [discriminate|exact H].
Qed.

Lemma sum_scores_scored cur x : scored x cur -> exists v, In (x, v) (sum_scores cur).
Proof.
  intros Hs. destruct (sum_scores_fold cur [] x) as (_ & H2 & _). cbv zeta in *. rewrite <- sum_scores_eq in H2.
  destruct H2 as [_ H2]. specialize (H2 (or_intror Hs)). unfold dmem in H2.
  destruct (dget (sum_scores cur) x) as [v|] eqn:E; [|discriminate]. exists v. apply dget_In, E.
Qed.

(* the winner of a round without a tie: strictly the greatest weighted score sum among the candidates that
   are still scored on some remaining ballot *)
Theorem alloc_winner_greatest cur c rest :
  get_n_best Qle_bool (sum_scores cur) 1 = Cand c :: rest ->
  scored c cur /\ forall d, scored d cur -> d <> c -> wscore cur d < wscore cur c.
Proof.
  intros H.
  destruct (get_n_best_1_cand Qle_bool Qle_bool_total Qle_bool_trans (sum_scores cur) c rest (sum_scores_nodup cur) H)
    as (_ & v & Hin & Hmax).
  destruct (sum_scores_in cur c v Hin) as (Hv & Hsc). split; [exact Hsc|]. intros d Hd Hne.
  destruct (sum_scores_scored cur d Hd) as (v' & Hin'). destruct (sum_scores_in cur d v' Hin') as (Hv' & _).
  specialize (Hmax d v' Hin' Hne). unfold GetNBest.ltb in Hmax. apply negb_true_iff, Qle_bool_false in Hmax. lra.
Qed.

(* ================================================================ SubsettedVotes: removing the elected candidate *)
Lemma sb_eqb_bscore a : forall b x, sb_eqb a b = true -> bscore a x == bscore b x.
Proof.
  induction a as [|[k s] a IH]; intros [|[k' s'] b] x H; cbn [sb_eqb] in H; try discriminate; [reflexivity|].
  cbn [fst snd] in H. apply andb_true_iff in H. destruct H as [H H3]. apply andb_true_iff in H. destruct H as [H1 H2].
  apply ceqb_eq in H1. subst k'. apply Qeq_bool_iff in H2. unfold bscore. rewrite !lsum_cons. cbn [fst snd].
  fold (bscore a x). fold (bscore b x). rewrite (IH b x H3). destruct (ceqb x k); lra.
Qed.

Lemma sb_eqb_dmem a : forall b x, sb_eqb a b = true -> dmem a x = dmem b x.
Proof.
  induction a as [|[k s] a IH]; intros [|[k' s'] b] x H; cbn [sb_eqb] in H; try discriminate; [reflexivity|].
  cbn [fst snd] in H. apply andb_true_iff in H. destruct H as [H H3]. apply andb_true_iff in H. destruct H as [H1 _].
  apply ceqb_eq in H1. subst k'. unfold dmem. cbn [dget]. destruct (ceqb x k); [reflexivity|]. apply (IH b x H3).
Qed.

Lemma wadd_spec d b w :
  wtotal (wadd d b w) == wtotal d + w /\
  (forall x, wscore (wadd d b w) x == wscore d x + bscore b x * w) /\
  (wpos d -> 0 < w -> wpos (wadd d b w)) /\
  (forall x, scored x (wadd d b w) <-> scored x d \/ dmem b x = true).
Proof.
  induction d as [|bw d IH]; cbn [wadd].
  - unfold wtotal, wscore, wpos, scored, lsum. cbn [fold_right fst snd]. split; [lra|]. split; [intros; lra|]. split; [intros _ H; constructor; [exact H|constructor]|].
    intros x. split.
    + intros (bw & [<-|[]] & H). right. exact H.
    + intros [(? & [] & _)|H]. exists (b, w). split; [left; reflexivity|exact H].
  - destruct IH as (I1 & I2 & I3 & I4). destruct (sb_eqb b (fst bw)) eqn:E.
    + unfold wtotal, wscore. split; [rewrite !lsum_cons; cbn [snd]; rewrite Qred_correct; lra|]. split; [|split].
      * intros x. rewrite !lsum_cons. cbn [fst snd]. rewrite Qred_correct, (sb_eqb_bscore _ _ x E). lra.
      * intros Hp Hw. inversion Hp as [|? ? Hb Hd]; subst. constructor; [cbn [snd]; rewrite Qred_correct; lra|exact Hd].
      * intros x. unfold scored. rewrite (sb_eqb_dmem _ _ x E). split.
        -- intros (bw' & [<-|Hin] & H); [left; exists bw; split; [left; reflexivity|exact H]|left; exists bw'; split; [right; exact Hin|exact H]].
        -- intros [(bw' & [<-|Hin] & H)|H].
           ++ exists (fst bw, Qred (snd bw + w)). split; [left; reflexivity|exact H].
           ++ exists bw'. split; [right; exact Hin|exact H].
           ++ exists (fst bw, Qred (snd bw + w)). split; [left; reflexivity|exact H].
    + unfold wtotal, wscore in *. split; [rewrite !lsum_cons, I1; lra|]. split; [|split].
      * intros x. rewrite !lsum_cons, I2. lra.
      * intros Hp Hw. inversion Hp as [|? ? Hb Hd]; subst. constructor; [exact Hb|apply I3; assumption].
      * intros x. unfold scored in *. split.
        -- intros (bw' & [<-|Hin] & H); [left; exists bw; split; [left; reflexivity|exact H]|].
           destruct (proj1 (I4 x) (ex_intro _ bw' (conj Hin H))) as [(bw2 & Hin2 & H2)|H2]; [left; exists bw2; split; [right; exact Hin2|exact H2]|right; exact H2].
        -- intros [(bw' & [<-|Hin] & H)|H].
           ++ exists bw. split; [left; reflexivity|exact H].
           ++ destruct (proj2 (I4 x) (or_introl (ex_intro _ bw' (conj Hin H)))) as (bw2 & Hin2 & H2). exists bw2. split; [right; exact Hin2|exact H2].
           ++ destruct (proj2 (I4 x) (or_intror H)) as (bw2 & Hin2 & H2). exists bw2. split; [right; exact Hin2|exact H2].
Qed.

Lemma drop_cand_bscore c b x : x <> c -> bscore (drop_cand c b) x == bscore b x.
Proof.
  intros Hne. unfold bscore, drop_cand. induction b as [|[k s] b IH]; [reflexivity|]. cbn [filter fst]. rewrite lsum_cons. cbn [fst snd].
  destruct (ceqb k c) eqn:E; cbn [negb].
  - apply ceqb_eq in E. subst k. assert (ceqb x c = false) as -> by (apply ceqb_neq; exact Hne). rewrite IH. lra.
  - rewrite lsum_cons, IH. reflexivity.
Qed.

Lemma drop_cand_dmem c b x : dmem (drop_cand c b) x = negb (ceqb x c) && dmem b x.
Proof.
  unfold dmem, drop_cand. induction b as [|[k s] b IH]; [destruct (ceqb x c); reflexivity|]. cbn [filter fst dget].
  destruct (ceqb k c) eqn:E; cbn [negb dget].
  - apply ceqb_eq in E. subst k. rewrite IH. destruct (ceqb x c); reflexivity.
  - destruct (ceqb x k) eqn:E2; [|exact IH]. apply ceqb_eq in E2. subst k. rewrite E. reflexivity.
Qed.

Lemma subset_out_fold c cur : forall d,
  let r := fold_left (fun d (bw : sballot * Q) => wadd d (drop_cand c (fst bw)) (snd bw)) cur d in
  wtotal r == wtotal d + wtotal cur /\
  (forall x, x <> c -> wscore r x == wscore d x + wscore cur x) /\
  (wpos d -> wpos cur -> wpos r) /\
  (forall x, scored x r <-> scored x d \/ (x <> c /\ scored x cur)).
Proof.
  induction cur as [|bw cur IH]; intros d; cbn [fold_left].
  - unfold wtotal, wscore, scored. cbn. split; [lra|]. split; [intros; lra|]. split; [auto|]. intros x. split; [auto|].
    intros [H|(_ & ? & [] & _)]. exact H.
  - destruct (IH (wadd d (drop_cand c (fst bw)) (snd bw))) as (I1 & I2 & I3 & I4).
    destruct (wadd_spec d (drop_cand c (fst bw)) (snd bw)) as (W1 & W2 & W3 & W4). cbv zeta in *. split; [|split; [|split]].
    + rewrite I1, W1. unfold wtotal. rewrite lsum_cons. lra.
    + intros x Hne. rewrite (I2 x Hne), W2, (drop_cand_bscore c _ x Hne). unfold wscore. rewrite lsum_cons. lra.
    + intros Hd Hc. inversion Hc as [|? ? Hb Hc']; subst. apply I3; [apply W3; assumption|exact Hc'].
    + intros x. rewrite I4, W4, drop_cand_dmem, andb_true_iff, negb_true_iff. unfold scored. split.
      * intros [[H|(Hne & Hm)]|(Hne & bw' & Hin & Hm)]; [left; exact H| |right; split; [exact Hne|exists bw'; split; [right; exact Hin|exact Hm]]].
        right. split; [apply ceqb_neq, Hne|exists bw; split; [left; reflexivity|exact Hm]].
      * intros [H|(Hne & bw' & [<-|Hin] & Hm)]; [left; left; exact H| |right; split; [exact Hne|exists bw'; auto]].
        left. right. split; [apply ceqb_neq, Hne|exact Hm].
Qed.

Lemma subset_out_spec c cur :
  wtotal (subset_out c cur) == wtotal cur /\
  (forall x, x <> c -> wscore (subset_out c cur) x == wscore cur x) /\
  (wpos cur -> wpos (subset_out c cur)) /\
  (forall x, scored x (subset_out c cur) <-> x <> c /\ scored x cur).
Proof.
  destruct (subset_out_fold c cur []) as (H1 & H2 & H3 & H4). cbv zeta in *. fold (subset_out c cur) in *.
  split; [rewrite H1; unfold wtotal; simpl; lra|]. split; [|split].
  - intros x Hne. rewrite (H2 x Hne). unfold wscore. simpl. lra.
  - intros Hp. apply H3; [constructor|exact Hp].
  - intros x. rewrite H4. split; [intros [(? & [] & _)|H]; exact H|auto].
Qed.

Lemma cut_at_scored c t f cur x : scored x (cut_at c t f cur) -> scored x cur.
Proof.
  intros ([b w] & Hin & Hm). apply cut_at_members in Hin. destruct Hin as (w0 & Hin & _). exists (b, w0). auto.
Qed.

(* ================================================================ one election *)
(* [mid] is [cur] after one quota [q] was taken from [c]'s strongest supporters: every supporter above some level
   t is exhausted, those at t keep the common share f < 1 (none of it when f = 0), everybody below t and every
   ballot that does not score [c] keeps its weight; the weight removed is min(q, weight of all supporters) *)
Definition removal_spec (c : C) (q : Q) (cur mid : wprofile) : Prop :=
  exists t f, mid = cut_at c t f cur /\ 0 <= f /\ f < 1 /\ (no_supporters c cur \/ has_score c cur t) /\
              wtotal mid == wtotal cur - Qmin q (asupport c cur).

Lemma removal_spec_wpos c q cur mid : wpos cur -> removal_spec c q cur mid -> wpos mid.
Proof. intros Hp (t & f & -> & Hf & _). apply cut_at_wpos; assumption. Qed.

Definition eliminated (gained : Z) (mx : option Z) : bool :=
  match mx with Some m => (gained =? m)%Z | None => false end.

Theorem subtract_votes_spec cur c gained mx q : wpos cur -> 0 < q ->
  match subtract_votes cur c gained mx q with
  | inr e => e = AE_value /\ crash_cond c cur q
  | inl cur' =>
      ~ crash_cond c cur q /\
      exists mid, removal_spec c q cur mid /\
                  cur' = (if eliminated gained mx then subset_out c mid else mid) /\
                  wtotal cur' == wtotal cur - Qmin q (asupport c cur) /\ wpos cur'
  end.
Proof.
  intros Hp Hq. unfold subtract_votes.
  pose proof (fraction_out_spec c (S (length cur)) cur q Hp (Nat.lt_succ_diag_r _) Hq) as H.
  destruct (fraction_out (S (length cur)) cur c q) as [mid|e].
  - destruct H as (Hnc & t & f & Hcut & Hf0 & Hf1 & Hw & Htot).
    assert (Hspec : removal_spec c q cur mid) by (exists t, f; auto).
    pose proof (removal_spec_wpos _ _ _ _ Hp Hspec) as Hpm.
    destruct (subset_out_spec c mid) as (S1 & _ & S3 & _).
    unfold eliminated. destruct mx as [m|]; [destruct (gained =? m)%Z|];
      (split; [exact Hnc|]; exists mid; split; [exact Hspec|]; split; [reflexivity|]);
      [split; [rewrite S1; exact Htot|apply S3, Hpm]|split; [exact Htot|exact Hpm]|split; [exact Htot|exact Hpm]].
  - destruct e; try contradiction. split; [reflexivity|exact H].
Qed.

Definition gained_of (cf : acfg) (el : elected) (c : C) : Z := (eget (eincr el c) c + dget_or (ac_prev cf) c 0)%Z.

Theorem elect_one_spec cf cur el c : wpos cur -> 0 < ac_quota cf ->
  match elect_one cf cur el c with
  | inr e => e = AE_value /\ crash_cond c cur (ac_quota cf)
  | inl (cur', el') =>
      el' = eincr el c /\ ~ crash_cond c cur (ac_quota cf) /\
      exists mid, removal_spec c (ac_quota cf) cur mid /\
                  cur' = (if eliminated (gained_of cf el c) (dget (ac_max cf) c) then subset_out c mid else mid) /\
                  wtotal cur' == wtotal cur - Qmin (ac_quota cf) (asupport c cur) /\ wpos cur'
  end.
Proof.
  intros Hp Hq. unfold elect_one.
  pose proof (subtract_votes_spec cur c (gained_of cf el c) (dget (ac_max cf) c) (ac_quota cf) Hp Hq) as H.
  unfold gained_of in *.
  destruct (subtract_votes cur c (eget (eincr el c) c + dget_or (ac_prev cf) c 0%Z)%Z (dget (ac_max cf) c) (ac_quota cf)) as [cur'|e].
  - split; [reflexivity|exact H].
  - exact H.
Qed.

(* a round without a tie *)
Theorem alloc_round cf cur el rem c rest : wpos cur -> 0 < ac_quota cf -> (0 < rem)%nat ->
  get_n_best Qle_bool (sum_scores cur) 1 = Cand c :: rest ->
  (scored c cur /\ forall d, scored d cur -> d <> c -> wscore cur d < wscore cur c) /\
  match alloc_step cf cur el rem with
  | AS_next cur' el' rem' =>
      el' = eincr el c /\ rem' = (rem - 1)%nat /\ ~ crash_cond c cur (ac_quota cf) /\
      exists mid, removal_spec c (ac_quota cf) cur mid /\
                  cur' = (if eliminated (gained_of cf el c) (dget (ac_max cf) c) then subset_out c mid else mid) /\
                  wtotal cur' == wtotal cur - Qmin (ac_quota cf) (asupport c cur) /\ wpos cur'
  | AS_err e => e = AE_value /\ crash_cond c cur (ac_quota cf)
  | AS_done _ => False
  end.
Proof.
  intros Hp Hq Hrem Hbest. split; [exact (alloc_winner_greatest cur c rest Hbest)|].
  unfold alloc_step. destruct rem as [|rem']; [lia|]. rewrite Hbest.
  pose proof (elect_one_spec cf cur el c Hp Hq) as H.
  destruct (elect_one cf cur el c) as [[cur' el']|e]; [|exact H].
  destruct H as (H1 & H2 & H3). split; [exact H1|]. split; [reflexivity|]. split; [exact H2|exact H3].
Qed.

(* ================================================================ every round of the run *)
Lemma elect_all_wpos cf tied : forall cur el cur' el', wpos cur -> 0 < ac_quota cf ->
  elect_all cf tied cur el = inl (cur', el') -> wpos cur'.
Proof.
  induction tied as [|c tied IH]; intros cur el cur' el' Hp Hq; cbn [elect_all]; [intros [= <- _]; exact Hp|].
  pose proof (elect_one_spec cf cur el c Hp Hq) as H.
  destruct (elect_one cf cur el c) as [[cur1 el1]|e]; [|discriminate].
  destruct H as (_ & _ & mid & _ & _ & _ & Hp1). intros Hall. exact (IH _ _ _ _ Hp1 Hq Hall).
Qed.

Lemma alloc_step_wpos cf cur el rem cur' el' rem' : wpos cur -> 0 < ac_quota cf ->
  alloc_step cf cur el rem = AS_next cur' el' rem' -> wpos cur'.
Proof.
  intros Hp Hq. unfold alloc_step. destruct rem as [|r]; [discriminate|].
  destruct (get_n_best Qle_bool (sum_scores cur) 1) as [|[c|t] rest]; [discriminate| |].
  - pose proof (elect_one_spec cf cur el c Hp Hq) as H.
    destruct (elect_one cf cur el c) as [[cur1 el1]|e]; [|discriminate]. intros [= <- _ _].
    destruct H as (_ & _ & mid & _ & _ & _ & Hp1). exact Hp1.
  - destruct (Nat.leb (length t) (S r)); [|discriminate].
    destruct (elect_all cf (tie_iter (ac_orders cf) t) cur el) as [[cur1 el1]|e] eqn:E; [|discriminate].
    intros [= <- _ _]. exact (elect_all_wpos cf _ _ _ _ _ Hp Hq E).
Qed.

(* the states the loop goes through *)
Inductive areach (cf : acfg) (cur0 : wprofile) (el0 : elected) (rem0 : nat) : wprofile -> elected -> nat -> Prop :=
| AR_start : areach cf cur0 el0 rem0 cur0 el0 rem0
| AR_step cur el rem cur' el' rem' :
    areach cf cur0 el0 rem0 cur el rem -> alloc_step cf cur el rem = AS_next cur' el' rem' ->
    areach cf cur0 el0 rem0 cur' el' rem'.

Lemma areach_wpos cf cur0 el0 rem0 cur el rem : wpos cur0 -> 0 < ac_quota cf ->
  areach cf cur0 el0 rem0 cur el rem -> wpos cur.
Proof.
  intros Hp Hq H. induction H as [|cur el rem cur' el' rem' _ IH Hstep]; [exact Hp|].
  exact (alloc_step_wpos cf cur el rem cur' el' rem' IH Hq Hstep).
Qed.

Lemma areach_trans cf c0 e0 r0 c1 e1 r1 c2 e2 r2 :
  areach cf c0 e0 r0 c1 e1 r1 -> areach cf c1 e1 r1 c2 e2 r2 -> areach cf c0 e0 r0 c2 e2 r2.
Proof. intros H1 H2. induction H2; [exact H1|]. eapply AR_step; eassumption. Qed.

(* the answer of the loop is the dictionary of the last state it reaches *)
Lemma alloc_loop_reach cf : forall fuel cur el rem e, alloc_loop fuel cf cur el rem = inl e ->
  exists cur1 el1 rem1, areach cf cur el rem cur1 el1 rem1 /\ alloc_step cf cur1 el1 rem1 = AS_done e.
Proof.
  induction fuel as [|fuel IH]; intros cur el rem e; cbn [alloc_loop]; [discriminate|].
  destruct (alloc_step cf cur el rem) as [cur' el' rem'|e'|e'] eqn:E.
  - intros H. destruct (IH _ _ _ _ H) as (c1 & e1 & r1 & Hr & Hd). exists c1, e1, r1. split; [|exact Hd].
    eapply areach_trans; [|exact Hr]. eapply AR_step; [apply AR_start|exact E].
  - intros [= <-]. exists cur, el, rem. split; [apply AR_start|exact E].
  - discriminate.
Qed.

Lemma alloc_loop_err_reach cf : forall fuel cur el rem e, alloc_loop fuel cf cur el rem = inr e -> e <> AE_fuel ->
  exists cur1 el1 rem1, areach cf cur el rem cur1 el1 rem1 /\ alloc_step cf cur1 el1 rem1 = AS_err e.
Proof.
  induction fuel as [|fuel IH]; intros cur el rem e; cbn [alloc_loop]; [intros [= <-] H; congruence|].
  destruct (alloc_step cf cur el rem) as [cur' el' rem'|e'|e'] eqn:E.
  - intros H Hne. destruct (IH _ _ _ _ H Hne) as (c1 & e1 & r1 & Hr & Hd). exists c1, e1, r1. split; [|exact Hd].
    eapply areach_trans; [|exact Hr]. eapply AR_step; [apply AR_start|exact E].
  - discriminate.
  - intros [= <-] _. exists cur, el, rem. split; [apply AR_start|exact E].
Qed.

(* the fuel of alloc_distribute is enough: every pass fills at least one seat *)
Lemma tie_nonempty (votes : list (C * Q)) n T : In (TieR T) (get_n_best Qle_bool votes n) -> T <> [].
Proof.
  intros H. destruct (get_n_best_tie_members Qle_bool Qle_bool_trans votes n T H) as (thr & -> & c & Hin).
  intros Hnil.
  assert (Hf : In (c, thr) (filter (fun it : C * Q => GetNBest.eqv Qle_bool (snd it) thr) votes)).
  { apply filter_In. split; [exact Hin|]. apply eqv_refl. exact Qle_bool_total. }
  apply (in_map fst) in Hf. rewrite Hnil in Hf. destruct Hf.
Qed.

Lemma elect_all_err cf tied : forall cur el e, wpos cur -> 0 < ac_quota cf ->
  elect_all cf tied cur el = inr e -> e = AE_value.
Proof.
  induction tied as [|c tied IH]; intros cur el e Hp Hq; cbn [elect_all]; [discriminate|].
  pose proof (elect_one_spec cf cur el c Hp Hq) as H.
  destruct (elect_one cf cur el c) as [[cur1 el1]|e1].
  - destruct H as (_ & _ & mid & _ & _ & _ & Hp1). intros Hall. exact (IH _ _ _ Hp1 Hq Hall).
  - intros [= <-]. apply H.
Qed.

Lemma alloc_step_err cf cur el rem e : wpos cur -> 0 < ac_quota cf ->
  alloc_step cf cur el rem = AS_err e -> e = AE_value \/ e = AE_index.
Proof.
  intros Hp Hq. unfold alloc_step. destruct rem as [|r]; [discriminate|].
  destruct (get_n_best Qle_bool (sum_scores cur) 1) as [|[c|t] rest]; [intros [= <-]; right; reflexivity| |].
  - pose proof (elect_one_spec cf cur el c Hp Hq) as H.
    destruct (elect_one cf cur el c) as [[cur1 el1]|e1]; [discriminate|]. intros [= <-]. left. apply H.
  - destruct (Nat.leb (length t) (S r)); [|discriminate].
    destruct (elect_all cf (tie_iter (ac_orders cf) t) cur el) as [[cur1 el1]|e1] eqn:E; [discriminate|].
    intros [= <-]. left. exact (elect_all_err cf _ _ _ _ Hp Hq E).
Qed.

Lemma alloc_step_rem cf cur el rem cur' el' rem' :
  alloc_step cf cur el rem = AS_next cur' el' rem' -> (rem' < rem)%nat.
Proof.
  unfold alloc_step. destruct rem as [|r]; [discriminate|].
  destruct (get_n_best Qle_bool (sum_scores cur) 1) as [|[c|t] rest] eqn:Eb; [discriminate| |].
  - destruct (elect_one cf cur el c) as [[cur1 el1]|e1]; [|discriminate]. intros [= _ _ <-]. lia.
  - destruct (Nat.leb (length t) (S r)); [|discriminate].
    destruct (elect_all cf (tie_iter (ac_orders cf) t) cur el) as [[cur1 el1]|e1]; [|discriminate].
    intros [= _ _ <-]. assert (Ht : t <> []).
    { apply (tie_nonempty (sum_scores cur) 1). rewrite Eb. left. reflexivity. }
    destruct t; [congruence|]. cbn [length]. lia.
Qed.

(* the loop never runs out of its fuel *)
Theorem alloc_loop_fuel cf : forall fuel cur el rem, wpos cur -> 0 < ac_quota cf -> (rem < fuel)%nat ->
  alloc_loop fuel cf cur el rem <> inr AE_fuel.
Proof.
  induction fuel as [|fuel IH]; intros cur el rem Hp Hq Hlt; [lia|]. cbn [alloc_loop].
  destruct (alloc_step cf cur el rem) as [cur' el' rem'|e'|e'] eqn:E.
  - apply IH; [exact (alloc_step_wpos _ _ _ _ _ _ _ Hp Hq E)|exact Hq|]. pose proof (alloc_step_rem _ _ _ _ _ _ _ E). lia.
  - discriminate.
  - destruct (alloc_step_err _ _ _ _ _ Hp Hq E) as [->| ->]; discriminate.
Qed.

(* every round without a tie, anywhere in the run *)
Theorem alloc_every_round cf votes n cur el rem c rest : wpos votes -> 0 < ac_quota cf ->
  areach cf votes [] n cur el rem -> (0 < rem)%nat ->
  get_n_best Qle_bool (sum_scores cur) 1 = Cand c :: rest ->
  (scored c cur /\ forall d, scored d cur -> d <> c -> wscore cur d < wscore cur c) /\
  match alloc_step cf cur el rem with
  | AS_next cur' el' rem' =>
      el' = eincr el c /\ rem' = (rem - 1)%nat /\ ~ crash_cond c cur (ac_quota cf) /\
      exists mid, removal_spec c (ac_quota cf) cur mid /\
                  cur' = (if eliminated (gained_of cf el c) (dget (ac_max cf) c) then subset_out c mid else mid) /\
                  wtotal cur' == wtotal cur - Qmin (ac_quota cf) (asupport c cur) /\ wpos cur'
  | AS_err e => e = AE_value /\ crash_cond c cur (ac_quota cf)
  | AS_done _ => False
  end.
Proof.
  intros Hp Hq Hr Hrem Hb. apply (alloc_round cf cur el rem c rest); try assumption. exact (areach_wpos _ _ _ _ _ _ _ Hp Hq Hr).
Qed.

(* ================================================================ the selector: winners leave the ballots *)
Lemma eget_eincr el c x : eget (eincr el c) x = if ceqb x c then (eget el c + 1)%Z else eget el x.
Proof.
  induction el as [|[r k] el IH]; cbn [eincr eget].
  - cbn [res_is fst snd]. destruct (ceqb x c); reflexivity.
  - cbn [fst snd]. destruct (res_is c r) eqn:Ec; cbn [eget fst snd].
    + destruct r as [c'|t]; [|discriminate]. cbn [res_is] in *. apply ceqb_eq in Ec. subst c'.
      destruct (ceqb x c); reflexivity.
    + rewrite IH. destruct (ceqb x c) eqn:Ex; [|reflexivity].
      apply ceqb_eq in Ex. subst x. rewrite Ec. reflexivity.
Qed.

Lemma dget_map_one (l : list C) x : In x l -> dget (map (fun c => (c, 1%Z)) l) x = Some 1%Z.
Proof.
  induction l as [|y l IH]; intros Hin; [destruct Hin|]. cbn [map dget].
  destruct (ceqb x y) eqn:E; [reflexivity|]. apply IH. destruct Hin as [->|H]; [rewrite ceqb_refl in E; discriminate|exact H].
Qed.

Lemma scored_all_scored x votes : scored x votes -> In x (all_scored votes).
Proof.
  intros (bw & Hin & Hm). unfold all_scored. apply in_flat_map. exists bw. split; [exact Hin|]. apply dmem_keys, Hm.
Qed.

Definition sel_like (votes : wprofile) (cf : acfg) : Prop :=
  ac_prev cf = [] /\ ac_max cf = map (fun c => (c, 1%Z)) (all_scored votes).
(* nobody who holds a seat is scored on a remaining ballot, and only candidates of the election are *)
Definition sel_inv (votes cur : wprofile) (el : elected) : Prop :=
  forall x, scored x cur -> eget el x = 0%Z /\ In x (all_scored votes).

Lemma elect_one_sel votes cf cur el c cur' el' : sel_like votes cf -> wpos cur -> 0 < ac_quota cf ->
  sel_inv votes cur el -> elect_one cf cur el c = inl (cur', el') ->
  sel_inv votes cur' el' /\
  (scored c cur -> exists mid, removal_spec c (ac_quota cf) cur mid /\ cur' = subset_out c mid).
Proof.
  intros (Hprev & Hmax) Hp Hq HJ He. pose proof (elect_one_spec cf cur el c Hp Hq) as H. rewrite He in H.
  destruct H as (-> & _ & mid & Hspec & Hcur' & _ & _).
  assert (Helim : scored c cur -> eliminated (gained_of cf el c) (dget (ac_max cf) c) = true).
  { intros Hsc. destruct (HJ c Hsc) as (H0 & Hin). unfold gained_of, eliminated.
    rewrite Hmax, (dget_map_one _ _ Hin), Hprev, eget_eincr, ceqb_refl, H0. reflexivity. }
  assert (Hsub : forall x, scored x cur' -> scored x cur /\ x <> c).
  { intros x Hx. destruct Hspec as (t & f & Hmid & _).
    destruct (eliminated (gained_of cf el c) (dget (ac_max cf) c)) eqn:Ee; subst cur'.
    - apply (subset_out_spec c mid) in Hx. destruct Hx as (Hne & Hx). subst mid. split; [exact (cut_at_scored _ _ _ _ _ Hx)|exact Hne].
    - subst mid. pose proof (cut_at_scored _ _ _ _ _ Hx) as Hx'. split; [exact Hx'|]. intros Hxc. subst x.
      pose proof (Helim Hx') as Ht. congruence. }
  split.
  - intros x Hx. destruct (Hsub x Hx) as (Hx' & Hne). destruct (HJ x Hx') as (H0 & Hin). split; [|exact Hin].
    rewrite eget_eincr. assert (ceqb x c = false) as -> by (apply ceqb_neq; exact Hne). exact H0.
  - intros Hsc. exists mid. split; [exact Hspec|]. rewrite (Helim Hsc) in Hcur'. exact Hcur'.
Qed.

Lemma elect_all_sel votes cf tied : forall cur el cur' el', sel_like votes cf -> wpos cur -> 0 < ac_quota cf ->
  sel_inv votes cur el -> elect_all cf tied cur el = inl (cur', el') -> sel_inv votes cur' el'.
Proof.
  induction tied as [|c tied IH]; intros cur el cur' el' Hs Hp Hq HJ; cbn [elect_all]; [intros [= <- <-]; exact HJ|].
  destruct (elect_one cf cur el c) as [[cur1 el1]|e] eqn:E; [|discriminate]. intros Hall.
  destruct (elect_one_sel votes cf cur el c cur1 el1 Hs Hp Hq HJ E) as (HJ1 & _).
  pose proof (elect_one_spec cf cur el c Hp Hq) as H. rewrite E in H. destruct H as (_ & _ & mid & _ & _ & _ & Hp1).
  exact (IH _ _ _ _ Hs Hp1 Hq HJ1 Hall).
Qed.

Lemma areach_sel votes cf n cur el rem : sel_like votes cf -> wpos votes -> 0 < ac_quota cf ->
  areach cf votes [] n cur el rem -> sel_inv votes cur el.
Proof.
  intros Hs Hp Hq H. induction H as [|cur el rem cur' el' rem' Hr IH Hstep].
  - intros x Hx. split; [reflexivity|apply scored_all_scored, Hx].
  - pose proof (areach_wpos _ _ _ _ _ _ _ Hp Hq Hr) as Hpc. revert Hstep. unfold alloc_step.
    destruct rem as [|r]; [discriminate|].
    destruct (get_n_best Qle_bool (sum_scores cur) 1) as [|[c|t] rest]; [discriminate| |].
    + destruct (elect_one cf cur el c) as [[cur1 el1]|e] eqn:E; [|discriminate]. intros [= <- <- _].
      exact (proj1 (elect_one_sel votes cf cur el c cur1 el1 Hs Hpc Hq IH E)).
    + destruct (Nat.leb (length t) (S r)); [|discriminate].
      destruct (elect_all cf (tie_iter (ac_orders cf) t) cur el) as [[cur1 el1]|e] eqn:E; [|discriminate].
      intros [= <- <- _]. exact (elect_all_sel votes cf _ _ _ _ _ Hs Hpc Hq IH E).
Qed.

(* AllocatedScoreSelector, every round without a tie: the winner holds no seat yet, has strictly the greatest
   weighted score sum among the candidates still scored (nobody who holds a seat is), exactly one quota - or all
   it has - leaves its strongest supporters first, and it then leaves every ballot (the other candidates' score
   sums over the cut ballots are untouched) *)
Theorem alloc_select_round votes cf n cur el rem c rest cur' el' rem' :
  sel_like votes cf -> wpos votes -> 0 < ac_quota cf ->
  areach cf votes [] n cur el rem -> (0 < rem)%nat ->
  get_n_best Qle_bool (sum_scores cur) 1 = Cand c :: rest ->
  alloc_step cf cur el rem = AS_next cur' el' rem' ->
  eget el c = 0%Z /\ (forall x, eget el x <> 0%Z -> ~ scored x cur) /\
  (scored c cur /\ forall d, scored d cur -> d <> c -> wscore cur d < wscore cur c) /\
  el' = eincr el c /\ rem' = (rem - 1)%nat /\
  exists mid, removal_spec c (ac_quota cf) cur mid /\ cur' = subset_out c mid /\
              wtotal cur' == wtotal cur - Qmin (ac_quota cf) (asupport c cur) /\
              ~ scored c cur' /\ forall x, x <> c -> wscore cur' x == wscore mid x.
Proof.
  intros Hs Hp Hq Hr Hrem Hb Hstep.
  pose proof (areach_sel votes cf n cur el rem Hs Hp Hq Hr) as HJ.
  pose proof (areach_wpos _ _ _ _ _ _ _ Hp Hq Hr) as Hpc.
  destruct (alloc_round cf cur el rem c rest Hpc Hq Hrem Hb) as (Hwin & Hst). rewrite Hstep in Hst.
  destruct Hst as (Hel & Hrem' & _ & mid0 & _ & _ & Htot & _).
  split; [exact (proj1 (HJ c (proj1 Hwin)))|]. split; [intros x Hx Hsc; exact (Hx (proj1 (HJ x Hsc)))|].
  split; [exact Hwin|]. split; [exact Hel|]. split; [exact Hrem'|].
  assert (E : elect_one cf cur el c = inl (cur', el')).
  { revert Hstep. unfold alloc_step. destruct rem as [|r]; [lia|]. rewrite Hb.
    destruct (elect_one cf cur el c) as [[c1 e1]|e]; [|discriminate]. intros [= <- <- _]. reflexivity. }
  destruct (elect_one_sel votes cf cur el c cur' el' Hs Hpc Hq HJ E) as (_ & Hsub).
  destruct (Hsub (proj1 Hwin)) as (mid & Hspec & Hcur'). exists mid. split; [exact Hspec|]. split; [exact Hcur'|].
  split; [exact Htot|]. destruct (subset_out_spec c mid) as (_ & S2 & _ & S4). subst cur'. split.
  - intros Hsc. apply S4 in Hsc. destruct Hsc as (Hne & _). congruence.
  - exact S2.
Qed.

(* the quota of the named functions used here is positive for a non-empty electorate *)
Lemma wtotal_pos votes : wpos votes -> votes <> [] -> 0 < wtotal votes.
Proof.
  intros Hp Hne. destruct votes as [|bw votes]; [congruence|]. unfold wtotal.
  apply (lsum_pos_in (fun bw : sballot * Q => snd bw) (bw :: votes) bw).
  - intros y Hy. pose proof (wpos_in _ _ Hp Hy). lra.
  - left. reflexivity.
  - exact (wpos_in _ _ Hp (or_introl eq_refl)).
Qed.

Lemma alloc_quota_pos i orders votes n prev mx : (i = 1 \/ i = 3)%Z -> wpos votes -> votes <> [] -> (1 <= n)%nat ->
  0 < ac_quota (alloc_cfg (QNamed i) orders votes n prev mx).
Proof.
  intros Hi Hp Hne Hn. unfold alloc_cfg. cbn [ac_quota]. rewrite Qred_correct.
  pose proof (wtotal_pos votes Hp Hne) as Ht. unfold wtotal in Ht. rewrite <- (lsum_map snd (fun x => x)), <- qsum_lsum in Ht.
  assert (Hnz : 0 < inject_Z (Z.of_nat n)). { change 0 with (inject_Z 0). rewrite <- Zlt_Qlt. lia. }
  destruct Hi as [-> | ->]; cbn [quota_fn Z.eqb Pos.eqb].
  - unfold hare. apply Qlt_shift_div_l; [exact Hnz|lra].
  - unfold droop, qfloor.
    assert (H0 : 0 <= qsum (map snd votes) / inject_Z (Z.of_nat n + 1)).
    { apply Qle_shift_div_l; [change 0 with (inject_Z 0); rewrite <- Zlt_Qlt; lia|lra]. }
    assert (Hfl : (0 <= Qfloor (qsum (map snd votes) / inject_Z (Z.of_nat n + 1)))%Z).
    { change 0%Z with (Qfloor 0). apply Qfloor_resp_le, H0. }
    assert (0 <= inject_Z (Qfloor (qsum (map snd votes) / inject_Z (Z.of_nat n + 1)))).
    { change 0 with (inject_Z 0). rewrite <- Zle_Qle. exact Hfl. }
    lra.
Qed.

(* ================================================================ the answer of the run *)
Theorem alloc_distribute_run qs orders votes n prev mx :
  let cf := alloc_cfg qs orders votes n prev mx in
  wpos votes -> 0 < ac_quota cf ->
  match alloc_distribute qs orders votes n prev mx with
  | inl e => exists cur el rem, areach cf votes [] n cur el rem /\ alloc_step cf cur el rem = AS_done e
  | inr AE_fuel => False
  | inr AE_zerodiv => n = 0%nat
  | inr e => exists cur el rem, areach cf votes [] n cur el rem /\ alloc_step cf cur el rem = AS_err e
  end.
Proof.
  intros cf Hp Hq. unfold alloc_distribute.
  destruct (quota_divides_by_seats qs && Nat.eqb n 0) eqn:E0.
  { apply andb_true_iff in E0. apply Nat.eqb_eq, E0. }
  fold cf. pose proof (alloc_loop_fuel cf (S n) votes [] n Hp Hq (Nat.lt_succ_diag_r n)) as Hfuel.
  destruct (alloc_loop (S n) cf votes [] n) as [e|e] eqn:E.
  - exact (alloc_loop_reach cf _ _ _ _ _ E).
  - assert (Hne : e <> AE_fuel) by (intros ->; apply Hfuel; reflexivity).
    destruct (alloc_loop_err_reach cf _ _ _ _ _ E Hne) as (c1 & e1 & r1 & Hr & Hs).
    pose proof (areach_wpos _ _ _ _ _ _ _ Hp Hq Hr) as Hp1.
    destruct (alloc_step_err _ _ _ _ _ Hp1 Hq Hs) as [-> | ->]; exists c1, e1, r1; split; assumption.
Qed.

(* strongest first, ballot by ballot: when a supporter loses anything, every supporter who scored the winner
   strictly higher is exhausted *)
Lemma cut_one_order c t f (bw1 bw2 : sballot * Q) s1 s2 :
  dget (fst bw1) c = Some s1 -> dget (fst bw2) c = Some s2 -> s2 < s1 ->
  cut_one c t f bw2 <> [bw2] -> cut_one c t f bw1 = [].
Proof.
  intros H1 H2 Hlt Hne. unfold cut_one in *. rewrite H1. rewrite H2 in Hne.
  destruct (Qle_bool s2 t) eqn:E2.
  - apply Qle_bool_iff in E2. destruct (Qeq_bool s2 t) eqn:E3; [|congruence].
    apply Qeq_bool_iff in E3. assert (E1 : Qle_bool s1 t = false) by (apply Qle_bool_false; lra). rewrite E1. reflexivity.
  - apply Qle_bool_false in E2. assert (E1 : Qle_bool s1 t = false) by (apply Qle_bool_false; lra). rewrite E1. reflexivity.
Qed.

(* ================================================================ where the code leaves the defining clause *)
Definition b1 (l : list (positive * Z)) : sballot := map (fun cs => (fst cs, inject_Z (snd cs))) l.

(* an ordinary two-party election, Hare quota, two seats: the larger party's leftover ballot becomes an EMPTY
   ballot once its candidate is elected and removed, and the next subtraction raises ValueError *)
Definition w_crash : wprofile := [(b1 [(1%positive, 5%Z)], 4); (b1 [(2%positive, 5%Z)], 2)].
Lemma alloc_crash_witness :
  wposb w_crash = true /\ alloc_select (QNamed 1) [] w_crash 2 = inr AE_value /\
  alloc_select (QNamed 3) [] [(b1 [(1%positive, 5%Z)], 2); (b1 [(2%positive, 5%Z)], 1)] 2 = inr AE_value.
Proof. vm_compute. auto. Qed.

(* three candidates level for two seats: ONE tie entry stands for both seats *)
Definition w_tie3 : wprofile := [(b1 [(1%positive, 1%Z)], 1); (b1 [(2%positive, 1%Z)], 1); (b1 [(3%positive, 1%Z)], 1)].
Lemma alloc_tie_shape_witness :
  alloc_select (QNamed 1) [] w_tie3 2 = inl [TieR [1%positive; 2%positive; 3%positive]].
Proof. vm_compute. reflexivity. Qed.

(* two candidates level for two seats are both elected, one after the other in the iteration order of the Tie
   frozenset: one order crashes, the other answers *)
Definition w_order : wprofile := [(b1 [(1%positive, 3%Z); (2%positive, 4%Z)], 4); (b1 [(1%positive, 1%Z)], 4)].
Lemma alloc_tie_order_witness :
  alloc_select (QNamed 1) [[1%positive; 2%positive]] w_order 2 = inr AE_value /\
  alloc_select (QNamed 1) [[2%positive; 1%positive]] w_order 2 = inl [Cand 2%positive; Cand 1%positive].
Proof. vm_compute. auto. Qed.

(* ... and the second of them gets its seat although it is not scored on any remaining ballot (score sum 0)
   while another candidate has a positive score sum *)
Definition w_second : wprofile := [(b1 [(1%positive, 5%Z); (2%positive, 5%Z)], 2); (b1 [(3%positive, 4%Z)], 2)].
Lemma alloc_tie_second_witness :
  let cf := alloc_cfg (QNamed 1) [[2%positive; 1%positive]] w_second 2 [] (map (fun c => (c, 1%Z)) (all_scored w_second)) in
  alloc_select (QNamed 1) [[2%positive; 1%positive]] w_second 2 = inl [Cand 2%positive; Cand 1%positive] /\
  exists cur1 el1, elect_one cf w_second [] 2%positive = inl (cur1, el1) /\
                   wscore cur1 1%positive < wscore cur1 3%positive /\ wscore cur1 1%positive == 0.
Proof.
  cbv zeta. split; [vm_compute; reflexivity|].
  eexists. eexists. split; [vm_compute; reflexivity|]. split; vm_compute; reflexivity.
Qed.

(* a ballot of weight 0 at the winner's top level stops the subtraction: positive weights are needed *)
Definition w_zero : wprofile := [(b1 [(1%positive, 5%Z)], 0); (b1 [(1%positive, 3%Z)], 2); (b1 [(2%positive, 1%Z)], 1)].
Lemma alloc_zero_weight_witness :
  fraction_out 4 w_zero 1%positive 2 = inl w_zero /\ asupport 1%positive w_zero == 2 /\ wposb w_zero = false.
Proof. vm_compute. auto. Qed.

(* the hypotheses are satisfiable: a run of three rounds *)
Definition w_example : wprofile :=
  [(b1 [(1%positive, 5%Z); (2%positive, 4%Z); (3%positive, 0%Z)], 3); (b1 [(1%positive, 4%Z); (2%positive, 5%Z)], 2);
   (b1 [(2%positive, 0%Z); (3%positive, 5%Z)], 3); (b1 [(1%positive, 1%Z); (3%positive, 2%Z); (4%positive, 3%Z)], 2)].
Lemma alloc_example :
  wposb w_example = true /\
  alloc_select (QNamed 3) [] w_example 3 = inl [Cand 1%positive; Cand 3%positive; Cand 2%positive] /\
  alloc_select (QNamed 1) [] w_example 2 = inl [Cand 1%positive; Cand 3%positive].
Proof. vm_compute. auto. Qed.
