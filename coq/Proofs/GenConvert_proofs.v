(* Lemmas about the primitives of Prelude/PyConv.v and about folds, shared by Props/GenTie_Convert.v and Props/GenTie_ConvertPairs.v.
   Nothing here is about generated code (no Gen.* import): loops are characterised through abstract step functions. *)
From Coq Require Import ZArith QArith List Bool Lia Arith Permutation.
From VL Require Import Prelude.Sx Prelude.PyDict Prelude.GDict Prelude.PyNum Prelude.PyList Prelude.PySeq Prelude.PyConv Model.GetNBest
     Model.Convert Model.Convert2 Proofs.Convert_proofs Proofs.Convert2_proofs Proofs.JR_proofs Proofs.ChainCands_proofs.
Import ListNotations.
Open Scope Q_scope.

(* ---- the dictionary primitives respect deq *)
Lemma deq_dd_add a b k x y : deq a b -> x == y -> deq (py_dd_add a k x) (gadd sx_eqb b k y).
Proof.
  intros H Hxy. induction H as [|[k1 v1] [k2 v2] a b [H1 H2] Hab IH]; cbn [py_dd_add gadd fst snd] in *.
  - constructor; [split; [reflexivity|cbn [snd]; rewrite Hxy; apply Qplus_0_l]|constructor].
  - subst k2. destruct (sx_eqb k k1).
    + constructor; [split; [reflexivity|cbn [snd]; rewrite H2, Hxy; reflexivity]|assumption].
    + constructor; [split; [reflexivity|exact H2]|exact IH].
Qed.

Lemma deq_set_get a b k x y : deq a b -> x == y ->
  deq (py_dict_set a k (py_dict_get a k (inject_Z 0) + x)) (gadd sx_eqb b k y).
Proof.
  unfold py_dict_set. intros H Hxy. induction H as [|[k1 v1] [k2 v2] a b [H1 H2] Hab IH]; cbn [py_dict_get gset gadd fst snd] in *.
  - constructor; [split; [reflexivity|cbn [snd]; rewrite Hxy; apply Qplus_0_l]|constructor].
  - subst k2. destruct (sx_eqb k k1).
    + constructor; [split; [reflexivity|cbn [snd]; rewrite H2, Hxy; reflexivity]|assumption].
    + constructor; [split; [reflexivity|exact H2]|exact IH].
Qed.

(* ---- a loop is the model's fold when one iteration is *)
Lemma deq_fold {X} (f g : fdict -> X -> fdict) (l : list X) :
  (forall a b x, deq a b -> deq (f a x) (g b x)) -> forall a b, deq a b -> deq (fold_left f l a) (fold_left g l b).
Proof. intros H. induction l as [|x l IH]; intros a b Hab; cbn [fold_left]; [exact Hab|]. apply IH, H, Hab. Qed.

Lemma fold_left_map' {X Y Z} (f : Z -> Y -> Z) (g : X -> Y) (l : list X) : forall a,
  fold_left f (map g l) a = fold_left (fun a x => f a (g x)) l a.
Proof. induction l as [|x l IH]; intros a; cbn [map fold_left]; [reflexivity|apply IH]. Qed.

(* the model's inner step: output[key] += coefficient * weight *)
Definition madd (w : Q) (acc : fdict) (kc : sx * Q) : fdict := gadd sx_eqb acc (fst kc) (snd kc * w).

(* a loop `for x in l: output[key x] += val x` is the model's inner fold over the image [(key x, coefficient x)] *)
Lemma inner_char {X} (key : X -> sx) (val coefn : X -> Q) (w : Q) (l : list X) :
  (forall x, In x l -> val x == coefn x * w) ->
  forall a b, deq a b ->
  deq (fold_left (fun acc x => py_dd_add acc (key x) (val x)) l a)
      (fold_left (madd w) (map (fun x => (key x, coefn x)) l) b).
Proof.
  induction l as [|x l IH]; intros H a b Hab; cbn [fold_left map]; [exact Hab|].
  apply IH; [intros y Hy; apply H; right; exact Hy|]. unfold madd at 1. cbn [fst snd].
  apply deq_dd_add; [exact Hab|apply H; left; reflexivity].
Qed.

(* a loop collecting the candidates of a ranking, whatever its body: pointwise it appends the members of the item *)
Lemma flatten_char (step : list C -> item -> list C) (r : ranked) :
  (forall vc it, step vc it = vc ++ members it) -> forall acc, fold_left step r acc = acc ++ flatten r.
Proof.
  intros H. induction r as [|i r IH]; intros acc; cbn [fold_left flatten flat_map]; [rewrite app_nil_r; reflexivity|].
  rewrite IH, H, <- app_assoc. reflexivity.
Qed.

Lemma dconv_unfold {B} (img : B -> list (sx * Q)) votes :
  dconv img votes = fold_left (fun acc bw => fold_left (madd (snd bw)) (img (fst bw)) acc) votes [].
Proof. reflexivity. Qed.

Lemma canon_set_nil_iff l : canon_set l = [] <-> l = [].
Proof.
  split; [|intros ->; reflexivity]. intros H. destruct l as [|x t]; [reflexivity|].
  destruct (canon_set_spec (x :: t)) as [_ S]. assert (I : In x (canon_set (x :: t))) by (apply S; left; reflexivity).
  rewrite H in I. destruct I.
Qed.

Lemma py_len_pos {X} (l : list X) : (0 <? py_len l)%Z = match l with [] => false | _ => true end.
Proof. destruct l; [reflexivity|]. unfold py_len. cbn [length]. apply Z.ltb_lt. lia. Qed.


(* ---- images that are permutations of each other convert to the same dictionary (as Python compares dictionaries) *)
Lemma coef_perm (a b : list (sx * Q)) k : Permutation a b -> coefx a k == coefx b k.
Proof.
  induction 1 as [|x a b _ IH|x y a|a b c _ IH1 _ IH2]; cbn [coef fold_right]; try reflexivity.
  - unfold coef in IH. rewrite IH. reflexivity.
  - ring.
  - rewrite IH1. exact IH2.
Qed.

Lemma dconv_perm_images {B} (img img' : B -> list (sx * Q)) (votes : list (B * Q)) :
  (forall b, Permutation (img b) (img' b)) -> dsim (dconv img votes) (dconv img' votes).
Proof.
  intros H. repeat split; try apply nodup_conv.
  - unfold dconv, conv. rewrite !keys_conv_from. intros [I|(bw & I1 & I2)]; [left; exact I|right; exists bw; split; [exact I1|]].
    unfold keys in *. apply (Permutation_in _ (Permutation_map fst (H (fst bw)))). exact I2.
  - unfold dconv, conv. rewrite !keys_conv_from. intros [I|(bw & I1 & I2)]; [left; exact I|right; exists bw; split; [exact I1|]].
    unfold keys in *. apply (Permutation_in _ (Permutation_sym (Permutation_map fst (H (fst bw))))). exact I2.
  - intros k. unfold dconv. rewrite !(conv_value sx_eqb sx_eqb_spec). unfold total.
    induction votes as [|[b w] votes IH]; cbn [fold_right fst snd]; [reflexivity|]. rewrite IH, (coef_perm _ _ k (H b)). reflexivity.
Qed.

Lemma flat_map_app_perm {X Y} (f g : X -> list Y) (l : list X) :
  Permutation (flat_map (fun x => f x ++ g x) l) (flat_map f l ++ flat_map g l).
Proof.
  induction l as [|x l IH]; cbn [flat_map app]; [constructor|].
  rewrite <- !app_assoc. apply Permutation_app_head. rewrite IH. rewrite !app_assoc. apply Permutation_app_tail, Permutation_app_comm.
Qed.
