(* The quota winner of a single-seat count (C04, majority clause): if exactly one continuing candidate holds at
   least the quota, the count elects that candidate and the run ends with exactly that one seat. *)
From Coq Require Import ZArith QArith Qround List Bool Lia Lqa Arith Permutation.
From VL Require Import Prelude.PyDict Model.GetNBest Model.Convert Model.STV Proofs.GetNBest_proofs Proofs.QOrd
     Proofs.STV_proofs.
Import ListNotations.

(* flat_map over a list in which exactly one element produces something *)
Lemma flat_map_single {X Y} (f : X -> list Y) (l : list X) x y :
  NoDup l -> In x l -> f x = [y] -> (forall z, In z l -> z <> x -> f z = []) -> flat_map f l = [y].
Proof.
  induction l as [|z l IH]; simpl; [tauto|]. intros Hnd [->|Hin] Hx Hoth.
  - rewrite Hx. inversion Hnd as [|? ? Hz _]; subst. simpl. f_equal.
    assert (H : forall u, In u l -> f u = []) by (intros u Hu; apply Hoth; [right; exact Hu|intros ->; exact (Hz Hu)]).
    clear -H. induction l as [|u l IH]; simpl; [reflexivity|]. rewrite (H u (or_introl eq_refl)), IH; [reflexivity|].
    intros w Hw. apply H. right. exact Hw.
  - inversion Hnd as [|? ? Hz Hl]; subst. rewrite (Hoth z (or_introl eq_refl)) by (intros ->; exact (Hz Hin)). simpl.
    apply IH; [exact Hl|exact Hin|exact Hx|]. intros u Hu Hne. apply Hoth; [right; exact Hu|exact Hne].
Qed.

Lemma nodup_fst_val {X Y} (l : list (X * Y)) k x y : NoDup (map fst l) -> In (k, x) l -> In (k, y) l -> x = y.
Proof.
  induction l as [|[k0 z] l IH]; simpl; [tauto|]. intros Hn H1 H2. inversion Hn as [|? ? Hk Hl]; subst.
  destruct H1 as [H1|H1]; destruct H2 as [H2|H2].
  - congruence.
  - injection H1 as -> ->. exfalso. apply Hk. apply in_map_iff. exists (k, y). auto.
  - injection H2 as -> ->. exfalso. apply Hk. apply in_map_iff. exists (k, x). auto.
  - apply IH; assumption.
Qed.

Lemma qfloor_div_small x q : 0 <= x -> x < q -> qfloor_div x q = 0%Z.
Proof.
  intros H0 Hlt. unfold qfloor_div. assert (Hq : 0 < q) by lra.
  assert (H1 : 0 <= x / q) by (apply Qle_shift_div_l; [exact Hq|lra]).
  assert (H2 : x / q < 1) by (apply Qlt_shift_div_r; [exact Hq|lra]).
  pose proof (Qfloor_le (x / q)) as F1. pose proof (Qlt_floor (x / q)) as F2.
  assert (A : (0 <= Qfloor (x / q))%Z).
  { apply Z.lt_succ_r. rewrite Zlt_Qlt. eapply Qle_lt_trans; [exact H1|]. replace (Z.succ (Qfloor (x / q))) with (Qfloor (x / q) + 1)%Z by lia. exact F2. }
  assert (B : (Qfloor (x / q) < 1)%Z) by (rewrite Zlt_Qlt; eapply Qle_lt_trans; [exact F1|exact H2]).
  lia.
Qed.

Lemma qfloor_div_big x q : 0 < q -> q <= x -> (1 <= qfloor_div x q)%Z.
Proof.
  intros Hq Hle. unfold qfloor_div.
  assert (H1 : 1 <= x / q) by (apply Qle_shift_div_l; [exact Hq|lra]).
  change 1%Q with (inject_Z 1) in H1. apply Qfloor_resp_le in H1. rewrite Qfloor_Z in H1. exact H1.
Qed.

Section QW.
  Variable cf : cfg.
  Hypothesis Hae : c_accept_equal cf = true.
  Variable a : alloc.
  Hypothesis Hnd : NoDup (akeys a).
  Variable q : Q.
  Hypothesis Hq : 0 < q.
  Variable c : C.
  Variable t : Q.
  Hypothesis Hc : In (Some c, t) (totals a).
  Hypothesis Hct : q <= t.
  Hypothesis Hothers : forall k x, In (k, x) (totals a) -> k <> Some c -> 0 <= x /\ x < q.
  Variable caps : list (C * Z).
  Hypothesis Hcap : dget caps c = Some 1%Z.

  Lemma totals_nodup : NoDup (map fst (totals a)).
  Proof. rewrite totals_keys. exact Hnd. Qed.

  Lemma nodup_pairs {X Y} (l : list (X * Y)) : NoDup (map fst l) -> NoDup l.
  Proof.
    induction l as [|[k x] l IH]; simpl; intros H; [constructor|]. inversion H as [|? ? Hk Hl]; subst.
    constructor; [|apply IH, Hl]. intros Hin. apply Hk. apply in_map_iff. exists (k, x). auto.
  Qed.

  Theorem quota_winner n_rem : (1 <= n_rem)%Z ->
    elect_by_quota cf (totals a) (Some q) n_rem [] caps = inl (Some [(c, 1%Z)]).
  Proof.
    intros Hn. unfold elect_by_quota.
    set (items := sort_desc Qle_bool (map (fun kt : option C * Q => (fst kt, snd kt)) (totals a))).
    assert (Hmapid : map (fun kt : option C * Q => (fst kt, snd kt)) (totals a) = totals a).
    { clear. induction (totals a) as [|[k x] l IH]; simpl; [reflexivity|]. rewrite IH. reflexivity. }
    assert (Hperm : Permutation items (totals a)) by (unfold items; rewrite Hmapid; apply sort_desc_perm).
    assert (Hndi : NoDup items).
    { eapply Permutation_NoDup; [apply Permutation_sym, Hperm|]. apply nodup_pairs, totals_nodup. }
    set (f := fun kt : option C * Q =>
                   match fst kt with
                   | None => []
                   | Some c0 =>
                       let mult := qfloor_div (snd kt) q in
                       let over := Qred (snd kt - inject_Z mult * q) in
                       if c_accept_equal cf || negb (Qeq_bool over 0) then
                         let capped := match dget caps c0 with Some m => Z.min mult m | None => mult end in
                         let actual := (capped - dget_or [] c0 0)%Z in
                         if (0 <? actual)%Z then [(c0, actual, over)] else []
                       else []
                   end).
    assert (Hsel : flat_map f items = [(c, 1%Z, Qred (t - inject_Z (qfloor_div t q) * q))]).
    { apply (flat_map_single f items (Some c, t)); [exact Hndi|apply (Permutation_in _ (Permutation_sym Hperm)); exact Hc| |].
      - unfold f. cbn [fst snd]. rewrite Hae, Hcap. cbn [orb]. pose proof (qfloor_div_big t q Hq Hct) as Hm.
        rewrite Z.min_r by lia. unfold dget_or. cbn [dget]. reflexivity.
      - intros [k x] Hz Hne. apply (Permutation_in _ Hperm) in Hz.
        destruct k as [c0|]; [|reflexivity].
        assert (Hk : Some c0 <> Some c).
        { intros E. injection E as ->. apply Hne. f_equal. exact (nodup_fst_val (totals a) (Some c) x t totals_nodup Hz Hc). }
        destruct (Hothers _ _ Hz Hk) as [H0 Hlt].
        unfold f. cbn [fst snd]. rewrite (qfloor_div_small x q H0 Hlt).
        destruct (c_accept_equal cf || _); [|reflexivity].
        assert (Hz0 : (match dget caps c0 with Some m => Z.min 0 m | None => 0 end - dget_or [] c0 0 <= 0)%Z).
        { unfold dget_or. cbn [dget]. destruct (dget caps c0); lia. }
        destruct (0 <? _)%Z eqn:E; [apply Z.ltb_lt in E; lia|reflexivity]. }
    fold f. rewrite Hsel. cbn [map fst snd]. unfold zsum. cbn [fold_left map snd].
    assert ((n_rem <? 0 + 1)%Z = false) as -> by (apply Z.ltb_ge; lia). reflexivity.
  Qed.
End QW.

(* ---- the whole single-seat run (selector form: every continuing candidate capped at one seat) *)
Lemma zsum_ones (l : list Z) : Forall (fun x => x = 1%Z) l -> zsum l = Z.of_nat (length l).
Proof.
  intros H. rewrite zsum_fold. induction H as [|x l Hx _ IH]; simpl; [reflexivity|]. rewrite IH, Hx. lia.
Qed.

Section RUN1.
  Variable cf : cfg.
  Hypothesis Hae : c_accept_equal cf = true.
  Variable qf : Q -> Z -> Q.
  Hypothesis Hqf : c_quota cf = Some qf.
  Variable a : alloc.
  Hypothesis Hnd : NoDup (akeys a).
  Variable total : Q.
  Hypothesis Htot : Qeq_bool total 0 = false.
  Let q := qf total 1%Z.
  Hypothesis Hq : 0 < q.
  Variable c : C.
  Variable t : Q.
  Hypothesis Hc : In (Some c, t) (totals a).
  Hypothesis Hct : q <= t.
  Hypothesis Hothers : forall k x, In (k, x) (totals a) -> k <> Some c -> 0 <= x /\ x < q.
  Variable caps : list (C * Z).
  Hypothesis Hcaps : forall k, In (Some k) (akeys a) -> dget caps k = Some 1%Z.
  Variable c2 : C.
  Hypothesis Hc2 : In (Some c2) (akeys a) /\ c2 <> c.

  Lemma c_key : In (Some c) (akeys a).
  Proof. rewrite <- totals_keys. apply in_map_iff. exists (Some c, t). auto. Qed.

  Lemma no_shortcut :
    let by_total := sort_desc Qle_bool (totals a) in
    let avail := flat_map (fun kt : option C * Q => match fst kt with
                                   | Some c0 => [(c0, (dget_or caps c0 0 - dget_or [] c0 0)%Z)]
                                   | None => [] end) by_total in
    (zsum (map snd avail) =? 1)%Z = false.
  Proof.
    cbv zeta. set (by_total := sort_desc Qle_bool (totals a)).
    assert (Hp : Permutation by_total (totals a)) by apply sort_desc_perm.
    set (avail := flat_map _ by_total).
    assert (Hall : Forall (fun x => x = 1%Z) (map snd avail)).
    { apply Forall_forall. intros x Hx. apply in_map_iff in Hx. destruct Hx as ([k y] & <- & Hin). unfold avail in Hin.
      apply in_flat_map in Hin. destruct Hin as ([o z] & Hoz & Hin). destruct o as [c0|]; [|destruct Hin]. destruct Hin as [Hin|[]].
      injection Hin as <- <-. simpl.
      assert (Hk : In (Some c0) (akeys a)).
      { rewrite <- totals_keys. apply in_map_iff. exists (Some c0, z). split; [reflexivity|apply (Permutation_in _ Hp); exact Hoz]. }
      unfold dget_or. rewrite (Hcaps c0 Hk). cbn [dget]. lia. }
    rewrite (zsum_ones _ Hall), map_length.
    (* two distinct candidates give two entries *)
    assert (H2 : (2 <= length avail)%nat).
    { assert (Hin1 : In (c, 1%Z) avail).
      { unfold avail. apply in_flat_map. exists (Some c, t). split; [apply (Permutation_in _ (Permutation_sym Hp)); exact Hc|].
        simpl. unfold dget_or. rewrite (Hcaps c c_key). cbn [dget]. left. reflexivity. }
      destruct Hc2 as [Hk2 Hne]. rewrite <- totals_keys in Hk2. apply in_map_iff in Hk2. destruct Hk2 as ([o t2] & Ho & Hin2'). simpl in Ho. subst o.
      assert (Hin2 : In (c2, 1%Z) avail).
      { unfold avail. apply in_flat_map. exists (Some c2, t2). split; [apply (Permutation_in _ (Permutation_sym Hp)); exact Hin2'|].
        simpl. unfold dget_or. assert (Hk : In (Some c2) (akeys a)) by (rewrite <- totals_keys; apply in_map_iff; exists (Some c2, t2); auto).
        rewrite (Hcaps c2 Hk). cbn [dget]. left. reflexivity. }
      destruct avail as [|x1 [|x2 r]]; simpl; [destruct Hin1| |lia].
      destruct Hin1 as [->|[]]. destruct Hin2 as [E|[]]. injection E as E. congruence. }
    apply Z.eqb_neq. lia.
  Qed.

  Theorem single_seat_run f :
    t_seats (run cf (S f) a 1 total [] caps []) = [(c, 1%Z)] /\ t_stop (run cf (S f) a 1 total [] caps []) = None.
  Proof.
    cbn [run]. change (zsum (map snd (@nil (C * Z)))) with 0%Z. cbn [Z.eqb].
    assert (Hqw : elect_by_quota cf (totals a) (Some q) 1%Z [] caps = inl (Some [(c, 1%Z)])).
    { apply (quota_winner cf Hae a Hnd q Hq c t Hc Hct Hothers caps (Hcaps c c_key)). lia. }
    unfold next_count. cbv zeta. change (1 - zsum (map snd (@nil (C * Z))))%Z with 1%Z.
    rewrite no_shortcut, andb_false_r. cbn [andb].
    rewrite Hqf, Htot. cbn [orb Z.eqb]. fold q. rewrite Hqw.
    (* the elected candidate's pile exists and is not empty: the quota can be subtracted *)
    destruct (totals_get a c t Hnd Hc) as (p & Hget & Htp).
    assert (Hsub : exists a', subtract a [(c, (inject_Z 1 * q)%Q)] = Some a').
    { cbn [subtract]. rewrite Hget. unfold gregory_subtract. rewrite <- Htp.
      assert (Qeq_bool t 0 = false) as ->.
      { apply not_true_iff_false. intros E. apply Qeq_bool_iff in E. lra. }
      destruct (Qle_bool t (inject_Z 1 * q)); eexists; reflexivity. }
    destruct Hsub as (a' & Hsub). cbn [map fst snd]. rewrite Hsub.
    cbn [flat_map fst snd app]. rewrite (Hcaps c c_key). unfold dget_or at 1. cbn [dget].
    cbn [Z.leb Z.add Z.compare Pos.compare Pos.compare_cont]. cbn [run].
    (* next iteration: one seat filled, the run stops *)
    destruct f as [|f']; cbn [run]; unfold add_seats; cbn [fold_left fst snd dset]; unfold dget_or; cbn [dget Z.add map snd];
      unfold zsum; cbn [fold_left Z.add Z.eqb Pos.eqb rev]; split; reflexivity.
  Qed.
End RUN1.

(* ---- majority: with the Droop quota for one seat, a candidate holding more than half of the votes
   (an integer number of them) is the only one at or above the quota *)
From VL Require Import Model.Quota.

Lemma droop_one_gt_half (v : Q) : v * (1 # 2) < droop v 1.
Proof.
  unfold droop, qfloor. change (inject_Z (1 + 1)) with 2%Q.
  pose proof (Qlt_floor (v / 2)) as H. rewrite inject_Z_plus in H. exact H.
Qed.

Lemma droop_one_le_majority (v : Q) (z : Z) : v < 2 * inject_Z z -> droop v 1 <= inject_Z z.
Proof.
  intros H. unfold droop, qfloor. change (inject_Z (1 + 1)) with 2%Q.
  assert (Hlt : v / 2 < inject_Z z) by (apply Qlt_shift_div_r; lra).
  pose proof (Qfloor_le (v / 2)) as F.
  assert (Hz : (Qfloor (v / 2) < z)%Z) by (rewrite Zlt_Qlt; lra).
  change 1%Q with (inject_Z 1). rewrite <- inject_Z_plus, <- Zle_Qle. lia.
Qed.

Theorem majority_single_seat (cf : cfg) (a : alloc) (total : Q) (c : C) (t : Q) (zt : Z) (caps : list (C * Z)) (c2 : C) (f : nat) :
  c_accept_equal cf = true -> c_quota cf = Some droop -> NoDup (akeys a) -> Qeq_bool total 0 = false ->
  In (Some c, t) (totals a) -> t == inject_Z zt -> total < 2 * t ->
  (forall k x, In (k, x) (totals a) -> k <> Some c -> 0 <= x /\ x + t <= total) ->
  (forall k, In (Some k) (akeys a) -> dget caps k = Some 1%Z) ->
  In (Some c2) (akeys a) /\ c2 <> c ->
  t_seats (run cf (S f) a 1 total [] caps []) = [(c, 1%Z)] /\ t_stop (run cf (S f) a 1 total [] caps []) = None.
Proof.
  intros Hae Hqf Hnd Htot Hc Hint Hmaj Hoth Hcaps Hc2.
  assert (Hq : 0 < droop total 1).
  { assert (0 <= total).
    { destruct Hc2 as [Hk Hne]. rewrite <- totals_keys in Hk. apply in_map_iff in Hk. destruct Hk as ([o x] & Ho & Hin). simpl in Ho. subst o.
      assert (Hk : Some c2 <> Some c) by congruence. destruct (Hoth _ _ Hin Hk) as [Hx0 Hxs]. clear -Hx0 Hxs Hmaj. lra. }
    pose proof (droop_one_gt_half total). lra. }
  apply (single_seat_run cf Hae droop Hqf a Hnd total Htot Hq c t Hc) with (c2 := c2); try assumption.
  - rewrite Hint. apply droop_one_le_majority. rewrite <- Hint. exact Hmaj.
  - intros k x Hin Hk. destruct (Hoth k x Hin Hk) as [H0 Hs]. split; [exact H0|].
    pose proof (droop_one_gt_half total). lra.
Qed.
