(* Scale invariance (C11) of the transferable-vote count (Model/STV.v): for every rational k > 0 the run on
   votes whose weights are all multiplied by k elects the same seats, stops the same way and records, count by
   count, the same elected lists and the k-fold totals - provided the quota function is homogeneous
   (quota (k v) n == k quota v n: Hare, Hagenbach-Bischoff) or absent.  Droop and the rounded quotas are not
   homogeneous and genuinely not scale-free (droop_not_scale_free below).
   The proof is a simulation: piles and allocations of the two runs have the same keys in the same order and
   the same ballots, with weights related by x' == k x (the model normalises by Qred everywhere, hence ==),
   and every model function preserves that relation.  Whole multiples floor(x/q) coincide, surpluses scale,
   the Gregory factor (s - n)/s is scale-free, and get_n_best only sees an order embedding. *)
From Coq Require Import ZArith QArith Qround List Bool Lia Lqa Qfield.
From VL Require Import Prelude.PyDict Model.GetNBest Model.Quota Model.Convert
     Proofs.Dict_proofs Proofs.GetNBest_proofs Proofs.QOrd Proofs.LRScale_proofs Proofs.STV_proofs Model.STV.
Import ListNotations.
Open Scope Q_scope.

(* ---------------------------------------------------------------- generic facts about lrel *)
Section LrelGen.
  Context {K V W : Type}.
  Variable R : V -> W -> Prop.

  Lemma lrel_keys (l : list (K * V)) (l' : list (K * W)) : lrel R l l' -> map fst l' = map fst l.
  Proof. intros H. induction H as [|y y' l l' Hy Hl IH]; cbn [map]; [reflexivity|]. rewrite IH, (proj1 Hy). reflexivity. Qed.

  Lemma lrel_filter_fst (g : K -> bool) (l : list (K * V)) (l' : list (K * W)) : lrel R l l' ->
    lrel R (filter (fun kt => g (fst kt)) l) (filter (fun kt => g (fst kt)) l').
  Proof.
    intros H. induction H as [|y y' l l' Hy Hl IH]; cbn [filter]; [constructor|].
    rewrite <- (proj1 Hy). destruct (g (fst y)); [constructor; assumption|exact IH].
  Qed.
End LrelGen.

Section LrelSame.
  Context {K V : Type}.
  Variable R : V -> V -> Prop.

  Lemma lrel_existsb_fst (F : K * V -> bool) l l' : (forall x y, fst x = fst y -> F x = F y) ->
    lrel R l l' -> existsb F l' = existsb F l.
  Proof.
    intros HF H. induction H as [|y y' l l' Hy Hl IH]; cbn [existsb]; [reflexivity|].
    rewrite IH, (HF y y' (proj1 Hy)). reflexivity.
  Qed.

  Lemma lrel_flat_map_fst {B} (F : K * V -> list B) l l' : (forall x y, fst x = fst y -> F x = F y) ->
    lrel R l l' -> flat_map F l' = flat_map F l.
  Proof.
    intros HF H. induction H as [|y y' l l' Hy Hl IH]; cbn [flat_map]; [reflexivity|].
    rewrite IH, (HF y y' (proj1 Hy)). reflexivity.
  Qed.
End LrelSame.

Lemma Forall2_rev {A B} (R : A -> B -> Prop) l l' : Forall2 R l l' -> Forall2 R (rev l) (rev l').
Proof.
  intros H. induction H as [|x y l l' Hx Hl IH]; cbn [rev]; [constructor|].
  apply Forall2_app; [exact IH|constructor; [exact Hx|constructor]].
Qed.

Lemma fold_left_ext {A B} (f g : A -> B -> A) l : (forall a x, f a x = g a x) ->
  forall acc, fold_left f l acc = fold_left g l acc.
Proof. intros H. induction l as [|x l IH]; intros acc; cbn [fold_left]; [reflexivity|]. rewrite H. apply IH. Qed.

Definition orel {A B} (R : A -> B -> Prop) (x : option A) (y : option B) : Prop :=
  match x, y with Some a, Some b => R a b | None, None => True | _, _ => False end.

(* ---------------------------------------------------------------- elect_by_quota in two pieces *)
Definition ebq_sel (cf : cfg) (q : Q) (prev caps : list (C * Z)) (items : list (option C * Q)) : list (C * Z * Q) :=
  flat_map (fun kt : option C * Q =>
    match fst kt with
    | None => []
    | Some c =>
        let mult := qfloor_div (snd kt) q in
        let over := Qred (snd kt - inject_Z mult * q) in
        if c_accept_equal cf || negb (Qeq_bool over 0) then
          let capped := match dget caps c with Some m => Z.min mult m | None => mult end in
          let actual := (capped - dget_or prev c 0)%Z in
          if (0 <? actual)%Z then [(c, actual, over)] else []
        else []
    end) items.

Definition ebq_body (n_rem : Z) (sel : list (C * Z * Q)) : option (list (C * Z)) + stop :=
  let awarded := map (fun x => (fst (fst x), snd (fst x))) sel in
  if (n_rem <? zsum (map snd awarded))%Z then
    let kept := get_n_best Qle_bool (map (fun x => (fst (fst x), snd x)) sel) (Z.to_nat n_rem) in
    if existsb (fun r => match r with TieR _ => true | _ => false end) kept then inr S_nie
    else
      let keptc := flat_map (fun r => match r with Cand c => [c] | _ => [] end) kept in
      inl (Some (flat_map (fun cs : C * Z =>
                   if cmem (fst cs) keptc then [cs]
                   else if (1 <? snd cs)%Z then [(fst cs, (snd cs - 1)%Z)] else []) awarded))
  else inl (Some awarded).

Definition ebq_tail (n_rem : Z) (sel : list (C * Z * Q)) : option (list (C * Z)) + stop :=
  match sel with [] => inl None | _ => ebq_body n_rem sel end.

Lemma ebq_unfold cf tot q n_rem prev caps :
  elect_by_quota cf tot (Some q) n_rem prev caps
  = ebq_tail n_rem (ebq_sel cf q prev caps (sort_desc Qle_bool (map (fun kt => (fst kt, snd kt)) tot))).
Proof. reflexivity. Qed.

(* the elimination branch of next_count *)
Definition elim_branch (cf : cfg) (a : alloc) : count_result :=
  let in_play := some_totals (totals a) in
  let n_ret := retained_count cf (length in_play) in
  let retained := get_n_best Qle_bool in_play n_ret in
  if existsb (fun r => match r with TieR _ => true | _ => false end) retained then CR_stop S_nie
  else
    let keep := flat_map (fun r => match r with Cand c => [c] | _ => [] end) retained in
    let elim := filter (fun c => negb (cmem c keep)) (map fst in_play) in
    CR_next (match elim with [] => a | _ => transfer a elim end) [].

(* alloc_eqb in pieces *)
Definition psub (p q : pile) : bool :=
  forallb (fun bw => existsb (fun bw' => ballot_eqb (fst bw) (fst bw') && Qeq_bool (snd bw) (snd bw')) q) p.
Definition asub (x y : alloc) : bool :=
  forallb (fun kp => match alloc_get y (fst kp) with
                     | Some q => psub (snd kp) q && psub q (snd kp)
                     | None => false end) x.
Lemma alloc_eqb_unfold a b : alloc_eqb a b = asub a b && asub b a.
Proof. reflexivity. Qed.

(* ---------------------------------------------------------------- the simulation *)
Section STVScale.
  Variable k : Q.
  Hypothesis Hk : 0 < k.
  Local Notation qs := (qsc k).

  Definition plrel : pile -> pile -> Prop := lrel (K := ballot) qs.
  Definition arel : alloc -> alloc -> Prop := lrel (K := option C) plrel.
  Definition trel : list (option C * Q) -> list (option C * Q) -> Prop := lrel (K := option C) qs.

  Lemma qsc_0 : qs 0 0.
  Proof. unfold qsc. ring. Qed.

  Lemma qsum_acc_rel {K} (l l' : list (K * Q)) : lrel qs l l' -> forall a a', qs a a' ->
    qs (fold_left Qplus (map snd l) a) (fold_left Qplus (map snd l') a').
  Proof.
    intros H. induction H as [|y y' l l' Hy Hl IH]; intros a a' Ha; cbn [map fold_left]; [exact Ha|].
    apply IH. unfold qsc in *. destruct Hy as [_ Hy]. rewrite Ha, Hy. ring.
  Qed.

  (* ---- piles and allocations *)
  Lemma pile_add_rel p p' b w w' : plrel p p' -> qs w w' -> plrel (pile_add p b w) (pile_add p' b w').
  Proof.
    intros Hp Hw. induction Hp as [|[b1 w1] [b1' w1'] p p' Hy Hp IH]; cbn [pile_add].
    - constructor; [split; [reflexivity|exact Hw]|constructor].
    - destruct Hy as [Hb Hv]. cbn [fst snd] in Hb, Hv. subst b1'.
      destruct (ballot_eqb b b1).
      + constructor; [|exact Hp]. split; [reflexivity|]. cbn [snd]. unfold qsc in *.
        rewrite !Qred_correct, Hv, Hw. ring.
      + constructor; [split; [reflexivity|exact Hv]|exact IH].
  Qed.

  Lemma alloc_get_rel a a' key : arel a a' -> orel plrel (alloc_get a key) (alloc_get a' key).
  Proof.
    intros H. induction H as [|[k1 p1] [k1' p1'] a a' Hy Ha IH]; cbn [alloc_get]; [exact I|].
    destruct Hy as [Hkk Hp]. cbn [fst snd] in Hkk, Hp. subst k1'.
    destruct (okey_eqb key k1); [exact Hp|exact IH].
  Qed.

  Lemma alloc_add_rel a a' key b w w' : arel a a' -> qs w w' -> arel (alloc_add a key b w) (alloc_add a' key b w').
  Proof.
    intros H Hw. induction H as [|[k1 p1] [k1' p1'] a a' Hy Ha IH]; cbn [alloc_add].
    - constructor; [|constructor]. split; [reflexivity|]. cbn [snd].
      constructor; [split; [reflexivity|exact Hw]|constructor].
    - destruct Hy as [Hkk Hp]. cbn [fst snd] in Hkk, Hp. subst k1'.
      destruct (okey_eqb key k1).
      + constructor; [|exact Ha]. split; [reflexivity|]. cbn [snd]. apply pile_add_rel; assumption.
      + constructor; [split; [reflexivity|exact Hp]|exact IH].
  Qed.

  Lemma alloc_del_rel a a' key : arel a a' -> arel (alloc_del a key) (alloc_del a' key).
  Proof. intros H. unfold alloc_del. exact (lrel_filter_fst plrel (fun x => negb (okey_eqb key x)) _ _ H). Qed.

  Lemma pile_sum_rel p p' : plrel p p' -> qs (pile_sum p) (pile_sum p').
  Proof.
    intros H. unfold pile_sum. pose proof (qsum_acc_rel _ _ H _ _ qsc_0) as Hs.
    unfold qsc in *. rewrite !Qred_correct. exact Hs.
  Qed.

  Lemma totals_rel a a' : arel a a' -> trel (totals a) (totals a').
  Proof.
    intros H. unfold totals. induction H as [|y y' a a' Hy Ha IH]; cbn [map]; constructor; [|exact IH].
    split; [exact (proj1 Hy)|]. cbn [snd]. apply pile_sum_rel, (proj2 Hy).
  Qed.

  Lemma keys_some_rel a a' : arel a a' -> keys_some a' = keys_some a.
  Proof.
    intros H. unfold keys_some. apply (lrel_flat_map_fst plrel); [|exact H].
    intros x y E. rewrite E. reflexivity.
  Qed.

  Lemma arel_base (cands : list C) :
    arel (map (fun c => (Some c, [])) cands) (map (fun c => (Some c, [])) cands).
  Proof. induction cands as [|c l IH]; cbn [map]; constructor; [|exact IH]. split; [reflexivity|constructor]. Qed.

  (* ---- transfers *)
  Lemma fold_alloc_add_rel b s s' targets : qs s s' -> forall a a', arel a a' ->
    arel (fold_left (fun a t => alloc_add a (Some t) b s) targets a)
         (fold_left (fun a t => alloc_add a (Some t) b s') targets a').
  Proof.
    intros Hs. induction targets as [|t ts IH]; intros a a' Ha; cbn [fold_left]; [exact Ha|].
    apply IH, alloc_add_rel; assumption.
  Qed.

  Lemma move_ballot_rel a a' targets b w w' : arel a a' -> qs w w' ->
    arel (move_ballot a targets b w) (move_ballot a' targets b w').
  Proof.
    intros Ha Hw. unfold move_ballot. destruct targets as [|t ts]; [apply alloc_add_rel; assumption|].
    cbv zeta. apply fold_alloc_add_rel; [|exact Ha].
    unfold qsc in *. rewrite !Qred_correct, Hw. unfold Qdiv. ring.
  Qed.

  Lemma fold_move_rel c cont p p' : plrel p p' -> forall a a', arel a a' ->
    arel (fold_left (fun a bw => move_ballot a (ranked_next (fst bw) c cont) (fst bw) (snd bw)) p a)
         (fold_left (fun a bw => move_ballot a (ranked_next (fst bw) c cont) (fst bw) (snd bw)) p' a').
  Proof.
    intros Hp. induction Hp as [|y y' p p' Hy Hp IH]; intros a a' Ha; cbn [fold_left]; [exact Ha|].
    apply IH. rewrite <- (proj1 Hy). apply move_ballot_rel; [exact Ha|exact (proj2 Hy)].
  Qed.

  Lemma transfer_rel a a' elim : arel a a' -> arel (transfer a elim) (transfer a' elim).
  Proof.
    intros H. unfold transfer. cbv zeta. rewrite (keys_some_rel _ _ H).
    generalize (filter (fun c => cmem c elim) (keys_some a)) as rem.
    generalize (filter (fun c => negb (cmem c elim)) (keys_some a)) as cont.
    intros cont rem. revert a a' H. induction rem as [|c rem IH]; intros a a' H; cbn [fold_left]; [exact H|].
    apply IH. apply alloc_del_rel.
    pose proof (alloc_get_rel _ _ (Some c) H) as Hg.
    destruct (alloc_get a (Some c)) as [p|], (alloc_get a' (Some c)) as [p'|]; try contradiction.
    - apply fold_move_rel; assumption.
    - exact H.
  Qed.

  (* ---- Gregory subtraction *)
  Lemma gregory_subtract_rel p p' n n' : plrel p p' -> qs n n' ->
    orel plrel (gregory_subtract p n) (gregory_subtract p' n').
  Proof.
    intros Hp Hn. unfold gregory_subtract. cbv zeta. pose proof (pile_sum_rel _ _ Hp) as Hs.
    set (s := pile_sum p) in *. set (s' := pile_sum p') in *. clearbody s s'.
    rewrite (qsc_eq k Hk _ _ _ _ Hs qsc_0), (qsc_le k Hk _ _ _ _ Hs Hn).
    destruct (Qeq_bool s 0); [exact I|]. destruct (Qle_bool s n); [constructor|].
    cbn [orel].
    assert (Hf : (s' - n') / s' == (s - n) / s).
    { apply (qsc_div k Hk); [|exact Hs]. unfold qsc in *. rewrite Hs, Hn. ring. }
    induction Hp as [|y y' p p' Hy Hp IH]; cbn [map]; constructor; [|exact IH].
    split; [exact (proj1 Hy)|]. cbn [snd]. destruct Hy as [_ Hy]. unfold qsc in *.
    rewrite !Qred_correct, Hf, Hy. ring.
  Qed.

  Lemma replace_rel c p p' a a' : plrel p p' -> arel a a' ->
    arel (map (fun kp => if okey_eqb (Some c) (fst kp) then (fst kp, p) else kp) a)
         (map (fun kp => if okey_eqb (Some c) (fst kp) then (fst kp, p') else kp) a').
  Proof.
    intros Hp Ha. induction Ha as [|y y' a a' Hy Ha IH]; cbn [map]; constructor; [|exact IH].
    rewrite <- (proj1 Hy). destruct (okey_eqb (Some c) (fst y)); [|exact Hy].
    split; [reflexivity|exact Hp].
  Qed.

  Lemma stv_subtract_rel el el' : lrel (K := C) qs el el' -> forall a a', arel a a' ->
    orel arel (STV.subtract a el) (STV.subtract a' el').
  Proof.
    intros Hel. induction Hel as [|[c x] [c' x'] el el' Hy Hel IH]; intros a a' Ha; cbn [STV.subtract]; [exact Ha|].
    destruct Hy as [Hc Hx]. cbn [fst snd] in Hc, Hx. subst c'.
    pose proof (alloc_get_rel _ _ (Some c) Ha) as Hg.
    destruct (alloc_get a (Some c)) as [p|], (alloc_get a' (Some c)) as [p'|]; try contradiction; [|exact I].
    pose proof (gregory_subtract_rel _ _ _ _ Hg Hx) as Hs.
    destruct (gregory_subtract p x) as [r|], (gregory_subtract p' x') as [r'|]; try contradiction; [|exact I].
    apply IH, replace_rel; assumption.
  Qed.

  (* ---- initial allocation *)
  Lemma fold_fst_rel {A} (h : A -> ballot -> A) l l' : plrel l l' -> forall acc,
    fold_left (fun acc (bw : ballot * Q) => h acc (fst bw)) l' acc
    = fold_left (fun acc (bw : ballot * Q) => h acc (fst bw)) l acc.
  Proof.
    intros H. induction H as [|y y' l l' Hy Hl IH]; intros acc; cbn [fold_left]; [reflexivity|].
    rewrite (proj1 Hy). apply IH.
  Qed.

  Lemma arc_rel votes votes' : plrel votes votes' -> all_ranked_candidates votes' = all_ranked_candidates votes.
  Proof.
    intros H. unfold all_ranked_candidates. cbv zeta.
    match goal with |- fold_left _ (seq 0 ?M') [] = fold_left _ (seq 0 ?M) [] =>
      assert (E : M' = M) by exact (fold_fst_rel (fun m b => Nat.max m (length b)) _ _ H O) end.
    rewrite E. apply fold_left_ext. intros acc i.
    exact (fold_fst_rel (fun acc b => match nth_error b i with
                                      | Some it => fold_left (fun acc c => if cmem c acc then acc else acc ++ [c]) (members it) acc
                                      | None => acc end) _ _ H acc).
  Qed.

  Lemma fold_direct_rel votes votes' : plrel votes votes' -> forall a a', arel a a' ->
    arel (fold_left (fun a (bw : ballot * Q) => match fst bw with
                                  | IP c :: _ => alloc_add a (Some c) (fst bw) (snd bw)
                                  | _ => a end) votes a)
         (fold_left (fun a (bw : ballot * Q) => match fst bw with
                                  | IP c :: _ => alloc_add a (Some c) (fst bw) (snd bw)
                                  | _ => a end) votes' a').
  Proof.
    intros H. induction H as [|y y' l l' Hy Hl IH]; intros a a' Ha; cbn [fold_left]; [exact Ha|].
    apply IH. rewrite <- (proj1 Hy). destruct (fst y) as [|[c|s] r]; try exact Ha.
    apply alloc_add_rel; [exact Ha|exact (proj2 Hy)].
  Qed.

  Lemma fold_shared_rel cands votes votes' : plrel votes votes' -> forall a a', arel a a' ->
    arel (fold_left (fun a (bw : ballot * Q) => match fst bw with
                                  | IS _ :: _ => move_ballot a (next_after (fst bw) cands) (fst bw) (snd bw)
                                  | _ => a end) votes a)
         (fold_left (fun a (bw : ballot * Q) => match fst bw with
                                  | IS _ :: _ => move_ballot a (next_after (fst bw) cands) (fst bw) (snd bw)
                                  | _ => a end) votes' a').
  Proof.
    intros H. induction H as [|y y' l l' Hy Hl IH]; intros a a' Ha; cbn [fold_left]; [exact Ha|].
    apply IH. rewrite <- (proj1 Hy). destruct (fst y) as [|[c|s] r]; try exact Ha.
    apply move_ballot_rel; [exact Ha|exact (proj2 Hy)].
  Qed.

  Lemma initial_allocation_rel votes votes' : plrel votes votes' ->
    arel (initial_allocation votes) (initial_allocation votes').
  Proof.
    intros H. unfold initial_allocation. cbv zeta. rewrite (arc_rel _ _ H).
    apply fold_shared_rel; [exact H|]. apply fold_direct_rel; [exact H|]. apply arel_base.
  Qed.

  (* ---- election by quota *)
  Lemma ebq_sel_rel cf q q' prev caps items items' : qs q q' -> trel items items' ->
    lrel (K := C * Z) qs (ebq_sel cf q prev caps items) (ebq_sel cf q' prev caps items').
  Proof.
    intros Hq H. unfold ebq_sel. induction H as [|[o x] [o' x'] l l' Hy Hl IH]; cbn [flat_map]; [constructor|].
    apply Forall2_app; [|exact IH]. destruct Hy as [Ho Hx]. cbn [fst snd] in Ho, Hx |- *. subst o'.
    destruct o as [c|]; [|constructor]. cbv zeta.
    assert (Hm : qfloor_div x' q' = qfloor_div x q).
    { unfold qfloor_div. apply Qfloor_comp, (qsc_div k Hk); assumption. }
    rewrite Hm. set (mult := qfloor_div x q).
    assert (Ho : qs (Qred (x - inject_Z mult * q)) (Qred (x' - inject_Z mult * q'))).
    { unfold qsc in *. rewrite !Qred_correct, Hx, Hq. ring. }
    rewrite (qsc_eq k Hk _ _ _ _ Ho qsc_0).
    destruct (c_accept_equal cf || negb (Qeq_bool (Qred (x - inject_Z mult * q)) 0)); [|constructor].
    destruct (0 <? _)%Z; [|constructor].
    constructor; [|constructor]. split; [reflexivity|exact Ho].
  Qed.

  Lemma ebq_body_rel n sel sel' : lrel (K := C * Z) qs sel sel' -> ebq_body n sel' = ebq_body n sel.
  Proof.
    intros H. unfold ebq_body. cbv zeta.
    assert (Haw : map (fun x : C * Z * Q => (fst (fst x), snd (fst x))) sel'
                  = map (fun x : C * Z * Q => (fst (fst x), snd (fst x))) sel).
    { clear -H. induction H as [|y y' l l' Hy Hl IH]; cbn [map]; [reflexivity|]. rewrite IH, (proj1 Hy). reflexivity. }
    assert (Hg : get_n_best Qle_bool (map (fun x : C * Z * Q => (fst (fst x), snd x)) sel') (Z.to_nat n)
                 = get_n_best Qle_bool (map (fun x : C * Z * Q => (fst (fst x), snd x)) sel) (Z.to_nat n)).
    { apply (get_n_best_rel Qle_bool Qle_bool qs (qsc_le k Hk)).
      clear -H. induction H as [|y y' l l' Hy Hl IH]; cbn [map]; constructor; [|exact IH].
      split; [cbn [fst]; rewrite (proj1 Hy); reflexivity|exact (proj2 Hy)]. }
    rewrite Haw, Hg. reflexivity.
  Qed.

  Lemma ebq_tail_rel n sel sel' : lrel (K := C * Z) qs sel sel' -> ebq_tail n sel' = ebq_tail n sel.
  Proof.
    intros H. pose proof (ebq_body_rel n _ _ H) as Hb. unfold ebq_tail. destruct H; [reflexivity|exact Hb].
  Qed.

  Lemma pairs_rel tot tot' : trel tot tot' ->
    trel (map (fun kt : option C * Q => (fst kt, snd kt)) tot) (map (fun kt : option C * Q => (fst kt, snd kt)) tot').
  Proof. intros H. induction H as [|y y' l l' Hy Hl IH]; cbn [map]; constructor; [exact Hy|exact IH]. Qed.

  Lemma elect_by_quota_rel cf tot tot' q q' n_rem prev caps : trel tot tot' -> orel qs q q' ->
    elect_by_quota cf tot' q' n_rem prev caps = elect_by_quota cf tot q n_rem prev caps.
  Proof.
    intros Ht Hq. destruct q as [q|], q' as [q'|]; try contradiction; [|reflexivity].
    cbn [orel] in Hq. rewrite !ebq_unfold. apply ebq_tail_rel, ebq_sel_rel; [exact Hq|].
    apply (sort_desc_rel Qle_bool Qle_bool qs (qsc_le k Hk)), pairs_rel, Ht.
  Qed.

  (* ---- one count *)
  Definition crrel (x y : count_result) : Prop :=
    match x, y with
    | CR_all e, CR_all e' => e' = e
    | CR_next a e, CR_next a' e' => arel a a' /\ e' = e
    | CR_stop s, CR_stop s' => s' = s
    | _, _ => False
    end.

  Lemma some_totals_rel t t' : trel t t' -> lrel (K := C) qs (some_totals t) (some_totals t').
  Proof.
    intros H. unfold some_totals. induction H as [|[o x] [o' x'] l l' Hy Hl IH]; cbn [flat_map]; [constructor|].
    destruct Hy as [Ho Hx]. cbn [fst snd] in Ho, Hx |- *. subst o'.
    destruct o as [c|]; [|exact IH]. constructor; [|exact IH]. split; [reflexivity|exact Hx].
  Qed.

  Lemma elim_branch_rel cf a a' : arel a a' -> crrel (elim_branch cf a) (elim_branch cf a').
  Proof.
    intros Ha. unfold elim_branch. cbv zeta.
    pose proof (some_totals_rel _ _ (totals_rel _ _ Ha)) as Hp.
    set (ip := some_totals (totals a)) in *. set (ip' := some_totals (totals a')) in *. clearbody ip ip'.
    rewrite (lrel_length qs _ _ Hp), (lrel_keys qs _ _ Hp).
    rewrite (get_n_best_rel Qle_bool Qle_bool qs (qsc_le k Hk) _ _ (retained_count cf (length ip)) Hp).
    destruct (existsb _ _); [reflexivity|].
    destruct (filter _ (map fst ip)) as [|e es]; cbn [crrel]; (split; [|reflexivity]); [exact Ha|].
    apply transfer_rel, Ha.
  Qed.

  Definition homog_cfg (cf : cfg) : Prop :=
    forall qf, c_quota cf = Some qf -> forall v v' n, qs v v' -> qs (qf v n) (qf v' n).

  Lemma quota_of_rel cf tv tv' n : homog_cfg cf -> qs tv tv' -> orel qs (quota_of cf tv n) (quota_of cf tv' n).
  Proof.
    intros Hh Htv. unfold quota_of. destruct (c_quota cf) as [qf|] eqn:Eq; [|exact I].
    rewrite (qsc_eq k Hk _ _ _ _ Htv qsc_0). destruct (Qeq_bool tv 0 || (n =? 0)%Z); [exact I|].
    cbn [orel]. apply (Hh qf Eq), Htv.
  Qed.

  Lemma amounts_rel q q' (el : list (C * Z)) : qs q q' ->
    lrel (K := C) qs (map (fun cs : C * Z => (fst cs, inject_Z (snd cs) * q)) el)
                     (map (fun cs : C * Z => (fst cs, inject_Z (snd cs) * q')) el).
  Proof.
    intros Hq. induction el as [|cs el IH]; cbn [map]; constructor; [|exact IH].
    split; [reflexivity|]. cbn [snd]. unfold qsc in *. rewrite Hq. ring.
  Qed.

  Lemma next_count_rel cf a a' n_seats tv tv' prev caps : homog_cfg cf -> arel a a' -> qs tv tv' ->
    crrel (next_count cf a n_seats tv prev caps) (next_count cf a' n_seats tv' prev caps).
  Proof.
    intros Hh Ha Htv. unfold next_count. cbv zeta.
    fold (quota_of cf tv n_seats). fold (quota_of cf tv' n_seats).
    fold (elim_branch cf a). fold (elim_branch cf a').
    pose proof (totals_rel _ _ Ha) as Ht.
    pose proof (sort_desc_rel Qle_bool Qle_bool qs (qsc_le k Hk) _ _ Ht) as Hbt.
    rewrite (fun F H => lrel_existsb_fst qs F _ _ H Hbt) by (intros x y E; rewrite E; reflexivity).
    rewrite (fun F H => lrel_flat_map_fst qs (B := C * Z) F _ _ H Hbt) by (intros x y E; rewrite E; reflexivity).
    destruct (negb _ && _ && negb (c_mandatory cf)); [reflexivity|].
    pose proof (quota_of_rel cf tv tv' n_seats Hh Htv) as Hq.
    rewrite (elect_by_quota_rel cf _ _ _ _ (n_seats - zsum (map snd prev))%Z prev caps Ht Hq).
    destruct (quota_of cf tv n_seats) as [q|], (quota_of cf tv' n_seats) as [q'|]; try contradiction.
    - cbn [orel] in Hq.
      destruct (elect_by_quota cf (totals a) (Some q) _ prev caps) as [[el|]|s]; [| |reflexivity].
      + pose proof (stv_subtract_rel _ _ (amounts_rel q q' el Hq) _ _ Ha) as Hs.
        destruct (STV.subtract a _) as [a1|], (STV.subtract a' _) as [a1'|]; try contradiction; [|reflexivity].
        cbn [orel] in Hs.
        destruct (flat_map _ el) as [|e es]; cbn [crrel]; (split; [|reflexivity]); [exact Hs|].
        apply transfer_rel, Hs.
      + apply elim_branch_rel, Ha.
    - cbn [elect_by_quota]. apply elim_branch_rel, Ha.
  Qed.

  (* ---- unchanged-allocation test *)
  Lemma psub_rel p p' q q' : plrel p p' -> plrel q q' -> psub p' q' = psub p q.
  Proof.
    intros Hp Hq. unfold psub. induction Hp as [|y y' p p' Hy Hp IH]; cbn [forallb]; [reflexivity|].
    rewrite IH. f_equal. clear -Hy Hq Hk. induction Hq as [|z z' q q' Hz Hq IH]; cbn [existsb]; [reflexivity|].
    rewrite IH, (proj1 Hy), (proj1 Hz), (qsc_eq k Hk _ _ _ _ (proj2 Hy) (proj2 Hz)). reflexivity.
  Qed.

  Lemma asub_rel x x' y y' : arel x x' -> arel y y' -> asub x' y' = asub x y.
  Proof.
    intros Hx Hy. unfold asub. induction Hx as [|z z' x x' Hz Hx IH]; cbn [forallb]; [reflexivity|].
    rewrite IH. f_equal. rewrite <- (proj1 Hz).
    pose proof (alloc_get_rel _ _ (fst z) Hy) as Hg.
    destruct (alloc_get y (fst z)) as [q|], (alloc_get y' (fst z)) as [q'|]; try contradiction; [|reflexivity].
    cbn [orel] in Hg. rewrite (psub_rel _ _ _ _ (proj2 Hz) Hg), (psub_rel _ _ _ _ Hg (proj2 Hz)). reflexivity.
  Qed.

  Lemma alloc_eqb_rel a a' b b' : arel a a' -> arel b b' -> alloc_eqb a' b' = alloc_eqb a b.
  Proof. intros Ha Hb. rewrite !alloc_eqb_unfold, (asub_rel _ _ _ _ Ha Hb), (asub_rel _ _ _ _ Hb Ha). reflexivity. Qed.

  (* ---- the whole count *)
  Definition crec_rel (x y : list (option C * Q) * list (C * Z)) : Prop := trel (fst x) (fst y) /\ snd y = snd x.

  Definition trace_rel (t t' : trace) : Prop :=
    t_seats t' = t_seats t /\ t_stop t' = t_stop t /\ Forall2 crec_rel (t_counts t) (t_counts t').

  Lemma trace_rel_build acc acc' seats st : Forall2 crec_rel acc acc' ->
    trace_rel (Build_trace (rev acc) seats st) (Build_trace (rev acc') seats st).
  Proof. intros H. split; [reflexivity|]. split; [reflexivity|]. cbn [t_counts]. apply Forall2_rev, H. Qed.

  Lemma run_rel cf : homog_cfg cf -> forall fuel a a' n tv tv' seats caps acc acc',
    arel a a' -> qs tv tv' -> Forall2 crec_rel acc acc' ->
    trace_rel (run cf fuel a n tv seats caps acc) (run cf fuel a' n tv' seats caps acc').
  Proof.
    intros Hh fuel. induction fuel as [|f IH]; intros a a' n tv tv' seats caps acc acc' Ha Htv Hacc; cbn [run].
    - destruct (_ =? n)%Z; apply trace_rel_build, Hacc.
    - destruct (_ =? n)%Z; [apply trace_rel_build, Hacc|].
      pose proof (next_count_rel cf a a' n tv tv' seats caps Hh Ha Htv) as Hn.
      destruct (next_count cf a n tv seats caps) as [el|a1 el|s],
               (next_count cf a' n tv' seats caps) as [el'|a1' el'|s']; try contradiction; cbn [crrel] in Hn.
      + subst el'. apply (trace_rel_build (([], el) :: acc) (([], el) :: acc')).
        constructor; [|exact Hacc]. split; [constructor|reflexivity].
      + destruct Hn as [Ha1 ->].
        assert (Hacc1 : Forall2 crec_rel ((totals a1, el) :: acc) ((totals a1', el) :: acc')).
        { constructor; [|exact Hacc]. split; [apply totals_rel, Ha1|reflexivity]. }
        destruct el as [|e es].
        * rewrite (alloc_eqb_rel _ _ _ _ Ha1 Ha). destruct (alloc_eqb a1 a); [apply trace_rel_build, Hacc|].
          apply IH; assumption.
        * apply IH; assumption.
      + subst s'. apply trace_rel_build, Hacc.
  Qed.

  Theorem stv_rel cf votes votes' n prev caps : homog_cfg cf -> plrel votes votes' ->
    trace_rel (stv cf votes n prev caps) (stv cf votes' n prev caps).
  Proof.
    intros Hh Hv. unfold stv. cbv zeta. rewrite (arc_rel _ _ Hv).
    apply run_rel; [exact Hh|apply initial_allocation_rel, Hv| |constructor].
    pose proof (qsum_acc_rel _ _ Hv _ _ qsc_0) as Hs. unfold qsc in *. rewrite !Qred_correct. exact Hs.
  Qed.

  Definition scale_ballots (votes : list (ballot * Q)) : list (ballot * Q) :=
    map (fun bw => (fst bw, k * snd bw)) votes.

  Lemma plrel_scale votes : plrel votes (scale_ballots votes).
  Proof.
    induction votes as [|y l IH]; cbn [scale_ballots map]; constructor; [|exact IH].
    split; [reflexivity|]. cbn [snd]. unfold qsc. reflexivity.
  Qed.

  Theorem stv_scale cf votes n prev caps : homog_cfg cf ->
    trace_rel (stv cf votes n prev caps) (stv cf (scale_ballots votes) n prev caps).
  Proof. intros Hh. apply stv_rel; [exact Hh|apply plrel_scale]. Qed.

  (* the quota functions in scope *)
  Lemma homog_none ae ma st : homog_cfg (Build_cfg None ae ma st).
  Proof. intros qf E. discriminate. Qed.
  Lemma homog_hare ae ma st : homog_cfg (Build_cfg (Some hare) ae ma st).
  Proof. intros qf E v v' n Hv. cbn [c_quota] in E. injection E as <-. apply hare_homog, Hv. Qed.
  Lemma homog_hb ae ma st : homog_cfg (Build_cfg (Some hagenbach_bischoff) ae ma st).
  Proof. intros qf E v v' n Hv. cbn [c_quota] in E. injection E as <-. apply hb_homog, Hv. Qed.
End STVScale.
