(* Facts about Model/Threshold.v ([dedup], the bracket table, [bracket_pick] with every bracket configured) used by
   Props/GenTie_Threshold.v to tie the generated AlternativeThresholds / CoalitionMemberBracketer code to the model. *)
From Coq Require Import ZArith QArith List Bool Lia.
From VL Require Import Prelude.PyDict Prelude.PyList Model.GetNBest Model.QuotaDistributor Model.Threshold Proofs.Threshold_proofs.
Import ListNotations.
Close Scope Q_scope.

Lemma In_dedup c l : In c (dedup l) <-> In c l.
Proof.
  induction l as [|x t IH]; [reflexivity|]. cbn [dedup].
  destruct (cmem x t) eqn:E.
  - rewrite IH. split; [right; assumption|]. intros [->|H]; [|exact H].
    clear IH. induction t as [|y t IH]; [discriminate|]. cbn [cmem] in E. apply orb_true_iff in E. destruct E as [E|E].
    + left. symmetry. apply Pos.eqb_eq. exact E.
    + right. apply IH. exact E.
  - cbn [In]. rewrite IH. reflexivity.
Qed.

Lemma dget_or_tabulate (br : C -> Z) (votes : list (C * Q)) c :
  In c (map fst votes) -> dget_or (map (fun cv => (fst cv, br (fst cv))) votes) c 1%Z = br c.
Proof.
  unfold dget_or. induction votes as [|[k v] t IH]; intros H; [destruct H|]. cbn [map dget fst].
  destruct (ceqb c k) eqn:E.
  - apply Pos.eqb_eq in E. subst k. reflexivity.
  - apply IH. destruct H as [H|H]; [|exact H]. cbn [fst] in H. subst k. rewrite Pos.eqb_refl in E. discriminate.
Qed.

Lemma pick_configured (evals : list (Z * sel)) (dflt : sel) votes b :
  match bracket_pick (map (fun e => (fst e, Some (snd e))) evals) (Some dflt) b with
  | Some s => sel_eval s votes
  | None => []
  end = py_get_z (map (fun e => (fst e, sel_eval (snd e))) evals) b (sel_eval dflt) votes /\
  bracket_pick (map (fun e => (fst e, Some (snd e))) evals) (Some dflt) b <> None.
Proof.
  unfold bracket_pick, py_get_z. induction evals as [|[k s] t IH]; cbn [map find fst snd].
  - split; [reflexivity|discriminate].
  - destruct (Z.eqb k b); [split; [reflexivity|discriminate]|exact IH].
Qed.

