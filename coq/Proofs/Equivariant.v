(* A small library of "equivariant combinators" (C10, renaming of candidates): map / filter / find / fold / flat_map /
   stable sorts over lists whose elements are renamed by a function commute with that renaming as soon as the
   predicates / key functions / step functions they are given do.  With it the renaming equivariance of an evaluator
   follows by composition (Proofs/CondorcetRename_proofs.v, QDRename_proofs.v, STVRename_proofs.v, CardinalRename_proofs.v).

   The candidate-level facts need the renaming [f : C -> C] to be injective: the models compare candidates with
   [ceqb] only (never with an order on names), and [ceqb (f a) (f b) = ceqb a b] is exactly injectivity. *)
From Coq Require Import ZArith QArith List Bool Arith Lia.
From VL Require Import Prelude.PyDict Model.GetNBest Proofs.Dict_proofs Proofs.Order_proofs Proofs.HARename_proofs.
Import ListNotations.

(* ------------------------------------------------------------------ generic combinators *)
Section GEN.
  Context {A A' : Type}.
  Variable g : A -> A'.

  Lemma filter_map_eqv (P : A -> bool) (P' : A' -> bool) : (forall x, P' (g x) = P x) ->
    forall l, filter P' (map g l) = map g (filter P l).
  Proof.
    intros H l. induction l as [|x l IH]; simpl; [reflexivity|]. rewrite H. destruct (P x); simpl; rewrite IH; reflexivity.
  Qed.
  Lemma filter_map_eqv_in (P : A -> bool) (P' : A' -> bool) l : (forall x, In x l -> P' (g x) = P x) ->
    filter P' (map g l) = map g (filter P l).
  Proof.
    induction l as [|x l IH]; intros H; simpl; [reflexivity|]. rewrite H by (left; reflexivity).
    rewrite IH by (intros y Hy; apply H; right; exact Hy). destruct (P x); reflexivity.
  Qed.
  Lemma find_map_eqv (P : A -> bool) (P' : A' -> bool) : (forall x, P' (g x) = P x) ->
    forall l, find P' (map g l) = option_map g (find P l).
  Proof.
    intros H l. induction l as [|x l IH]; simpl; [reflexivity|]. rewrite H. destruct (P x); simpl; [reflexivity|exact IH].
  Qed.
  Lemma existsb_map_eqv (P : A -> bool) (P' : A' -> bool) : (forall x, P' (g x) = P x) ->
    forall l, existsb P' (map g l) = existsb P l.
  Proof. intros H l. induction l as [|x l IH]; simpl; [reflexivity|]. rewrite H, IH. reflexivity. Qed.
  Lemma forallb_map_eqv (P : A -> bool) (P' : A' -> bool) : (forall x, P' (g x) = P x) ->
    forall l, forallb P' (map g l) = forallb P l.
  Proof. intros H l. induction l as [|x l IH]; simpl; [reflexivity|]. rewrite H, IH. reflexivity. Qed.

  (* a fold whose step commutes with the renaming (R on states, g on elements) *)
  Lemma fold_left_eqv {S S' : Type} (R : S -> S') (step : S -> A -> S) (step' : S' -> A' -> S') :
    (forall a x, step' (R a) (g x) = R (step a x)) ->
    forall l a, fold_left step' (map g l) (R a) = R (fold_left step l a).
  Proof. intros H l. induction l as [|x l IH]; intros a; simpl; [reflexivity|]. rewrite H. apply IH. Qed.
  Lemma fold_left_eqv_in {S S' : Type} (R : S -> S') (step : S -> A -> S) (step' : S' -> A' -> S') l :
    (forall a x, In x l -> step' (R a) (g x) = R (step a x)) ->
    forall a, fold_left step' (map g l) (R a) = R (fold_left step l a).
  Proof.
    induction l as [|x l IH]; intros H a; simpl; [reflexivity|]. rewrite H by (left; reflexivity).
    apply IH. intros b y Hy. apply H. right. exact Hy.
  Qed.
  Lemma fold_left_eqv0 {S S' : Type} (R : S -> S') (step : S -> A -> S) (step' : S' -> A' -> S') :
    (forall a x, step' (R a) (g x) = R (step a x)) ->
    forall l a a', a' = R a -> fold_left step' (map g l) a' = R (fold_left step l a).
  Proof. intros H l a a' ->. apply fold_left_eqv, H. Qed.
  (* a fold to a value that is not renamed *)
  Lemma fold_left_inv {S : Type} (step : S -> A -> S) (step' : S -> A' -> S) :
    (forall a x, step' a (g x) = step a x) -> forall l a, fold_left step' (map g l) a = fold_left step l a.
  Proof. intros H l. induction l as [|x l IH]; intros a; simpl; [reflexivity|]. rewrite H. apply IH. Qed.

  Lemma flat_map_eqv {B B' : Type} (k : B -> B') (F : A -> list B) (F' : A' -> list B') :
    (forall x, F' (g x) = map k (F x)) -> forall l, flat_map F' (map g l) = map k (flat_map F l).
  Proof. intros H l. induction l as [|x l IH]; simpl; [reflexivity|]. rewrite H, IH, map_app. reflexivity. Qed.
  Lemma flat_map_eqv_in {B B' : Type} (k : B -> B') (F : A -> list B) (F' : A' -> list B') l :
    (forall x, In x l -> F' (g x) = map k (F x)) -> flat_map F' (map g l) = map k (flat_map F l).
  Proof.
    induction l as [|x l IH]; intros H; simpl; [reflexivity|]. rewrite H by (left; reflexivity).
    rewrite IH by (intros y Hy; apply H; right; exact Hy). rewrite map_app. reflexivity.
  Qed.

  (* map with a renamed function *)
  Lemma map_map_eqv {B B' : Type} (k : B -> B') (F : A -> B) (F' : A' -> B') :
    (forall x, F' (g x) = k (F x)) -> forall l, map F' (map g l) = map k (map F l).
  Proof. intros H l. rewrite !map_map. apply map_ext. exact H. Qed.
  Lemma map_map_inv {B : Type} (F : A -> B) (F' : A' -> B) :
    (forall x, F' (g x) = F x) -> forall l, map F' (map g l) = map F l.
  Proof. intros H l. rewrite map_map. apply map_ext. exact H. Qed.

  Lemma nth_error_map_eqv l i : nth_error (map g l) i = option_map g (nth_error l i).
  Proof. apply nth_error_map. Qed.
  Lemma rev_map_eqv l : rev (map g l) = map g (rev l).
  Proof. symmetry. apply map_rev. Qed.
End GEN.

(* a fold over the SAME list whose step commutes with a renaming of the state *)
Lemma fold_left_same {A S S' : Type} (R : S -> S') (step : S -> A -> S) (step' : S' -> A -> S') :
  (forall a x, step' (R a) x = R (step a x)) -> forall l a a', a' = R a -> fold_left step' l a' = R (fold_left step l a).
Proof. intros H l. induction l as [|x l IH]; intros a a' ->; simpl; [reflexivity|]. rewrite H. apply IH. reflexivity. Qed.

(* [match l with [] => a | _ => b end] as a test that only looks at emptiness *)
Definition is_nil {X} (l : list X) : bool := match l with [] => true | _ => false end.
Lemma match_nil {X Y} (l : list X) (a b : Y) : match l with [] => a | _ :: _ => b end = if is_nil l then a else b.
Proof. destruct l; reflexivity. Qed.
Lemma is_nil_map {X Y} (g : X -> Y) l : is_nil (map g l) = is_nil l.
Proof. destruct l; reflexivity. Qed.

(* stable sorts by a key: the key component is kept, the payload renamed by ANY function *)
Section SORT.
  Context {K K' V : Type}.
  Variable leb : V -> V -> bool.
  Variable g : K -> K'.
  Lemma insert_asc_renk x l : insert_asc leb (g (fst x), snd x) (renk g l) = renk g (insert_asc leb x l).
  Proof.
    induction l as [|y l IH]; simpl; [reflexivity|]. destruct (leb (snd x) (snd y)); simpl; [reflexivity|]. rewrite IH. reflexivity.
  Qed.
  Lemma sort_asc_renk l : sort_asc leb (renk g l) = renk g (sort_asc leb l).
  Proof. induction l as [|x l IH]; simpl; [reflexivity|]. rewrite IH. apply insert_asc_renk. Qed.
  Lemma sort_desc_renk l : sort_desc leb (renk g l) = renk g (sort_desc leb l).
  Proof. apply sort_desc_ren. Qed.
  Lemma renk_keys (l : list (K * V)) : map fst (renk g l) = map g (map fst l).
  Proof. unfold renk. rewrite !map_map. reflexivity. Qed.
  Lemma renk_vals (l : list (K * V)) : map snd (renk g l) = map snd l.
  Proof. unfold renk. rewrite !map_map. reflexivity. Qed.
  Lemma renk_length (l : list (K * V)) : length (renk g l) = length l.
  Proof. apply map_length. Qed.
  Lemma renk_app (a b : list (K * V)) : renk g (a ++ b) = renk g a ++ renk g b.
  Proof. apply map_app. Qed.
  (* decorate - sort - undecorate with a key function that respects the renaming *)
  Lemma decorate_renk (key : K -> V) (key' : K' -> V) : (forall x, key' (g x) = key x) ->
    forall l, map (fun x => (x, key' x)) (map g l) = renk g (map (fun x => (x, key x)) l).
  Proof. intros H l. unfold renk. rewrite !map_map. apply map_ext. intros x. simpl. rewrite H. reflexivity. Qed.
End SORT.

Lemma ren_res_map_cand {K K'} (g : K -> K') (l : list K) : map (ren_res g) (map Cand l) = map Cand (map g l).
Proof. rewrite !map_map. reflexivity. Qed.

(* ------------------------------------------------------------------ candidates *)
Section CAND.
  Variable f : C -> C.
  Hypothesis f_inj : forall a b, f a = f b -> a = b.

  Lemma cmem_ren c l : cmem (f c) (map f l) = cmem c l.
  Proof. induction l as [|x l IH]; simpl; [reflexivity|]. rewrite (ceqb_f f f_inj), IH. reflexivity. Qed.
  Lemma dmem_ren {X} (d : list (C * X)) c : dmem (renl f d) (f c) = dmem d c.
  Proof. unfold dmem. rewrite (dget_ren f f_inj). reflexivity. Qed.
  Lemma renl_renk {X} (d : list (C * X)) : renl f d = renk f d.
  Proof. reflexivity. Qed.
  Lemma renl_length {X} (d : list (C * X)) : length (renl f d) = length d.
  Proof. apply map_length. Qed.
  Lemma renl_vals {X} (d : list (C * X)) : map snd (renl f d) = map snd d.
  Proof. unfold renl. rewrite map_map. reflexivity. Qed.
  Lemma renl_filter_keys {X} (P : C -> bool) (P' : C -> bool) (d : list (C * X)) : (forall c, P' (f c) = P c) ->
    filter (fun cv => P' (fst cv)) (renl f d) = renl f (filter (fun cv => P (fst cv)) d).
  Proof. intros H. unfold renl. apply filter_map_eqv. intros x. simpl. apply H. Qed.
  Lemma renl_filter_vals {X} (P : X -> bool) (d : list (C * X)) :
    filter (fun cv => P (snd cv)) (renl f d) = renl f (filter (fun cv => P (snd cv)) d).
  Proof. unfold renl. apply filter_map_eqv. intros x. reflexivity. Qed.
  Lemma zsumv_ren (d : list (C * Z)) : zsum (map snd (renl f d)) = zsum (map snd d).
  Proof. rewrite renl_vals. reflexivity. Qed.

  (* membership-as-a-set tests used for Tie keys and shared ranks *)
  Lemma forallb_cmem_ren x y : forallb (fun c => cmem c (map f y)) (map f x) = forallb (fun c => cmem c y) x.
  Proof. apply forallb_map_eqv. intros c. apply cmem_ren. Qed.
End CAND.

(* the association-list dictionaries keyed by candidates ([renl f] of Proofs/HARename_proofs.v) *)
Section CAND2.
  Variable f : C -> C.
  Hypothesis f_inj : forall a b, f a = f b -> a = b.
  Lemma sort_desc_renl {V} (leb : V -> V -> bool) (d : list (C * V)) : sort_desc leb (renl f d) = renl f (sort_desc leb d).
  Proof. apply (sort_desc_ren leb f). Qed.
  Lemma sort_asc_renl {V} (leb : V -> V -> bool) (d : list (C * V)) : sort_asc leb (renl f d) = renl f (sort_asc leb d).
  Proof. apply (sort_asc_renk leb f). Qed.
  Lemma get_n_best_renl {V} (leb : V -> V -> bool) (d : list (C * V)) n :
    get_n_best leb (renl f d) n = map (ren_res f) (get_n_best leb d n).
  Proof. apply (get_n_best_rename leb f). Qed.
  Lemma seed_renl {X} (x : X) (l : list C) : map (fun c => (c, x)) (map f l) = renl f (map (fun c => (c, x)) l).
  Proof. unfold renl. rewrite !map_map. reflexivity. Qed.
  Lemma renl_map_vals {X Y} (h : C -> X -> Y) (h' : C -> X -> Y) (d : list (C * X)) : (forall c x, h' (f c) x = h c x) ->
    map (fun cv => (fst cv, h' (fst cv) (snd cv))) (renl f d) = renl f (map (fun cv => (fst cv, h (fst cv) (snd cv))) d).
  Proof. intros H. unfold renl. rewrite !map_map. apply map_ext. intros [c x]. simpl. rewrite H. reflexivity. Qed.
End CAND2.

(* The hypothesis "f : C -> C injective" of the renaming theorems is no restriction with respect to "injective on the
   candidates present": every function that is injective on a finite set S of candidates agrees on S with a globally
   injective one (outside S: shift beyond every image of S). *)
Section EXTEND.
  Variable f : C -> C.
  Variable S : list C.
  Hypothesis f_inj_on : forall a b, In a S -> In b S -> f a = f b -> a = b.

  Definition img_bound : positive := fold_right Pos.add 1%positive (map f S).
  Definition extend (c : C) : C := if cmem c S then f c else (c + img_bound)%positive.

  Lemma img_bound_gt c : In c S -> (f c < img_bound)%positive.
  Proof.
    unfold img_bound. clear f_inj_on. induction S as [|x l IH]; [intros []|]. cbn [map fold_right]. intros [->|H]; [lia|].
    specialize (IH H). lia.
  Qed.
  Lemma cmem_In' c l : cmem c l = true <-> In c l.
  Proof.
    induction l as [|x l IH]; simpl; [split; [discriminate|tauto]|].
    rewrite orb_true_iff, IH, ceqb_eq. split; intros [H|H]; auto.
  Qed.
  Lemma extend_agrees c : In c S -> extend c = f c.
  Proof. intros H. unfold extend. apply cmem_In' in H. rewrite H. reflexivity. Qed.
  Lemma extend_injective a b : extend a = extend b -> a = b.
  Proof.
    unfold extend. destruct (cmem a S) eqn:Ea, (cmem b S) eqn:Eb; intros H.
    - apply f_inj_on; [apply cmem_In', Ea|apply cmem_In', Eb|exact H].
    - apply cmem_In' in Ea. pose proof (img_bound_gt a Ea). lia.
    - apply cmem_In' in Eb. pose proof (img_bound_gt b Eb). lia.
    - lia.
  Qed.
End EXTEND.
