(* Shared by the Props/GenTie_*.v files that tie generated comparison code (tools/py2v.py) to the hand-written
   predicates [passes] (Model/Threshold.v) and [fulfills] (Model/QuotaDistributor.v): a decision tactic for boolean
   identities over exact-rational comparisons.  No statements about the models live here. *)
From Coq Require Import ZArith QArith List Bool Lia Lqa.
From VL Require Import Prelude.PyDict Prelude.PyNum Model.QuotaDistributor Model.Threshold.
Close Scope Q_scope.

(* ---- deciding boolean identities over Q comparisons: every [Qle_bool] / [Qeq_bool] atom is split into its two
   cases with the corresponding order fact, booleans are evaluated, contradictory cases are closed by [lra] *)
Lemma Qle_bool_false a b : Qle_bool a b = false -> (b < a)%Q.
Proof.
  intros H. apply Qnot_le_lt. intros L. apply Qle_bool_iff in L. congruence.
Qed.
Lemma Qeq_bool_false a b : Qeq_bool a b = false -> ~ (a == b)%Q.
Proof. intros H E. apply Qeq_bool_iff in E. congruence. Qed.

Ltac q_atoms :=
  repeat match goal with
  | |- context [Qle_bool ?a ?b] =>
      let E := fresh "E" in destruct (Qle_bool a b) eqn:E; [apply Qle_bool_iff in E | apply Qle_bool_false in E]
  | |- context [Qeq_bool ?a ?b] =>
      let E := fresh "E" in destruct (Qeq_bool a b) eqn:E; [apply Qeq_bool_iff in E | apply Qeq_bool_false in E]
  end.
Ltac q_bool :=
  unfold py_gt, py_ge, py_lt, py_le, py_eq, py_frac, passes, fulfills in *;
  repeat match goal with
  | |- context [(?v / ?t)%Q] => let x := fresh "x" in set (x := (v / t)%Q) in *; clearbody x
  end;
  q_atoms;
  repeat match goal with b : bool |- _ => destruct b end;
  cbn [negb orb andb]; try reflexivity; exfalso;
  solve [ lra | match goal with H : ~ (?a == ?b)%Q |- _ => apply H; lra end ].

Lemma map_filter_ext {A B} (f g : A -> B) (p q : A -> bool) l :
  (forall a, f a = g a) -> (forall a, p a = q a) -> map f (filter p l) = map g (filter q l).
Proof. intros Hf Hp. rewrite (filter_ext _ _ Hp). apply map_ext. exact Hf. Qed.


Lemma map_filter_ext_in {A B} (f g : A -> B) (p q : A -> bool) l :
  (forall a, f a = g a) -> (forall a, In a l -> p a = q a) -> map f (filter p l) = map g (filter q l).
Proof. intros Hf Hp. rewrite (filter_ext_in _ _ _ Hp). apply map_ext. exact Hf. Qed.
