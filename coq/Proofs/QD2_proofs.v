(* QuotaDistributor._subtract_overaward once a Tie object has become a key of `selected`
   (Model/QuotaDistributor.v ksubtract): the over-award loop on dictionaries keyed by candidates and ties.
   - subtract (the loop on plain dictionaries) is ksubtract on the same dictionary: one loop, one statement;
   - every iteration removes exactly one seat: a finished loop leaves total - overaward seats;
   - with a positive quota and whole quotas not above the votes (the uncapped domain) the loop never meets a
     Tie key tied with another key - the only shape left unmodelled (QD_unmodelled) is unreachable. *)
From Coq Require Import ZArith QArith Qround List Bool Lia Lqa Permutation.
From VL Require Import Prelude.PyDict Model.GetNBest Model.Quota Model.QuotaDistributor
     Proofs.Dict_proofs Proofs.GetNBest_proofs Proofs.QOrd Proofs.QD_proofs.
From VL Require Proofs.Threshold_proofs.
Import ListNotations.
Open Scope Z_scope.

(* ================================================================ get_n_best does not look at the keys *)
Section MapKeys.
  Context {A B V : Type}.
  Variable leb : V -> V -> bool.
  Variable f : A -> B.
  Definition gk (x : A * V) : B * V := (f (fst x), snd x).
  Definition res_map (r : res A) : res B := match r with Cand c => Cand (f c) | TieR l => TieR (map f l) end.

  Lemma insert_desc_gk x l : insert_desc leb (gk x) (map gk l) = map gk (insert_desc leb x l).
  Proof.
    induction l as [|y l IH]; simpl; [reflexivity|].
    destruct (leb (snd y) (snd x)); simpl; [reflexivity|rewrite IH; reflexivity].
  Qed.
  Lemma sort_desc_gk l : sort_desc leb (map gk l) = map gk (sort_desc leb l).
  Proof. induction l as [|x l IH]; simpl; [reflexivity|]. rewrite IH. apply insert_desc_gk. Qed.
  Lemma first_eq_index_gk thr l : first_eq_index leb thr (map gk l) = first_eq_index leb thr l.
  Proof. induction l as [|x l IH]; simpl; [reflexivity|]. rewrite IH. reflexivity. Qed.
  Lemma level_gk thr l :
    map fst (filter (fun it : B * V => eqv leb (snd it) thr) (map gk l)) =
    map f (map fst (filter (fun it : A * V => eqv leb (snd it) thr) l)).
  Proof.
    induction l as [|x l IH]; simpl; [reflexivity|].
    destruct (eqv leb (snd x) thr); simpl; rewrite IH; reflexivity.
  Qed.
  Lemma cands_gk l : map (fun it : B * V => Cand (fst it)) (map gk l) = map res_map (map (fun it : A * V => Cand (fst it)) l).
  Proof. rewrite !map_map. reflexivity. Qed.
  Lemma repeat_map {X Y} (g : X -> Y) x n : map g (repeat x n) = repeat (g x) n.
  Proof. induction n as [|n IH]; simpl; [reflexivity|]. rewrite IH. reflexivity. Qed.

  Theorem get_n_best_gk votes n : get_n_best leb (map gk votes) n = map res_map (get_n_best leb votes n).
  Proof.
    unfold get_n_best. rewrite sort_desc_gk. set (s := sort_desc leb votes). rewrite map_length.
    destruct (Nat.ltb n (length s)); [|apply cands_gk].
    rewrite !nth_error_map.
    destruct (nth_error s (n - 1)) as [[c1 thr]|]; simpl; [|reflexivity].
    destruct (nth_error s n) as [[c2 nxt]|]; simpl; [|reflexivity].
    destruct (eqv leb nxt thr).
    - rewrite first_eq_index_gk, map_app, Threshold_proofs.firstn_map, cands_gk, level_gk, repeat_map. reflexivity.
    - rewrite Threshold_proofs.firstn_map. apply cands_gk.
  Qed.
End MapKeys.

(* ================================================================ keys *)
Lemma key_eqb_refl k : key_eqb k k = true.
Proof.
  destruct k as [c|l]; simpl; [apply ceqb_refl|].
  assert (H : forallb (fun c => cmem c l) l = true).
  { apply forallb_forall. intros x Hx. apply Threshold_proofs.cmem_In, Hx. }
  rewrite H. reflexivity.
Qed.
Lemma key_eqb_K c k : key_eqb (K c) k = true <-> k = K c.
Proof.
  destruct k as [c'|l]; simpl; [|split; discriminate].
  rewrite ceqb_eq. split; [intros ->; reflexivity|intros [= ->]; reflexivity].
Qed.

Lemma key_eq_dec_aux (a b : key) : {a = b} + {a <> b}.
Proof. decide equality; [apply Pos.eq_dec|apply (list_eq_dec Pos.eq_dec)]. Qed.

Definition keys (d : list (key * Z)) : list key := map fst d.

Lemma kmem_in d k : In k (keys d) -> kmem d k = true.
Proof.
  intros H. unfold kmem. apply existsb_exists. unfold keys in H. apply in_map_iff in H.
  destruct H as (kv & <- & Hin). exists kv. split; [exact Hin|apply key_eqb_refl].
Qed.

(* one decrement takes exactly one seat away *)
Lemma ksum_kdec d k : kmem d k = true -> ksum (kdec d k) = ksum d - 1.
Proof.
  unfold kmem. induction d as [|[k' s] d IH]; simpl; [discriminate|].
  destruct (key_eqb k k') eqn:E; simpl.
  - intros _. destruct (s =? 1) eqn:E1; simpl; [apply Z.eqb_eq in E1; lia|lia].
  - intros H. rewrite (IH H). lia.
Qed.

Lemma kdec_keys_incl d k : incl (keys (kdec d k)) (keys d).
Proof.
  unfold keys. induction d as [|[k' s] d IH]; simpl; [intros x []|].
  destruct (key_eqb k k').
  - destruct (s =? 1); simpl; [intros x Hx; right; exact Hx|apply incl_refl].
  - simpl. intros x [Hx|Hx]; [left; exact Hx|right; apply IH, Hx].
Qed.

Lemma kdec_keys_nodup d k : NoDup (keys d) -> NoDup (keys (kdec d k)).
Proof.
  unfold keys. induction d as [|[k' s] d IH]; simpl; intros H; [constructor|].
  inversion H as [|? ? Hk Hd]; subst. destruct (key_eqb k k').
  - destruct (s =? 1); simpl; [exact Hd|constructor; assumption].
  - simpl. constructor; [|apply IH, Hd]. intros Hin. apply Hk. apply (kdec_keys_incl d k), Hin.
Qed.

(* decrementing a plain key leaves every other key alone *)
Lemma kdec_other d c k s : k <> K c -> (In (k, s) (kdec d (K c)) <-> In (k, s) d).
Proof.
  intros Hne. induction d as [|[k' s'] d IH]; cbn [kdec]; [tauto|].
  destruct (key_eqb (K c) k') eqn:E.
  - apply key_eqb_K in E. subst k'. destruct (s' =? 1); cbn [In].
    + split; [intros H; right; exact H|intros [H|H]; [injection H as <- _; congruence|exact H]].
    + split; intros [H|H]; auto; injection H as <- _; congruence.
  - cbn [In]. rewrite IH. tauto.
Qed.
Lemma kdec_self d c s : NoDup (keys d) -> In (K c, s) (kdec d (K c)) -> In (K c, s + 1) d /\ s + 1 <> 1.
Proof.
  unfold keys. induction d as [|[k' s'] d IH]; cbn [kdec map fst]; intros Hn Hin; [destruct Hin|].
  inversion Hn as [|? ? Hk Hd]; subst.
  destruct (key_eqb (K c) k') eqn:E.
  - apply key_eqb_K in E. subst k'. destruct (s' =? 1) eqn:E1.
    + exfalso. apply Hk. apply in_map_iff. exists (K c, s). auto.
    + destruct Hin as [H|H].
      * injection H as <-. apply Z.eqb_neq in E1. split; [left; f_equal; lia|lia].
      * exfalso. apply Hk. apply in_map_iff. exists (K c, s). auto.
  - destruct Hin as [H|H].
    + injection H as -> _. rewrite key_eqb_refl in E. discriminate.
    + destruct (IH Hd H) as [H1 H2]. split; [right; exact H1|exact H2].
Qed.
Lemma kdec_mem_other d c k : k <> K c -> kmem (kdec d (K c)) k = kmem d k.
Proof.
  intros Hne. unfold kmem. induction d as [|[k' s'] d IH]; cbn [kdec existsb fst]; [reflexivity|].
  destruct (key_eqb (K c) k') eqn:E.
  - apply key_eqb_K in E. subst k'.
    assert (Hf : key_eqb k (K c) = false).
    { destruct k as [c'|l]; simpl; [|reflexivity]. apply ceqb_neq. congruence. }
    destruct (s' =? 1); cbn [existsb fst]; rewrite Hf; reflexivity.
  - cbn [existsb fst]. rewrite IH. reflexivity.
Qed.

(* a tie: every tied party loses a seat *)
Lemma ksum_fold_kdec l : forall d, NoDup l -> (forall c, In c l -> In (K c) (keys d)) ->
  ksum (fold_left kdec (map K l) d) = ksum d - Z.of_nat (length l).
Proof.
  induction l as [|c l IH]; intros d Hn Hin; cbn [map fold_left length]; [lia|].
  inversion Hn as [|? ? Hc Hn']; subst. rewrite IH; [|exact Hn'|].
  - rewrite ksum_kdec by (apply kmem_in, Hin; left; reflexivity). lia.
  - intros c' Hc'. assert (Hne : K c' <> K c) by (intros [= ->]; exact (Hc Hc')).
    specialize (Hin c' (or_intror Hc')). unfold keys in *. apply in_map_iff in Hin.
    destruct Hin as ([k s] & Hk & Hin). simpl in Hk. subst k. apply in_map_iff. exists (K c', s).
    split; [reflexivity|]. apply kdec_other; assumption.
Qed.
Lemma fold_kdec_keys l : forall d, incl (keys (fold_left kdec (map K l) d)) (keys d).
Proof.
  induction l as [|c l IH]; intros d; cbn [map fold_left]; [apply incl_refl|].
  intros x Hx. apply (kdec_keys_incl d (K c)), IH, Hx.
Qed.
Lemma fold_kdec_nodup l : forall d, NoDup (keys d) -> NoDup (keys (fold_left kdec (map K l) d)).
Proof. induction l as [|c l IH]; intros d H; cbn [map fold_left]; [exact H|]. apply IH, kdec_keys_nodup, H. Qed.

(* ================================================================ plain dictionaries *)
Lemma plain_dec_key sel c : plain (dec_key sel c) = kdec (plain sel) (K c).
Proof.
  unfold plain. induction sel as [|[c' s] sel IH]; simpl; [reflexivity|].
  destruct (ceqb c c'); [destruct (s =? 1); reflexivity|]. simpl. rewrite IH. reflexivity.
Qed.
Lemma plain_fold_dec l : forall sel, plain (fold_left dec_key l sel) = fold_left kdec (map K l) (plain sel).
Proof. induction l as [|c l IH]; intros sel; simpl; [reflexivity|]. rewrite IH, plain_dec_key. reflexivity. Qed.
Lemma all_plain_map l : all_plain (map K l) = Some l.
Proof. induction l as [|c l IH]; simpl; [reflexivity|]. rewrite IH. reflexivity. Qed.
Lemma all_plain_some ks l : all_plain ks = Some l -> ks = map K l.
Proof.
  revert l. induction ks as [|[c|t] ks IH]; intros l; simpl; [intros [= <-]; reflexivity| |discriminate].
  destruct (all_plain ks) as [l0|]; [|discriminate]. intros [= <-]. simpl. rewrite (IH l0 eq_refl). reflexivity.
Qed.
Lemma kmem_plain sel l : kmem (plain sel) (KT l) = false.
Proof. unfold kmem, plain. induction sel as [|[c s] sel IH]; simpl; [reflexivity|exact IH]. Qed.
Lemma ksum_plain sel : ksum (plain sel) = zsumv sel.
Proof.
  unfold zsumv, plain. rewrite <- fold_left_rev_right.
  assert (H : forall l : list Z, fold_right (fun y x => x + y) 0 l = fold_right Z.add 0 l).
  { induction l as [|x l IH]; simpl; [reflexivity|]. rewrite IH. lia. }
  rewrite H. clear H.
  assert (H2 : forall l : list Z, fold_right Z.add 0 (rev l) = fold_right Z.add 0 l).
  { induction l as [|x l IH]; simpl; [reflexivity|]. rewrite fold_right_app. simpl.
    assert (H3 : forall (m : list Z) a, fold_right Z.add a m = fold_right Z.add 0 m + a).
    { induction m as [|y m IHm]; intros a; simpl; [lia|]. rewrite IHm. lia. }
    rewrite H3, IH. lia. }
  rewrite H2. induction sel as [|[c s] sel IH]; simpl; [reflexivity|]. rewrite IH. reflexivity.
Qed.

(* the loop on a plain dictionary is the loop on keyed dictionaries *)
Theorem subtract_is_ksubtract votes q prev : forall fuel sel over,
  subtract fuel votes q prev sel over = ksubtract fuel votes q prev (plain sel) over.
Proof.
  induction fuel as [|f IH]; intros sel over; cbn [subtract ksubtract].
  - destruct (over <=? 0); reflexivity.
  - destruct (over <=? 0); [reflexivity|].
    assert (Hrem : map (fun ks : key * Z => (fst ks, krem votes q prev ks)) (plain sel) =
                   map (gk K) (map (fun cs : C * Z => let (c, s) := cs in
                      (c, (- (dget_or votes c 0%Q - q * inject_Z (s + dget_or prev c 0)%Z))%Q)) sel)).
    { unfold plain. rewrite !map_map. apply map_ext. intros [c s]. reflexivity. }
    rewrite Hrem, (get_n_best_gk Qle_bool K).
    destruct (get_n_best Qle_bool _ 1) as [|[c|l] rest]; cbn [map res_map]; [reflexivity| |].
    + rewrite IH, plain_dec_key. reflexivity.
    + rewrite all_plain_map, kmem_plain, <- plain_fold_dec.
      destruct (over - 1 <=? 0) eqn:E; [|reflexivity].
      destruct f; cbn [ksubtract]; rewrite E; reflexivity.
Qed.

(* ================================================================ what get_n_best(remainders, 1)[0] can be *)
Lemma gnb1_head {X} (votes : list (X * Q)) : NoDup (map fst votes) ->
  match get_n_best Qle_bool votes 1 with
  | Cand k :: _ => exists v, In (k, v) votes /\ forall k' v', In (k', v') votes -> k' <> k -> ltb Qle_bool v' v = true
  | TieR T :: _ => (2 <= length T)%nat /\ NoDup T /\
                   exists thr, T = map fst (filter (fun it => eqv Qle_bool (snd it) thr) votes) /\
                               (exists c, In (c, thr) votes) /\
                               forall k' v', In (k', v') votes -> Qle_bool v' thr = true
  | [] => True
  end.
Proof.
  intros Hnd.
  destruct (get_n_best Qle_bool votes 1) as [|[k|T] rest] eqn:Er; [exact I| |].
  - destruct (get_n_best_1_cand Qle_bool Qle_bool_total Qle_bool_trans votes k rest Hnd Er) as (_ & v & H1 & H2).
    exists v. split; assumption.
  - destruct (get_n_best_spec Qle_bool Qle_bool_total Qle_bool_trans votes 1 (le_n 1)) as [Hsmall Hbig].
    destruct (Nat.le_gt_cases (length votes) 1) as [Hle|Hgt].
    + destruct (Hsmall Hle) as (s & _ & _ & Hs). rewrite Er in Hs. destruct s; discriminate.
    + destruct (Hbig Hgt) as (above & level & below & thr & Hp & _ & Ha & Hl & Hb & Hpos & Heq & Htie).
      assert (above = []) as -> by (destruct above; [reflexivity|simpl in Hpos; lia]).
      simpl in *.
      destruct (Nat.eq_dec (length level) 1) as [e|e].
      * rewrite (Heq e) in Er. destruct level; discriminate.
      * assert (Hlt : (1 < length level)%nat) by lia. rewrite (Htie Hlt) in Er. simpl in Er.
        injection Er as <- _.
        assert (Hndl : NoDup (map fst level)).
        { assert (Hpk : Permutation (map fst (level ++ below)) (map fst votes)) by (apply Permutation_map, Hp).
          apply (Permutation_NoDup (Permutation_sym Hpk)) in Hnd. rewrite map_app in Hnd.
          apply (nodup_app_l _ _ Hnd). }
        split; [rewrite map_length; lia|]. split; [exact Hndl|].
        assert (Hin : In (TieR (map fst level)) (get_n_best Qle_bool votes 1)) by (rewrite (Htie Hlt); left; reflexivity).
        destruct (get_n_best_tie_members Qle_bool Qle_bool_trans votes 1 _ Hin) as (thr' & HT & Hex).
        exists thr'. split; [exact HT|]. split; [exact Hex|].
        (* thr' is the level value, and everything is at or below it *)
        destruct level as [|[c0 v0] level']; [simpl in Hlt; lia|].
        assert (Hc0 : In c0 (map fst (filter (fun it : X * Q => eqv Qle_bool (snd it) thr') votes)))
          by (rewrite <- HT; left; reflexivity).
        apply in_map_iff in Hc0. destruct Hc0 as ([c0' v0'] & Hc & Hf). simpl in Hc. subst c0'.
        apply filter_In in Hf. destruct Hf as [Hin0 He0]. simpl in He0.
        assert (Hv0 : In (c0, v0) votes) by (eapply Permutation_in; [exact Hp|left; reflexivity]).
        assert (v0' = v0).
        { clear - Hnd Hin0 Hv0. induction votes as [|[k u] t IH]; [destruct Hin0|]. simpl in Hnd.
          inversion Hnd as [|? ? Hk Hn]; subst.
          destruct Hin0 as [H|H], Hv0 as [H'|H'].
          - congruence.
          - injection H as -> _. exfalso. apply Hk. apply in_map_iff. exists (c0, v0). auto.
          - injection H' as -> _. exfalso. apply Hk. apply in_map_iff. exists (c0, v0'). auto.
          - apply IH; assumption. }
        subst v0'.
        assert (Hthr : eqv Qle_bool v0 thr = true) by (inversion Hl; assumption).
        intros k' v' Hin'.
        assert (Hin2 : In (k', v') (((c0, v0) :: level') ++ below))
          by (eapply Permutation_in; [apply Permutation_sym, Hp|exact Hin']).
        unfold eqv in He0, Hthr. apply andb_true_iff in He0. apply andb_true_iff in Hthr.
        destruct He0 as [E1 E2], Hthr as [E3 E4].
        apply in_app_or in Hin2. destruct Hin2 as [H|H].
        -- rewrite Forall_forall in Hl. specialize (Hl _ H). simpl in Hl. unfold eqv in Hl.
           apply andb_true_iff in Hl. destruct Hl as [L1 L2].
           eapply Qle_bool_trans; [exact L1|]. eapply Qle_bool_trans; [exact E4|exact E1].
        -- rewrite Forall_forall in Hb. specialize (Hb _ H). simpl in Hb.
           apply (ltb_leb Qle_bool Qle_bool_total) in Hb.
           eapply Qle_bool_trans; [exact Hb|]. eapply Qle_bool_trans; [exact E4|exact E1].
Qed.

Section LOOP.
  Variable votes : list (C * Q).
  Variable q : Q.
  Variable prev : list (C * Z).

  Definition rems (sel : list (key * Z)) : list (key * Q) :=
    map (fun ks : key * Z => (fst ks, krem votes q prev ks)) sel.
  Lemma rems_keys sel : map fst (rems sel) = keys sel.
  Proof. unfold rems, keys. rewrite map_map. reflexivity. Qed.
  Lemma rems_in sel k v : In (k, v) (rems sel) -> exists s, In (k, s) sel /\ v = krem votes q prev (k, s).
  Proof.
    unfold rems. intros H. apply in_map_iff in H. destruct H as ([k0 s] & Heq & Hin). injection Heq as -> <-.
    exists s. split; [exact Hin|reflexivity].
  Qed.

  (* ---------------------------------------------------------------- every iteration removes one seat *)
  Theorem ksubtract_total : forall fuel sel over res, NoDup (keys sel) -> 0 <= over ->
    ksubtract fuel votes q prev sel over = QD_ok res -> ksum res = ksum sel - over.
  Proof.
    induction fuel as [|f IH]; intros sel over res Hnd Hov; cbn [ksubtract].
    - destruct (over <=? 0) eqn:E; [|discriminate]. intros [= <-]. apply Z.leb_le in E. lia.
    - destruct (over <=? 0) eqn:E; [intros [= <-]; apply Z.leb_le in E; lia|]. apply Z.leb_gt in E.
      fold (rems sel).
      assert (Hndr : NoDup (map fst (rems sel))) by (rewrite rems_keys; exact Hnd).
      pose proof (gnb1_head (rems sel) Hndr) as Hh.
      destruct (get_n_best Qle_bool (rems sel) 1) as [|[k|ks] rest]; [discriminate| |].
      + destruct Hh as (v & Hin & _). intros Hr.
        assert (Hk : In k (keys sel)) by (rewrite <- rems_keys; apply in_map_iff; exists (k, v); auto).
        assert (Hov' : 0 <= over - 1) by lia.
        rewrite (IH _ _ _ (kdec_keys_nodup sel k Hnd) Hov' Hr), (ksum_kdec sel k (kmem_in sel k Hk)). lia.
      + destruct Hh as (Hlen & Hndk & thr & HT & _ & _).
        destruct (all_plain ks) as [l|] eqn:Eap; [|discriminate].
        pose proof (all_plain_some ks l Eap) as Hks.
        destruct (kmem sel (KT l)) eqn:Ekm; intros Hr.
        * assert (Hov' : 0 <= over - 1) by lia.
          rewrite (IH _ _ _ (kdec_keys_nodup sel (KT l) Hnd) Hov' Hr), (ksum_kdec sel (KT l) Ekm). lia.
        * assert (Hl : length ks = length l) by (rewrite Hks, map_length; reflexivity).
          assert (Hndl : NoDup l).
          { rewrite Hks in Hndk. clear - Hndk. induction l as [|c l IHl]; [constructor|]. simpl in Hndk.
            inversion Hndk as [|? ? Hc Hn]; subst. constructor; [|apply IHl, Hn].
            intros Hin. apply Hc. apply in_map, Hin. }
          assert (Hinl : forall c, In c l -> In (K c) (keys sel)).
          { intros c Hc. rewrite <- rems_keys. assert (Hk : In (K c) ks) by (rewrite Hks; apply in_map, Hc).
            rewrite HT in Hk. apply in_map_iff in Hk. destruct Hk as (kv & Hkv & Hf). apply filter_In in Hf.
            apply in_map_iff. exists kv. tauto. }
          assert (Hnd' : NoDup (keys (fold_left kdec (map K l) sel ++ [(KT l, Z.of_nat (length l) - 1)]))).
          { unfold keys. rewrite map_app. apply Threshold_proofs.nodup_app_intro.
            - apply fold_kdec_nodup, Hnd.
            - constructor; [intros []|constructor].
            - intros x Hx [<-|[]]. apply (fold_kdec_keys l sel) in Hx.
              rewrite (kmem_in sel (KT l) Hx) in Ekm. discriminate. }
          assert (Hov' : 0 <= over - 1) by lia.
          rewrite (IH _ _ _ Hnd' Hov' Hr).
          unfold ksum at 1. rewrite fold_right_app. simpl.
          assert (Hfr : forall (d : list (key * Z)) a, fold_right (fun kv acc => snd kv + acc) a d = ksum d + a).
          { induction d as [|x d IHd]; intros a; simpl; [reflexivity|]. rewrite IHd. unfold ksum. simpl. lia. }
          rewrite Hfr, (ksum_fold_kdec l sel Hndl Hinl). lia.
  Qed.

  (* ---------------------------------------------------------------- the uncapped domain: no Tie of a Tie *)
  Hypothesis Hq : (0 < q)%Q.

  Record KI (sel : list (key * Z)) : Prop := {
    ki_nd : NoDup (keys sel);
    (* a party's seats (with its previous gains) are whole quotas contained in its votes *)
    ki_plain : forall c s, In (K c, s) sel -> (q * inject_Z (s + dget_or prev c 0)%Z <= dget_or votes c 0%Q)%Q;
    ki_tie : forall l s, In (KT l, s) sel -> 1 <= s;
    ki_one : forall l s l' s', In (KT l, s) sel -> In (KT l', s') sel -> l = l'
  }.

  Lemma krem_plain_le sel c s : KI sel -> In (K c, s) sel -> (krem votes q prev (K c, s) <= 0)%Q.
  Proof. intros I Hin. pose proof (ki_plain _ I c s Hin). unfold krem. cbn [fst snd]. lra. Qed.
  Lemma krem_tie_pos sel l s : KI sel -> In (KT l, s) sel -> (0 < krem votes q prev (KT l, s))%Q.
  Proof.
    intros I Hin. pose proof (ki_tie _ I l s Hin) as H1. unfold krem. cbn [fst snd].
    assert (H2 : (1 <= inject_Z (s + 0)%Z)%Q) by (change 1%Q with (inject_Z 1); rewrite <- Zle_Qle; lia).
    assert (H3 : (q * 1 <= q * inject_Z (s + 0)%Z)%Q) by (apply Qmult_le_l; assumption). lra.
  Qed.

  Lemma KI_kdec_plain sel c : KI sel -> In (K c) (keys sel) -> KI (kdec sel (K c)).
  Proof.
    intros I Hc. constructor.
    - apply kdec_keys_nodup, (ki_nd _ I).
    - intros c' s Hin. destruct (Pos.eq_dec c' c) as [->|Hne].
      + destruct (kdec_self sel c s (ki_nd _ I) Hin) as [H1 _]. pose proof (ki_plain _ I c (s + 1) H1) as Hp.
        assert (Hs : (inject_Z (s + dget_or prev c 0)%Z <= inject_Z (s + 1 + dget_or prev c 0)%Z)%Q) by (rewrite <- Zle_Qle; lia).
        assert (Hm : (q * inject_Z (s + dget_or prev c 0)%Z <= q * inject_Z (s + 1 + dget_or prev c 0)%Z)%Q)
          by (apply Qmult_le_l; assumption).
        lra.
      + apply (ki_plain _ I c' s). apply (kdec_other sel c (K c') s); [congruence|exact Hin].
    - intros l s Hin. apply (ki_tie _ I l s). apply (kdec_other sel c (KT l) s); [discriminate|exact Hin].
    - intros l s l' s' H1 H2. apply (ki_one _ I l s l' s').
      + apply (kdec_other sel c (KT l) s); [discriminate|exact H1].
      + apply (kdec_other sel c (KT l') s'); [discriminate|exact H2].
  Qed.

  Lemma KI_fold_plain l : forall sel, KI sel -> NoDup l -> (forall c, In c l -> In (K c) (keys sel)) ->
    KI (fold_left kdec (map K l) sel).
  Proof.
    induction l as [|c l IH]; intros sel I Hn Hin; cbn [map fold_left]; [exact I|].
    inversion Hn as [|? ? Hc Hn']; subst. apply IH; [apply KI_kdec_plain; [exact I|apply Hin; left; reflexivity]|exact Hn'|].
    intros c' Hc'. assert (Hne : K c' <> K c) by (intros [= ->]; exact (Hc Hc')).
    specialize (Hin c' (or_intror Hc')). unfold keys in *. apply in_map_iff in Hin.
    destruct Hin as ([k s] & Hk & Hin). simpl in Hk. subst k. apply in_map_iff. exists (K c', s).
    split; [reflexivity|]. apply kdec_other; assumption.
  Qed.

  (* decrementing the (only) Tie key *)
  Lemma kdec_tie_in sel l : KI sel -> forall k s, In (k, s) (kdec sel (KT l)) ->
    (In (k, s) sel /\ (forall l', k = KT l' -> False) \/ exists l', k = KT l' /\ In (KT l', s + 1) sel /\ s + 1 <> 1) \/
    (In (k, s) sel /\ kmem sel (KT l) = false).
  Proof.
    intros I. destruct I as [Ind _ _ Ione]. revert Ind Ione.
    induction sel as [|[k0 s0] sel IH]; intros Ind Ione k s Hin; cbn [kdec] in Hin; [destruct Hin|].
    unfold keys in Ind. simpl in Ind. inversion Ind as [|? ? Hk0 Hnd']; subst.
    destruct (key_eqb (KT l) k0) eqn:E.
    - destruct k0 as [c0|l0]; [simpl in E; discriminate|].
      (* the remaining keys are plain: there is at most one Tie key *)
      assert (Hrest : forall k1 s1, In (k1, s1) sel -> forall l', k1 = KT l' -> False).
      { intros k1 s1 H1 l' ->. assert (l0 = l') by (apply (Ione l0 s0 l' s1); [left; reflexivity|right; exact H1]).
        subst l'. apply Hk0. apply in_map_iff. exists (KT l0, s1). auto. }
      destruct (s0 =? 1) eqn:E1.
      + left. left. split; [right; exact Hin|exact (Hrest k s Hin)].
      + destruct Hin as [H|H].
        * injection H as <- <-. left. right. exists l0. split; [reflexivity|]. apply Z.eqb_neq in E1.
          split; [left; f_equal; lia|lia].
        * left. left. split; [right; exact H|exact (Hrest k s H)].
    - destruct Hin as [H|H].
      + injection H as <- <-. destruct k0 as [c0|l0].
        * left. left. split; [left; reflexivity|intros l' [=]].
        * (* a Tie key different (as a set) from KT l: then no key equal to KT l can follow *)
          right. split; [left; reflexivity|]. unfold kmem. cbn [existsb fst]. rewrite E. cbn [orb].
          apply not_true_iff_false. intros Hex. apply existsb_exists in Hex. destruct Hex as ([k1 s1] & H1 & H2).
          cbn [fst] in H2. destruct k1 as [c1|l1]; [simpl in H2; discriminate|].
          assert (l0 = l1) by (apply (Ione l0 s0 l1 s1); [left; reflexivity|right; exact H1]). subst l1.
          rewrite H2 in E. discriminate.
      + assert (Ione' : forall l1 s1 l2 s2, In (KT l1, s1) sel -> In (KT l2, s2) sel -> l1 = l2)
          by (intros l1 s1 l2 s2 H1 H2; apply (Ione l1 s1 l2 s2); right; assumption).
        destruct (IH Hnd' Ione' k s H) as [[[H1 H2]|(l' & H1 & H2 & H3)]|[H1 H2]].
        * left. left. split; [right; exact H1|exact H2].
        * left. right. exists l'. split; [exact H1|]. split; [right; exact H2|exact H3].
        * right. split; [right; exact H1|]. unfold kmem in *. cbn [existsb fst]. rewrite E. exact H2.
  Qed.

  Lemma KI_kdec_tie sel l : KI sel -> kmem sel (KT l) = true -> KI (kdec sel (KT l)).
  Proof.
    intros I Hm. pose proof (kdec_tie_in sel l I) as Hin.
    assert (Hcase : forall k s, In (k, s) (kdec sel (KT l)) ->
      (In (k, s) sel /\ (forall l', k = KT l' -> False)) \/ exists l', k = KT l' /\ In (KT l', s + 1) sel /\ s + 1 <> 1).
    { intros k s H. destruct (Hin k s H) as [H1|[_ H2]]; [exact H1|]. rewrite Hm in H2. discriminate. }
    constructor.
    - apply kdec_keys_nodup, (ki_nd _ I).
    - intros c s H. destruct (Hcase _ _ H) as [[H1 _]|(l' & H1 & _)]; [apply (ki_plain _ I c s H1)|discriminate].
    - intros l0 s H. destruct (Hcase _ _ H) as [[_ H2]|(l' & H1 & H2 & H3)]; [exfalso; exact (H2 l0 eq_refl)|].
      injection H1 as ->. pose proof (ki_tie _ I l' (s + 1) H2). lia.
    - intros l1 s1 l2 s2 H1 H2.
      destruct (Hcase _ _ H1) as [[_ A]|(l1' & A1 & A2 & _)]; [exfalso; exact (A l1 eq_refl)|].
      destruct (Hcase _ _ H2) as [[_ B]|(l2' & B1 & B2 & _)]; [exfalso; exact (B l2 eq_refl)|].
      injection A1 as ->. injection B1 as ->. exact (ki_one _ I _ _ _ _ A2 B2).
  Qed.

  Definition has_tie_key (sel : list (key * Z)) : bool :=
    existsb (fun kv : key * Z => match fst kv with KT _ => true | K _ => false end) sel.

  Theorem ksubtract_modelled : forall fuel sel over, KI sel -> ksubtract fuel votes q prev sel over <> QD_unmodelled.
  Proof.
    induction fuel as [|f IH]; intros sel over I; cbn [ksubtract].
    - destruct (over <=? 0); discriminate.
    - destruct (over <=? 0); [discriminate|]. fold (rems sel).
      assert (Hndr : NoDup (map fst (rems sel))) by (rewrite rems_keys; exact (ki_nd _ I)).
      pose proof (gnb1_head (rems sel) Hndr) as Hh.
      destruct (get_n_best Qle_bool (rems sel) 1) as [|[k|ks] rest] eqn:Er; [discriminate| |].
      + destruct Hh as (v & Hin & _).
        assert (Hk : In k (keys sel)) by (rewrite <- rems_keys; apply in_map_iff; exists (k, v); auto).
        apply IH. destruct k as [c|l]; [apply KI_kdec_plain; assumption|].
        apply KI_kdec_tie; [exact I|apply kmem_in, Hk].
      + destruct Hh as (Hlen & Hndk & thr & HT & (c0 & Hc0) & Hmax).
        (* every tied key is a plain candidate: a Tie key would hold a positive remainder, above every party's *)
        assert (Hplain : forall k, In k ks -> exists c, k = K c).
        { intros k Hk. destruct k as [c|l]; [exists c; reflexivity|exfalso].
          rewrite HT in Hk. apply in_map_iff in Hk. destruct Hk as ([k1 v1] & Hk1 & Hf). simpl in Hk1. subst k1.
          apply filter_In in Hf. destruct Hf as [Hin1 He1]. simpl in He1.
          destruct (rems_in sel _ _ Hin1) as (s1 & Hs1 & ->).
          pose proof (krem_tie_pos sel l s1 I Hs1) as Hpos.
          (* another tied key *)
          destruct ks as [|ka [|kb ks']]; simpl in Hlen; try lia.
          assert (Hother : exists k2, In k2 (ka :: kb :: ks') /\ k2 <> KT l).
          { destruct (key_eq_dec_aux ka (KT l)) as [->|Hne]; [|exists ka; split; [left; reflexivity|exact Hne]].
            exists kb. split; [right; left; reflexivity|]. intros ->. inversion Hndk as [|? ? Hx _]; subst. apply Hx. left. reflexivity. }
          destruct Hother as (k2 & Hk2 & Hne2). rewrite HT in Hk2. apply in_map_iff in Hk2.
          destruct Hk2 as ([k2' v2] & Hk2' & Hf2). simpl in Hk2'. subst k2'. apply filter_In in Hf2.
          destruct Hf2 as [Hin2 He2]. simpl in He2. destruct (rems_in sel _ _ Hin2) as (s2 & Hs2 & ->).
          assert (Heq : (krem votes q prev (k2, s2) == krem votes q prev (KT l, s1))%Q).
          { unfold eqv in He1, He2. apply andb_true_iff in He1. apply andb_true_iff in He2.
            destruct He1 as [A1 A2], He2 as [B1 B2]. apply Qle_bool_iff in A1, A2, B1, B2. lra. }
          destruct k2 as [c2|l2].
          - pose proof (krem_plain_le sel c2 s2 I Hs2). lra.
          - apply Hne2. f_equal. exact (ki_one _ I _ _ _ _ Hs2 Hs1). }
        assert (Hap : exists l, all_plain ks = Some l).
        { clear - Hplain. induction ks as [|k ks IHk]; [exists []; reflexivity|].
          destruct (Hplain k (or_introl eq_refl)) as [c ->]. destruct IHk as [l Hl]; [intros k' Hk'; apply Hplain; right; exact Hk'|].
          exists (c :: l). simpl. rewrite Hl. reflexivity. }
        destruct Hap as [l Hl]. rewrite Hl. pose proof (all_plain_some ks l Hl) as Hks.
        assert (Hinl : forall c, In c l -> In (K c) (keys sel)).
        { intros c Hc. rewrite <- rems_keys. assert (Hk : In (K c) ks) by (rewrite Hks; apply in_map, Hc).
          rewrite HT in Hk. apply in_map_iff in Hk. destruct Hk as (kv & Hkv & Hf). apply filter_In in Hf.
          apply in_map_iff. exists kv. tauto. }
        assert (Hndl : NoDup l).
        { rewrite Hks in Hndk. clear - Hndk. induction l as [|c l IHl]; [constructor|]. simpl in Hndk.
          inversion Hndk as [|? ? Hc Hn]; subst. constructor; [|apply IHl, Hn].
          intros Hin. apply Hc. apply in_map, Hin. }
        destruct (kmem sel (KT l)) eqn:Ekm; apply IH.
        * apply KI_kdec_tie; assumption.
        * (* no Tie key at all is present: one would have won alone *)
          assert (Hnokt : forall l' s', ~ In (KT l', s') sel).
          { intros l' s' Hin'. pose proof (krem_tie_pos sel l' s' I Hin') as Hpos.
            assert (Hr : In (KT l', krem votes q prev (KT l', s')) (rems sel))
              by (unfold rems; apply in_map_iff; exists (KT l', s'); split; [reflexivity|exact Hin']).
            pose proof (Hmax _ _ Hr) as Hle. apply Qle_bool_iff in Hle.
            destruct l as [|c1 l1]; [rewrite Hks in Hlen; simpl in Hlen; lia|].
            assert (Hk1 : In (K c1) ks) by (rewrite Hks; left; reflexivity).
            rewrite HT in Hk1. apply in_map_iff in Hk1. destruct Hk1 as ([k1 v1] & Hk1' & Hf). simpl in Hk1'. subst k1.
            apply filter_In in Hf. destruct Hf as [Hin1 He1]. simpl in He1.
            destruct (rems_in sel _ _ Hin1) as (s1 & Hs1 & ->).
            pose proof (krem_plain_le sel c1 s1 I Hs1).
            unfold eqv in He1. apply andb_true_iff in He1. destruct He1 as [A1 A2]. apply Qle_bool_iff in A1, A2. lra. }
          pose proof (KI_fold_plain l sel I Hndl Hinl) as I'.
          assert (Hsub : forall k s, In (k, s) (fold_left kdec (map K l) sel) -> exists c, k = K c).
          { intros k s Hin. assert (Hk : In k (keys sel)) by (apply (fold_kdec_keys l sel); unfold keys; apply in_map_iff; exists (k, s); auto).
            unfold keys in Hk. apply in_map_iff in Hk. destruct Hk as ([k' s'] & Hk' & Hin'). simpl in Hk'. subst k'.
            destruct k as [c|l']; [exists c; reflexivity|exfalso; exact (Hnokt l' s' Hin')]. }
          constructor.
          -- unfold keys. rewrite map_app. apply Threshold_proofs.nodup_app_intro.
             ++ exact (ki_nd _ I').
             ++ constructor; [intros []|constructor].
             ++ intros x Hx [<-|[]]. apply in_map_iff in Hx. destruct Hx as ([k s] & Hk & Hin). simpl in Hk. subst k.
                destruct (Hsub _ _ Hin) as [c Hc]. discriminate.
          -- intros c s Hin. apply in_app_or in Hin. destruct Hin as [Hin|[Hin|[]]]; [exact (ki_plain _ I' c s Hin)|discriminate].
          -- intros l' s Hin. apply in_app_or in Hin. destruct Hin as [Hin|[Hin|[]]].
             ++ destruct (Hsub _ _ Hin) as [c Hc]. discriminate.
             ++ injection Hin as <- <-. rewrite Hks, map_length in Hlen. lia.
          -- intros l1 s1 l2 s2 H1 H2. apply in_app_or in H1. apply in_app_or in H2.
             destruct H1 as [H1|[H1|[]]]; [destruct (Hsub _ _ H1) as [c Hc]; discriminate|].
             destruct H2 as [H2|[H2|[]]]; [destruct (Hsub _ _ H2) as [c Hc]; discriminate|].
             injection H1 as <- _. injection H2 as <- _. reflexivity.
  Qed.

  (* the loop started on a plain dictionary *)
  Theorem subtract_modelled fuel (sel : list (C * Z)) over :
    NoDup (map fst sel) ->
    (forall c s, In (c, s) sel -> (q * inject_Z (s + dget_or prev c 0)%Z <= dget_or votes c 0%Q)%Q) ->
    subtract fuel votes q prev sel over <> QD_unmodelled.
  Proof.
    intros Hnd Hw. rewrite subtract_is_ksubtract. apply ksubtract_modelled. constructor.
    - unfold keys, plain. rewrite map_map. simpl.
      clear - Hnd. induction sel as [|[c s] sel IH]; simpl in *; [constructor|].
      inversion Hnd as [|? ? Hc Hn]; subst. constructor; [|apply IH, Hn].
      intros Hin. apply Hc. apply in_map_iff in Hin. destruct Hin as ([c' s'] & [= ->] & Hin). apply in_map_iff. exists (c, s'). auto.
    - intros c s Hin. unfold plain in Hin. apply in_map_iff in Hin. destruct Hin as ([c' s'] & [= -> ->] & Hin).
      exact (Hw c s Hin).
    - intros l s Hin. unfold plain in Hin. apply in_map_iff in Hin. destruct Hin as (? & [=] & _).
    - intros l s l' s' Hin. unfold plain in Hin. apply in_map_iff in Hin. destruct Hin as (? & [=] & _).
  Qed.
End LOOP.

Theorem subtract_total votes q prev fuel (sel : list (C * Z)) over res :
  NoDup (map fst sel) -> 0 <= over ->
  subtract fuel votes q prev sel over = QD_ok res -> ksum res = zsumv sel - over.
Proof.
  intros Hnd Hov. rewrite subtract_is_ksubtract. intros Hr.
  rewrite (ksubtract_total votes q prev fuel (plain sel) over res); [rewrite ksum_plain; reflexivity| |exact Hov|exact Hr].
  unfold keys, plain. rewrite map_map. simpl.
  clear - Hnd. induction sel as [|[c s] sel IH]; simpl in *; [constructor|].
  inversion Hnd as [|? ? Hc Hn]; subst. constructor; [|apply IH, Hn].
  intros Hin. apply Hc. apply in_map_iff in Hin. destruct Hin as ([c' s'] & [= ->] & Hin). apply in_map_iff. exists (c, s'). auto.
Qed.

(* ================================================================ QuotaDistributor on the uncapped domain *)
Lemma dset_nodup_z (d : list (C * Z)) c v : NoDup (map fst d) -> NoDup (map fst (dset d c v)).
Proof.
  induction d as [|[k v0] d IH]; simpl; intros H.
  - constructor; [intros []|constructor].
  - inversion H as [|? ? Hk Hd]; subst. destruct (ceqb c k) eqn:E; simpl.
    + constructor; assumption.
    + constructor; [|apply IH, Hd]. intros Hin. apply Hk.
      assert (Hkeys : forall x, In x (map fst (dset d c v)) -> In x (map fst d) \/ x = c).
      { clear. induction d as [|[k1 v1] d IHd]; simpl; intros x Hx.
        - destruct Hx as [<-|[]]. right. reflexivity.
        - destruct (ceqb c k1); simpl in Hx; [left; exact Hx|].
          destruct Hx as [Hx|Hx]; [left; left; exact Hx|]. destruct (IHd x Hx) as [H|H]; [left; right; exact H|right; exact H]. }
      destruct (Hkeys k Hin) as [H1|H1]; [exact H1|]. subst. rewrite ceqb_refl in E. discriminate.
Qed.

Section QD2.
  Variable quota : Q -> Z -> Q.
  Variable accept_equal : bool.

  Lemma scan_nodup votes q prev caps : forall sel,
    NoDup (map fst sel) -> NoDup (map fst (scan accept_equal votes q prev caps sel)).
  Proof.
    induction votes as [|[c v] t IH]; intros sel H; cbn [scan]; [exact H|].
    apply IH.
    destruct (fulfills accept_equal v q); [|exact H].
    destruct (0 <? _); [|exact H].
    apply dset_nodup_z, H.
  Qed.

  Lemma fulfills_ge v q : fulfills accept_equal v q = true -> (q <= v)%Q.
  Proof.
    unfold fulfills. intros H. apply orb_true_iff in H. destruct H as [H|H].
    - apply negb_true_iff in H. destruct (Qlt_le_dec q v) as [Hl|Hg]; [apply Qlt_le_weak, Hl|].
      apply Qle_bool_iff in Hg. rewrite Hg in H. discriminate.
    - apply andb_true_iff in H. destruct H as [_ H]. apply Qeq_bool_iff in H. rewrite H. apply Qle_refl.
  Qed.

  (* on_overaward = 'subtract', positive quota, any caps: the over-award loop is fully modelled (no Tie of a
     Tie can arise) and a finished loop leaves exactly the seats to fill *)
  Theorem qd_subtract_capped votes n prev caps :
    let q := quota (qsumv votes) n in
    (0 < q)%Q -> NoDup (map fst votes) ->
    qd_evaluate quota accept_equal PSubtract votes n prev caps <> QD_unmodelled /\
    exists sel,
      (forall c v, In (c, v) votes -> dget_or sel c 0 = cap_add accept_equal q prev caps c v) /\
      (forall c, ~ In c (map fst votes) -> dget_or sel c 0 = 0) /\
      forall res, qd_evaluate quota accept_equal PSubtract votes n prev caps = QD_ok res ->
        ksum res + zsumv prev = Z.min n (zsumv sel + zsumv prev).
  Proof.
    intros q Hq Hnd. unfold qd_evaluate. fold q.
    assert (Qeq_bool q 0 = false) as Hq0.
    { apply not_true_iff_false. intros H. apply Qeq_bool_iff in H. rewrite H in Hq. exact (Qlt_irrefl 0 Hq). }
    rewrite Hq0. cbn [andb].
    destruct (scan_spec accept_equal votes q prev caps [] Hnd) as (Hv & Hn & Hin).
    { intros; reflexivity. }
    pose proof (scan_nodup votes q prev caps [] (NoDup_nil _)) as Hnds.
    set (sel := scan accept_equal votes q prev caps []) in *.
    assert (Hw : forall c s, In (c, s) sel -> (q * inject_Z (s + dget_or prev c 0)%Z <= dget_or votes c 0%Q)%Q).
    { intros c s Hcs. destruct (Hin c s Hcs) as [[]|(Hs0 & v & Hcv)].
      assert (Hg : dget_or sel c 0 = s) by (unfold dget_or; rewrite (In_dget sel c s Hnds Hcs); reflexivity).
      assert (Hgv : dget_or votes c 0%Q = v) by (unfold dget_or; rewrite (In_dget votes c v Hnd Hcv); reflexivity).
      rewrite Hgv. rewrite (Hv c v Hcv) in Hg. unfold cap_add in Hg.
      destruct (fulfills accept_equal v q) eqn:Ef; [|lia].
      destruct (0 <? cap_whole caps c (py_trunc (v / q)) - dget_or prev c 0) eqn:Ea; [|lia].
      pose proof (fulfills_ge v q Ef) as Hge.
      assert (Hpos : (0 <= v / q)%Q).
      { apply Qle_shift_div_l; [exact Hq|]. setoid_replace (0 * q)%Q with 0%Q by ring. eapply Qle_trans; [apply Qlt_le_weak, Hq|exact Hge]. }
      rewrite (py_trunc_floor _ Hpos) in Hg.
      assert (Hle : s + dget_or prev c 0 <= Qfloor (v / q)).
      { unfold cap_whole in Hg. destruct (dget caps c) as [m|]; lia. }
      pose proof (Qfloor_le (v / q)) as Hfl.
      assert (Hm : (q * inject_Z (s + dget_or prev c 0)%Z <= q * (v / q))%Q).
      { apply Qmult_le_l; [exact Hq|]. eapply Qle_trans; [|exact Hfl]. rewrite <- Zle_Qle. exact Hle. }
      assert (Hd : (q * (v / q) == v)%Q) by (field; intros H0; rewrite H0 in Hq; exact (Qlt_irrefl 0 Hq)).
      rewrite Hd in Hm. exact Hm. }
    split.
    - destruct (n <? zsumv sel + zsumv prev); [|discriminate].
      apply (subtract_modelled votes q prev Hq _ sel _ Hnds Hw).
    - exists sel. split; [exact Hv|]. split; [exact Hn|].
      intros res. destruct (n <? zsumv sel + zsumv prev) eqn:E.
      + apply Z.ltb_lt in E. intros Hr.
        assert (Hov : 0 <= zsumv sel + zsumv prev - n) by lia.
        rewrite (subtract_total votes q prev _ sel _ res Hnds Hov Hr). lia.
      + apply Z.ltb_ge in E. intros [= <-]. fold (plain sel). rewrite ksum_plain. lia.
  Qed.

  (* ... in particular on the domain where no whole-quota count exceeds a cap *)
  Theorem qd_subtract_domain votes n prev caps :
    let q := quota (qsumv votes) n in
    (0 < q)%Q -> NoDup (map fst votes) -> no_overshoot accept_equal votes q n prev caps ->
    qd_evaluate quota accept_equal PSubtract votes n prev caps <> QD_unmodelled /\
    exists sel,
      (forall c v, In (c, v) votes -> dget_or sel c 0 = whole_add accept_equal q prev c v) /\
      (forall c, ~ In c (map fst votes) -> dget_or sel c 0 = 0) /\
      forall res, qd_evaluate quota accept_equal PSubtract votes n prev caps = QD_ok res ->
        ksum res + zsumv prev = Z.min n (zsumv sel + zsumv prev).
  Proof.
    intros q Hq Hnd Hno. destruct (qd_subtract_capped votes n prev caps Hq Hnd) as (Hm & sel & Hv & Hn & Hr).
    split; [exact Hm|]. exists sel. split; [|split; [exact Hn|exact Hr]].
    intros c v Hcv. fold q in Hv. rewrite (Hv c v Hcv). apply (cap_add_no_overshoot accept_equal votes q n prev caps c v Hno Hcv).
  Qed.
End QD2.
