(* Monotonicity of PreferenceAddition (Bucklin / Oklahoma; Model/Bucklin.v) for one seat (C17).

   Plan.  [cumb coef b r c] is what one unit of ballot b has given candidate c in the rounds < r, [cum] its weighted
   sum over a profile.  With nobody elected yet the dictionary total_votes after r rounds holds exactly [cum .. r]
   ([add_round_spec], [Inv]); the one-seat loop returns [Cand w] iff there is a round R at which w is above the
   quota and strictly above everybody else while nobody was above the quota before ([loop1_char]).  From that
   characterisation monotonicity is arithmetic ([core_mono]): w's cumulated totals do not drop relative to the
   quota, the others' do not rise.  [_decouple_equal_rankings] is linear in the ballots WITHOUT shared ranks:
   two profiles that differ in such ballots only keep their difference through it, for every linear functional
   of the profile ([decouple_rel]) - although the function as written loses weight of ballots with shared ranks. *)
From Coq Require Import ZArith QArith List Bool Arith Lia Lqa Permutation.
From VL Require Import Prelude.Sx Prelude.PyDict Prelude.GDict Model.GetNBest Model.Convert Model.Bucklin
     Proofs.Dict_proofs Proofs.QOrd Proofs.GetNBest_proofs Proofs.Additive_proofs.
Import ListNotations.
Open Scope Q_scope.

Lemma qmul_le_l x a b : 0 <= x -> a <= b -> x * a <= x * b.
Proof. intros Hx Hab. rewrite !(Qmult_comm x). apply Qmult_le_compat_r; assumption. Qed.

(* ------------------------------------------------------------------ dictionaries C -> Q *)
Lemma dset_keys_iff (d : list (C * Q)) k x c : In c (map fst (dset d k x)) <-> c = k \/ In c (map fst d).
Proof.
  induction d as [|[k0 v0] d IH]; simpl; [intuition|].
  destruct (ceqb k k0) eqn:E; simpl.
  - apply ceqb_eq in E. subst k0. intuition.
  - rewrite IH. intuition.
Qed.

Lemma dset_nodup (d : list (C * Q)) k x : NoDup (map fst d) -> NoDup (map fst (dset d k x)).
Proof.
  induction d as [|[k0 v0] d IH]; simpl; intros H.
  - constructor; [intros []|constructor].
  - inversion H as [|? ? Hk Hd]; subst. destruct (ceqb k k0) eqn:E; simpl.
    + constructor; assumption.
    + constructor; [|apply IH, Hd]. rewrite dset_keys_iff. intros [->|Hin]; [|tauto].
      rewrite ceqb_refl in E. discriminate.
Qed.

Lemma tadd_get T c x c' : dget_or (tadd T c x) c' 0 = if ceqb c' c then dget_or T c 0 + x else dget_or T c' 0.
Proof. unfold tadd. apply dget_or_dset. Qed.

Lemma notin_get (T : list (C * Q)) c : ~ In c (map fst T) -> dget_or T c 0 = 0.
Proof.
  unfold dget_or. induction T as [|[k v] T IH]; simpl; intros H; [reflexivity|].
  destruct (ceqb c k) eqn:E; [apply ceqb_eq in E; subst; tauto|]. apply IH. tauto.
Qed.

Lemma in_get (T : list (C * Q)) c v : NoDup (map fst T) -> In (c, v) T -> dget_or T c 0 = v.
Proof. intros Hnd Hin. unfold dget_or. rewrite (In_dget T c v Hnd Hin). reflexivity. Qed.

(* ------------------------------------------------------------------ what a ballot gives a candidate *)
Fixpoint hitq (c : C) (l : list C) : Q :=
  match l with
  | [] => 0
  | x :: t => (if ceqb c x then 1 else 0) + hitq c t
  end.

Lemma hitq_nonneg c l : 0 <= hitq c l.
Proof. induction l as [|x t IH]; simpl; [lra|]. destruct (ceqb c x); lra. Qed.

Lemma hitq_notin c l : ~ In c l -> hitq c l = 0.
Proof.
  induction l as [|x t IH]; simpl; intros H; [reflexivity|].
  destruct (ceqb c x) eqn:E; [apply ceqb_eq in E; subst; tauto|]. rewrite IH by tauto. reflexivity.
Qed.

Lemma hitq_nodup_le1 c l : NoDup l -> hitq c l <= 1.
Proof.
  induction l as [|x t IH]; simpl; intros H; [lra|]. inversion H as [|? ? Hx Ht]; subst.
  destruct (ceqb c x) eqn:E.
  - apply ceqb_eq in E. subst x. rewrite (hitq_notin c t Hx). lra.
  - specialize (IH Ht). lra.
Qed.

(* round i of ballot b, per unit of weight *)
Definition contrib (coef : nat -> Q) (b : ranked) (i : nat) (c : C) : Q :=
  match nth_error b i with
  | None => 0
  | Some it => coef i * hitq c (members it)
  end.

Definition shift (coef : nat -> Q) : nat -> Q := fun i => coef (S i).

(* rounds < r of ballot b *)
Fixpoint cumb (coef : nat -> Q) (b : ranked) (r : nat) (c : C) {struct b} : Q :=
  match b with
  | [] => 0
  | it :: t =>
      match r with
      | O => 0
      | S r' => coef O * hitq c (members it) + cumb (shift coef) t r' c
      end
  end.

Lemma cumb_0 coef b c : cumb coef b 0 c = 0.
Proof. destruct b; reflexivity. Qed.

Lemma cumb_S b : forall coef r c, cumb coef b (S r) c == cumb coef b r c + contrib coef b r c.
Proof.
  induction b as [|it t IH]; intros coef r c.
  - unfold contrib. destruct r; simpl; lra.
  - destruct r as [|r].
    + cbn [cumb]. rewrite cumb_0. unfold contrib. simpl. lra.
    + cbn [cumb]. rewrite (IH (shift coef) r c). unfold contrib. simpl. unfold shift. lra.
Qed.

Lemma contrib_beyond coef b i c : (length b <= i)%nat -> contrib coef b i c = 0.
Proof. intros H. unfold contrib. apply nth_error_None in H. rewrite H. reflexivity. Qed.

Lemma cumb_beyond coef b c m : (length b <= m)%nat -> forall r, (m <= r)%nat -> cumb coef b r c == cumb coef b m c.
Proof.
  intros Hm r Hr. induction Hr as [|r Hr IH]; [reflexivity|].
  rewrite cumb_S, IH, contrib_beyond by lia. lra.
Qed.

Lemma cumb_nonneg b : forall coef r c, (forall i, 0 <= coef i) -> 0 <= cumb coef b r c.
Proof.
  induction b as [|it t IH]; intros coef r c Hc; simpl; [lra|]. destruct r; [lra|].
  pose proof (hitq_nonneg c (members it)) as Hh. pose proof (Hc O) as H0.
  assert (0 <= cumb (shift coef) t r c) by (apply IH; intros i; apply Hc).
  assert (0 <= coef O * hitq c (members it)) by (apply Qmult_le_0_compat; assumption). lra.
Qed.

Lemma cumb_notin b : forall coef r c, ~ In c (flatten b) -> cumb coef b r c == 0.
Proof.
  induction b as [|it t IH]; intros coef r c H; simpl; [reflexivity|]. destruct r; [reflexivity|].
  unfold flatten in H. simpl in H. rewrite in_app_iff in H.
  rewrite hitq_notin by tauto. rewrite IH by (unfold flatten; tauto). lra.
Qed.

(* ------------------------------------------------------------------ linear functionals of a profile *)
Definition rsum (f : ranked -> Q) (d : list (ranked * Q)) : Q :=
  fold_right (fun bw acc => snd bw * f (fst bw) + acc) 0 d.

Lemma rsum_app f a b : rsum f (a ++ b) == rsum f a + rsum f b.
Proof. induction a as [|x a IH]; simpl; [lra|]. rewrite IH. lra. Qed.

Lemma rsum_plus f g d : rsum (fun b => f b + g b) d == rsum f d + rsum g d.
Proof. induction d as [|x d IH]; simpl; [lra|]. rewrite IH. lra. Qed.

Lemma rsum_ext_in f g d : (forall bw, In bw d -> f (fst bw) == g (fst bw)) -> rsum f d == rsum g d.
Proof.
  induction d as [|x d IH]; simpl; intros H; [reflexivity|].
  rewrite IH by (intros bw Hb; apply H; auto). rewrite (H x) by auto. reflexivity.
Qed.

Lemma rsum_zero d : rsum (fun _ => 0) d == 0.
Proof. induction d as [|x d IH]; simpl; [reflexivity|]. rewrite IH. lra. Qed.

Definition cum (coef : nat -> Q) (d : list (ranked * Q)) (r : nat) (c : C) : Q := rsum (fun b => cumb coef b r c) d.

Lemma cum_0 coef d c : cum coef d 0 c == 0.
Proof. unfold cum. rewrite <- (rsum_zero d). apply rsum_ext_in. intros bw _. rewrite cumb_0. reflexivity. Qed.

Lemma cum_S coef d r c : cum coef d (S r) c == cum coef d r c + rsum (fun b => contrib coef b r c) d.
Proof.
  unfold cum. rewrite <- rsum_plus. apply rsum_ext_in. intros bw _. apply cumb_S.
Qed.

Lemma max_pref_len_ge d bw : In bw d -> (length (fst bw) <= max_pref_len d)%nat.
Proof.
  induction d as [|x d IH]; simpl; [tauto|]. intros [->|H]; [lia|]. specialize (IH H). lia.
Qed.

Lemma cum_beyond coef d c r : (max_pref_len d <= r)%nat -> cum coef d r c == cum coef d (max_pref_len d) c.
Proof.
  intros H. unfold cum. apply rsum_ext_in. intros bw Hb.
  apply cumb_beyond; [apply max_pref_len_ge, Hb|exact H].
Qed.

Lemma wsum_rsum d : wsum d == rsum (fun _ => 1) d.
Proof. induction d as [|x d IH]; simpl; [reflexivity|]. rewrite IH. lra. Qed.

Lemma wsum_nonneg d : Forall (fun bw => 0 <= snd bw) d -> 0 <= wsum d.
Proof. induction 1 as [|x d Hx _ IH]; simpl; lra. Qed.

(* ------------------------------------------------------------------ one round, nobody elected yet *)
Lemma add_members_spec y l : forall T, NoDup (map fst T) ->
  NoDup (map fst (fold_left (add_cand [] y) l T)) /\
  forall c, dget_or (fold_left (add_cand [] y) l T) c 0 == dget_or T c 0 + y * hitq c l.
Proof.
  induction l as [|x l IH]; intros T Hnd; simpl.
  - split; [exact Hnd|]. intros c. lra.
  - change (add_cand [] y T x) with (tadd T x y).
    destruct (IH (tadd T x y) (dset_nodup T x _ Hnd)) as [N V]. split; [exact N|].
    intros c. rewrite V, tadd_get. destruct (ceqb c x) eqn:E.
    + apply ceqb_eq in E. subst x. lra.
    + lra.
Qed.

Lemma add_ballot_spec coef r T bw : NoDup (map fst T) ->
  NoDup (map fst (add_ballot (coef r) r [] T bw)) /\
  forall c, dget_or (add_ballot (coef r) r [] T bw) c 0 == dget_or T c 0 + snd bw * contrib coef (fst bw) r c.
Proof.
  intros Hnd. unfold add_ballot, contrib. destruct (nth_error (fst bw) r) as [it|].
  - destruct (add_members_spec (snd bw * coef r) (members it) T Hnd) as [N V]. split; [exact N|].
    intros c. rewrite V. lra.
  - split; [exact Hnd|]. intros c. lra.
Qed.

Lemma add_round_spec coef r d : forall T, NoDup (map fst T) ->
  NoDup (map fst (add_round coef d r [] T)) /\
  forall c, dget_or (add_round coef d r [] T) c 0 == dget_or T c 0 + rsum (fun b => contrib coef b r c) d.
Proof.
  unfold add_round. induction d as [|bw d IH]; intros T Hnd; simpl.
  - split; [exact Hnd|]. intros c. lra.
  - destruct (add_ballot_spec coef r T bw Hnd) as [N1 V1].
    destruct (IH _ N1) as [N V]. split; [exact N|]. intros c. rewrite V, V1. lra.
Qed.

Definition Inv (coef : nat -> Q) (d : list (ranked * Q)) (r : nat) (T : list (C * Q)) : Prop :=
  NoDup (map fst T) /\ forall c, dget_or T c 0 == cum coef d r c.

Lemma Inv_0 coef d : Inv coef d 0 [].
Proof. split; [constructor|]. intros c. rewrite cum_0. reflexivity. Qed.

Lemma Inv_step coef d r T : Inv coef d r T -> Inv coef d (S r) (add_round coef d r [] T).
Proof.
  intros [Hnd Hv]. destruct (add_round_spec coef r d T Hnd) as [N V]. split; [exact N|].
  intros c. rewrite V, Hv, cum_S. reflexivity.
Qed.

(* ------------------------------------------------------------------ the majority filter and get_n_best for one seat *)
Lemma filter_fst_nodup {X Y} (f : X * Y -> bool) (l : list (X * Y)) :
  NoDup (map fst l) -> NoDup (map fst (filter f l)).
Proof.
  induction l as [|x l IH]; simpl; intros H; [constructor|]. inversion H as [|? ? Hx Hl]; subst.
  destruct (f x); simpl; [|apply IH, Hl]. constructor; [|apply IH, Hl].
  intros Hin. apply Hx. apply in_map_iff in Hin. destruct Hin as (z & Hz & Hin). apply filter_In in Hin.
  apply in_map_iff. exists z. tauto.
Qed.

Lemma majority_in q (T : list (C * Q)) c v : In (c, v) (majority_of q T) <-> In (c, v) T /\ q < v.
Proof.
  unfold majority_of. rewrite filter_In. simpl. rewrite qltb_iff.
  split; intros [H1 H2]; (split; [|exact H2]).
  - eapply Permutation_in; [apply (sort_desc_perm Qle_bool)|exact H1].
  - eapply Permutation_in; [apply Permutation_sym, (sort_desc_perm Qle_bool)|exact H1].
Qed.

Lemma majority_nodup q (T : list (C * Q)) : NoDup (map fst T) -> NoDup (map fst (majority_of q T)).
Proof.
  intros H. unfold majority_of. apply filter_fst_nodup.
  eapply Permutation_NoDup; [apply Permutation_map, Permutation_sym, (sort_desc_perm Qle_bool)|exact H].
Qed.

Lemma gnb1_length (l : list (C * Q)) : l <> [] -> length (get_n_best Qle_bool l 1) = 1%nat.
Proof.
  intros Hne.
  destruct (get_n_best_spec Qle_bool Qle_bool_total Qle_bool_trans l 1 (le_n 1)) as [Hsmall Hbig].
  destruct (Nat.le_gt_cases (length l) 1) as [Hle|Hgt].
  - destruct (Hsmall Hle) as (s & Hp & _ & ->). rewrite map_length, (Permutation_length Hp).
    destruct l as [|x [|y t]]; simpl in *; [congruence|reflexivity|lia].
  - destruct (Hbig Hgt) as (above & level & below & thr & Hp & _ & Ha & Hl & Hb & Hpos & Heq & Htie).
    assert (above = []) as -> by (destruct above; [reflexivity|simpl in Hpos; lia]).
    simpl in *. destruct (Nat.eq_dec (length level) 1) as [E|E].
    + rewrite (Heq E), map_length. exact E.
    + rewrite Htie by lia. reflexivity.
Qed.

Lemma drop_best_nil (T : list (C * Q)) : drop_best [] T = T.
Proof.
  unfold drop_best. induction T as [|x T IH]; [reflexivity|]. cbn [filter].
  change (elected_mem (fst x) []) with false. cbn [negb]. rewrite IH. reflexivity.
Qed.

(* ------------------------------------------------------------------ the one-seat loop, characterised *)
Section LOOP1.
  Variable coef : nat -> Q.
  Variable d : list (ranked * Q).
  Variable q : Q.
  Hypothesis Hq : 0 <= q.
  Variable w : C.

  Definition wins_at (r k : nat) : Prop :=
    exists R, (r <= R < r + k)%nat /\
      (forall i c, (r <= i < R)%nat -> cum coef d (S i) c <= q) /\
      q < cum coef d (S R) w /\
      forall c, c <> w -> cum coef d (S R) c < cum coef d (S R) w.

  (* the value of a candidate in a dictionary satisfying the invariant *)
  Lemma inv_value r T c : Inv coef d r T ->
    (exists v, In (c, v) T /\ v == cum coef d r c) \/ (~ In c (map fst T) /\ cum coef d r c == 0).
  Proof.
    intros [Hnd Hv]. destruct (in_dec Pos.eq_dec c (map fst T)) as [Hin|Hnin].
    - left. apply in_map_iff in Hin. destruct Hin as ([c' v] & Hf & Hin). simpl in Hf. subst c'.
      exists v. split; [exact Hin|]. rewrite <- (Hv c). rewrite (in_get T c v Hnd Hin). reflexivity.
    - right. split; [exact Hnin|]. rewrite <- (Hv c). rewrite (notin_get T c Hnin). reflexivity.
  Qed.

  Lemma loop1_char : forall k r T, Inv coef d r T ->
    (pa_loop coef d q 1 (seq r k) T [] = [Cand w] <-> wins_at r k).
  Proof.
    induction k as [|k IH]; intros r T HI.
    - simpl. split; [discriminate|]. intros (R & HR & _). lia.
    - cbn [seq pa_loop]. set (T1 := add_round coef d r [] T).
      pose proof (Inv_step coef d r T HI) as HI1. fold T1 in HI1.
      pose proof (majority_nodup q T1 (proj1 HI1)) as HndM.
      change (length (@nil (res C))) with 0%nat. change (1 - 0)%nat with 1%nat. cbn [app].
      destruct (majority_of q T1) as [|m0 M] eqn:EM.
      + (* nobody above the quota: next round *)
        change (get_n_best Qle_bool [] 1) with (@nil (res C)). cbn [length Nat.eqb].
        rewrite drop_best_nil.
        assert (Hall : forall c, cum coef d (S r) c <= q).
        { intros c. destruct (inv_value (S r) T1 c HI1) as [(v & Hin & Hv)|[_ H0]]; [|rewrite H0; exact Hq].
          rewrite <- Hv. apply Qnot_lt_le. intros Hlt.
          assert (Hm : In (c, v) (majority_of q T1)) by (apply majority_in; auto). rewrite EM in Hm. destruct Hm. }
        rewrite (IH (S r) T1 HI1). split.
        * intros (R & HR & Hb & Hw & Ho). exists R. split; [lia|]. split; [|auto].
          intros i c Hi. destruct (Nat.eq_dec i r) as [->|Hne]; [apply Hall|apply Hb; lia].
        * intros (R & HR & Hb & Hw & Ho). destruct (Nat.eq_dec R r) as [->|Hne].
          { pose proof (Hall w). lra. }
          exists R. split; [lia|]. split; [|auto]. intros i c Hi. apply Hb. lia.
      + (* somebody is above the quota: the loop ends here *)
        rewrite <- EM in *. assert (Hne : majority_of q T1 <> []) by (rewrite EM; discriminate).
        pose proof (gnb1_length _ Hne) as Hlen. rewrite Hlen. cbn [Nat.eqb].
        assert (Hsome : exists c v, In (c, v) T1 /\ q < v).
        { destruct m0 as [c v]. exists c, v. apply majority_in. rewrite EM. left. reflexivity. }
        split.
        * intros Hres.
          destruct (get_n_best_1_cand Qle_bool Qle_bool_total Qle_bool_trans _ w [] HndM Hres) as (_ & v & Hin & Hmax).
          apply majority_in in Hin. destruct Hin as [Hin Hqv].
          assert (Hvw : v == cum coef d (S r) w).
          { destruct HI1 as [Hnd Hv]. rewrite <- (Hv w). rewrite (in_get T1 w v Hnd Hin). reflexivity. }
          exists r. split; [lia|]. split; [intros i c Hi; lia|]. split; [rewrite <- Hvw; exact Hqv|].
          intros c Hc. rewrite <- Hvw.
          destruct (inv_value (S r) T1 c HI1) as [(v' & Hin' & Hv')|[_ H0]]; [|rewrite H0; lra].
          rewrite <- Hv'. destruct (Qlt_le_dec q v') as [Hlt|Hle]; [|lra].
          apply qltb_iff. apply (Hmax c v'); [apply majority_in; auto|exact Hc].
        * intros (R & HR & Hb & Hw & Ho). destruct (Nat.eq_dec R r) as [->|Hne2].
          { destruct (inv_value (S r) T1 w HI1) as [(v & Hin & Hv)|[_ H0]]; [|rewrite H0 in Hw; lra].
            apply (get_n_best_unique_max Qle_bool Qle_bool_total Qle_bool_trans Pos.eq_dec _ w v HndM).
            - apply majority_in. split; [exact Hin|]. rewrite Hv. exact Hw.
            - intros c' v' Hin' Hc'. apply majority_in in Hin'. destruct Hin' as [Hin' _]. apply qltb_iff.
              destruct HI1 as [Hnd Hval]. pose proof (Hval c') as E. rewrite (in_get T1 c' v' Hnd Hin') in E.
              rewrite E, Hv. apply Ho, Hc'. }
          exfalso. destruct Hsome as (c & v & Hin & Hqv).
          assert (Hle : cum coef d (S r) c <= q) by (apply Hb; lia).
          destruct HI1 as [Hnd Hval]. pose proof (Hval c) as E. rewrite (in_get T1 c v Hnd Hin) in E. lra.
  Qed.
End LOOP1.

Lemma core_char coef d w : 0 <= wsum d ->
  (pa_core coef d 1 = [Cand w] <-> wins_at coef d (wsum d * (1 # 2)) w 0 (max_pref_len d)).
Proof.
  intros H. unfold pa_core. apply loop1_char; [lra|apply Inv_0].
Qed.

(* ------------------------------------------------------------------ least round *)
Lemma least_nat (P : nat -> Prop) (Pdec : forall n, {P n} + {~ P n}) : forall n, P n ->
  exists m, (m <= n)%nat /\ P m /\ forall k, (k < m)%nat -> ~ P k.
Proof.
  induction n as [n IH] using lt_wf_ind. intros Hn.
  assert (Hex : (exists k, (k < n)%nat /\ P k) \/ forall k, (k < n)%nat -> ~ P k).
  { clear IH Hn. induction n as [|n IHn]; [right; intros k Hk; lia|].
    destruct IHn as [(k & Hk & HP)|Hno]; [left; exists k; split; [lia|exact HP]|].
    destruct (Pdec n) as [HP|HnP]; [left; exists n; split; [lia|exact HP]|].
    right. intros k Hk. destruct (Nat.eq_dec k n) as [->|Hne]; [exact HnP|apply Hno; lia]. }
  destruct Hex as [(k & Hk & HP)|Hno].
  - destruct (IH k Hk HP) as (m & Hm & HPm & Hmin). exists m. split; [lia|auto].
  - exists n. split; [lia|auto].
Qed.

(* ------------------------------------------------------------------ monotonicity of the core *)
Theorem core_mono coef d1 d2 w delta :
  Forall (fun bw => 0 <= snd bw) d1 -> Forall (fun bw => 0 <= snd bw) d2 ->
  0 <= delta -> wsum d2 * (1 # 2) == wsum d1 * (1 # 2) + delta ->
  (forall r, cum coef d1 (S r) w + delta <= cum coef d2 (S r) w) ->
  (forall r c, c <> w -> cum coef d2 (S r) c <= cum coef d1 (S r) c + delta) ->
  pa_core coef d1 1 = [Cand w] -> pa_core coef d2 1 = [Cand w].
Proof.
  intros Hn1 Hn2 Hdelta Hq Hup Hdown Hwin.
  pose proof (wsum_nonneg d1 Hn1) as Hw1. pose proof (wsum_nonneg d2 Hn2) as Hw2.
  apply (core_char coef d1 w Hw1) in Hwin. apply (core_char coef d2 w Hw2).
  set (q1 := wsum d1 * (1 # 2)) in *. set (q2 := wsum d2 * (1 # 2)) in *.
  destruct Hwin as (R1 & HR1 & Hb1 & Hw & Ho1).
  set (m2 := max_pref_len d2).
  set (P := fun r => q2 < cum coef d2 (S r) w).
  assert (Pdec : forall n, {P n} + {~ P n}).
  { intros n. unfold P. destruct (Qlt_le_dec q2 (cum coef d2 (S n) w)) as [H|H]; [left; exact H|right; lra]. }
  assert (HP1 : P R1) by (unfold P; specialize (Hup R1); lra).
  (* a round of the second run, not later than R1, at which w is above the quota *)
  assert (Hr0 : exists r0, (r0 <= R1)%nat /\ (r0 < m2)%nat /\ P r0).
  { destruct (Nat.lt_ge_cases R1 m2) as [Hlt|Hge]; [exists R1; split; [lia|split; assumption]|].
    assert (Hc : cum coef d2 (S R1) w == cum coef d2 m2 w) by (apply cum_beyond; unfold m2 in *; lia).
    destruct m2 as [|m2'] eqn:Em.
    - exfalso. unfold P in HP1. rewrite Hc, cum_0 in HP1. unfold q2 in HP1. lra.
    - exists m2'. split; [lia|]. split; [lia|]. unfold P in *. rewrite <- Hc. exact HP1. }
  destruct Hr0 as (r0 & Hr01 & Hr0m & HPr0).
  destruct (least_nat P Pdec r0 HPr0) as (R2 & HR2 & HPR2 & Hmin).
  exists R2. split; [unfold m2 in *; lia|]. split; [|split; [exact HPR2|]].
  - intros i c Hi. destruct (Pos.eq_dec c w) as [->|Hc].
    + apply Qnot_lt_le. apply Hmin. lia.
    + assert (cum coef d1 (S i) c <= q1) by (apply Hb1; lia). specialize (Hdown i c Hc). lra.
  - intros c Hc. unfold P in HPR2. destruct (Nat.eq_dec R2 R1) as [->|Hne].
    + specialize (Ho1 c Hc). specialize (Hdown R1 c Hc). specialize (Hup R1). lra.
    + assert (cum coef d1 (S R2) c <= q1) by (apply Hb1; lia). specialize (Hdown R2 c Hc). lra.
Qed.

(* ------------------------------------------------------------------ _decouple_equal_rankings *)
Lemma list_eqb_eq {X} (e : X -> X -> bool) (He : forall a b, e a b = true -> a = b) :
  forall l m, list_eqb e l m = true -> l = m.
Proof.
  induction l as [|x l IH]; intros [|y m] H; simpl in H; try discriminate; [reflexivity|].
  apply andb_true_iff in H. destruct H as [H1 H2]. rewrite (He _ _ H1), (IH _ H2). reflexivity.
Qed.

Lemma item_eqb_eq a b : item_eqb a b = true -> a = b.
Proof.
  destruct a as [x|l], b as [y|m]; simpl; try discriminate.
  - intros H. apply Pos.eqb_eq in H. subst. reflexivity.
  - intros H. apply (list_eqb_eq Pos.eqb (fun a b => proj1 (Pos.eqb_eq a b))) in H. subst. reflexivity.
Qed.

Lemma ranked_eqb_eq a b : ranked_eqb a b = true -> a = b.
Proof. apply list_eqb_eq. exact item_eqb_eq. Qed.

(* indicator of one ballot *)
Definition ind (k : ranked) : ranked -> Q := fun b => if ranked_eqb k b then 1 else 0.

Lemma rsum_gadd f d k y : rsum f (gadd ranked_eqb d k y) == rsum f d + y * f k.
Proof.
  induction d as [|[k0 v] d IH]; simpl; [lra|].
  destruct (ranked_eqb k k0) eqn:E; simpl.
  - apply ranked_eqb_eq in E. subst k0. lra.
  - rewrite IH. lra.
Qed.

Lemma rsum_rdel f d k : rsum f (rdel d k) == rsum f d - f k * rsum (ind k) d.
Proof.
  unfold rdel, ind. induction d as [|[k0 v] d IH]; simpl; [lra|].
  destruct (ranked_eqb k k0) eqn:E; simpl.
  - apply ranked_eqb_eq in E. subst k0. rewrite IH. lra.
  - rewrite IH. lra.
Qed.

Definition lsum (f : ranked -> Q) (vs : list ranked) : Q := fold_right (fun v acc => f v + acc) 0 vs.

Lemma rsum_add_variants f s vs : forall d,
  rsum f (fold_left (fun acc v => gadd ranked_eqb acc v s) vs d) == rsum f d + s * lsum f vs.
Proof.
  induction vs as [|v vs IH]; intros d; simpl; [lra|]. rewrite IH, rsum_gadd. lra.
Qed.

Lemma rsum_decouple_step fx f new bw : has_shared (fst bw) = true ->
  rsum f (decouple_step fx new bw) ==
  rsum f new - f (fst bw) * rsum (ind (fst bw)) new
  + (snd bw / inject_Z (Z.of_nat (length (variants fx (fst bw))))) * lsum f (variants fx (fst bw)).
Proof.
  intros H. unfold decouple_step. rewrite H. cbv zeta. rewrite rsum_add_variants, rsum_rdel. reflexivity.
Qed.

(* two profiles that differ only in ballots without shared ranks *)
Inductive plain_diff : list (ranked * Q) -> list (ranked * Q) -> Prop :=
| pd_nil : plain_diff [] []
| pd_same bw l1 l2 : plain_diff l1 l2 -> plain_diff (bw :: l1) (bw :: l2)
| pd_left bw l1 l2 : has_shared (fst bw) = false -> plain_diff l1 l2 -> plain_diff (bw :: l1) l2
| pd_right bw l1 l2 : has_shared (fst bw) = false -> plain_diff l1 l2 -> plain_diff l1 (bw :: l2).

Lemma plain_diff_refl l : plain_diff l l.
Proof. induction l; constructor; assumption. Qed.

Lemma plain_diff_app p l1 l2 : plain_diff l1 l2 -> plain_diff (p ++ l1) (p ++ l2).
Proof. intros H. induction p; simpl; [exact H|]. constructor. exact IHp. Qed.

Lemma decouple_rel fx (D : (ranked -> Q) -> Q) :
  (forall k, has_shared k = true -> D (ind k) == 0) ->
  forall L1 L2, plain_diff L1 L2 -> forall n1 n2,
  (forall f, rsum f n1 - rsum f n2 == D f) ->
  forall f, rsum f (fold_left (decouple_step fx) L1 n1) - rsum f (fold_left (decouple_step fx) L2 n2) == D f.
Proof.
  intros HD L1 L2 H. induction H as [|bw l1 l2 _ IH|bw l1 l2 Hp _ IH|bw l1 l2 Hp _ IH]; intros n1 n2 Hn f; simpl.
  - apply Hn.
  - apply IH. intros g. destruct (has_shared (fst bw)) eqn:E.
    + rewrite !(rsum_decouple_step fx) by exact E.
      pose proof (Hn g) as H1. pose proof (Hn (ind (fst bw))) as H2. rewrite (HD _ E) in H2.
      assert (E2 : rsum (ind (fst bw)) n1 == rsum (ind (fst bw)) n2) by lra. rewrite E2. lra.
    + unfold decouple_step. rewrite E. apply Hn.
  - apply IH. intros g. unfold decouple_step. rewrite Hp. apply Hn.
  - apply IH. intros g. unfold decouple_step. rewrite Hp. apply Hn.
Qed.

Lemma ind_plain k b : has_shared k = true -> has_shared b = false -> ind k b = 0.
Proof.
  intros Hk Hb. unfold ind. destruct (ranked_eqb k b) eqn:E; [|reflexivity].
  apply ranked_eqb_eq in E. subst. congruence.
Qed.

(* weights stay non-negative *)
Lemma gadd_nonneg (d : list (ranked * Q)) k y : 0 <= y ->
  Forall (fun bw => 0 <= snd bw) d -> Forall (fun bw => 0 <= snd bw) (gadd ranked_eqb d k y).
Proof.
  intros Hy. induction 1 as [|[k0 v] d Hx Hd IH]; simpl.
  - constructor; [exact Hy|constructor].
  - destruct (ranked_eqb k k0).
    + constructor; [simpl in *; lra|exact Hd].
    + constructor; [exact Hx|exact IH].
Qed.

Lemma share_nonneg y n : 0 <= y -> 0 <= y / inject_Z (Z.of_nat n).
Proof.
  intros Hy. unfold Qdiv. apply Qmult_le_0_compat; [exact Hy|]. apply Qinv_le_0_compat.
  change 0 with (inject_Z 0). rewrite <- Zle_Qle. lia.
Qed.

Lemma decouple_step_nonneg fx new bw : 0 <= snd bw ->
  Forall (fun bw => 0 <= snd bw) new -> Forall (fun bw => 0 <= snd bw) (decouple_step fx new bw).
Proof.
  intros Hy Hn. unfold decouple_step. destruct (has_shared (fst bw)); [|exact Hn]. cbv zeta.
  pose proof (share_nonneg (snd bw) (length (variants fx (fst bw))) Hy) as Hs.
  set (s := snd bw / inject_Z (Z.of_nat (length (variants fx (fst bw))))) in *. clearbody s.
  assert (H0 : Forall (fun bw => 0 <= snd bw) (rdel new (fst bw))).
  { unfold rdel. apply Forall_forall. intros x Hx. apply filter_In in Hx. rewrite Forall_forall in Hn. apply Hn, Hx. }
  revert H0. generalize (rdel new (fst bw)). induction (variants fx (fst bw)) as [|v vs IH]; intros d0 H0; simpl; [exact H0|].
  apply IH. apply gadd_nonneg; assumption.
Qed.

Lemma decouple_nonneg fx votes : Forall (fun bw => 0 <= snd bw) votes -> Forall (fun bw => 0 <= snd bw) (decouple fx votes).
Proof.
  intros H. unfold decouple.
  assert (G : forall L new, Forall (fun bw => 0 <= snd bw) L -> Forall (fun bw => 0 <= snd bw) new ->
              Forall (fun bw => 0 <= snd bw) (fold_left (decouple_step fx) L new)).
  { induction L as [|bw L IH]; intros new HL Hn; simpl; [exact Hn|]. inversion HL; subst.
    apply IH; [assumption|]. apply decouple_step_nonneg; assumption. }
  apply G; exact H.
Qed.

(* ------------------------------------------------------------------ the evaluator *)
Definition prep (fx split : bool) (votes : list (ranked * Q)) : list (ranked * Q) := if split then decouple fx votes else votes.

Lemma pa_eval_1 fx coef split votes w :
  pa_eval fx coef split votes 1 = PA_ok [Cand w] <-> pa_core coef (prep fx split votes) 1 = [Cand w].
Proof.
  unfold pa_eval. fold (prep fx split votes). split.
  - destruct (prep fx split votes) as [|x t] eqn:E; [discriminate|]. unfold reconcile.
    destruct (existsb _ _); [discriminate|]. intros [= H]. exact H.
  - intros H. destruct (prep fx split votes) as [|x t] eqn:E; [vm_compute in H; discriminate|].
    rewrite H. reflexivity.
Qed.

Lemma prep_nonneg fx split votes : Forall (fun bw => 0 <= snd bw) votes -> Forall (fun bw => 0 <= snd bw) (prep fx split votes).
Proof. destruct split; [apply decouple_nonneg|auto]. Qed.

(* the difference of two profiles that differ in ballots without shared ranks survives the preparation *)
Lemma prep_rel fx split L1 L2 (D : (ranked -> Q) -> Q) :
  (split = true -> plain_diff L1 L2 /\ forall k, has_shared k = true -> D (ind k) == 0) ->
  (forall f, rsum f L1 - rsum f L2 == D f) ->
  forall f, rsum f (prep fx split L1) - rsum f (prep fx split L2) == D f.
Proof.
  intros Hs H0. destruct split; [|exact H0]. destruct (Hs eq_refl) as [Hpd HD].
  unfold prep, decouple. apply decouple_rel; assumption.
Qed.

(* what the changed ballot must satisfy (per unit of weight): w is at no round worse off, nobody else better off *)
Definition pa_lifts (coef : nat -> Q) (b b' : ranked) (w : C) : Prop :=
  (forall r, cumb coef b r w <= cumb coef b' r w) /\
  (forall r c, c <> w -> cumb coef b' r c <= cumb coef b r c).

Theorem pa_mono_replace fx coef split pre post (b b' : ranked) (x : Q) (w : C) :
  Forall (fun bw => 0 <= snd bw) (pre ++ post) -> 0 <= x ->
  (split = true -> has_shared b = false /\ has_shared b' = false) ->
  pa_lifts coef b b' w ->
  pa_eval fx coef split (pre ++ (b, x) :: post) 1 = PA_ok [Cand w] ->
  pa_eval fx coef split (pre ++ (b', x) :: post) 1 = PA_ok [Cand w].
Proof.
  intros Hnn Hx Hsh [Hup Hdown]. rewrite !pa_eval_1.
  set (L1 := pre ++ (b, x) :: post). set (L2 := pre ++ (b', x) :: post).
  apply Forall_app in Hnn. destruct Hnn as [Hpre Hpost].
  assert (HL1 : Forall (fun bw => 0 <= snd bw) L1) by (apply Forall_app; split; [|constructor]; assumption).
  assert (HL2 : Forall (fun bw => 0 <= snd bw) L2) by (apply Forall_app; split; [|constructor]; assumption).
  set (D := fun f : ranked -> Q => x * f b - x * f b').
  assert (Hrel : forall f, rsum f (prep fx split L1) - rsum f (prep fx split L2) == D f).
  { apply prep_rel.
    - intros Hs. destruct (Hsh Hs) as [Hb Hb']. split.
      + unfold L1, L2. apply plain_diff_app. apply pd_left; [exact Hb|]. apply pd_right; [exact Hb'|]. apply plain_diff_refl.
      + intros k Hk. unfold D. rewrite (ind_plain k b Hk Hb), (ind_plain k b' Hk Hb'). lra.
    - intros f. unfold L1, L2, D. rewrite !rsum_app. simpl. lra. }
  apply (core_mono coef (prep fx split L1) (prep fx split L2) w 0);
    [apply prep_nonneg, HL1|apply prep_nonneg, HL2|lra| | |].
  - rewrite !wsum_rsum. pose proof (Hrel (fun _ => 1)) as H. unfold D in H. lra.
  - intros r. pose proof (Hrel (fun b0 => cumb coef b0 (S r) w)) as H. unfold D in H. fold (cum coef (prep fx split L1) (S r) w) in H.
    fold (cum coef (prep fx split L2) (S r) w) in H. specialize (Hup (S r)).
    assert (x * cumb coef b (S r) w <= x * cumb coef b' (S r) w) by (apply qmul_le_l; assumption). lra.
  - intros r c Hc. pose proof (Hrel (fun b0 => cumb coef b0 (S r) c)) as H. unfold D in H.
    fold (cum coef (prep fx split L1) (S r) c) in H. fold (cum coef (prep fx split L2) (S r) c) in H.
    specialize (Hdown (S r) c Hc).
    assert (x * cumb coef b' (S r) c <= x * cumb coef b (S r) c) by (apply qmul_le_l; assumption). lra.
Qed.

(* an added ballot: per unit of weight it must give w at least the half vote by which it raises the quota, and
   nobody else more than that *)
Definition pa_add_ok (coef : nat -> Q) (b0 : ranked) (w : C) : Prop :=
  (forall r, (1 # 2) <= cumb coef b0 (S r) w) /\
  (forall r c, c <> w -> cumb coef b0 r c <= (1 # 2)).

Theorem pa_mono_add fx coef split pre post (b0 : ranked) (x : Q) (w : C) :
  Forall (fun bw => 0 <= snd bw) (pre ++ post) -> 0 <= x ->
  (split = true -> has_shared b0 = false) ->
  pa_add_ok coef b0 w ->
  pa_eval fx coef split (pre ++ post) 1 = PA_ok [Cand w] ->
  pa_eval fx coef split (pre ++ (b0, x) :: post) 1 = PA_ok [Cand w].
Proof.
  intros Hnn Hx Hsh [Hup Hdown]. rewrite !pa_eval_1.
  set (L1 := pre ++ post). set (L2 := pre ++ (b0, x) :: post).
  assert (HL1 : Forall (fun bw => 0 <= snd bw) L1) by exact Hnn.
  apply Forall_app in Hnn. destruct Hnn as [Hpre Hpost].
  assert (HL2 : Forall (fun bw => 0 <= snd bw) L2) by (apply Forall_app; split; [|constructor]; assumption).
  set (D := fun f : ranked -> Q => - (x * f b0)).
  assert (Hrel : forall f, rsum f (prep fx split L1) - rsum f (prep fx split L2) == D f).
  { apply prep_rel.
    - intros Hs. specialize (Hsh Hs). split.
      + unfold L1, L2. apply plain_diff_app. apply pd_right; [exact Hsh|]. apply plain_diff_refl.
      + intros k Hk. unfold D. rewrite (ind_plain k b0 Hk Hsh). lra.
    - intros f. unfold L1, L2, D. rewrite !rsum_app. simpl. lra. }
  apply (core_mono coef (prep fx split L1) (prep fx split L2) w (x * (1 # 2)));
    [apply prep_nonneg, HL1|apply prep_nonneg, HL2|lra| | |].
  - rewrite !wsum_rsum. pose proof (Hrel (fun _ => 1)) as H. unfold D in H. lra.
  - intros r. pose proof (Hrel (fun b1 => cumb coef b1 (S r) w)) as H. unfold D in H. fold (cum coef (prep fx split L1) (S r) w) in H.
    fold (cum coef (prep fx split L2) (S r) w) in H. specialize (Hup r).
    assert (x * (1 # 2) <= x * cumb coef b0 (S r) w) by (apply qmul_le_l; assumption). lra.
  - intros r c Hc. pose proof (Hrel (fun b1 => cumb coef b1 (S r) c)) as H. unfold D in H.
    fold (cum coef (prep fx split L1) (S r) c) in H. fold (cum coef (prep fx split L2) (S r) c) in H.
    specialize (Hdown (S r) c Hc).
    assert (x * cumb coef b0 (S r) c <= x * (1 # 2)) by (apply qmul_le_l; assumption). lra.
Qed.

(* ------------------------------------------------------------------ instances: the winner moves up on a ballot *)
Definition coef_good (coef : nat -> Q) : Prop := (forall i, 0 <= coef i) /\ (forall i, coef (S i) <= coef i).

Lemma coef_good_shift coef : coef_good coef -> coef_good (shift coef).
Proof. intros [H1 H2]. split; intros i; unfold shift; auto. Qed.

Lemma pa_lifts_refl coef b w : pa_lifts coef b b w.
Proof. split; intros; lra. Qed.

Lemma pa_lifts_trans coef a b c w : pa_lifts coef a b w -> pa_lifts coef b c w -> pa_lifts coef a c w.
Proof.
  intros [U1 D1] [U2 D2]. split.
  - intros r. specialize (U1 r). specialize (U2 r). lra.
  - intros r x Hx. specialize (D1 r x Hx). specialize (D2 r x Hx). lra.
Qed.

(* a common prefix changes nothing *)
Lemma pa_lifts_prefix p : forall coef b b' w,
  (forall coef', coef_good coef' -> pa_lifts coef' b b' w) -> coef_good coef -> pa_lifts coef (p ++ b) (p ++ b') w.
Proof.
  induction p as [|it p IH]; intros coef b b' w H Hg; simpl; [apply H, Hg|].
  destruct (IH (shift coef) b b' w H (coef_good_shift coef Hg)) as [U D]. split.
  - intros [|r]; cbn [cumb]; [lra|]. specialize (U r). lra.
  - intros [|r] c Hc; cbn [cumb]; [lra|]. specialize (D r c Hc). lra.
Qed.

(* w passes the item directly above it *)
Lemma swap_lifts coef (it : item) (w : C) (s : ranked) : coef_good coef -> ~ In w (members it) ->
  pa_lifts coef (it :: IP w :: s) (IP w :: it :: s) w.
Proof.
  intros [Hnn Hdec] Hw.
  pose proof (Hnn 0%nat) as N0. pose proof (Hnn 1%nat) as N1. pose proof (Hdec 0%nat) as D0.
  split.
  - intros [|[|r]]; cbn [cumb members hitq]; unfold shift; rewrite ?cumb_0, ?(hitq_notin w (members it) Hw), ?ceqb_refl; lra.
  - intros r c Hc. assert (E : ceqb c w = false) by (apply ceqb_neq; exact Hc).
    pose proof (hitq_nonneg c (members it)) as Hh.
    assert (M0 : 0 <= coef 0%nat * hitq c (members it)) by (apply Qmult_le_0_compat; assumption).
    assert (M1 : coef 1%nat * hitq c (members it) <= coef 0%nat * hitq c (members it)) by (apply Qmult_le_compat_r; assumption).
    destruct r as [|[|r]]; cbn [cumb members hitq]; unfold shift; rewrite ?cumb_0, ?E; lra.
Qed.

Theorem move_up_lifts coef (p1 p2 p3 : ranked) (w : C) : coef_good coef -> ~ In w (flatten p2) ->
  pa_lifts coef (p1 ++ p2 ++ IP w :: p3) (p1 ++ IP w :: p2 ++ p3) w.
Proof.
  intros Hg Hw. apply pa_lifts_prefix; [|exact Hg]. clear coef Hg. intros coef Hg.
  revert p3. induction p2 as [|it p2 IH] using rev_ind; intros p3; [apply pa_lifts_refl|].
  assert (Hw2 : ~ In w (flatten p2) /\ ~ In w (members it)).
  { unfold flatten in *. rewrite flat_map_app, in_app_iff in Hw. simpl in Hw. rewrite app_nil_r in Hw. tauto. }
  destruct Hw2 as [Hw2 Hwi].
  apply (pa_lifts_trans coef _ (p2 ++ IP w :: it :: p3)).
  - rewrite <- app_assoc. simpl. apply pa_lifts_prefix; [|exact Hg]. intros coef' Hg'. apply swap_lifts; assumption.
  - specialize (IH Hw2 (it :: p3)). rewrite <- app_assoc. simpl. exact IH.
Qed.

(* ------------------------------------------------------------------ instances: a new ballot with the winner on top *)
Lemma nodup_app_disj {X} (a b : list X) : NoDup (a ++ b) -> forall x, In x a -> ~ In x b.
Proof.
  induction a as [|y a IH]; simpl; intros H x; [tauto|]. inversion H as [|? ? Hy Hab]; subst.
  intros [->|Hx]; [intros Hb; apply Hy, in_or_app; auto|apply IH; assumption].
Qed.

Lemma nodup_app_l {X} (a b : list X) : NoDup (a ++ b) -> NoDup a.
Proof.
  induction a as [|y a IH]; simpl; intros H; [constructor|]. inversion H as [|? ? Hy Hab]; subst.
  constructor; [intros Hin; apply Hy, in_or_app; auto|apply IH, Hab].
Qed.

Lemma nodup_app_r {X} (a b : list X) : NoDup (a ++ b) -> NoDup b.
Proof. induction a as [|y a IH]; simpl; intros H; [exact H|]. inversion H; subst. auto. Qed.

Lemma cumb_bounded b : forall coef h r c, 0 <= h -> NoDup (flatten b) -> (forall i, 0 <= coef i) ->
  (forall i, (i < length b)%nat -> coef i <= h) -> cumb coef b r c <= h.
Proof.
  induction b as [|it t IH]; intros coef h r c Hh Hnd Hnn Hle; simpl; [exact Hh|]. destruct r; [exact Hh|].
  unfold flatten in Hnd. simpl in Hnd. fold (flatten t) in Hnd.
  pose proof (Hnn 0%nat) as N0. pose proof (Hle 0%nat ltac:(simpl; lia)) as L0.
  destruct (in_dec Pos.eq_dec c (members it)) as [Hin|Hnin].
  - rewrite (cumb_notin t (shift coef) r c (nodup_app_disj _ _ Hnd c Hin)).
    pose proof (hitq_nodup_le1 c (members it) (nodup_app_l _ _ Hnd)) as H1.
    assert (coef 0%nat * hitq c (members it) <= coef 0%nat * 1) by (apply qmul_le_l; assumption). lra.
  - rewrite (hitq_notin c (members it) Hnin).
    assert (cumb (shift coef) t r c <= h).
    { apply IH; [exact Hh|apply (nodup_app_r _ _ Hnd)|intros i; apply Hnn|].
      intros i Hi. unfold shift. apply Hle. simpl. lia. }
    lra.
Qed.

Theorem top_add_ok coef (rest : ranked) (w : C) :
  (forall i, 0 <= coef i) -> (1 # 2) <= coef 0%nat ->
  (forall i, (1 <= i < S (length rest))%nat -> coef i <= (1 # 2)) -> NoDup (flatten rest) ->
  pa_add_ok coef (IP w :: rest) w.
Proof.
  intros Hnn H0 Hle Hnd. split.
  - intros r. cbn [cumb members hitq]. rewrite ceqb_refl.
    assert (0 <= cumb (shift coef) rest r w) by (apply cumb_nonneg; intros i; apply Hnn). lra.
  - intros [|r] c Hc; cbn [cumb members hitq]; [lra|].
    assert (E : ceqb c w = false) by (apply ceqb_neq; exact Hc). rewrite E.
    assert (cumb (shift coef) rest r c <= 1 # 2).
    { apply cumb_bounded; [lra|exact Hnd|intros i; apply Hnn|]. intros i Hi. unfold shift. apply Hle. lia. }
    lra.
Qed.

(* ------------------------------------------------------------------ the presets *)
Lemma bucklin_coef_good : coef_good bucklin_coef.
Proof. split; intros i; unfold bucklin_coef; lra. Qed.

Lemma oklahoma_coef_good : coef_good oklahoma_coef.
Proof.
  split; intros i; unfold oklahoma_coef, Qle; cbn [Qnum Qden].
  - lia.
  - rewrite !Z.mul_1_l. apply Pos2Z.pos_le_pos. apply of_nat_S_le.
Qed.

Lemma oklahoma_coef_half i : (1 <= i)%nat -> oklahoma_coef i <= 1 # 2.
Proof.
  intros Hi. unfold oklahoma_coef, Qle. cbn [Qnum Qden]. destruct i as [|i]; [lia|].
  rewrite Nat2Pos.inj_succ by lia. lia.
Qed.

(* ------------------------------------------------------------------ packaged statements *)
Lemma has_shared_app a b : has_shared (a ++ b) = has_shared a || has_shared b.
Proof. apply existsb_app. Qed.

Lemma has_shared_move p1 p2 p3 w : has_shared (p1 ++ IP w :: p2 ++ p3) = has_shared (p1 ++ p2 ++ IP w :: p3).
Proof.
  rewrite !has_shared_app. change (IP w :: p2 ++ p3) with ([IP w] ++ p2 ++ p3). change (IP w :: p3) with ([IP w] ++ p3).
  rewrite !has_shared_app. simpl. reflexivity.
Qed.

Lemma has_shared_plain l : has_shared (plain_ballot l) = false.
Proof. unfold plain_ballot. induction l; simpl; auto. Qed.

Lemma flatten_plain l : flatten (plain_ballot l) = l.
Proof. unfold plain_ballot, flatten. induction l as [|x l IH]; simpl; [reflexivity|]. rewrite IH. reflexivity. Qed.

Theorem pa_move_up fx coef split pre post (p1 p2 p3 : ranked) (x : Q) (w : C) :
  (forall i, 0 <= coef i) -> (forall i, coef (S i) <= coef i) ->
  Forall (fun bw => 0 <= snd bw) (pre ++ post) -> 0 <= x ->
  ~ In w (flatten p2) ->
  (split = true -> has_shared (p1 ++ p2 ++ IP w :: p3) = false) ->
  pa_eval fx coef split (pre ++ (p1 ++ p2 ++ IP w :: p3, x) :: post) 1 = PA_ok [Cand w] ->
  pa_eval fx coef split (pre ++ (p1 ++ IP w :: p2 ++ p3, x) :: post) 1 = PA_ok [Cand w].
Proof.
  intros Hnn Hdec Hw Hx Hp2 Hsh. apply pa_mono_replace; [exact Hw|exact Hx| |].
  - intros Hs. split; [apply Hsh, Hs|]. rewrite has_shared_move. apply Hsh, Hs.
  - apply move_up_lifts; [split; assumption|exact Hp2].
Qed.

Theorem pa_move_up_plain fx coef pre post (l1 l2 l3 : list C) (x : Q) (w : C) : coef_good coef ->
  Forall (fun bw => 0 <= snd bw) (pre ++ post) -> 0 <= x -> ~ In w l2 ->
  pa_eval fx coef true (pre ++ (plain_ballot (l1 ++ l2 ++ w :: l3), x) :: post) 1 = PA_ok [Cand w] ->
  pa_eval fx coef true (pre ++ (plain_ballot (l1 ++ w :: l2 ++ l3), x) :: post) 1 = PA_ok [Cand w].
Proof.
  intros [Hnn Hdec] Hw Hx Hl2. unfold plain_ballot. rewrite !map_app. cbn [map]. rewrite !map_app.
  apply pa_move_up; try assumption.
  - fold (plain_ballot l2). rewrite flatten_plain. exact Hl2.
  - intros _. change (IP w :: map IP l3) with (plain_ballot (w :: l3)). fold (plain_ballot l1). fold (plain_ballot l2).
    rewrite !has_shared_app, !has_shared_plain. reflexivity.
Qed.

Theorem pa_add_top fx coef split pre post (rest : ranked) (x : Q) (w : C) :
  (forall i, 0 <= coef i) -> (1 # 2) <= coef 0%nat ->
  (forall i, (1 <= i < S (length rest))%nat -> coef i <= (1 # 2)) -> NoDup (flatten rest) ->
  (split = true -> has_shared rest = false) ->
  Forall (fun bw => 0 <= snd bw) (pre ++ post) -> 0 <= x ->
  pa_eval fx coef split (pre ++ post) 1 = PA_ok [Cand w] ->
  pa_eval fx coef split (pre ++ (IP w :: rest, x) :: post) 1 = PA_ok [Cand w].
Proof.
  intros Hnn H0 Hle Hnd Hsh Hw Hx. apply pa_mono_add; [exact Hw|exact Hx| |].
  - intros Hs. simpl. apply Hsh, Hs.
  - apply top_add_ok; assumption.
Qed.
