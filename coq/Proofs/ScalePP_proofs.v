(* Scale invariance (C11) of PureProportionality (Model/PureProp.v): the seats are shares of the house, votes enter only
   through v / total, so every pass of the loop computes the same (normalised) fractions, fixes the same candidates and
   raises the same ZeroDivisionError on the k-fold votes. *)
From Coq Require Import ZArith QArith List Bool Lia Lqa Qfield.
From VL Require Import Prelude.PyDict Model.GetNBest Model.QuotaDistributor Model.PureProp
     Proofs.Scale_proofs Proofs.LRScale_proofs.
Import ListNotations.
Open Scope Q_scope.

Section PPScale.
  Variable k : Q.
  Hypothesis Hk : 0 < k.

  Lemma filter_scaleq (g : C -> bool) votes :
    filter (fun cv : C * Q => g (fst cv)) (scaleq k votes) = scaleq k (filter (fun cv : C * Q => g (fst cv)) votes).
  Proof.
    unfold scaleq, mapv. induction votes as [|[c v] votes IH]; cbn [map filter fst]; [reflexivity|].
    destruct (g c); cbn [map fst snd]; rewrite IH; reflexivity.
  Qed.

  Lemma qsumv_scaleq votes : qsumv (scaleq k votes) == k * qsumv votes.
  Proof. exact (qsumv_rel k _ _ (vrel_scale k votes)). Qed.

  Lemma pp_cand_scale prev caps budget total total' st c v : total' == k * total -> ~ total == 0 ->
    pp_cand prev caps budget total' st (c, k * v) = pp_cand prev caps budget total st (c, v).
  Proof.
    intros Ht Hnz. unfold pp_cand. cbn [fst snd].
    assert (E : Qred (k * v * (budget / total')) = Qred (v * (budget / total))).
    { apply Qred_complete. rewrite Ht. field. split; [exact Hnz|lra]. }
    rewrite E. reflexivity.
  Qed.

  Lemma pp_pass_scale votes n prev caps st : pp_pass (scaleq k votes) n prev caps st = pp_pass votes n prev caps st.
  Proof.
    unfold pp_pass. rewrite (filter_scaleq (fun c => negb (cmem c (fst st)))).
    set (current := filter (fun cv : C * Q => negb (cmem (fst cv) (fst st))) votes).
    pose proof (qsumv_scaleq current) as Ht.
    assert (Hz : Qeq_bool (qsumv (scaleq k current)) 0 = Qeq_bool (qsumv current) 0).
    { apply (qsc_eq k Hk); [exact Ht|]. unfold qsc. ring. }
    rewrite Hz. destruct (Qeq_bool (qsumv current) 0) eqn:E; [reflexivity|]. f_equal.
    assert (Hnz : ~ qsumv current == 0) by (intros H; apply Qeq_bool_iff in H; congruence).
    generalize (fst st, filter (fun cs : C * Q => cmem (fst cs) (fst st)) (snd st)) as s0.
    generalize (inject_Z n - qsum (map snd (filter (fun cs : C * Q => cmem (fst cs) (fst st)) (snd st)))) as budget.
    intros budget. clearbody current. clear E Hz.
    set (total := qsumv current) in *. set (total' := qsumv (scaleq k current)) in *. clearbody total total'.
    induction current as [|[c v] cur IH]; intros s0; cbn [scaleq mapv map fold_left fst snd]; [reflexivity|].
    rewrite (pp_cand_scale prev caps budget total total' s0 c v Ht Hnz). apply IH.
  Qed.

  Lemma pp_loop_scale fuel votes n prev caps : forall st,
    pp_loop fuel (scaleq k votes) n prev caps st = pp_loop fuel votes n prev caps st.
  Proof.
    induction fuel as [|f IH]; intros st; cbn [pp_loop]; [reflexivity|]. rewrite pp_pass_scale.
    destruct (pp_pass votes n prev caps st) as [st'|]; [|reflexivity].
    destruct (Nat.eqb (length (fst st')) (length (fst st))); [reflexivity|apply IH].
  Qed.

  Theorem pp_evaluate_scale votes n prev caps : pp_evaluate (scaleq k votes) n prev caps = pp_evaluate votes n prev caps.
  Proof.
    unfold pp_evaluate. unfold scaleq at 1, mapv. rewrite map_length. apply pp_loop_scale.
  Qed.
End PPScale.
