(* Scale invariance (C11) of the threshold family (Model/Threshold.v, the QuotaSelector of Model/QuotaDistributor.v):
   RelativeThreshold is scale-free, AbsoluteThreshold scales with its line (and is NOT scale-free when the line is kept),
   AlternativeThresholds and the bracketers inherit both facts; QuotaSelector is scale-free for every homogeneous quota
   function (Hare, Hagenbach-Bischoff, Imperiali) and genuinely not for Droop; Conditioned(threshold, highest averages)
   is the composition with Scale_proofs.ha_scale (through its relational form below); ThresholdOpenList is scale-free
   when its jump threshold is relative (jump_fraction and / or a homogeneous quota).
   Everything is stated over value relations  x' == k * x  (LRScale_proofs.vrel) so that the theorems also cover votes
   that are k-fold only up to the representation of the rationals. *)
From Coq Require Import ZArith QArith Qround List Bool Lia Lqa Qfield.
From VL Require Import Prelude.PyDict Model.GetNBest Model.Quota Model.QuotaDistributor Model.Threshold Model.HighestAverages Model.Conditioned
     Proofs.Dict_proofs Proofs.GetNBest_proofs Proofs.QOrd Proofs.Scale_proofs Proofs.LRScale_proofs.
Import ListNotations.

(* ---------------------------------------------------------------- induction over selectors (nested in lists) *)
Section SelInd.
  Variable P : sel -> Prop.
  Hypothesis Habs : forall t ae, P (SAbs t ae).
  Hypothesis Hrel : forall t ae, P (SRel t ae).
  Hypothesis Halt : forall parts, Forall P parts -> P (SAlt parts).

  Fixpoint sel_induction (s : sel) : P s :=
    match s with
    | SAbs t ae => Habs t ae
    | SRel t ae => Hrel t ae
    | SAlt parts =>
        Halt parts ((fix go (l : list sel) : Forall P l :=
                       match l with
                       | [] => Forall_nil P
                       | x :: t => Forall_cons x (sel_induction x) (go t)
                       end) parts)
    end.
End SelInd.

(* ---------------------------------------------------------------- generic facts about related lists *)
Section LRel.
  Context {K V W : Type}.
  Variable R : V -> W -> Prop.

  Lemma lrel_filter (f : K * V -> bool) (f' : K * W -> bool) l l' :
    (forall x x', prel R x x' -> f' x' = f x) -> lrel R l l' -> lrel R (filter f l) (filter f' l').
  Proof.
    intros Hf H. induction H as [|y y' l l' Hy Hl IH]; cbn [filter]; [constructor|].
    rewrite (Hf _ _ Hy). destruct (f y); [constructor; assumption|exact IH].
  Qed.

  Lemma lrel_keys (l : list (K * V)) (l' : list (K * W)) : lrel R l l' -> map fst l' = map fst l.
  Proof. intros H. induction H as [|y y' l l' Hy Hl IH]; cbn [map]; [reflexivity|]. rewrite IH, (proj1 Hy). reflexivity. Qed.

  Lemma lrel_len (l : list (K * V)) (l' : list (K * W)) : lrel R l l' -> length l' = length l.
  Proof. intros H. induction H; cbn [length]; congruence. Qed.

  Lemma lrel_first (n : nat) (l : list (K * V)) (l' : list (K * W)) : lrel R l l' -> lrel R (firstn n l) (firstn n l').
  Proof.
    intros H. revert n. induction H as [|y y' l l' Hy Hl IH]; intros [|n]; cbn [firstn]; try constructor; auto.
    apply IH.
  Qed.
End LRel.

(* stable ascending sort by a key that is EQUAL on both sides, payloads related *)
Section SortAscPayload.
  Context {X Y V : Type}.
  Variable leb : V -> V -> bool.
  Variable R : X -> Y -> Prop.
  Definition payrel (a : X * V) (b : Y * V) : Prop := R (fst a) (fst b) /\ snd a = snd b.

  Lemma insert_asc_pay x x' l l' : payrel x x' -> Forall2 payrel l l' ->
    Forall2 payrel (insert_asc leb x l) (insert_asc leb x' l').
  Proof.
    intros Hx H. induction H as [|a b l l' Hab Hl IH]; cbn [insert_asc]; [constructor; [exact Hx|constructor]|].
    rewrite <- (proj2 Hx), <- (proj2 Hab). destruct (leb (snd x) (snd a)); constructor; auto.
  Qed.

  Lemma sort_asc_pay l l' : Forall2 payrel l l' -> Forall2 payrel (sort_asc leb l) (sort_asc leb l').
  Proof. induction 1 as [|a b l l' Hab _ IH]; cbn [sort_asc]; [constructor|]. apply insert_asc_pay; assumption. Qed.
End SortAscPayload.

Section ThrScale.
  Variable k : Q.
  Hypothesis Hk : (0 < k)%Q.

  Notation qsc := (qsc k).
  Notation vrel := (vrel k).

  Lemma passes_rel ae v v' t t' : qsc v v' -> qsc t t' -> passes ae v' t' = passes ae v t.
  Proof. intros Hv Ht. unfold passes. rewrite (qsc_le k Hk _ _ _ _ Hv Ht), (qsc_eq k Hk _ _ _ _ Hv Ht). reflexivity. Qed.

  Lemma passes_eq ae v v' t : (v' == v)%Q -> passes ae v' t = passes ae v t.
  Proof.
    intros Hv. unfold passes.
    rewrite (Qle_bool_Qeq v v' t t Hv (Qeq_refl t)), (Qeq_bool_Qeq v v' t t Hv (Qeq_refl t)). reflexivity.
  Qed.

  Lemma sorted_rel votes votes' : vrel votes votes' -> vrel (sort_desc Qle_bool votes) (sort_desc Qle_bool votes').
  Proof. intros H. exact (sort_desc_rel Qle_bool Qle_bool (LRScale_proofs.qsc k) (qsc_le k Hk) _ _ H). Qed.

  (* ------------------------------------------------------------ seatless selectors *)
  (* the k-fold selector: absolute lines are multiplied by k, relative shares stay *)
  Fixpoint sel_scale (s : sel) : sel :=
    match s with
    | SAbs t ae => SAbs (k * t) ae
    | SRel t ae => SRel t ae
    | SAlt parts => SAlt (map sel_scale parts)
    end.

  (* selectors that contain no absolute line *)
  Fixpoint sel_relative (s : sel) : bool :=
    match s with
    | SAbs _ _ => false
    | SRel _ _ => true
    | SAlt parts => forallb sel_relative parts
    end.

  Lemma sel_scale_relative s : sel_relative s = true -> sel_scale s = s.
  Proof.
    induction s as [t ae|t ae|parts IH] using sel_induction; cbn [sel_relative sel_scale]; [discriminate|reflexivity|].
    intros H. f_equal. induction IH as [|p ps Hp _ IHps]; cbn [map]; [reflexivity|].
    cbn [forallb] in H. apply andb_true_iff in H. destruct H as [H1 H2]. rewrite (Hp H1), (IHps H2). reflexivity.
  Qed.

  Theorem sel_eval_rel s : forall votes votes', vrel votes votes' -> sel_eval (sel_scale s) votes' = sel_eval s votes.
  Proof.
    induction s as [t ae|t ae|parts IH] using sel_induction; intros votes votes' Hv; cbn [sel_scale sel_eval].
    - apply (lrel_keys (LRScale_proofs.qsc k)). apply lrel_filter; [|apply sorted_rel, Hv].
      intros x x' [_ Hx]. apply passes_rel; [exact Hx|]. unfold LRScale_proofs.qsc. reflexivity.
    - apply (lrel_keys (LRScale_proofs.qsc k)). apply lrel_filter; [|apply sorted_rel, Hv].
      intros x x' [_ Hx]. apply passes_eq. apply (qsc_div k Hk); [exact Hx|]. apply (qsumv_rel k), Hv.
    - f_equal. induction IH as [|p ps Hp _ IHps]; cbn [map flat_map]; [reflexivity|].
      rewrite (Hp _ _ Hv), IHps. reflexivity.
  Qed.

  Corollary sel_eval_relative_rel s votes votes' : sel_relative s = true -> vrel votes votes' ->
    sel_eval s votes' = sel_eval s votes.
  Proof. intros Hs Hv. rewrite <- (sel_scale_relative s Hs) at 1. apply sel_eval_rel, Hv. Qed.

  (* ------------------------------------------------------------ bracketers *)
  Definition evals_scale (evals : list (Z * option sel)) : list (Z * option sel) :=
    map (fun e => (fst e, option_map sel_scale (snd e))) evals.

  Lemma find_evals_scale evals b :
    match find (fun e : Z * option sel => Z.eqb (fst e) b) (evals_scale evals) with
    | Some e => Some (snd e) | None => None end
    = option_map (option_map sel_scale)
        (match find (fun e : Z * option sel => Z.eqb (fst e) b) evals with Some e => Some (snd e) | None => None end).
  Proof.
    induction evals as [|e evals IH]; cbn [evals_scale map find fst]; [reflexivity|].
    destruct (Z.eqb (fst e) b); [reflexivity|exact IH].
  Qed.

  Theorem bracket_eval_rel evals default bracket votes votes' : vrel votes votes' ->
    bracket_eval (evals_scale evals) (option_map sel_scale default) bracket votes' = bracket_eval evals default bracket votes.
  Proof.
    intros Hv. unfold bracket_eval.
    apply (lrel_keys (LRScale_proofs.qsc k)). apply lrel_filter; [|apply sorted_rel, Hv].
    intros x x' [Hc _]. rewrite <- Hc.
    pose proof (find_evals_scale evals (dget_or bracket (fst x) 1%Z)) as Hf.
    destruct (find _ (evals_scale evals)) as [e'|]; destruct (find _ evals) as [e|]; cbn [option_map] in Hf; try discriminate.
    - injection Hf as Hf. rewrite Hf. destruct (snd e) as [s|]; cbn [option_map]; [|reflexivity].
      rewrite (sel_eval_rel s _ _ Hv). reflexivity.
    - destruct default as [s|]; cbn [option_map]; [|reflexivity]. rewrite (sel_eval_rel s _ _ Hv). reflexivity.
  Qed.

  (* ------------------------------------------------------------ QuotaSelector *)
  (* two quota functions related by the scaling: a homogeneous one with itself, a constant quota q with k * q *)
  Theorem qsel_evaluate_rel2 (quota quota' : Q -> Z -> Q) ae select votes votes' n :
    (forall v v' m, qsc v v' -> qsc (quota v m) (quota' v' m)) -> vrel votes votes' ->
    qsel_evaluate quota' ae select votes' n = qsel_evaluate quota ae select votes n.
  Proof.
    intros Hq Hv. unfold qsel_evaluate.
    pose proof (Hq _ _ n (qsumv_rel k _ _ Hv)) as Hquota.
    assert (Hover : vrel (filter (fun cv : C * Q => fulfills ae (snd cv) (quota (qsumv votes) n)) votes)
                         (filter (fun cv : C * Q => fulfills ae (snd cv) (quota' (qsumv votes') n)) votes')).
    { apply lrel_filter; [|exact Hv]. intros x x' [_ Hx]. apply (fulfills_rel k Hk); assumption. }
    rewrite (lrel_len _ _ _ Hover).
    rewrite (get_n_best_rel Qle_bool Qle_bool (LRScale_proofs.qsc k) (qsc_le k Hk) _ _ (Z.to_nat n) Hover). reflexivity.
  Qed.

  Corollary qsel_evaluate_rel (quota : Q -> Z -> Q) ae select votes votes' n :
    (forall v v' m, qsc v v' -> qsc (quota v m) (quota v' m)) -> vrel votes votes' ->
    qsel_evaluate quota ae select votes' n = qsel_evaluate quota ae select votes n.
  Proof. apply qsel_evaluate_rel2. Qed.

  (* ------------------------------------------------------------ Conditioned(threshold, highest averages) *)
  Lemma keep_selected_scale passed votes : keep_selected passed (scaleq k votes) = scaleq k (keep_selected passed votes).
  Proof.
    unfold keep_selected, scaleq, mapv. induction votes as [|[c v] votes IH]; cbn [map filter fst]; [reflexivity|].
    destruct (cmem c passed); cbn [map fst snd]; rewrite IH; reflexivity.
  Qed.

  Lemma vrel_scaleq votes : vrel votes (scaleq k votes).
  Proof. exact (vrel_scale k votes). Qed.

  Theorem conditioned_ha_scale s d votes n prev caps :
    conditioned_ha (sel_scale s) d (scaleq k votes) n prev caps = conditioned_ha s d votes n prev caps.
  Proof.
    unfold conditioned_ha. rewrite (sel_eval_rel s _ _ (vrel_scaleq votes)), keep_selected_scale.
    apply ha_scale, Hk.
  Qed.

  (* ------------------------------------------------------------ ThresholdOpenList *)
  Definition ol_homog (cfg : ol_cfg) : Prop :=
    forall qf, ol_quota cfg = Some qf -> forall v v' n, qsc v v' -> qsc (qf v n) (qf v' n).

  Lemma ol_threshold_rel cfg t t' n : ol_homog cfg -> qsc t t' ->
    match ol_threshold cfg t n, ol_threshold cfg t' n with
    | Some a, Some a' => qsc a a'
    | None, None => True
    | _, _ => False
    end.
  Proof.
    intros Hh Ht. unfold ol_threshold, ol_homog in *.
    assert (Hj : forall j, qsc (t * j) (t' * j)).
    { intros j. unfold LRScale_proofs.qsc in *. rewrite Ht. ring. }
    destruct (ol_jump cfg) as [j|], (ol_quota cfg) as [qf|]; [|exact (Hj j)|exact (Hh qf eq_refl _ _ n Ht)|exact I].
    pose proof (Hh qf eq_refl _ _ n Ht) as Hb. pose proof (Hj j) as Ha.
    destruct (ol_take_higher cfg).
    - rewrite (qsc_le k Hk _ _ _ _ Hb Ha). destruct (Qle_bool (qf t n) (t * j)); assumption.
    - rewrite (qsc_le k Hk _ _ _ _ Ha Hb). destruct (Qle_bool (t * j) (qf t n)); assumption.
  Qed.

  Lemma Forall2_firstn {X Y} (R : X -> Y -> Prop) n l l' : Forall2 R l l' -> Forall2 R (firstn n l) (firstn n l').
  Proof.
    intros H. revert n. induction H as [|a b l l' Hab _ IH]; intros [|n]; cbn [firstn]; try constructor; auto.
  Qed.

  Theorem openlist_eval_rel cfg votes votes' n lst : ol_homog cfg -> vrel votes votes' ->
    openlist_eval cfg votes' n lst = openlist_eval cfg votes n lst.
  Proof.
    intros Hh Hv. unfold openlist_eval.
    pose proof (ol_threshold_rel cfg _ _ (Z.of_nat n) Hh (qsumv_rel k _ _ Hv)) as Ht.
    destruct (ol_threshold cfg (qsumv votes) (Z.of_nat n)) as [thr|], (ol_threshold cfg (qsumv votes') (Z.of_nat n)) as [thr'|];
      try contradiction; [|reflexivity].
    assert (Hj : vrel (ol_jumping cfg votes thr) (ol_jumping cfg votes' thr')).
    { unfold ol_jumping. apply lrel_filter; [|apply sorted_rel, Hv]. intros x x' [_ Hx]. apply passes_rel; assumption. }
    cbv zeta. rewrite (lrel_len _ _ _ Hj).
    destruct (Nat.ltb n (length (ol_jumping cfg votes thr))).
    - destruct (ol_list_precedence cfg).
      + apply (lrel_keys (LRScale_proofs.qsc k)).
        apply (sort_desc_rel Qle_bool Qle_bool (LRScale_proofs.qsc k) (qsc_le k Hk)).
        assert (Hp : Forall2 (payrel (V := nat) (prel (K := C) (LRScale_proofs.qsc k)))
                       (map (fun cv : C * Q => (cv, index_of (fst cv) lst)) (ol_jumping cfg votes thr))
                       (map (fun cv : C * Q => (cv, index_of (fst cv) lst)) (ol_jumping cfg votes' thr'))).
        { clear -Hj. induction Hj as [|y y' l l' Hy Hl IH]; cbn [map]; constructor; [|exact IH].
          split; cbn [fst snd]; [exact Hy|]. rewrite (proj1 Hy). reflexivity. }
        apply (sort_asc_pay Nat.leb) in Hp. apply (Forall2_firstn _ n) in Hp.
        clear -Hp. induction Hp as [|a b l l' Hab _ IH]; cbn [map]; constructor; [exact (proj1 Hab)|exact IH].
      + apply (lrel_keys (LRScale_proofs.qsc k)), lrel_first, Hj.
    - rewrite (lrel_keys _ _ _ Hj). reflexivity.
  Qed.
End ThrScale.
