(* Scale invariance (C11), second batch - ranked pairs and Kemeny-Young under [scalez k] of the pairwise
   dictionary: pair strengths and Kemeny scores are multiplied by k > 0, so the two stable sorts of ranked
   pairs produce the same pair order (the rest of the evaluator only looks at that order), and the set of
   score-maximising rankings of Kemeny-Young is the same. *)
From Coq Require Import ZArith QArith List Bool Lia.
From VL Require Import Prelude.PyDict Model.GetNBest Model.Condorcet
     Proofs.Dict_proofs Proofs.GetNBest_proofs Proofs.Scale_proofs Proofs.Minimax_proofs
     Proofs.RankedPairs_proofs Proofs.Kemeny_proofs.
Import ListNotations.
Open Scope Z_scope.

Section RPKscale.
  Variable k : Z.
  Hypothesis Hk : 0 < k.

  (* ---------------------------------------------------------------- ranked pairs *)
  Lemma sort_desc_by_scale {X} (key key' : X -> Z) (l : list X) :
    (forall x, key' x = k * key x) -> sort_desc_by key' l = sort_desc_by key l.
  Proof.
    intros Hkey. unfold sort_desc_by.
    assert (E : map (fun x => (x, key' x)) l = mapv (Z.mul k) (map (fun x => (x, key x)) l)).
    { unfold mapv. rewrite map_map. apply map_ext. intros x. cbn [fst snd]. rewrite Hkey. reflexivity. }
    rewrite E, (sort_desc_map zle_bool zle_bool (Z.mul k) (zle_scale k Hk)).
    unfold mapv. rewrite map_map. reflexivity.
  Qed.

  Lemma scalez_keys v : map fst (scalez k v) = map fst v.
  Proof. unfold scalez. rewrite map_map. reflexivity. Qed.

  Lemma rp_pairs_scale s v : rp_pairs s (scalez k v) = rp_pairs s v.
  Proof.
    unfold rp_pairs. cbv zeta. rewrite (complete_scale k v), (score_pairs_scale k Hk), scalez_keys.
    rewrite (sort_desc_by_scale (fun p => pget0 (score_pairs s (complete v)) p)
                                (fun p => pget0 (scalez k (score_pairs s (complete v))) p))
      by (intros p; apply pget0_scale).
    rewrite (sort_desc_by_scale (fun p => pget0 (complete v) p) (fun p => pget0 (scalez k (complete v)) p))
      by (intros p; apply pget0_scale).
    reflexivity.
  Qed.

  Theorem ranked_pairs_scale s v n : ranked_pairs s (scalez k v) n = ranked_pairs s v n.
  Proof. rewrite !ranked_pairs_unfold, rp_pairs_scale. reflexivity. Qed.

  (* ---------------------------------------------------------------- Kemeny-Young *)
  Lemma row_scale v u t : row (scalez k v) u t = k * row v u t.
  Proof.
    induction t as [|a t IH]; [unfold row; simpl; lia|]. rewrite !row_cons, IH, pget0_scale. lia.
  Qed.

  Lemma kemeny_score_scale v p : kemeny_score (scalez k v) p = k * kemeny_score v p.
  Proof.
    induction p as [|u t IH]; [simpl; lia|]. rewrite !kemeny_score_cons, IH, row_scale. lia.
  Qed.

  Lemma k_scored_scale v : k_scored (scalez k v) = map (fun ps => (fst ps, k * snd ps)) (k_scored v).
  Proof.
    unfold k_scored. rewrite candidates_scale, map_map. apply map_ext. intros p. cbn [fst snd].
    rewrite kemeny_score_scale. reflexivity.
  Qed.

  Lemma fold_max_scale (l : list (list C * Z)) : forall b,
    fold_left (fun b ps => Z.max b (snd ps)) (map (fun ps : list C * Z => (fst ps, k * snd ps)) l) (k * b)
    = k * fold_left (fun b ps => Z.max b (snd ps)) l b.
  Proof.
    induction l as [|x l IH]; intros b; cbn [map fold_left fst snd]; [reflexivity|].
    rewrite <- IH. f_equal. rewrite Z.mul_max_distr_nonneg_l by lia. reflexivity.
  Qed.

  Lemma k_best_scale v : k_best (scalez k v) = k * k_best v.
  Proof.
    unfold k_best. rewrite k_scored_scale. rewrite <- fold_max_scale. f_equal. lia.
  Qed.

  Lemma k_list_scale v : map fst (k_list (scalez k v)) = map fst (k_list v).
  Proof.
    unfold k_list. rewrite k_best_scale, k_scored_scale.
    apply (filter_map_fst (fun ps : list C * Z => (fst ps, k * snd ps))); [|reflexivity].
    intros [p m]. cbn [fst snd].
    destruct (m =? k_best v) eqn:E; [apply Z.eqb_eq in E; apply Z.eqb_eq; nia|apply Z.eqb_neq in E; apply Z.eqb_neq; nia].
  Qed.

  Theorem kemeny_scale v n : kemeny (scalez k v) n = kemeny v n.
  Proof.
    rewrite !kemeny_unfold.
    assert (E : forall l : list (list C * Z), map (fun ps : list C * Z => firstn n (fst ps)) l = map (firstn n) (map fst l))
      by (intros l; rewrite map_map; reflexivity).
    rewrite !E, k_list_scale. reflexivity.
  Qed.
End RPKscale.
