(* Copeland is monotone (C17): if the pairwise counts change only in favour of w (w's counts against others do
   not drop, the others' counts against w do not rise, contests among the others are untouched, same candidates),
   a sole first-order Copeland winner w remains the sole winner. *)
From Coq Require Import ZArith List Bool Lia Arith.
From VL Require Import Prelude.PyDict Model.GetNBest Model.Condorcet Proofs.Dict_proofs Proofs.GetNBest_proofs Proofs.Condorcet_proofs.
Import ListNotations.
Open Scope Z_scope.

Definition raises (v v' : pvotes) (w : C) : Prop :=
  candidates v' = candidates v /\
  (forall x, pget0 v (w, x) <= pget0 v' (w, x) /\ pget0 v' (x, w) <= pget0 v (x, w)) /\
  (forall a b, a <> w -> b <> w -> pget0 v' (a, b) = pget0 v (a, b)).

Lemma NoDup_map_filter {X Y} (f : X -> Y) (g : X -> bool) (l : list X) : NoDup (map f l) -> NoDup (map f (filter g l)).
Proof.
  induction l as [|x l IH]; simpl; intros H; [constructor|]. inversion H as [|? ? Hx Hl]; subst.
  destruct (g x); simpl; [|apply IH, Hl]. constructor; [|apply IH, Hl].
  intros Hi. apply Hx. apply in_map_iff in Hi. destruct Hi as (y & Hy & Hin). apply filter_In in Hin.
  apply in_map_iff. exists y. tauto.
Qed.

Lemma NoDup_filter {X} (g : X -> bool) (l : list X) : NoDup l -> NoDup (filter g l).
Proof.
  induction l as [|x l IH]; simpl; intros H; [constructor|]. inversion H as [|? ? Hx Hl]; subst.
  destruct (g x); [|apply IH, Hl]. constructor; [|apply IH, Hl]. intros Hi. apply filter_In in Hi. tauto.
Qed.

Section CM.
  Variables v v' : pvotes.
  Variable w : C.
  Hypothesis Hnd : NoDup (map fst v).
  Hypothesis Hnd' : NoDup (map fst v').
  Hypothesis Hnn : forall p n, In (p, n) v -> 0 <= n.
  Hypothesis Hnn' : forall p n, In (p, n) v' -> 0 <= n.
  Hypothesis Hr : raises v v' w.

  Notation W := (pairwise_wins v false).
  Notation W' := (pairwise_wins v' false).

  Lemma wins_nodup (u : pvotes) : NoDup (map fst u) -> NoDup (pairwise_wins u false).
  Proof. intros H. unfold pairwise_wins. apply NoDup_map_filter, H. Qed.

  Lemma beats_w_up x : beats v w x -> beats v' w x.
  Proof. destruct Hr as (_ & Hup & _). unfold beats. destruct (Hup x). lia. Qed.
  Lemma beats_w_down x : beats v' x w -> beats v x w.
  Proof. destruct Hr as (_ & Hup & _). unfold beats. destruct (Hup x). lia. Qed.
  Lemma beats_same a b : a <> w -> b <> w -> (beats v' a b <-> beats v a b).
  Proof. destruct Hr as (_ & _ & Hs). intros Ha Hb. unfold beats. rewrite (Hs a b Ha Hb), (Hs b a Hb Ha). reflexivity. Qed.

  Lemma len_incl (f : pair -> bool) (A B : list pair) : NoDup A -> (forall p, In p A -> f p = true -> In p B) ->
    (length (filter f A) <= length (filter f B))%nat.
  Proof.
    intros Ha H. apply NoDup_incl_length; [apply NoDup_filter, Ha|].
    intros p Hp. apply filter_In in Hp. destruct Hp as [Hp Hf]. apply filter_In. split; [apply H; assumption|exact Hf].
  Qed.

  Lemma nwins_w : nwins v w <= nwins v' w.
  Proof.
    unfold nwins. apply inj_le. apply len_incl; [apply wins_nodup, Hnd|].
    intros [a b] Hin Hf. simpl in Hf. apply Pos.eqb_eq in Hf. subst a.
    apply (wins_iff v' Hnd' Hnn'). apply beats_w_up. apply (wins_iff v Hnd Hnn). exact Hin.
  Qed.
  Lemma nlosses_w : nlosses v' w <= nlosses v w.
  Proof.
    unfold nlosses. apply inj_le. apply len_incl; [apply wins_nodup, Hnd'|].
    intros [a b] Hin Hf. simpl in Hf. apply Pos.eqb_eq in Hf. subst b.
    apply (wins_iff v Hnd Hnn). apply beats_w_down. apply (wins_iff v' Hnd' Hnn'). exact Hin.
  Qed.
  Lemma nwins_other x : x <> w -> nwins v' x <= nwins v x.
  Proof.
    intros Hx. unfold nwins. apply inj_le. apply len_incl; [apply wins_nodup, Hnd'|].
    intros [a b] Hin Hf. simpl in Hf. apply Pos.eqb_eq in Hf. subst a.
    apply (wins_iff v Hnd Hnn). apply (wins_iff v' Hnd' Hnn') in Hin.
    destruct (Pos.eq_dec b w) as [->|Hb]; [apply beats_w_down, Hin|apply (beats_same x b Hx Hb), Hin].
  Qed.
  Lemma nlosses_other x : x <> w -> nlosses v x <= nlosses v' x.
  Proof.
    intros Hx. unfold nlosses. apply inj_le. apply len_incl; [apply wins_nodup, Hnd|].
    intros [a b] Hin Hf. simpl in Hf. apply Pos.eqb_eq in Hf. subst b.
    apply (wins_iff v' Hnd' Hnn'). apply (wins_iff v Hnd Hnn) in Hin.
    destruct (Pos.eq_dec a w) as [->|Ha]; [apply beats_w_up, Hin|apply (beats_same a x Ha Hx), Hin].
  Qed.

  (* the first-order Copeland score dictionary (every candidate seeded with zero) *)
  Definition cscores (u : pvotes) : list (C * Z) := fold_left seed (candidates u) (copeland_scores (pairwise_wins u false)).

  Lemma cscores_facts (u : pvotes) : NoDup (map fst u) -> (forall p n, In (p, n) u -> 0 <= n) ->
    NoDup (map fst (cscores u)) /\
    (forall x s, In (x, s) (cscores u) -> s = nwins u x - nlosses u x /\ In x (candidates u)) /\
    (forall x, In x (candidates u) -> In x (map fst (cscores u))).
  Proof.
    intros Hn Hp. destruct (copeland_scores_keys u Hn Hp) as [Hkn Hks].
    destruct (seed_fold (candidates u) (copeland_scores (pairwise_wins u false)) Hkn) as (Sn & Sg & Sk).
    fold (cscores u) in Sn, Sg, Sk. split; [exact Sn|]. split.
    - intros x s Hin. pose proof (In_dget_or (cscores u) x s Sn Hin) as Hs. rewrite Sg, copeland_scores_get in Hs.
      split; [lia|]. assert (Hk : In x (map fst (cscores u))) by (apply in_map_iff; exists (x, s); auto).
      apply Sk in Hk. destruct Hk as [Hk|Hk]; [apply Hks, Hk|exact Hk].
    - intros x Hx. apply Sk. right. exact Hx.
  Qed.

  Theorem copeland_first_order_monotone :
    get_n_best zle_bool (cscores v) 1 = [Cand w] -> get_n_best zle_bool (cscores v') 1 = [Cand w].
  Proof.
    intros Hwin.
    destruct (cscores_facts v Hnd Hnn) as (Sn & Sv & Sc).
    destruct (cscores_facts v' Hnd' Hnn') as (Sn' & Sv' & Sc').
    destruct (get_n_best_1_cand zle_bool zle_total zle_trans (cscores v) w [] Sn Hwin) as (_ & sw & Hin & Hmax).
    destruct (Sv w sw Hin) as [Hsw Hcw].
    assert (Hcand : candidates v' = candidates v) by (destruct Hr; assumption).
    assert (Hkw : In w (map fst (cscores v'))) by (apply Sc'; rewrite Hcand; exact Hcw).
    apply in_map_iff in Hkw. destruct Hkw as ([w0 sw'] & Hf & Hin'). simpl in Hf. subst w0.
    destruct (Sv' w sw' Hin') as [Hsw' _].
    apply (get_n_best_unique_max zle_bool zle_total zle_trans Pos.eq_dec (cscores v') w sw' Sn' Hin').
    intros x s' Hx' Hne. destruct (Sv' x s' Hx') as [Hs' Hcx]. rewrite Hcand in Hcx.
    assert (Hkx : In x (map fst (cscores v))) by (apply Sc, Hcx).
    apply in_map_iff in Hkx. destruct Hkx as ([x0 s] & Hf & Hx). simpl in Hf. subst x0.
    destruct (Sv x s Hx) as [Hs _].
    pose proof (Hmax x s Hx Hne) as Hlt. unfold GetNBest.ltb, zle_bool in Hlt |- *.
    apply negb_true_iff, Z.leb_gt in Hlt. apply negb_true_iff, Z.leb_gt.
    pose proof nwins_w. pose proof nlosses_w. pose proof (nwins_other x Hne). pose proof (nlosses_other x Hne). lia.
  Qed.

  (* in terms of the evaluator: raw Copeland, and Copeland with second-order tie-breaking when the first-order
     scores already single out w *)
  Lemma copeland_unfold so (u : pvotes) : get_n_best zle_bool (cscores u) 1 = [Cand w] -> copeland so u 1 = [Cand w].
  Proof.
    intros H. unfold copeland. fold seed. fold (cscores u). rewrite H. simpl. rewrite andb_false_r. reflexivity.
  Qed.

  Theorem copeland_monotone so : get_n_best zle_bool (cscores v) 1 = [Cand w] -> copeland so v' 1 = [Cand w].
  Proof. intros H. apply copeland_unfold, copeland_first_order_monotone, H. Qed.

  Lemma copeland_raw_is_first_order (u : pvotes) n : copeland false u n = get_n_best zle_bool (cscores u) n.
  Proof. unfold copeland. fold seed. fold (cscores u). reflexivity. Qed.
End CM.
