(* STAR (Model/Star.v) against its definition.

   - the pairwise dictionary of the run-off holds, for every two distinct run-off members x, y, exactly the ballot
     weight that places x above y ([support]), and names exactly the members that some ballot separates from
     another member ([separated]);
   - STAR is Schulze over that table; it returns min(n, number of separated members) entries: the class of the
     silently shorter answers (known finding C08-star-short) is exactly [star_shortb] - fewer than n run-off members
     are separated by a ballot - and there the answer lists just those members; outside the class the answer is a
     well-shaped selection of n;
   - one seat, complete: two untied finalists a, b -> the one placed above the other by more ballot weight, the tie
     of both when the weights are equal and positive, nothing when no ballot separates them; no two untied
     finalists -> nothing. *)
From Coq Require Import ZArith QArith List Bool Arith Lia Permutation.
From VL Require Import Prelude.PyDict Model.GetNBest Model.Convert Model.Cardinal Model.Condorcet Model.Star
     Proofs.Dict_proofs Proofs.GetNBest_proofs Proofs.Condorcet_proofs Proofs.Schulze_proofs Proofs.Shape2_proofs
     Proofs.Star_proofs Proofs.MJ_proofs.
Import ListNotations.
Open Scope Z_scope.

(* ================================================================ one ballot: conditional additions over a list of pairs *)
Definition add_pairs (b : sballot) (w : Z) (ps : list pair) (pv : pvotes) : pvotes :=
  fold_left (fun pv p => if prefers b (fst p) (snd p) then padd pv p w else pv) ps pv.

Lemma fold_left_ext_all {X Y} (f g : X -> Y -> X) l : (forall a y, f a y = g a y) -> forall a, fold_left f l a = fold_left g l a.
Proof. intros H. induction l as [|y l IH]; intros a; [reflexivity|]. cbn [fold_left]. rewrite H. apply IH. Qed.

Lemma add_pairs_cons b w p ps pv :
  add_pairs b w (p :: ps) pv = add_pairs b w ps (if prefers b (fst p) (snd p) then padd pv p w else pv).
Proof. reflexivity. Qed.

Lemma add_pairs_app b w p1 p2 pv : add_pairs b w (p1 ++ p2) pv = add_pairs b w p2 (add_pairs b w p1 pv).
Proof. unfold add_pairs. apply fold_left_app. Qed.

Lemma star_inner_row b w x l2 : forall pv,
  fold_left (fun pv y => if prefers b x y then padd pv (x, y) w else pv) l2 pv = add_pairs b w (map (fun y => (x, y)) l2) pv.
Proof. induction l2 as [|y l2 IH]; intros pv; [reflexivity|]. cbn [map fold_left add_pairs fst snd]. apply IH. Qed.

Lemma star_inner_prod b w l2 : forall l1 pv,
  fold_left (fun pv x => fold_left (fun pv y => if prefers b x y then padd pv (x, y) w else pv) l2 pv) l1 pv =
  add_pairs b w (list_prod l1 l2) pv.
Proof.
  induction l1 as [|x l1 IH]; intros pv; [reflexivity|]. cbn [fold_left list_prod].
  rewrite add_pairs_app, <- IH, star_inner_row. reflexivity.
Qed.

Lemma star_pairwise_prod votes members :
  star_pairwise votes members =
  fold_left (fun pv bw => add_pairs (fst bw) (snd bw) (list_prod members members) pv) votes [].
Proof. unfold star_pairwise. apply fold_left_ext_all. intros pv bw. apply star_inner_prod. Qed.

Lemma padd_keys' v p n q : In q (map fst (padd v p n)) <-> q = p \/ In q (map fst v).
Proof. unfold padd. apply pset_keys. Qed.

Lemma add_pairs_keys b w ps : forall pv q,
  In q (map fst (add_pairs b w ps pv)) <-> In q (map fst pv) \/ (In q ps /\ prefers b (fst q) (snd q) = true).
Proof.
  induction ps as [|p ps IH]; intros pv q; [cbn [add_pairs fold_left In]; tauto|].
  rewrite add_pairs_cons, IH. destruct (prefers b (fst p) (snd p)) eqn:E.
  - rewrite padd_keys'. cbn [In]. split.
    + intros [[->|H]|[H1 H2]]; auto.
    + intros [H|[[<-|H1] H2]]; auto.
  - cbn [In]. split; [intros [H|[H1 H2]]; auto|]. intros [H|[[<-|H1] H2]]; auto. congruence.
Qed.

Lemma peqb_refl' p : peqb p p = true.
Proof. apply peqb_eq. reflexivity. Qed.
Lemma peqb_neq' p q : p <> q -> peqb p q = false.
Proof. intros H. destruct (peqb p q) eqn:E; [apply peqb_eq in E; contradiction|reflexivity]. Qed.

Lemma add_pairs_get_out b w ps : forall pv q, (~ In q ps \/ prefers b (fst q) (snd q) = false) ->
  pget0 (add_pairs b w ps pv) q = pget0 pv q.
Proof.
  induction ps as [|p ps IH]; intros pv q Hq; [reflexivity|]. rewrite add_pairs_cons.
  rewrite IH; [|destruct Hq as [Hq|Hq]; [left; intros H; apply Hq; right; exact H|right; exact Hq]].
  destruct (prefers b (fst p) (snd p)) eqn:E; [|reflexivity]. rewrite pget0_padd.
  destruct (peqb q p) eqn:Eq; [|reflexivity]. apply peqb_eq in Eq. subst q. destruct Hq as [Hq|Hq]; [exfalso; apply Hq; left; reflexivity|congruence].
Qed.

Lemma add_pairs_get_in b w ps : forall pv q, NoDup ps -> In q ps -> prefers b (fst q) (snd q) = true ->
  pget0 (add_pairs b w ps pv) q = pget0 pv q + w.
Proof.
  induction ps as [|p ps IH]; intros pv q Hnd Hin Hpr; [destruct Hin|]. rewrite add_pairs_cons.
  inversion Hnd as [|? ? Hp Hnd']; subst. destruct Hin as [->|Hin].
  - rewrite Hpr, add_pairs_get_out by (left; exact Hp). rewrite pget0_padd, peqb_refl'. reflexivity.
  - rewrite (IH _ _ Hnd' Hin Hpr). destruct (prefers b (fst p) (snd p)); [|reflexivity].
    rewrite pget0_padd, peqb_neq'; [reflexivity|]. intros ->. contradiction.
Qed.

Lemma padd_nodup' v p n : NoDup (map fst v) -> NoDup (map fst (padd v p n)).
Proof. unfold padd. apply pset_NoDup. Qed.

Lemma add_pairs_nodup b w ps : forall pv, NoDup (map fst pv) -> NoDup (map fst (add_pairs b w ps pv)).
Proof.
  induction ps as [|p ps IH]; intros pv H; [exact H|]. rewrite add_pairs_cons. apply IH.
  destruct (prefers b (fst p) (snd p)); [apply padd_nodup', H|exact H].
Qed.

Lemma NoDup_list_prod {X Y} (l1 : list X) (l2 : list Y) : NoDup l1 -> NoDup l2 -> NoDup (list_prod l1 l2).
Proof.
  intros H1 H2. induction H1 as [|x l1 Hx _ IH]; cbn [list_prod]; [constructor|].
  apply Threshold_proofs.nodup_app_intro; [|exact IH|].
  - clear - H2. induction H2 as [|y l2 Hy _ IH2]; cbn [map]; [constructor|]. constructor; [|exact IH2].
    intros Hin. apply in_map_iff in Hin. destruct Hin as (y' & [= <-] & Hy'). contradiction.
  - intros [x' y'] Hin Hin'. apply in_map_iff in Hin. destruct Hin as (y0 & [= <- <-] & _). apply in_prod_iff in Hin'. tauto.
Qed.

(* ================================================================ the run-off table *)
(* what the dictionary holds for two run-off members: the weight of the ballots that place x above y *)
Theorem star_pairwise_support votes members x y : NoDup members -> In x members -> In y members ->
  pget0 (star_pairwise votes members) (x, y) = support votes x y.
Proof.
  intros Hnd Hx Hy. rewrite star_pairwise_prod. unfold support, zsum.
  assert (Hps : NoDup (list_prod members members)) by (apply NoDup_list_prod; exact Hnd).
  assert (Hin : In (x, y) (list_prod members members)) by (apply in_prod_iff; tauto).
  assert (H : forall acc,
    pget0 (fold_left (fun pv bw => add_pairs (fst bw) (snd bw) (list_prod members members) pv) votes acc) (x, y) =
    pget0 acc (x, y) + fold_left Z.add (map (fun bw : sballot * Z => if prefers (fst bw) x y then snd bw else 0) votes) 0).
  { induction votes as [|bw votes IH]; intros acc; cbn [fold_left map]; [lia|]. rewrite IH.
    rewrite (fold_add_shift _ (0 + _)). destruct (prefers (fst bw) x y) eqn:E.
    - rewrite (add_pairs_get_in _ _ _ _ _ Hps Hin E). lia.
    - rewrite add_pairs_get_out by (right; exact E). lia. }
  rewrite H. unfold pget0. cbn [pget]. lia.
Qed.

Lemma star_pairwise_keys votes members q :
  In q (map fst (star_pairwise votes members)) <->
  In (fst q) members /\ In (snd q) members /\ exists bw, In bw votes /\ prefers (fst bw) (fst q) (snd q) = true.
Proof.
  rewrite star_pairwise_prod.
  assert (H : forall acc, In q (map fst (fold_left (fun pv bw => add_pairs (fst bw) (snd bw) (list_prod members members) pv) votes acc)) <->
     In q (map fst acc) \/ (In q (list_prod members members) /\ exists bw, In bw votes /\ prefers (fst bw) (fst q) (snd q) = true)).
  { induction votes as [|bw votes IH]; intros acc; cbn [fold_left].
    - split; [auto|]. intros [H|(_ & bw & [] & _)]. exact H.
    - rewrite IH, add_pairs_keys. split.
      + intros [[H|(H1 & H2)]|(H1 & bw' & H2 & H3)]; auto.
        * right. split; [exact H1|]. exists bw. split; [left; reflexivity|exact H2].
        * right. split; [exact H1|]. exists bw'. split; [right; exact H2|exact H3].
      + intros [H|(H1 & bw' & [<-|H2] & H3)]; auto. right. split; [exact H1|]. exists bw'. auto. }
  rewrite H. cbn [map In]. destruct q as [x y]. pose proof (in_prod_iff members members x y) as Hp. cbn [fst snd]. tauto.
Qed.

Lemma star_pairwise_nodup votes members : NoDup (map fst (star_pairwise votes members)).
Proof.
  rewrite star_pairwise_prod.
  assert (H : forall acc, NoDup (map fst acc) ->
    NoDup (map fst (fold_left (fun pv bw => add_pairs (fst bw) (snd bw) (list_prod members members) pv) votes acc))).
  { induction votes as [|bw votes IH]; intros acc Hacc; [exact Hacc|]. cbn [fold_left]. apply IH, add_pairs_nodup, Hacc. }
  apply H. constructor.
Qed.

(* some ballot orders x and y *)
Definition sep_pair (votes : sprofile) (x y : C) : bool :=
  existsb (fun bw : sballot * Z => prefers (fst bw) x y || prefers (fst bw) y x) votes.
(* ... for some other run-off member y *)
Definition separated (votes : sprofile) (members : list C) (x : C) : bool := existsb (sep_pair votes x) members.

(* the candidates Schulze sees are the run-off members some ballot separates from another member *)
Theorem star_candidates votes members x :
  In x (candidates (star_pairwise votes members)) <-> In x members /\ separated votes members x = true.
Proof.
  rewrite candidates_spec. unfold separated, sep_pair. rewrite existsb_exists. split.
  - intros (p & n & Hin & Hx).
    assert (Hk : In p (map fst (star_pairwise votes members))) by (apply in_map_iff; exists (p, n); auto).
    apply star_pairwise_keys in Hk. destruct Hk as (H1 & H2 & bw & Hbw & Hpr). destruct Hx as [->| ->].
    + split; [exact H1|]. exists (snd p). split; [exact H2|]. apply existsb_exists. exists bw. split; [exact Hbw|]. rewrite Hpr. reflexivity.
    + split; [exact H2|]. exists (fst p). split; [exact H1|]. apply existsb_exists. exists bw. split; [exact Hbw|]. rewrite Hpr. apply orb_true_r.
  - intros (Hx & y & Hy & Hs). apply existsb_exists in Hs. destruct Hs as (bw & Hbw & Hpr). apply orb_true_iff in Hpr.
    destruct Hpr as [Hpr|Hpr].
    + assert (Hk : In (x, y) (map fst (star_pairwise votes members))) by (apply star_pairwise_keys; cbn [fst snd]; eauto).
      apply in_map_iff in Hk. destruct Hk as ([p n] & Hp & Hin). cbn [fst] in Hp. subst p. exists (x, y), n. split; [exact Hin|left; reflexivity].
    + assert (Hk : In (y, x) (map fst (star_pairwise votes members))) by (apply star_pairwise_keys; cbn [fst snd]; eauto).
      apply in_map_iff in Hk. destruct Hk as ([p n] & Hp & Hin). cbn [fst] in Hp. subst p. exists (y, x), n. split; [exact Hin|right; reflexivity].
Qed.

(* ================================================================ how many entries STAR returns *)
Definition star_finalists (agg : list (C * Q)) (n : nat) : list C := star_members (get_n_best Qle_bool agg (n + 1)).
Definition star_contest (votes : sprofile) (agg : list (C * Q)) (n : nat) : list C :=
  filter (separated votes (star_finalists agg n)) (star_finalists agg n).
(* the class of known finding C08-star-short, decidable: fewer than n run-off members are separated by a ballot *)
Definition star_shortb (votes : sprofile) (agg : list (C * Q)) (n : nat) : bool :=
  Nat.ltb (length (star_contest votes agg n)) n.

Lemma star_members_in r c : In c (star_members r) <-> In (Cand c) r.
Proof.
  unfold star_members. rewrite in_flat_map. split.
  - intros ([c'|l] & Hin & Hc); [destruct Hc as [->|[]]; exact Hin|destruct Hc].
  - intros H. exists (Cand c). split; [exact H|left; reflexivity].
Qed.

Lemma star_members_nodup r : NoDup r -> NoDup (star_members r).
Proof.
  induction r as [|x r IH]; cbn [star_members flat_map]; intros H; [constructor|]. inversion H as [|? ? Hx Hn]; subst.
  destruct x as [c|l]; cbn [app]; [|apply IH, Hn]. constructor; [|apply IH, Hn].
  intros Hc. apply Hx. apply star_members_in. exact Hc.
Qed.

Lemma nodup_app_left {X} (a b : list X) : NoDup (a ++ b) -> NoDup a.
Proof.
  induction a as [|x a IH]; cbn [app]; intros H; [constructor|]. inversion H as [|? ? Hx Hn]; subst.
  constructor; [intros Hin; apply Hx, in_or_app; left; exact Hin|apply IH, Hn].
Qed.

Lemma gnb_plain_nodup (agg : list (C * Q)) k : NoDup (map fst agg) -> NoDup (star_members (get_n_best Qle_bool agg k)).
Proof.
  intros Hnd. unfold get_n_best.
  assert (Hs : NoDup (map fst (sort_desc Qle_bool agg))).
  { eapply Permutation_NoDup; [apply Permutation_map, Permutation_sym, sort_desc_perm|exact Hnd]. }
  assert (Hf : forall j, NoDup (star_members (map (fun it : C * Q => Cand (fst it)) (firstn j (sort_desc Qle_bool agg))))).
  { intros j. assert (Hm : forall l : list (C * Q), star_members (map (fun it : C * Q => Cand (fst it)) l) = map fst l).
    { induction l as [|x l IHl]; [reflexivity|]. cbn [map star_members flat_map app]. f_equal. exact IHl. }
    rewrite Hm. rewrite <- (firstn_skipn j (sort_desc Qle_bool agg)), map_app in Hs. apply nodup_app_left in Hs. exact Hs. }
  assert (Ht : forall (l : list (res C)) T j, star_members (l ++ repeat (TieR T) j) = star_members l).
  { intros l T j. unfold star_members. rewrite flat_map_app.
    assert (H0 : flat_map (fun r : res C => match r with Cand c => [c] | TieR _ => [] end) (repeat (TieR T) j) = []) by (induction j; [reflexivity|assumption]).
    rewrite H0, app_nil_r. reflexivity. }
  destruct (Nat.ltb k (length (sort_desc Qle_bool agg))).
  - destruct (nth_error (sort_desc Qle_bool agg) (k - 1)) as [[c1 thr]|]; [|constructor].
    destruct (nth_error (sort_desc Qle_bool agg) k) as [[c2 nxt]|]; [|constructor].
    destruct (eqv Qle_bool nxt thr); [rewrite Ht|]; apply Hf.
  - specialize (Hf (length (sort_desc Qle_bool agg))). rewrite firstn_all in Hf. exact Hf.
Qed.

Lemma score_keys_nodup votes agg : score_to_simple star_cfg votes = inl agg -> NoDup (map fst agg).
Proof.
  unfold score_to_simple. destruct (corrected_scores star_cfg votes) as [sc|e] eqn:E; [|discriminate]. intros H.
  rewrite (aggregate_keys _ _ _ H). exact (corrected_scores_nodup _ _ _ E).
Qed.

Lemma gnb_length {V} (leb : V -> V -> bool) (Ht : forall a b, leb a b = true \/ leb b a = true)
  (Hr : forall a b c, leb a b = true -> leb b c = true -> leb a c = true) (l : list (C * V)) n :
  (1 <= n)%nat -> length (get_n_best leb l n) = Nat.min n (length l).
Proof.
  intros Hn. destruct (get_n_best_spec leb Ht Hr l n Hn) as [Hsmall Hbig].
  destruct (Nat.le_gt_cases (length l) n) as [Hle|Hgt].
  - destruct (Hsmall Hle) as (s & Hp & _ & ->). rewrite map_length, (Permutation_length Hp). lia.
  - destruct (Hbig Hgt) as (above & level & below & thr & Hp & _ & _ & _ & _ & Hpos & Heq & Htie).
    destruct (Nat.eq_dec (length above + length level) n) as [En|En].
    + rewrite (Heq En), map_length, app_length. lia.
    + rewrite Htie by lia. rewrite app_length, map_length, repeat_length. lia.
Qed.

Lemma zle_length_gnb (l : list (C * Z)) n : (1 <= n)%nat -> length (get_n_best zle_bool l n) = Nat.min n (length l).
Proof. apply gnb_length; [exact zle_total|exact zle_trans]. Qed.

Lemma schulze_length v order n : (1 <= n)%nat -> length (schulze v order n) = Nat.min n (length (candidates v)).
Proof.
  intros Hn. rewrite schulze_unfold, (zle_length_gnb _ _ Hn). f_equal.
  assert (Hseed : map fst (map (fun c : C => (c, 0%Z)) (candidates v)) = candidates v) by (rewrite map_map; cbn [fst]; apply map_id).
  assert (Hsn : NoDup (map fst (map (fun c : C => (c, 0%Z)) (candidates v)))) by (rewrite Hseed; apply candidates_NoDup).
  destruct (sch_fold_keys (pairwise_wins (widest_paths v order) false) _ Hsn) as [Kn Kk].
  rewrite <- (map_length fst). apply Nat.le_antisymm; apply NoDup_incl_length; try exact Kn; try apply candidates_NoDup.
  - intros x Hx. apply Kk in Hx. rewrite Hseed in Hx. destruct Hx as [H|(p & Hp & H)]; [exact H|].
    apply schulze_wins_in_cands in Hp. destruct H as [->| ->]; tauto.
  - intros x Hx. apply Kk. left. rewrite Hseed. exact Hx.
Qed.

Lemma contest_perm votes agg n : NoDup (map fst agg) ->
  Permutation (candidates (star_pairwise votes (star_finalists agg n))) (star_contest votes agg n).
Proof.
  intros Hnd. apply NoDup_Permutation; [apply candidates_NoDup|apply NoDup_filter, gnb_plain_nodup, Hnd|].
  intros x. rewrite star_candidates. unfold star_contest. rewrite filter_In. tauto.
Qed.

(* STAR = Schulze over the run-off table; min(n, separated run-off members) entries; short exactly in the class, and there
   it lists just the separated members; otherwise a well-shaped selection of n among them *)
Theorem star_seats votes order agg n r : (1 <= n)%nat ->
  score_to_simple star_cfg votes = inl agg -> star votes order n = inl r ->
  let fin := star_finalists agg n in
  r = schulze (star_pairwise votes fin) order n /\
  NoDup fin /\
  length r = Nat.min n (length (star_contest votes agg n)) /\
  ((length r < n)%nat <-> star_shortb votes agg n = true) /\
  (star_shortb votes agg n = false -> nform (star_contest votes agg n) n r) /\
  (star_shortb votes agg n = true -> exists s, Permutation s (star_contest votes agg n) /\ r = map Cand s).
Proof.
  intros Hn Hagg. unfold star. rewrite Hagg. intros [= <-]. cbv zeta. fold (star_finalists agg n).
  set (fin := star_finalists agg n). set (pv := star_pairwise votes fin).
  pose proof (score_keys_nodup _ _ Hagg) as Hnd.
  pose proof (contest_perm votes agg n Hnd) as Hperm. fold fin in Hperm. fold pv in Hperm.
  pose proof (Permutation_length Hperm) as Hlen.
  split; [reflexivity|]. split; [apply gnb_plain_nodup, Hnd|].
  split; [rewrite (schulze_length _ _ _ Hn), Hlen; reflexivity|].
  split; [|split].
  - rewrite (schulze_length _ _ _ Hn), Hlen. unfold star_shortb. rewrite Nat.ltb_lt. lia.
  - unfold star_shortb. rewrite Nat.ltb_ge. intros Hge.
    apply (nform_incl (candidates pv)); [intros x Hx; eapply Permutation_in; [exact Hperm|exact Hx]|].
    apply schulze_nform. rewrite Hlen. lia.
  - unfold star_shortb. rewrite Nat.ltb_lt. intros Hlt. rewrite schulze_unfold.
    set (scores := fold_left _ _ _).
    assert (Hseed : map fst (map (fun c : C => (c, 0%Z)) (candidates pv)) = candidates pv) by (rewrite map_map; cbn [fst]; apply map_id).
    assert (Hsn : NoDup (map fst (map (fun c : C => (c, 0%Z)) (candidates pv)))) by (rewrite Hseed; apply candidates_NoDup).
    destruct (sch_fold_keys (pairwise_wins (widest_paths pv order) false) _ Hsn) as [Kn Kk]. fold scores in Kn, Kk.
    assert (Hkeys : Permutation (map fst scores) (candidates pv)).
    { apply NoDup_Permutation; [exact Kn|apply candidates_NoDup|]. intros x. rewrite Kk, Hseed. split; [|tauto].
      intros [H|(p & Hp & H)]; [exact H|]. apply schulze_wins_in_cands in Hp. destruct H as [->| ->]; tauto. }
    assert (Hsl : (length scores <= n)%nat) by (rewrite <- (map_length fst), (Permutation_length Hkeys), Hlen; lia).
    destruct (gnb_all zle_bool zle_total zle_trans scores n Hn Hsl) as (s & Hp & Hr).
    exists (map fst s). split; [|exact Hr].
    eapply Permutation_trans; [apply Permutation_map, Hp|]. eapply Permutation_trans; [exact Hkeys|exact Hperm].
Qed.

(* ================================================================ one seat, complete *)
Section TwoExact.
  Variables a b : C.
  Hypothesis Hab : a <> b.
  Let Eab : Pos.eqb a b = false. Proof. apply Pos.eqb_neq, Hab. Qed.
  Let Eba : Pos.eqb b a = false. Proof. apply Pos.eqb_neq. congruence. Qed.
  Let Eaa : Pos.eqb a a = true := Pos.eqb_refl a.
  Let Ebb : Pos.eqb b b = true := Pos.eqb_refl b.

  (* the reference for two finalists *)
  Definition two_ref (pv : pvotes) : list (res C) :=
    if pget0 pv (b, a) <? pget0 pv (a, b) then [Cand a]
    else if pget0 pv (a, b) <? pget0 pv (b, a) then [Cand b]
    else match pv with [] => [] | (p, _) :: _ => [TieR [fst p; snd p]] end.

  Ltac evx A B C D := repeat (progress (cbn [fold_left filter map fst snd cmem app pget orb andb dset dget negb];
                                        unfold swap, pget0, peqb, ceqb, dget_or; cbn [fst snd];
                                        rewrite ?Eab, ?Eba, ?Eaa, ?Ebb, ?A, ?B, ?C, ?D)).

  Lemma schulze_two_exact pv order : shape2 a b pv -> (forall p k, In (p, k) pv -> 0 < k) ->
    (forall x, In x order -> x = a \/ x = b) -> schulze pv order 1 = two_ref pv.
  Proof.
    intros Hs Hpos Ho. unfold schulze, two_ref. rewrite (widest_paths_two a b pv order Ho).
    destruct Hs as [->|[[n ->]|[[m ->]|[(n & m & ->)|(n & m & ->)]]]].
    - reflexivity.
    - assert (Hn : 0 < n) by (apply (Hpos (a, b)); left; reflexivity).
      assert (H1 : (0 <? n) = true) by (apply Z.ltb_lt; lia). assert (H2 : (n <? 0) = false) by (apply Z.ltb_ge; lia).
      unfold candidates, add_new, pairwise_wins, dadd. evx H1 H2 H1 H2. reflexivity.
    - assert (Hm : 0 < m) by (apply (Hpos (b, a)); left; reflexivity).
      assert (H1 : (0 <? m) = true) by (apply Z.ltb_lt; lia). assert (H2 : (m <? 0) = false) by (apply Z.ltb_ge; lia).
      unfold candidates, add_new, pairwise_wins, dadd. evx H1 H2 H1 H2. reflexivity.
    - assert (Hn : 0 < n) by (apply (Hpos (a, b)); left; reflexivity).
      assert (Hm : 0 < m) by (apply (Hpos (b, a)); right; left; reflexivity).
      assert (H1 : (0 <? n) = true) by (apply Z.ltb_lt; lia). assert (H2 : (0 <? m) = true) by (apply Z.ltb_lt; lia).
      unfold candidates, add_new, pairwise_wins, dadd.
      destruct (m <? n) eqn:E1; destruct (n <? m) eqn:E2;
        try (apply Z.ltb_lt in E1; apply Z.ltb_lt in E2; lia); evx E1 E2 H1 H2; reflexivity.
    - assert (Hn : 0 < n) by (apply (Hpos (a, b)); right; left; reflexivity).
      assert (Hm : 0 < m) by (apply (Hpos (b, a)); left; reflexivity).
      assert (H1 : (0 <? n) = true) by (apply Z.ltb_lt; lia). assert (H2 : (0 <? m) = true) by (apply Z.ltb_lt; lia).
      unfold candidates, add_new, pairwise_wins, dadd.
      destruct (m <? n) eqn:E1; destruct (n <? m) eqn:E2;
        try (apply Z.ltb_lt in E1; apply Z.ltb_lt in E2; lia); evx E1 E2 H1 H2; reflexivity.
  Qed.
End TwoExact.

Lemma add_pairs_pos b w ps : 0 < w -> forall pv, (forall q m, In (q, m) pv -> 0 < m) -> forall q m, In (q, m) (add_pairs b w ps pv) -> 0 < m.
Proof.
  intros Hw. induction ps as [|p ps IH]; intros pv Hpv; [exact Hpv|]. rewrite add_pairs_cons. apply IH.
  destruct (prefers b (fst p) (snd p)); [|exact Hpv]. unfold padd.
  assert (H0 : 0 <= pget0 pv p).
  { unfold pget0. destruct (pget pv p) as [k|] eqn:E; [|lia]. apply Condorcet_proofs.pget_In in E. apply Hpv in E. lia. }
  generalize (pget0 pv p + w) (ltac:(lia) : 0 < pget0 pv p + w). intros k Hk. clear H0.
  induction pv as [|[p' n'] pv IHpv]; intros q m.
  - rewrite pset_nil. intros [[= <- <-]|[]]. exact Hk.
  - rewrite pset_cons. destruct (peqb p p').
    + intros [[= <- <-]|H]; [exact Hk|]. apply (Hpv q m). right. exact H.
    + intros [[= <- <-]|H]; [apply (Hpv p' n'); left; reflexivity|]. apply (IHpv (fun q m H => Hpv q m (or_intror H)) q m H).
Qed.

Lemma star_pairwise_pos votes members : (forall bw, In bw votes -> 0 < snd bw) ->
  forall q m, In (q, m) (star_pairwise votes members) -> 0 < m.
Proof.
  intros Hw. rewrite star_pairwise_prod.
  assert (H : forall acc, (forall q m, In (q, m) acc -> 0 < m) ->
    forall q m, In (q, m) (fold_left (fun pv bw => add_pairs (fst bw) (snd bw) (list_prod members members) pv) votes acc) -> 0 < m).
  { induction votes as [|bw votes IH]; intros acc Hacc; [exact Hacc|]. cbn [fold_left]. apply IH.
    - intros bw' Hbw'. apply Hw. right. exact Hbw'.
    - apply add_pairs_pos; [apply Hw; left; reflexivity|exact Hacc]. }
  apply H. intros q m [].
Qed.

(* one seat: the answer in every case (ballot weights positive) *)
Lemma star_pairwise_single votes a : star_pairwise votes [a] = [].
Proof.
  unfold star_pairwise.
  assert (H : forall acc, fold_left (fun pv bw => fold_left (fun pv x => fold_left (fun pv y => if prefers (fst bw) x y then padd pv (x, y) (snd bw) else pv) [a] pv) [a] pv) votes acc = acc).
  { induction votes as [|bw votes IH]; intros acc; [reflexivity|]. cbn [fold_left]. rewrite prefers_irrefl. cbn [fold_left] in IH. apply IH. }
  apply H.
Qed.

Lemma star_pairwise_none votes : star_pairwise votes [] = [].
Proof.
  unfold star_pairwise. assert (H : forall acc : pvotes, fold_left (fun pv (bw : sballot * Z) => fold_left (fun pv (x : C) => fold_left (fun pv y => if prefers (fst bw) x y then padd pv (x, y) (snd bw) else pv) [] pv) [] pv) votes acc = acc).
  { induction votes as [|bw votes IH]; intros acc; [reflexivity|]. cbn [fold_left]. cbn [fold_left] in IH. apply IH. }
  apply H.
Qed.

Theorem star_single_exact votes agg : (forall bw, In bw votes -> 0 < snd bw) ->
  score_to_simple star_cfg votes = inl agg ->
  match get_n_best Qle_bool agg 2 with
  | [Cand a; Cand b] =>
      (support votes b a < support votes a b -> star_auto votes 1 = inl [Cand a]) /\
      (support votes a b < support votes b a -> star_auto votes 1 = inl [Cand b]) /\
      (support votes a b = support votes b a -> 0 < support votes a b ->
         star_auto votes 1 = inl [TieR [a; b]] \/ star_auto votes 1 = inl [TieR [b; a]]) /\
      (support votes a b = 0 -> support votes b a = 0 -> star_auto votes 1 = inl [])
  | _ => star_auto votes 1 = inl []
  end.
Proof.
  intros Hw Hagg. pose proof (score_keys_nodup _ _ Hagg) as Hnd.
  pose proof (gnb_plain_nodup agg 2 Hnd) as Hfin.
  assert (Hlen : (length (get_n_best Qle_bool agg 2) <= 2)%nat).
  { rewrite (gnb_length Qle_bool QOrd.Qle_bool_total QOrd.Qle_bool_trans agg 2) by lia. lia. }
  unfold star_auto, star. rewrite Hagg. change (1 + 1)%nat with 2%nat.
  destruct (get_n_best Qle_bool agg 2) as [|r1 [|r2 [|r3 t]]] eqn:Eg; [| | |cbn [length] in Hlen; lia].
  - cbn [star_members flat_map]. rewrite star_pairwise_none. reflexivity.
  - destruct r1 as [a|T]; cbn [star_members flat_map app]; rewrite ?star_pairwise_single, ?star_pairwise_none; reflexivity.
  - destruct r1 as [a|T], r2 as [b|T']; cbn [star_members flat_map app]; rewrite ?star_pairwise_single, ?star_pairwise_none; try reflexivity.
    cbn [star_members flat_map app] in Hfin.
    assert (Hab : a <> b) by (inversion Hfin as [|? ? Hx _]; subst; intros ->; apply Hx; left; reflexivity).
    set (pv := star_pairwise votes [a; b]).
    assert (Hexact : schulze pv (candidates pv) 1 = two_ref a b pv).
    { apply schulze_two_exact; [exact Hab|apply pairwise_shape, Hab|apply star_pairwise_pos, Hw|].
      apply candidates_two; [exact Hab|apply pairwise_shape, Hab]. }
    rewrite Hexact. unfold two_ref. destruct (pairwise_support votes a b Hab) as [H1 H2]. fold pv in H1, H2. rewrite H1, H2.
    assert (Eab : Pos.eqb a b = false) by (apply Pos.eqb_neq; congruence).
    assert (Eba : Pos.eqb b a = false) by (apply Pos.eqb_neq; congruence).
    split; [|split; [|split]].
    + intros Hlt. apply Z.ltb_lt in Hlt. rewrite Hlt. reflexivity.
    + intros Hlt. assert (E : (support votes b a <? support votes a b) = false) by (apply Z.ltb_ge; lia). rewrite E.
      apply Z.ltb_lt in Hlt. rewrite Hlt. reflexivity.
    + intros Heq Hp. rewrite Heq, Z.ltb_irrefl.
      destruct (pairwise_shape a b Hab votes) as [E|[[n E]|[[m E]|[(n & m & E)|(n & m & E)]]]]; fold pv in E; rewrite E in *.
      * exfalso. unfold pget0 in H1. cbn in H1. lia.
      * exfalso. unfold pget0 in H2. cbn [pget] in H2. unfold peqb, ceqb in H2. cbn [fst snd] in H2. rewrite Eba in H2. cbn in H2. lia.
      * exfalso. unfold pget0 in H1. cbn [pget] in H1. unfold peqb, ceqb in H1. cbn [fst snd] in H1. rewrite Eab in H1. cbn in H1. lia.
      * left. reflexivity.
      * right. reflexivity.
    + intros Ha0 Hb0. rewrite Ha0, Hb0. cbn [Z.ltb Z.compare].
      destruct (pairwise_shape a b Hab votes) as [E|[[n E]|[[m E]|[(n & m & E)|(n & m & E)]]]]; fold pv in E; rewrite E in *; [reflexivity| | | |];
        exfalso.
      * pose proof (star_pairwise_pos votes [a; b] Hw (a, b) n) as Hp. fold pv in Hp. rewrite E in Hp. specialize (Hp (or_introl eq_refl)).
        unfold pget0 in H1. cbn [pget] in H1. rewrite peqb_refl' in H1. lia.
      * pose proof (star_pairwise_pos votes [a; b] Hw (b, a) m) as Hp. fold pv in Hp. rewrite E in Hp. specialize (Hp (or_introl eq_refl)).
        unfold pget0 in H2. cbn [pget] in H2. rewrite peqb_refl' in H2. lia.
      * pose proof (star_pairwise_pos votes [a; b] Hw (a, b) n) as Hp. fold pv in Hp. rewrite E in Hp. specialize (Hp (or_introl eq_refl)).
        unfold pget0 in H1. cbn [pget] in H1. rewrite peqb_refl' in H1. lia.
      * pose proof (star_pairwise_pos votes [a; b] Hw (b, a) m) as Hp. fold pv in Hp. rewrite E in Hp. specialize (Hp (or_introl eq_refl)).
        unfold pget0 in H2. cbn [pget] in H2. rewrite peqb_refl' in H2. lia.
Qed.

(* ================================================================ the short class, in words *)
(* being scored level (or both unscored) on one ballot is transitive *)
Lemma indiff_trans b x y z :
  prefers b x y = false -> prefers b y x = false -> prefers b y z = false -> prefers b z y = false ->
  prefers b x z = false /\ prefers b z x = false.
Proof.
  unfold prefers. destruct (dget b x) as [vx|] eqn:Ex, (dget b y) as [vy|] eqn:Ey, (dget b z) as [vz|] eqn:Ez;
    intros H1 H2 H3 H4; try discriminate;
    repeat match goal with
           | H : negb (Qle_bool _ _) = false |- _ => apply negb_false_iff, Qle_bool_iff in H
           | H : negb (ceqb _ _) = false |- _ => apply negb_false_iff, ceqb_eq in H
           end; subst; try (rewrite Ex in *); try (rewrite Ey in *); try discriminate.
  - split; apply negb_false_iff, Qle_bool_iff; eapply Qle_trans; eassumption.
  - split; reflexivity.
Qed.

Lemma separated_false votes members y : separated votes members y = false ->
  forall m bw, In m members -> In bw votes -> prefers (fst bw) y m = false /\ prefers (fst bw) m y = false.
Proof.
  unfold separated, sep_pair. intros H m bw Hm Hbw.
  assert (H1 : existsb (fun bw0 : sballot * Z => prefers (fst bw0) y m || prefers (fst bw0) m y) votes = false).
  { destruct (existsb (fun bw0 : sballot * Z => prefers (fst bw0) y m || prefers (fst bw0) m y) votes) eqn:E; [|reflexivity].
    assert (Ht : existsb (fun y0 => existsb (fun bw0 : sballot * Z => prefers (fst bw0) y y0 || prefers (fst bw0) y0 y) votes) members = true)
      by (apply existsb_exists; exists m; split; assumption). congruence. }
  assert (H2 : prefers (fst bw) y m || prefers (fst bw) m y = false).
  { destruct (prefers (fst bw) y m || prefers (fst bw) m y) eqn:E; [|reflexivity].
    assert (Ht : existsb (fun bw0 : sballot * Z => prefers (fst bw0) y m || prefers (fst bw0) m y) votes = true)
      by (apply existsb_exists; exists bw; split; assumption). congruence. }
  apply orb_false_iff in H2. exact H2.
Qed.

Lemma filter_all_true {X} (f : X -> bool) l : (forall x, In x l -> f x = true) -> filter f l = l.
Proof.
  induction l as [|x l IH]; intros H; [reflexivity|]. cbn [filter]. rewrite (H x (or_introl eq_refl)), IH; [reflexivity|].
  intros y Hy. apply H. right. exact Hy.
Qed.

Lemma filter_none {X} (f : X -> bool) l : (forall x, In x l -> f x = false) -> filter f l = [].
Proof.
  induction l as [|x l IH]; intros H; [reflexivity|]. cbn [filter]. rewrite (H x (or_introl eq_refl)). apply IH.
  intros y Hy. apply H. right. exact Hy.
Qed.

Lemma filter_len_le {X} (f : X -> bool) l : (length (filter f l) <= length l)%nat.
Proof. induction l as [|x l IH]; [apply le_n|]. cbn [filter]. destruct (f x); cbn [length]; lia. Qed.

(* one separated member separates them all *)
Lemma separated_all votes members x y : In x members -> In y members ->
  separated votes members x = true -> separated votes members y = true.
Proof.
  intros Hx Hy Hs. destruct (separated votes members y) eqn:E; [reflexivity|exfalso].
  unfold separated, sep_pair in Hs. apply existsb_exists in Hs. destruct Hs as (z & Hz & Hs).
  apply existsb_exists in Hs. destruct Hs as (bw & Hbw & Hp).
  destruct (separated_false votes members y E x bw Hx Hbw) as (A1 & A2).
  destruct (separated_false votes members y E z bw Hz Hbw) as (B1 & B2).
  destruct (indiff_trans (fst bw) x y z A2 A1 B1 B2) as (C1 & C2). rewrite C1, C2 in Hp. discriminate.
Qed.

Theorem star_contest_all_or_none votes agg n :
  star_contest votes agg n = star_finalists agg n \/
  (star_contest votes agg n = [] /\
   forall x y bw, In x (star_finalists agg n) -> In y (star_finalists agg n) -> In bw votes -> prefers (fst bw) x y = false).
Proof.
  unfold star_contest. set (fin := star_finalists agg n).
  destruct (existsb (separated votes fin) fin) eqn:E.
  - left. apply existsb_exists in E. destruct E as (x & Hx & Hs). apply filter_all_true.
    intros y Hy. exact (separated_all votes fin x y Hx Hy Hs).
  - right. assert (Hnone : forall x, In x fin -> separated votes fin x = false).
    { intros x Hx. destruct (separated votes fin x) eqn:Es; [|reflexivity].
      assert (Ht : existsb (separated votes fin) fin = true) by (apply existsb_exists; exists x; split; assumption). congruence. }
    split.
    + apply filter_none. exact Hnone.
    + intros x y bw Hx Hy Hbw. exact (proj1 (separated_false votes fin x (Hnone x Hx) y bw Hy Hbw)).
Qed.

(* the short class in words: the finalist cut leaves fewer than n plain run-off members, or no ballot orders any two of them *)
Theorem star_short_iff votes agg n : (1 <= n)%nat ->
  (star_shortb votes agg n = true <->
   (length (star_finalists agg n) < n)%nat \/
   (forall x y bw, In x (star_finalists agg n) -> In y (star_finalists agg n) -> In bw votes -> prefers (fst bw) x y = false)).
Proof.
  intros Hn. unfold star_shortb. rewrite Nat.ltb_lt. split.
  - intros Hlt. destruct (star_contest_all_or_none votes agg n) as [E|(E & Hno)]; [left; rewrite <- E; exact Hlt|right; exact Hno].
  - intros [Hlt|Hno].
    + unfold star_contest. eapply Nat.le_lt_trans; [apply filter_len_le|exact Hlt].
    + assert (E : star_contest votes agg n = []).
      { unfold star_contest. apply filter_none. intros u Hu.
        destruct (separated votes (star_finalists agg n) u) eqn:Es; [|reflexivity]. exfalso. unfold separated, sep_pair in Es.
        apply existsb_exists in Es. destruct Es as (z & Hz & Es). apply existsb_exists in Es. destruct Es as (bw & Hbw & Hp).
        rewrite (Hno u z bw Hu Hz Hbw), (Hno z u bw Hz Hu Hbw) in Hp. discriminate. }
      rewrite E. cbn [length]. lia.
Qed.
