(* C10, renaming: the transferable-vote count of Model/STV.v (initial allocation incl. shared first ranks, quota election
   and over-count correction, Gregory surplus subtraction and transfer, elimination through get_n_best, the
   elect-all-remaining shortcut, the fixpoint stop) commutes with every injective renaming of the candidates - EXACT
   equality of the whole trace (every count's totals and elected, the seats, the stop reason).
   The model compares candidates with [ceqb] / [cmem] only (shared ranks as sets via [cmem]); the canonical sorted
   sets of Model/Convert.v ([canon_set], the only place an order on candidates occurs) are not used by the count. *)
From Coq Require Import ZArith QArith Qround List Bool Arith Lia.
From VL Require Import Prelude.PyDict Model.GetNBest Model.Convert Model.STV
     Proofs.Dict_proofs Proofs.Order_proofs Proofs.HARename_proofs Proofs.Equivariant.
Import ListNotations.

Section SREN.
  Variable f : C -> C.
  Hypothesis f_inj : forall a b, f a = f b -> a = b.

  Definition ri (i : item) : item := match i with IP c => IP (f c) | IS l => IS (map f l) end.
  Definition rb (b : ballot) : ballot := map ri b.
  Definition rbw (bw : ballot * Q) : ballot * Q := (rb (fst bw), snd bw).
  Definition renv (v : list (ballot * Q)) : list (ballot * Q) := map rbw v.      (* a profile / a pile *)
  Definition ro (k : option C) : option C := option_map f k.
  Definition rkp (kp : option C * pile) : option C * pile := (ro (fst kp), renv (snd kp)).
  Definition rena (a : alloc) : alloc := map rkp a.
  Definition rkt (kt : option C * Q) : option C * Q := (ro (fst kt), snd kt).
  Definition rentot (t : list (option C * Q)) : list (option C * Q) := map rkt t.
  Definition rencounts (l : list (list (option C * Q) * list (C * Z))) : list (list (option C * Q) * list (C * Z)) :=
    map (fun x => (rentot (fst x), renl f (snd x))) l.
  Definition ren_trace (t : trace) : trace := Build_trace (rencounts (t_counts t)) (renl f (t_seats t)) (t_stop t).
  Definition ren_cr (r : count_result) : count_result :=
    match r with CR_all el => CR_all (renl f el) | CR_next a el => CR_next (rena a) (renl f el) | CR_stop s => CR_stop s end.
  Definition ren_ebq (r : option (list (C * Z)) + stop) : option (list (C * Z)) + stop :=
    match r with inl (Some l) => inl (Some (renl f l)) | x => x end.

  Lemma renv_cons b w v : renv ((b, w) :: v) = (rb b, w) :: renv v.
  Proof. reflexivity. Qed.
  Lemma rena_cons k p a : rena ((k, p) :: a) = (ro k, renv p) :: rena a.
  Proof. reflexivity. Qed.
  Lemma rb_cons i b : rb (i :: b) = ri i :: rb b.
  Proof. reflexivity. Qed.
  Lemma renv_vals v : map snd (renv v) = map snd v.
  Proof. unfold renv. rewrite map_map. reflexivity. Qed.
  Lemma rentot_renk t : rentot t = renk ro t.
  Proof. reflexivity. Qed.

  Lemma sort_desc_rentot t : sort_desc Qle_bool (rentot t) = rentot (sort_desc Qle_bool t).
  Proof. apply (sort_desc_renk Qle_bool ro). Qed.

  Lemma item_eqb_ren i j : item_eqb (ri i) (ri j) = item_eqb i j.
  Proof.
    destruct i as [x|x], j as [y|y]; cbn [ri item_eqb]; try reflexivity.
    - apply (ceqb_f f f_inj).
    - rewrite !(forallb_cmem_ren f f_inj). reflexivity.
  Qed.
  Lemma ballot_eqb_ren a : forall b, ballot_eqb (rb a) (rb b) = ballot_eqb a b.
  Proof.
    induction a as [|x a IH]; intros [|y b]; try reflexivity. rewrite !rb_cons. cbn [ballot_eqb]. rewrite item_eqb_ren, IH. reflexivity.
  Qed.
  Lemma okey_eqb_ren a b : okey_eqb (ro a) (ro b) = okey_eqb a b.
  Proof. destruct a, b; cbn [ro option_map okey_eqb]; try reflexivity. apply (ceqb_f f f_inj). Qed.

  Lemma pile_add_ren p b w : pile_add (renv p) (rb b) w = renv (pile_add p b w).
  Proof.
    induction p as [|[b' w'] p IH]; [reflexivity|]. rewrite renv_cons. cbn [pile_add]. rewrite ballot_eqb_ren, IH.
    destruct (ballot_eqb b b'); reflexivity.
  Qed.
  Lemma alloc_get_ren a k : alloc_get (rena a) (ro k) = option_map renv (alloc_get a k).
  Proof.
    induction a as [|[k' p] a IH]; [reflexivity|]. rewrite rena_cons. cbn [alloc_get]. rewrite okey_eqb_ren, IH.
    destruct (okey_eqb k k'); reflexivity.
  Qed.
  Lemma alloc_add_ren a k b w : alloc_add (rena a) (ro k) (rb b) w = rena (alloc_add a k b w).
  Proof.
    induction a as [|[k' p] a IH]; [reflexivity|]. rewrite rena_cons. cbn [alloc_add]. rewrite okey_eqb_ren, IH, pile_add_ren.
    destruct (okey_eqb k k'); reflexivity.
  Qed.
  Lemma alloc_del_ren a k : alloc_del (rena a) (ro k) = rena (alloc_del a k).
  Proof. unfold alloc_del, rena. apply filter_map_eqv. intros [k' p]. unfold rkp. cbn [fst]. rewrite okey_eqb_ren. reflexivity. Qed.
  Lemma pile_sum_ren p : pile_sum (renv p) = pile_sum p.
  Proof. unfold pile_sum. rewrite renv_vals. reflexivity. Qed.
  Lemma totals_ren a : totals (rena a) = rentot (totals a).
  Proof. unfold totals, rena, rentot. rewrite !map_map. apply map_ext. intros [k p]. unfold rkp, rkt. cbn [fst snd]. rewrite pile_sum_ren. reflexivity. Qed.
  Lemma members_ren i : members (ri i) = map f (members i).
  Proof. destruct i; reflexivity. Qed.

  Lemma next_after_ren rest allowed : next_after (rb rest) (map f allowed) = map f (next_after rest allowed).
  Proof.
    induction rest as [|[c|l] t IH]; [reflexivity| |]; rewrite rb_cons; cbn [ri next_after].
    - rewrite (cmem_ren f f_inj). destruct (cmem c allowed); [reflexivity|exact IH].
    - rewrite (filter_map_eqv f (fun c => cmem c allowed)) by (intros x; apply (cmem_ren f f_inj)).
      destruct (filter (fun c => cmem c allowed) l) as [|y ys]; [exact IH|reflexivity].
  Qed.
  Lemma ranked_next_ren vote cand allowed : ranked_next (rb vote) (f cand) (map f allowed) = map f (ranked_next vote cand allowed).
  Proof.
    induction vote as [|[c|l] t IH]; [reflexivity| |]; rewrite rb_cons; cbn [ri ranked_next].
    - rewrite (ceqb_f f f_inj). destruct (ceqb cand c); [apply next_after_ren|exact IH].
    - rewrite (cmem_ren f f_inj). destruct (cmem cand l); [apply next_after_ren|exact IH].
  Qed.
  Lemma keys_some_ren a : keys_some (rena a) = map f (keys_some a).
  Proof. unfold keys_some, rena. apply flat_map_eqv. intros [[c|] p]; reflexivity. Qed.

  Lemma move_ballot_ren a targets b w : move_ballot (rena a) (map f targets) (rb b) w = rena (move_ballot a targets b w).
  Proof.
    unfold move_ballot. rewrite !match_nil, is_nil_map, map_length. destruct (is_nil targets).
    - apply (alloc_add_ren a None).
    - apply (fold_left_eqv f rena). intros a0 x. apply (alloc_add_ren a0 (Some x)).
  Qed.

  Lemma transfer_ren a elim : transfer (rena a) (map f elim) = rena (transfer a elim).
  Proof.
    unfold transfer. cbv zeta. rewrite keys_some_ren.
    rewrite (filter_map_eqv f (fun c => cmem c elim) (fun c => cmem c (map f elim))) by (intros x; apply (cmem_ren f f_inj)).
    rewrite (filter_map_eqv f (fun c => negb (cmem c elim)) (fun c => negb (cmem c (map f elim)))) by (intros x; rewrite (cmem_ren f f_inj); reflexivity).
    set (cont := filter (fun c => negb (cmem c elim)) (keys_some a)).
    apply (fold_left_eqv f rena). intros a0 c.
    change (Some (f c)) with (ro (Some c)). rewrite alloc_get_ren.
    etransitivity; [|apply alloc_del_ren]. f_equal.
    destruct (alloc_get a0 (Some c)) as [p|]; [|reflexivity]. cbn [option_map].
    unfold renv. apply (fold_left_eqv rbw rena). intros a1 [b w]. unfold rbw. cbn [fst snd].
    rewrite ranked_next_ren. apply move_ballot_ren.
  Qed.
  Lemma transfer_nil a : transfer a [] = a.
  Proof.
    unfold transfer. cbv zeta.
    assert (E : filter (fun c => cmem c []) (keys_some a) = []) by (induction (keys_some a) as [|x l IH]; [reflexivity|exact IH]).
    rewrite E. reflexivity.
  Qed.
  Lemma transfer_match a elim : match elim with [] => a | _ :: _ => transfer a elim end = transfer a elim.
  Proof. destruct elim; [symmetry; apply transfer_nil|reflexivity]. Qed.

  Lemma gregory_subtract_ren p n : gregory_subtract (renv p) n = option_map renv (gregory_subtract p n).
  Proof.
    unfold gregory_subtract. cbv zeta. rewrite pile_sum_ren. destruct (Qeq_bool (pile_sum p) 0); [reflexivity|].
    destruct (Qle_bool (pile_sum p) n); [reflexivity|]. cbn [option_map]. f_equal. unfold renv. rewrite !map_map. reflexivity.
  Qed.

  Lemma subtract_ren elected : forall a, subtract (rena a) (renl f elected) = option_map rena (subtract a elected).
  Proof.
    induction elected as [|[c amount] t IH]; intros a; [reflexivity|].
    change (renl f ((c, amount) :: t)) with ((f c, amount) :: renl f t). cbn [subtract].
    change (Some (f c)) with (ro (Some c)). rewrite alloc_get_ren.
    destruct (alloc_get a (Some c)) as [p|]; [|reflexivity]. cbn [option_map]. rewrite gregory_subtract_ren.
    destruct (gregory_subtract p amount) as [p'|]; [|reflexivity]. cbn [option_map].
    etransitivity; [|apply IH]. f_equal.
    unfold rena. rewrite !map_map. apply map_ext. intros [k p0]. unfold rkp at 1 2. cbn [fst snd]. rewrite okey_eqb_ren.
    destruct (okey_eqb (Some c) k); reflexivity.
  Qed.

  Lemma all_ranked_candidates_ren votes : all_ranked_candidates (renv votes) = map f (all_ranked_candidates votes).
  Proof.
    unfold all_ranked_candidates. cbv zeta.
    assert (Em : fold_left (fun m (bw : list item * Q) => Nat.max m (length (fst bw))) (renv votes) O
                 = fold_left (fun m (bw : list item * Q) => Nat.max m (length (fst bw))) votes O).
    { unfold renv. apply fold_left_inv. intros a [b w]. unfold rbw, rb. cbn [fst]. rewrite map_length. reflexivity. }
    rewrite Em. apply (fold_left_same (map f)); [|reflexivity]. intros acc i.
    unfold renv. apply (fold_left_eqv rbw (map f)). intros acc1 [b w]. unfold rbw, rb. cbn [fst].
    rewrite nth_error_map. destruct (nth_error b i) as [it|]; [|reflexivity]. cbn [option_map].
    rewrite members_ren. apply (fold_left_eqv f (map f)). intros acc2 c.
    rewrite (cmem_ren f f_inj). destruct (cmem c acc2); [reflexivity|]. rewrite map_app. reflexivity.
  Qed.

  Lemma initial_allocation_ren votes : initial_allocation (renv votes) = rena (initial_allocation votes).
  Proof.
    unfold initial_allocation. cbv zeta. rewrite all_ranked_candidates_ren.
    set (cands := all_ranked_candidates votes).
    assert (Eb : map (fun c : C => (Some c, @nil (ballot * Q))) (map f cands) = rena (map (fun c : C => (Some c, @nil (ballot * Q))) cands))
      by (unfold rena; rewrite !map_map; reflexivity).
    rewrite Eb. unfold renv.
    rewrite (fold_left_eqv rbw rena
               (fun a (bw : ballot * Q) => match fst bw with IP c :: _ => alloc_add a (Some c) (fst bw) (snd bw) | _ => a end)
               (fun a (bw : ballot * Q) => match fst bw with IP c :: _ => alloc_add a (Some c) (fst bw) (snd bw) | _ => a end)).
    - apply (fold_left_eqv rbw rena). intros a [[|[c|l] t] w]; try reflexivity.
      unfold rbw. cbn [fst snd]. rewrite rb_cons. cbn [ri]. change (IS (map f l) :: rb t) with (rb (IS l :: t)).
      rewrite next_after_ren. apply move_ballot_ren.
    - intros a [[|[c|l] t] w]; try reflexivity.
      unfold rbw. cbn [fst snd]. rewrite rb_cons. cbn [ri]. change (IP (f c) :: rb t) with (rb (IP c :: t)).
      apply (alloc_add_ren a (Some c)).
  Qed.

  (* ---- one count *)
  Definition r3 (x : C * Z * Q) : C * Z * Q := (f (fst (fst x)), snd (fst x), snd x).

  Lemma some_totals_ren t : some_totals (rentot t) = renl f (some_totals t).
  Proof. unfold some_totals, rentot, renl. apply flat_map_eqv. intros [[c|] q]; reflexivity. Qed.
  Lemma has_tie_res_ren (r : list (res C)) :
    existsb (fun x : res C => match x with TieR _ => true | _ => false end) (map (ren_res f) r)
    = existsb (fun x : res C => match x with TieR _ => true | _ => false end) r.
  Proof. apply existsb_map_eqv. intros [c|l]; reflexivity. Qed.
  Lemma cands_res_ren (r : list (res C)) :
    flat_map (fun x : res C => match x with Cand c => [c] | _ => [] end) (map (ren_res f) r)
    = map f (flat_map (fun x : res C => match x with Cand c => [c] | _ => [] end) r).
  Proof. apply flat_map_eqv. intros [c|l]; reflexivity. Qed.

  Lemma elect_by_quota_ren cf tot quota n_rem prev caps :
    elect_by_quota cf (rentot tot) quota n_rem (renl f prev) (renl f caps) = ren_ebq (elect_by_quota cf tot quota n_rem prev caps).
  Proof.
    unfold elect_by_quota. destruct quota as [q|]; [|reflexivity]. cbv zeta.
    assert (Ei : map (fun kt : option C * Q => (fst kt, snd kt)) (rentot tot) = renk ro (map (fun kt : option C * Q => (fst kt, snd kt)) tot))
      by (unfold rentot, renk; rewrite !map_map; reflexivity).
    rewrite Ei, sort_desc_renk. set (items := sort_desc Qle_bool _).
    set (F := fun (pv cp : list (C * Z)) (kt : option C * Q) =>
                match fst kt with
                | None => []
                | Some c =>
                    let mult := qfloor_div (snd kt) q in
                    let over := Qred (snd kt - inject_Z mult * q) in
                    if c_accept_equal cf || negb (Qeq_bool over 0) then
                      let capped := match dget cp c with Some m => Z.min mult m | None => mult end in
                      let actual := (capped - dget_or pv c 0)%Z in
                      if (0 <? actual)%Z then [(c, actual, over)] else []
                    else []
                end).
    change (flat_map _ (renk ro items)) with (flat_map (F (renl f prev) (renl f caps)) (renk ro items)).
    change (flat_map _ items) with (flat_map (F prev caps) items).
    assert (Es : flat_map (F (renl f prev) (renl f caps)) (renk ro items) = map r3 (flat_map (F prev caps) items)).
    { unfold renk. apply flat_map_eqv. intros [[c|] t]; [|reflexivity]. unfold F. cbn [fst snd ro option_map]. cbv zeta.
      rewrite (dget_ren f f_inj), (dget_or_ren f f_inj).
      destruct (c_accept_equal cf || negb (Qeq_bool (Qred (t - inject_Z (qfloor_div t q) * q)) 0)); [|reflexivity].
      destruct (0 <? _)%Z; reflexivity. }
    rewrite Es. set (sel := flat_map (F prev caps) items). clearbody sel. clear Es Ei.
    rewrite !match_nil, is_nil_map. destruct (is_nil sel); [reflexivity|].
    assert (Ea : map (fun x : C * Z * Q => (fst (fst x), snd (fst x))) (map r3 sel) = renl f (map (fun x : C * Z * Q => (fst (fst x), snd (fst x))) sel))
      by (unfold renl; rewrite !map_map; reflexivity).
    assert (Ek : map (fun x : C * Z * Q => (fst (fst x), snd x)) (map r3 sel) = renl f (map (fun x : C * Z * Q => (fst (fst x), snd x)) sel))
      by (unfold renl; rewrite !map_map; reflexivity).
    rewrite Ea, Ek, (renl_vals f), get_n_best_renl, has_tie_res_ren, cands_res_ren.
    set (awarded := map (fun x : C * Z * Q => (fst (fst x), snd (fst x))) sel).
    destruct (n_rem <? zsum (map snd awarded))%Z; [|reflexivity].
    destruct (existsb _ (get_n_best Qle_bool _ (Z.to_nat n_rem))); [reflexivity|]. cbn [ren_ebq]. do 2 f_equal.
    unfold renl. apply flat_map_eqv. intros [c s]. cbn [fst snd]. rewrite (cmem_ren f f_inj).
    destruct (cmem c _); [reflexivity|]. destruct (1 <? s)%Z; reflexivity.
  Qed.

  Lemma next_count_ren cf a n_seats total prev caps :
    next_count cf (rena a) n_seats total (renl f prev) (renl f caps) = ren_cr (next_count cf a n_seats total prev caps).
  Proof.
    unfold next_count. cbv zeta. rewrite totals_ren, (renl_vals f), sort_desc_rentot.
    set (tot := totals a). set (by_total := sort_desc Qle_bool tot).
    assert (Eu : existsb (fun kt : option C * Q => match fst kt with Some c => negb (dmem (renl f caps) c) | None => false end) (rentot by_total)
                 = existsb (fun kt : option C * Q => match fst kt with Some c => negb (dmem caps c) | None => false end) by_total).
    { unfold rentot. apply existsb_map_eqv. intros [[c|] t]; [|reflexivity]. unfold rkt. cbn [fst ro option_map]. rewrite (dmem_ren f f_inj). reflexivity. }
    assert (Ea : flat_map (fun kt : option C * Q => match fst kt with
                                   | Some c => [(c, (dget_or (renl f caps) c 0 - dget_or (renl f prev) c 0)%Z)]
                                   | None => [] end) (rentot by_total)
                 = renl f (flat_map (fun kt : option C * Q => match fst kt with
                                   | Some c => [(c, (dget_or caps c 0 - dget_or prev c 0)%Z)]
                                   | None => [] end) by_total)).
    { apply (flat_map_eqv (fun kt : option C * Q => (ro (fst kt), snd kt)) (fun cv : C * Z => (f (fst cv), snd cv))).
      intros [[c|] t]; [|reflexivity]. cbn [fst ro option_map map]. rewrite !(dget_or_ren f f_inj). reflexivity. }
    rewrite Eu, Ea, (renl_vals f). set (avail := flat_map _ by_total).
    destruct (negb (existsb _ by_total) && (zsum (map snd avail) =? n_seats - zsum (map snd prev))%Z && negb (c_mandatory cf)); [reflexivity|].
    set (quota := match c_quota cf with Some qf => if Qeq_bool total 0 || (n_seats =? 0)%Z then None else Some (qf total n_seats) | None => None end).
    rewrite elect_by_quota_ren.
    destruct (elect_by_quota cf tot quota (n_seats - zsum (map snd prev)) prev caps) as [[el|]|s]; cbn [ren_ebq]; [| |reflexivity].
    - destruct quota as [q|]; [|reflexivity].
      assert (Em : map (fun cs : C * Z => (fst cs, (inject_Z (snd cs) * q)%Q)) (renl f el) = renl f (map (fun cs : C * Z => (fst cs, (inject_Z (snd cs) * q)%Q)) el))
        by (unfold renl; rewrite !map_map; reflexivity).
      rewrite Em, subtract_ren. destruct (subtract a _) as [a'|]; [|reflexivity]. cbn [option_map].
      assert (Ee : flat_map (fun cs : C * Z => match dget (renl f caps) (fst cs) with
                              | Some m => if (m <=? snd cs + dget_or (renl f prev) (fst cs) 0)%Z then [fst cs] else []
                              | None => [] end) (renl f el)
                   = map f (flat_map (fun cs : C * Z => match dget caps (fst cs) with
                              | Some m => if (m <=? snd cs + dget_or prev (fst cs) 0)%Z then [fst cs] else []
                              | None => [] end) el)).
      { apply (flat_map_eqv (fun cv : C * Z => (f (fst cv), snd cv)) f). intros [c s]. cbn [fst snd]. rewrite (dget_ren f f_inj), (dget_or_ren f f_inj).
        destruct (dget caps c) as [m|]; [|reflexivity]. destruct (m <=? _)%Z; reflexivity. }
      rewrite Ee, !transfer_match, transfer_ren. reflexivity.
    - rewrite some_totals_ren, (renl_length f), get_n_best_renl, has_tie_res_ren, cands_res_ren.
      set (in_play := some_totals tot).
      destruct (existsb _ (get_n_best Qle_bool in_play _)); [reflexivity|].
      rewrite (renl_keys f).
      rewrite (filter_map_eqv f (fun c => negb (cmem c (flat_map (fun r : res C => match r with Cand c0 => [c0] | _ => [] end)
                                                          (get_n_best Qle_bool in_play (retained_count cf (length in_play)))))))
        by (intros x; rewrite (cmem_ren f f_inj); reflexivity).
      rewrite !transfer_match, transfer_ren. reflexivity.
  Qed.

  Lemma add_seats_ren seats el : add_seats (renl f seats) (renl f el) = renl f (add_seats seats el).
  Proof.
    unfold add_seats. unfold renl at 2.
    apply (fold_left_eqv (fun cv : C * Z => (f (fst cv), snd cv)) (renl f)).
    intros a x. cbn [fst snd]. rewrite (dget_or_ren f f_inj), (dset_ren f f_inj). reflexivity.
  Qed.

  Definition pile_sub (p q : pile) : bool :=
    forallb (fun bw => existsb (fun bw' => ballot_eqb (fst bw) (fst bw') && Qeq_bool (snd bw) (snd bw')) q) p.
  Definition asub (x y : alloc) : bool :=
    forallb (fun kp => match alloc_get y (fst kp) with Some q => pile_sub (snd kp) q && pile_sub q (snd kp) | None => false end) x.
  Lemma alloc_eqb_asub a b : alloc_eqb a b = asub a b && asub b a.
  Proof. reflexivity. Qed.
  Lemma pile_sub_ren p q : pile_sub (renv p) (renv q) = pile_sub p q.
  Proof.
    unfold pile_sub, renv. apply forallb_map_eqv. intros [b w]. apply existsb_map_eqv. intros [b' w'].
    unfold rbw. cbn [fst snd]. rewrite ballot_eqb_ren. reflexivity.
  Qed.
  Lemma asub_ren x y : asub (rena x) (rena y) = asub x y.
  Proof.
    unfold asub. unfold rena at 2. apply forallb_map_eqv. intros [k p]. unfold rkp. cbn [fst snd].
    rewrite alloc_get_ren. destruct (alloc_get y k) as [q|]; [|reflexivity]. cbn [option_map]. rewrite !pile_sub_ren. reflexivity.
  Qed.
  Lemma alloc_eqb_ren a b : alloc_eqb (rena a) (rena b) = alloc_eqb a b.
  Proof. rewrite !alloc_eqb_asub, !asub_ren. reflexivity. Qed.

  Lemma rencounts_rev l : rev (rencounts l) = rencounts (rev l).
  Proof. unfold rencounts. symmetry. apply map_rev. Qed.

  Lemma run_ren cf n_seats total caps fuel : forall a seats acc,
    run cf fuel (rena a) n_seats total (renl f seats) (renl f caps) (rencounts acc)
    = ren_trace (run cf fuel a n_seats total seats caps acc).
  Proof.
    induction fuel as [|fu IH]; intros a seats acc.
    - cbn [run]. rewrite (renl_vals f), rencounts_rev. destruct (zsum (map snd seats) =? n_seats)%Z; reflexivity.
    - cbn [run]. rewrite (renl_vals f), rencounts_rev. destruct (zsum (map snd seats) =? n_seats)%Z; [reflexivity|].
      rewrite next_count_ren.
      destruct (next_count cf a n_seats total seats caps) as [el|a' el|s]; cbn [ren_cr]; [| |reflexivity].
      + rewrite add_seats_ren. change (([], renl f el) :: rencounts acc) with (rencounts (([], el) :: acc)).
        unfold ren_trace. cbn [t_counts t_seats t_stop]. f_equal. apply rencounts_rev.
      + rewrite !match_nil. unfold renl at 1. rewrite is_nil_map. fold (renl f el).
        rewrite alloc_eqb_ren, totals_ren, add_seats_ren.
        change ((rentot (totals a'), renl f el) :: rencounts acc) with (rencounts ((totals a', el) :: acc)).
        destruct (is_nil el).
        * destruct (alloc_eqb a' a); [reflexivity|apply IH].
        * apply IH.
  Qed.

  Theorem stv_ren cf votes n prev caps :
    stv cf (renv votes) n (renl f prev) (renl f caps) = ren_trace (stv cf votes n prev caps).
  Proof.
    unfold stv. cbv zeta. rewrite initial_allocation_ren, renv_vals, all_ranked_candidates_ren, map_length.
    exact (run_ren cf n _ caps _ (initial_allocation votes) prev []).
  Qed.
End SREN.
