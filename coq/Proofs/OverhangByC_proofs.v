(* LevelOverhangByConstituency (Model/OverhangByC.v): the minima the code accumulates are the declarative
   "sum over the constituencies of max(direct seats, proportional seats)"; the levelling loop stops at the first
   house size that meets them; non-negativity, zero adjustment, fuel. Generic in the key type (party or Tie). *)
From Coq Require Import ZArith QArith List Bool Lia Permutation.
From VL Require Import Prelude.PyDict Model.OverhangByC Proofs.Dict_proofs.
Import ListNotations.
Open Scope Z_scope.

Definition zsumf {X} (f : X -> Z) (l : list X) : Z := fold_right (fun x acc => f x + acc) 0 l.

Lemma zsumf_app {X} (f : X -> Z) a b : zsumf f (a ++ b) = zsumf f a + zsumf f b.
Proof. induction a as [|x a IH]; simpl; [reflexivity|rewrite IH; lia]. Qed.
Lemma zsumf_ext {X} (f g : X -> Z) l : (forall x, In x l -> f x = g x) -> zsumf f l = zsumf g l.
Proof. induction l as [|x l IH]; simpl; intros H; [reflexivity|]. rewrite (H x), IH; auto. Qed.
Lemma zsumf_plus {X} (f g : X -> Z) l : zsumf (fun x => f x + g x) l = zsumf f l + zsumf g l.
Proof. induction l as [|x l IH]; simpl; [reflexivity|rewrite IH; lia]. Qed.
Lemma zsumf_nonneg {X} (f : X -> Z) l : (forall x, In x l -> 0 <= f x) -> 0 <= zsumf f l.
Proof. induction l as [|x l IH]; simpl; intros H; [lia|]. pose proof (H x (or_introl eq_refl)). assert (0 <= zsumf f l) by auto. lia. Qed.
Lemma zsumf_le {X} (f g : X -> Z) l : (forall x, In x l -> f x <= g x) -> zsumf f l <= zsumf g l.
Proof. induction l as [|x l IH]; simpl; intros H; [lia|]. pose proof (H x (or_introl eq_refl)). assert (zsumf f l <= zsumf g l) by auto. lia. Qed.
Lemma zsumf_map {X Y} (f : Y -> Z) (g : X -> Y) l : zsumf f (map g l) = zsumf (fun x => f (g x)) l.
Proof. induction l as [|x l IH]; simpl; [reflexivity|rewrite IH; reflexivity]. Qed.
Lemma existsb_map {X Y} (f : Y -> bool) (g : X -> Y) l : existsb f (map g l) = existsb (fun x => f (g x)) l.
Proof. induction l as [|x l IH]; simpl; [reflexivity|rewrite IH; reflexivity]. Qed.
Lemma existsb_ext' {X} (f g : X -> bool) l : (forall x, In x l -> f x = g x) -> existsb f l = existsb g l.
Proof. induction l as [|x l IH]; simpl; intros H; [reflexivity|]. rewrite (H x), IH; auto. Qed.
Lemma zsumf_zero {X} (f : X -> Z) l : (forall x, In x l -> f x = 0) -> zsumf f l = 0.
Proof. induction l as [|x l IH]; simpl; intros H; [reflexivity|]. rewrite (H x), IH; auto. Qed.

(* a sum over an association list with distinct keys is the sum over any duplicate-free list of keys that
   covers it, of the looked-up values (the default contributing nothing) *)
Lemma zsumf_assoc {X} (F : C -> X -> Z) (dflt : X) : (forall c, F c dflt = 0) ->
  forall (l : list (C * X)), NoDup (map fst l) ->
  forall keys, NoDup keys -> incl (map fst l) keys ->
  zsumf (fun c => F c (dget_or l c dflt)) keys = zsumf (fun cx => F (fst cx) (snd cx)) l.
Proof.
  intros HF. induction l as [|[c0 x0] t IH]; intros Hnd keys Hk Hincl.
  - simpl. apply zsumf_zero. intros c _. unfold dget_or. simpl. apply HF.
  - simpl in Hnd. inversion Hnd as [|? ? Hc0 Hnd']; subst.
    assert (Hin : In c0 keys) by (apply Hincl; left; reflexivity).
    destruct (in_split _ _ Hin) as (a & b & ->).
    assert (Hk' : NoDup (a ++ b)) by (eapply NoDup_remove_1; exact Hk).
    assert (Hc0ab : ~ In c0 (a ++ b)) by (eapply NoDup_remove_2; exact Hk).
    assert (Hincl' : incl (map fst t) (a ++ b)).
    { intros c Hc. assert (Hc' : In c (a ++ c0 :: b)) by (apply Hincl; right; exact Hc).
      apply in_app_iff in Hc'. apply in_app_iff. destruct Hc' as [H|[H|H]]; [left; exact H| |right; exact H].
      subst c. contradiction. }
    assert (Hother : forall c, In c (a ++ b) -> F c (dget_or ((c0, x0) :: t) c dflt) = F c (dget_or t c dflt)).
    { intros c Hc. unfold dget_or. simpl. destruct (ceqb c c0) eqn:E; [|reflexivity].
      apply ceqb_eq in E. subst c. contradiction. }
    rewrite zsumf_app. simpl. rewrite <- (IH Hnd' (a ++ b) Hk' Hincl'). rewrite zsumf_app.
    rewrite (zsumf_ext _ (fun c => F c (dget_or t c dflt)) a) by (intros c Hc; apply Hother, in_app_iff; left; exact Hc).
    rewrite (zsumf_ext _ (fun c => F c (dget_or t c dflt)) b) by (intros c Hc; apply Hother, in_app_iff; right; exact Hc).
    assert (Hhead : F c0 (dget_or ((c0, x0) :: t) c0 dflt) = F c0 x0).
    { unfold dget_or. simpl. rewrite ceqb_refl. reflexivity. }
    rewrite Hhead. lia.
Qed.

Section KDP.
  Context {K : Type}.
  Variable keqb : K -> K -> bool.
  Hypothesis keqb_refl : forall a, keqb a a = true.
  Hypothesis keqb_sym : forall a b, keqb a b = keqb b a.
  Hypothesis keqb_trans : forall a b c, keqb a b = true -> keqb b c = true -> keqb a c = true.

  Notation kget := (kget keqb).
  Notation kget0 := (kget0 keqb).
  Notation kmem := (kmem keqb).
  Notation kadd := (kadd keqb).
  Notation kadd_dict := (kadd_dict keqb).
  Notation ktotals := (ktotals keqb).
  Notation dict := (list (K * Z)).

  Lemma keqb_congr a b c : keqb a b = true -> keqb a c = keqb b c.
  Proof.
    intros Hab. destruct (keqb a c) eqn:E1, (keqb b c) eqn:E2; try reflexivity.
    - rewrite keqb_sym in Hab. rewrite (keqb_trans _ _ _ Hab E1) in E2. discriminate.
    - rewrite (keqb_trans _ _ _ Hab E2) in E1. discriminate.
  Qed.

  (* every entry equal to k, added up; presence of such an entry; no two entries with equal keys *)
  Definition kcount (d : dict) (k : K) : Z := zsumf (fun kv => if keqb k (fst kv) then snd kv else 0) d.
  Definition khas (d : dict) (k : K) : bool := existsb (fun kv => keqb k (fst kv)) d.
  Fixpoint knodup (d : dict) : Prop :=
    match d with [] => True | kv :: t => khas t (fst kv) = false /\ knodup t end.

  Lemma kget_congr d a b : keqb a b = true -> kget d a = kget d b.
  Proof.
    intros H. induction d as [|[k v] t IH]; simpl; [reflexivity|].
    rewrite (keqb_congr a b k H). rewrite IH. reflexivity.
  Qed.
  Lemma kget0_congr d a b : keqb a b = true -> kget0 d a = kget0 d b.
  Proof. intros H. unfold OverhangByC.kget0. rewrite (kget_congr d a b H). reflexivity. Qed.
  Lemma kmem_congr d a b : keqb a b = true -> kmem d a = kmem d b.
  Proof. intros H. unfold OverhangByC.kmem. rewrite (kget_congr d a b H). reflexivity. Qed.
  Lemma khas_congr d a b : keqb a b = true -> khas d a = khas d b.
  Proof.
    intros H. induction d as [|[k v] t IH]; simpl; [reflexivity|]. rewrite (keqb_congr a b k H), IH. reflexivity.
  Qed.

  Lemma kmem_khas d k : kmem d k = khas d k.
  Proof.
    unfold OverhangByC.kmem. induction d as [|[k' v] t IH]; simpl; [reflexivity|].
    destruct (keqb k k'); [reflexivity|exact IH].
  Qed.
  Lemma kget0_notmem d k : kmem d k = false -> kget0 d k = 0.
  Proof. unfold OverhangByC.kmem, OverhangByC.kget0. destruct (kget d k); [discriminate|reflexivity]. Qed.
  Lemma kcount_nohas d k : khas d k = false -> kcount d k = 0.
  Proof.
    induction d as [|[k' v] t IH]; simpl; [reflexivity|]. unfold kcount in *. simpl.
    destruct (keqb k k'); simpl; [discriminate|]. intros H. rewrite (IH H). reflexivity.
  Qed.
  Lemma kcount_nodup d k : knodup d -> kcount d k = kget0 d k.
  Proof.
    unfold kcount, OverhangByC.kget0. induction d as [|[k' v] t IH]; simpl; [reflexivity|].
    intros [Hh Hn]. destruct (keqb k k') eqn:E.
    - rewrite <- (khas_congr t k k' E) in Hh. pose proof (kcount_nohas t k Hh) as Hz. unfold kcount in Hz. rewrite Hz. lia.
    - rewrite (IH Hn). lia.
  Qed.

  Lemma kget0_kadd d k' x k : kget0 (kadd d k' x) k = kget0 d k + (if keqb k k' then x else 0).
  Proof.
    unfold OverhangByC.kget0. induction d as [|[k0 v] t IH]; simpl.
    - destruct (keqb k k'); lia.
    - destruct (keqb k' k0) eqn:E0; simpl.
      + destruct (keqb k k0) eqn:E1.
        * assert (keqb k k' = true) as ->; [|lia]. rewrite (keqb_sym k' k0) in E0. exact (keqb_trans _ _ _ E1 E0).
        * assert (keqb k k' = false) as ->; [|lia].
          destruct (keqb k k') eqn:E2; [|reflexivity]. rewrite (keqb_trans _ _ _ E2 E0) in E1. discriminate.
      + destruct (keqb k k0) eqn:E1.
        * assert (keqb k k' = false) as ->; [|lia].
          destruct (keqb k k') eqn:E2; [|reflexivity].
          rewrite keqb_sym in E2. rewrite (keqb_trans _ _ _ E2 E1) in E0. discriminate.
        * exact IH.
  Qed.
  Lemma khas_kadd d k' x k : khas (kadd d k' x) k = khas d k || keqb k k'.
  Proof.
    induction d as [|[k0 v] t IH]; simpl.
    - destruct (keqb k k'); reflexivity.
    - destruct (keqb k' k0) eqn:E0; simpl.
      + destruct (keqb k k0) eqn:E1; simpl; [reflexivity|].
        destruct (keqb k k') eqn:E2; [|rewrite orb_false_r; reflexivity].
        rewrite (keqb_trans _ _ _ E2 E0) in E1. discriminate.
      + rewrite IH. destruct (keqb k k0); reflexivity.
  Qed.
  Lemma kmem_kadd d k' x k : kmem (kadd d k' x) k = kmem d k || keqb k k'.
  Proof. rewrite !kmem_khas. apply khas_kadd. Qed.
  Lemma knodup_kadd d k x : knodup d -> knodup (kadd d k x).
  Proof.
    induction d as [|[k0 v] t IH]; simpl; [auto|]. intros [Hh Hn].
    destruct (keqb k k0) eqn:E0; simpl; [split; assumption|].
    split; [|apply IH; exact Hn]. rewrite khas_kadd, Hh. simpl. rewrite keqb_sym. exact E0.
  Qed.

  Lemma kadd_dict_spec d2 : forall d1 k,
    kget0 (kadd_dict d1 d2) k = kget0 d1 k + kcount d2 k /\
    khas (kadd_dict d1 d2) k = khas d1 k || khas d2 k.
  Proof.
    unfold OverhangByC.kadd_dict, kcount. induction d2 as [|[k' x] t IH]; intros d1 k; simpl.
    - split; [lia|rewrite orb_false_r; reflexivity].
    - destruct (IH (kadd d1 k' x) k) as [H1 H2]. rewrite H1, H2, kget0_kadd, khas_kadd. split; [lia|].
      rewrite <- orb_assoc. reflexivity.
  Qed.
  Lemma kadd_dict_nodup d2 : forall d1, knodup d1 -> knodup (kadd_dict d1 d2).
  Proof.
    unfold OverhangByC.kadd_dict. induction d2 as [|[k' x] t IH]; intros d1 H; simpl; [exact H|].
    apply IH, knodup_kadd, H.
  Qed.

  Lemma ktotals_spec ds : forall acc k,
    kget0 (fold_left kadd_dict ds acc) k = kget0 acc k + zsumf (fun d => kcount d k) ds /\
    khas (fold_left kadd_dict ds acc) k = khas acc k || existsb (fun d => khas d k) ds.
  Proof.
    induction ds as [|d t IH]; intros acc k; simpl.
    - split; [lia|rewrite orb_false_r; reflexivity].
    - destruct (IH (kadd_dict acc d) k) as (H1 & H2). destruct (kadd_dict_spec d acc k) as [G1 G2].
      rewrite H1, H2, G1, G2. split; [lia|rewrite <- orb_assoc; reflexivity].
  Qed.
  Lemma ktotals_nodup_acc ds : forall acc, knodup acc -> knodup (fold_left kadd_dict ds acc).
  Proof. induction ds as [|d t IH]; intros acc H; simpl; [exact H|]. apply IH, kadd_dict_nodup, H. Qed.
  Lemma ktotals_get ds k : kget0 (ktotals ds) k = zsumf (fun d => kcount d k) ds.
  Proof. unfold OverhangByC.ktotals. destruct (ktotals_spec ds [] k) as (H & _). rewrite H. reflexivity. Qed.
  Lemma ktotals_mem ds k : kmem (ktotals ds) k = existsb (fun d => khas d k) ds.
  Proof. rewrite kmem_khas. unfold OverhangByC.ktotals. destruct (ktotals_spec ds [] k) as (_ & H). rewrite H. reflexivity. Qed.
  Lemma ktotals_nodup ds : knodup (ktotals ds).
  Proof. unfold OverhangByC.ktotals. apply ktotals_nodup_acc. exact I. Qed.

  (* ---------------------------------------------------------------- the minima of the calculator *)
  Notation nested := (list (Cty * dict)).
  Definition direct (prev : nested) (c : Cty) (k : K) : Z := kget0 (dget_or prev c []) k.
  Definition share (res : nested) (c : Cty) (k : K) : Z := kget0 (dget_or res c []) k.
  (* k has an entry in the proportional result of some constituency: a party (or Tie) of the proportional tier *)
  Definition tier (res : nested) (k : K) : bool := existsb (fun cr => kmem (snd cr) k) res.
  (* what the minimum of a tier party is meant to be: over the constituencies, the larger of its first round
     seats and its proportional seats there *)
  Definition need (res prev : nested) (ctys : list Cty) (k : K) : Z :=
    zsumf (fun c => Z.max (direct prev c k) (share res c k)) ctys.

  (* dictionaries as Python has them: no key twice; first round seats are not negative *)
  Definition wf_res (res : nested) : Prop :=
    NoDup (map fst res) /\ Forall (fun cd => knodup (snd cd)) res.
  Definition wf_prev (prev : nested) : Prop :=
    NoDup (map fst prev) /\ Forall (fun cd => knodup (snd cd) /\ Forall (fun kv => 0 <= snd kv) (snd cd)) prev.

  Lemma kget0_nonneg d k : Forall (fun kv : K * Z => 0 <= snd kv) d -> 0 <= kget0 d k.
  Proof.
    unfold OverhangByC.kget0. induction d as [|[k' v] t IH]; simpl; intros H; [lia|].
    inversion H as [|? ? H1 H2]; subst. destruct (keqb k k'); [exact H1|apply IH, H2].
  Qed.
  Lemma direct_nonneg prev c k : wf_prev prev -> 0 <= direct prev c k.
  Proof.
    intros [_ Hf]. unfold direct, dget_or. destruct (dget prev c) as [g|] eqn:E; [|unfold OverhangByC.kget0; simpl; lia].
    apply dget_In in E. rewrite Forall_forall in Hf. destruct (Hf _ E) as [_ Hnn]. apply kget0_nonneg. exact Hnn.
  Qed.

  Lemma khas_map_fst (g : K * Z -> Z) r k : khas (map (fun ps => (fst ps, g ps)) r) k = khas r k.
  Proof. induction r as [|[k' v] t IH]; simpl; [reflexivity|rewrite IH; reflexivity]. Qed.

  Lemma kcount_minima (g r : dict) k : knodup r ->
    kcount (map (fun ps => (fst ps, Z.max (kget0 g (fst ps)) (snd ps))) r) k
    = if kmem r k then Z.max (kget0 g k) (kget0 r k) else 0.
  Proof.
    unfold kcount. induction r as [|[k' v] t IH]; simpl; [reflexivity|]. intros [Hh Hn].
    rewrite (IH Hn). unfold OverhangByC.kmem, OverhangByC.kget0. simpl.
    destruct (keqb k k') eqn:E.
    - rewrite <- (khas_congr t k k' E), <- kmem_khas in Hh. unfold OverhangByC.kmem in Hh.
      destruct (OverhangByC.kget keqb t k); [discriminate|].
      pose proof (kget0_congr g k k' E) as Hc. unfold OverhangByC.kget0 in Hc. rewrite Hc. lia.
    - lia.
  Qed.

  Definition need_res (res prev : nested) (k : K) : Z :=
    zsumf (fun cr => if kmem (snd cr) k then Z.max (direct prev (fst cr) k) (kget0 (snd cr) k) else 0) res.
  Definition need_prev (res prev : nested) (k : K) : Z :=
    zsumf (fun cg => if kmem (dget_or res (fst cg) []) k then 0 else kget0 (snd cg) k) prev.

  Lemma lowest0_get res prev k : wf_res res -> kget0 (lowest0 keqb res prev) k = need_res res prev k.
  Proof.
    intros [_ Hf]. unfold lowest0, cty_minima, need_res. rewrite ktotals_get, !zsumf_map. apply zsumf_ext.
    intros [c r] Hin. simpl. rewrite Forall_forall in Hf. pose proof (Hf _ Hin) as Hn. simpl in Hn.
    apply kcount_minima. exact Hn.
  Qed.
  Lemma lowest0_mem res prev k : kmem (lowest0 keqb res prev) k = tier res k.
  Proof.
    unfold lowest0, cty_minima, tier. rewrite ktotals_mem, !existsb_map. apply existsb_ext'.
    intros [c r] _. simpl. rewrite khas_map_fst, kmem_khas. reflexivity.
  Qed.
  Lemma lowest0_nodup res prev : knodup (lowest0 keqb res prev).
  Proof. apply ktotals_nodup. Qed.

  Lemma au_inner_spec (r : dict) g : forall low k,
    let low' := fold_left (fun low pg => if kmem low (fst pg) && negb (kmem r (fst pg))
                                         then kadd low (fst pg) (snd pg) else low) g low in
    (forall p, kmem low' p = kmem low p) /\
    kget0 low' k = kget0 low k + (if kmem low k && negb (kmem r k) then kcount g k else 0) /\
    (knodup low -> knodup low').
  Proof.
    unfold kcount. induction g as [|[p x] t IH]; intros low k; simpl.
    - split; [reflexivity|]. split; [destruct (kmem low k && negb (kmem r k)); lia|auto].
    - set (low1 := if kmem low p && negb (kmem r p) then kadd low p x else low).
      assert (Hm1 : forall q, kmem low1 q = kmem low q).
      { intros q. unfold low1. destruct (kmem low p && negb (kmem r p)) eqn:Ec; [|reflexivity].
        rewrite kmem_kadd. destruct (keqb q p) eqn:Eq; [|apply orb_false_r].
        apply andb_true_iff in Ec. destruct Ec as [Ec _]. rewrite (kmem_congr low q p Eq), Ec. reflexivity. }
      assert (Hg1 : kget0 low1 k = kget0 low k + (if kmem low k && negb (kmem r k) then (if keqb k p then x else 0) else 0)).
      { unfold low1. destruct (keqb k p) eqn:Eq.
        - rewrite (kmem_congr low k p Eq), (kmem_congr r k p Eq).
          destruct (kmem low p && negb (kmem r p)); [rewrite kget0_kadd, Eq; reflexivity|lia].
        - destruct (kmem low p && negb (kmem r p)); [rewrite kget0_kadd, Eq|]; destruct (kmem low k && negb (kmem r k)); lia. }
      destruct (IH low1 k) as (H1 & H2 & H3). split; [intros q; rewrite H1; apply Hm1|].
      split.
      + rewrite H2, Hg1, Hm1. destruct (kmem low k && negb (kmem r k)); lia.
      + intros Hn. apply H3. unfold low1. destruct (kmem low p && negb (kmem r p)); [apply knodup_kadd|]; exact Hn.
  Qed.

  Lemma add_unlisted_spec res prev : forall low k,
    (forall p, kmem (add_unlisted keqb res prev low) p = kmem low p) /\
    kget0 (add_unlisted keqb res prev low) k
      = kget0 low k + (if kmem low k
                       then zsumf (fun cg => if kmem (dget_or res (fst cg) []) k then 0 else kcount (snd cg) k) prev
                       else 0) /\
    (knodup low -> knodup (add_unlisted keqb res prev low)).
  Proof.
    unfold add_unlisted. induction prev as [|[c g] t IH]; intros low k; simpl.
    - split; [reflexivity|]. split; [destruct (kmem low k); lia|auto].
    - destruct (au_inner_spec (dget_or res c []) g low k) as (A1 & A2 & A3). cbv zeta in A1, A2, A3.
      match goal with |- context [fold_left _ t ?l1] => set (low1 := l1) in * end.
      destruct (IH low1 k) as (H1 & H2 & H3).
      split; [intros p; rewrite H1; apply A1|]. split.
      + rewrite H2, A2, A1. destruct (kmem low k); simpl; [|lia].
        destruct (kmem (dget_or res c []) k); simpl; lia.
      + intros Hn. apply H3, A3, Hn.
  Qed.

  Theorem lowest_allowed_mem res prev k : kmem (lowest_allowed keqb res prev) k = tier res k.
  Proof. unfold lowest_allowed. destruct (add_unlisted_spec res prev (lowest0 keqb res prev) k) as (H & _). rewrite H. apply lowest0_mem. Qed.

  Lemma au_inner_nodup (r : dict) g : forall low, knodup low ->
    knodup (fold_left (fun low pg => if kmem low (fst pg) && negb (kmem r (fst pg))
                                     then kadd low (fst pg) (snd pg) else low) g low).
  Proof.
    induction g as [|[p x] t IH]; intros low Hn; simpl; [exact Hn|]. apply IH.
    destruct (kmem low p && negb (kmem r p)); [apply knodup_kadd|]; exact Hn.
  Qed.
  Lemma add_unlisted_nodup res prev : forall low, knodup low -> knodup (add_unlisted keqb res prev low).
  Proof.
    unfold add_unlisted. induction prev as [|[c g] t IH]; intros low Hn; simpl; [exact Hn|].
    apply IH, au_inner_nodup, Hn.
  Qed.
  Theorem lowest_allowed_nodup res prev : knodup (lowest_allowed keqb res prev).
  Proof. unfold lowest_allowed. apply add_unlisted_nodup, lowest0_nodup. Qed.

  Lemma tier_false res c k : tier res k = false -> kmem (dget_or res c []) k = false.
  Proof.
    unfold tier, dget_or. intros H. destruct (dget res c) as [r|] eqn:E; [|reflexivity].
    apply dget_In in E. destruct (kmem r k) eqn:Em; [|reflexivity].
    assert (existsb (fun cr : Cty * dict => kmem (snd cr) k) res = true); [|congruence].
    apply existsb_exists. exists (c, r). split; [exact E|exact Em].
  Qed.

  (* the minimum the code has accumulated for a tier party, in the two sums the code forms ... *)
  Lemma lowest_allowed_get res prev k : wf_res res -> wf_prev prev -> tier res k = true ->
    kget0 (lowest_allowed keqb res prev) k = need_res res prev k + need_prev res prev k.
  Proof.
    intros Hr [_ Hp] Ht. unfold lowest_allowed.
    destruct (add_unlisted_spec res prev (lowest0 keqb res prev) k) as (_ & H & _).
    rewrite H, lowest0_mem, Ht, (lowest0_get res prev k Hr). f_equal. unfold need_prev. apply zsumf_ext.
    intros [c g] Hin. simpl. rewrite Forall_forall in Hp. destruct (Hp _ Hin) as [Hn _]. simpl in Hn.
    rewrite (kcount_nodup g k Hn). reflexivity.
  Qed.

  (* ... and as the declarative sum over the constituencies *)
  Lemma need_split res prev ctys k : wf_res res -> wf_prev prev -> NoDup ctys ->
    incl (map fst res) ctys -> incl (map fst prev) ctys ->
    need_res res prev k + need_prev res prev k = need res prev ctys k.
  Proof.
    intros [Hr _] Hwp Hk Hir Hip. pose proof Hwp as [Hp _]. unfold need_res, need_prev, need.
    pose proof (zsumf_assoc (fun c r => if kmem r k then Z.max (direct prev c k) (kget0 r k) else 0) []
                  (fun c => eq_refl) res Hr ctys Hk Hir) as E1.
    assert (HF2 : forall c : C, (fun (c : C) (g : dict) => if kmem (dget_or res c []) k then 0 else kget0 g k) c [] = 0).
    { intros c. cbv beta. destruct (kmem (dget_or res c []) k); reflexivity. }
    pose proof (zsumf_assoc (fun c g => if kmem (dget_or res c []) k then 0 else kget0 g k) []
                  HF2 prev Hp ctys Hk Hip) as E2.
    cbv beta in E1, E2. unfold Cty, C in *. rewrite <- E1, <- E2. clear E1 E2.
    rewrite <- zsumf_plus. apply zsumf_ext. intros c _. unfold share. fold (direct prev c k).
    destruct (kmem (dget_or res c []) k) eqn:Em; [lia|].
    rewrite (kget0_notmem _ _ Em). pose proof (direct_nonneg prev c k Hwp). lia.
  Qed.

  Theorem lowest_allowed_need res prev ctys k : wf_res res -> wf_prev prev -> NoDup ctys ->
    incl (map fst res) ctys -> incl (map fst prev) ctys -> tier res k = true ->
    kget0 (lowest_allowed keqb res prev) k = need res prev ctys k.
  Proof.
    intros Hr Hp Hk Hir Hip Ht. rewrite (lowest_allowed_get res prev k Hr Hp Ht).
    apply need_split; assumption.
  Qed.

  (* the minimum covers the first round seats and the proportional seats *)
  Lemma need_ge_direct res prev ctys k : zsumf (fun c => direct prev c k) ctys <= need res prev ctys k.
  Proof. unfold need. apply zsumf_le. intros c _. lia. Qed.
  Lemma need_ge_share res prev ctys k : zsumf (fun c => share res c k) ctys <= need res prev ctys k.
  Proof. unfold need. apply zsumf_le. intros c _. lia. Qed.

  (* seats of the parties outside the tier *)
  Lemma nonprop_drop_spec low prev :
    nonprop_drop keqb low prev
    = zsumf (fun cg => zsumf (fun pg : K * Z => if kmem low (fst pg) then 0 else snd pg) (snd cg)) prev.
  Proof.
    unfold nonprop_drop.
    assert (Hin : forall g d, fold_left (fun d (pg : K * Z) => if kmem low (fst pg) then d else d + snd pg) g d
                              = d + zsumf (fun pg : K * Z => if kmem low (fst pg) then 0 else snd pg) g).
    { induction g as [|[p x] t IH]; intros d; simpl; [lia|]. rewrite IH. destruct (kmem low p); lia. }
    assert (Hout : forall l d, fold_left (fun d (cg : Cty * dict) =>
                       fold_left (fun d (pg : K * Z) => if kmem low (fst pg) then d else d + snd pg) (snd cg) d) l d
                     = d + zsumf (fun cg : Cty * dict => zsumf (fun pg : K * Z => if kmem low (fst pg) then 0 else snd pg) (snd cg)) l).
    { induction l as [|[c g] t IH]; intros d; simpl; [lia|]. rewrite IH, Hin. lia. }
    rewrite Hout. lia.
  Qed.
  Lemma nonprop_drop_nonneg low prev : wf_prev prev -> 0 <= nonprop_drop keqb low prev.
  Proof.
    intros [_ Hf]. rewrite nonprop_drop_spec. apply zsumf_nonneg. intros [c g] Hin. simpl.
    rewrite Forall_forall in Hf. destruct (Hf _ Hin) as [_ Hnn]. simpl in Hnn. apply zsumf_nonneg.
    intros [p x] Hp. simpl. rewrite Forall_forall in Hnn. pose proof (Hnn _ Hp). simpl in *. destruct (kmem low p); lia.
  Qed.

  (* ---------------------------------------------------------------- the stopping test *)
  Lemma knodup_In_kget d p m : knodup d -> In (p, m) d -> kget d p = Some m.
  Proof.
    induction d as [|[k v] t IH]; simpl; [tauto|]. intros [Hh Hn] [H|H].
    - injection H as -> ->. rewrite keqb_refl. reflexivity.
    - destruct (keqb p k) eqn:E; [|apply IH; assumption]. exfalso.
      rewrite <- (khas_congr t p k E) in Hh.
      assert (khas t p = true); [|congruence]. apply existsb_exists. exists (p, m). split; [exact H|apply keqb_refl].
  Qed.

  Lemma forallb_false_ex {X} (f : X -> bool) l : forallb f l = false -> exists x, In x l /\ f x = false.
  Proof.
    induction l as [|x l IH]; simpl; [discriminate|]. destruct (f x) eqn:E; simpl.
    - intros H. destruct (IH H) as (y & Hy & Hf). exists y. auto.
    - intros _. exists x. auto.
  Qed.

  Theorem ksatisfied_true low pr : ksatisfied keqb low pr = true ->
    forall k, kmem low k = true -> kget0 low k <= kget0 pr k.
  Proof.
    unfold ksatisfied, OverhangByC.kmem. induction low as [|[p m] t IH]; simpl; [discriminate|].
    intros H k. apply andb_true_iff in H. destruct H as [H1 H2]. unfold OverhangByC.kget0 at 1. simpl.
    destruct (keqb k p) eqn:E.
    - intros _. apply negb_true_iff, Z.ltb_ge in H1. rewrite (kget0_congr pr k p E). exact H1.
    - intros Hm. apply (IH H2 k Hm).
  Qed.
  Theorem ksatisfied_intro low pr : knodup low ->
    (forall k, kmem low k = true -> kget0 low k <= kget0 pr k) -> ksatisfied keqb low pr = true.
  Proof.
    intros Hn H. unfold ksatisfied. apply forallb_forall. intros [p m] Hin. simpl.
    pose proof (knodup_In_kget low p m Hn Hin) as Hg. apply negb_true_iff, Z.ltb_ge.
    assert (Hm : kmem low p = true) by (unfold OverhangByC.kmem; rewrite Hg; reflexivity).
    assert (Hv : kget0 low p = m) by (unfold OverhangByC.kget0; rewrite Hg; reflexivity).
    specialize (H p Hm). rewrite Hv in H. exact H.
  Qed.
  Theorem ksatisfied_false low pr : knodup low -> ksatisfied keqb low pr = false ->
    exists k, kmem low k = true /\ kget0 pr k < kget0 low k.
  Proof.
    intros Hn H. destruct (forallb_false_ex _ _ H) as ([p m] & Hin & Hf). simpl in Hf.
    apply negb_false_iff, Z.ltb_lt in Hf. pose proof (knodup_In_kget low p m Hn Hin) as Hg.
    assert (Hm : kmem low p = true) by (unfold OverhangByC.kmem; rewrite Hg; reflexivity).
    assert (Hv : kget0 low p = m) by (unfold OverhangByC.kget0; rewrite Hg; reflexivity).
    exists p. rewrite Hv. split; [exact Hm|exact Hf].
  Qed.

  (* ---------------------------------------------------------------- the loop and the calculator *)
  Section CALCP.
    Variable OE : Z -> eres dict.
    Notation bc_loop := (bc_loop keqb OE).
    Notation bc_calculate := (bc_calculate keqb OE).
    Notation sat := (ksatisfied keqb).

    Theorem bc_loop_spec low : forall fuel h pr r,
      bc_loop fuel low h pr = BC_ok r ->
      h <= r /\
      (r = h -> sat low pr = true) /\
      (h < r -> sat low pr = false /\
                (exists prr, OE r = Ok prr /\ sat low prr = true) /\
                (forall x, h < x < r -> exists ph, OE x = Ok ph /\ sat low ph = false)).
    Proof.
      induction fuel as [|f IH]; intros h pr r; simpl.
      - destruct (sat low pr) eqn:Es; [|discriminate]. intros [= <-].
        split; [lia|]. split; [intros _; reflexivity|lia].
      - destruct (sat low pr) eqn:Es.
        + intros [= <-]. split; [lia|]. split; [intros _; reflexivity|lia].
        + destruct (OE (h + 1)) as [pr'| |] eqn:Ee; [|discriminate|discriminate]. intros H.
          destruct (IH _ _ _ H) as (H1 & H2 & H3). split; [lia|]. split; [intros ->; lia|].
          intros _. split; [reflexivity|].
          destruct (Z.eq_dec r (h + 1)) as [->|Hne].
          * split; [exists pr'; split; [exact Ee|apply H2; reflexivity]|]. intros x Hx. lia.
          * destruct H3 as (H3a & H3b & H3c); [lia|]. split; [exact H3b|].
            intros x Hx. destruct (Z.eq_dec x (h + 1)) as [->|Hne2]; [exists pr'; split; assumption|].
            apply H3c. lia.
    Qed.

    (* out of fuel = every size the loop could look at within its fuel fails *)
    Theorem bc_loop_fuel_iff low : forall fuel h pr,
      bc_loop fuel low h pr = BC_fuel <->
      (sat low pr = false /\
       forall a, 1 <= a <= Z.of_nat fuel -> exists ph, OE (h + a) = Ok ph /\ sat low ph = false).
    Proof.
      induction fuel as [|f IH]; intros h pr.
      - simpl. destruct (sat low pr); split.
        + discriminate. + intros [H _]; discriminate.
        + intros _. split; [reflexivity|]. intros a Ha. lia.
        + reflexivity.
      - cbn [OverhangByC.bc_loop]. destruct (sat low pr) eqn:Es.
        + split; [discriminate|intros [H _]; discriminate].
        + destruct (OE (h + 1)) as [pr'| |] eqn:Ee.
          * rewrite IH. split.
            -- intros [H1 H2]. split; [reflexivity|]. intros a Ha.
               destruct (Z.eq_dec a 1) as [->|Hne]; [exists pr'; split; assumption|].
               destruct (H2 (a - 1)) as (ph & Hp1 & Hp2); [lia|]. exists ph. split; [|exact Hp2].
               replace (h + a) with (h + 1 + (a - 1)) by lia. exact Hp1.
            -- intros [_ H2]. split.
               ++ destruct (H2 1) as (ph & Hp1 & Hp2); [lia|]. rewrite Ee in Hp1. injection Hp1 as <-. exact Hp2.
               ++ intros a Ha. destruct (H2 (a + 1)) as (ph & Hp1 & Hp2); [lia|]. exists ph. split; [|exact Hp2].
                  replace (h + 1 + a) with (h + (a + 1)) by lia. exact Hp1.
          * split; [discriminate|]. intros [_ H2]. destruct (H2 1) as (ph & Hp1 & _); [lia|]. rewrite Ee in Hp1. discriminate.
          * split; [discriminate|]. intros [_ H2]. destruct (H2 1) as (ph & Hp1 & _); [lia|]. rewrite Ee in Hp1. discriminate.
    Qed.

    (* an answer other than "out of fuel" does not depend on the fuel *)
    Theorem bc_loop_fuel_mono low : forall fuel fuel' h pr,
      (fuel <= fuel')%nat -> bc_loop fuel low h pr <> BC_fuel ->
      bc_loop fuel' low h pr = bc_loop fuel low h pr.
    Proof.
      induction fuel as [|f IH]; intros fuel' h pr Hle Hne.
      - simpl in *. destruct (sat low pr) eqn:Es; [|congruence].
        destruct fuel'; simpl; rewrite Es; reflexivity.
      - destruct fuel' as [|f']; [lia|]. cbn [OverhangByC.bc_loop] in *. destruct (sat low pr); [reflexivity|].
        destruct (OE (h + 1)); [|reflexivity|reflexivity]. apply IH; [lia|exact Hne].
    Qed.

    Definition drop_of (res prev : nested) : Z := nonprop_drop keqb (lowest_allowed keqb res prev) prev.

    (* the answer of the calculator: non-negative; the stopping test holds at the house it stands for;
       every smaller enlargement the loop examined (0, 1, ..., r - 1 more seats than n - drop) fails it *)
    Theorem bc_calculate_ok CEn fuel n prev r : bc_calculate CEn fuel n prev = BC_ok r ->
      exists res, CEn = Ok res /\
        0 <= r /\
        (exists pr, OE (n - drop_of res prev + r) = Ok pr /\ sat (lowest_allowed keqb res prev) pr = true) /\
        (forall a, 0 <= a < r -> exists ph, OE (n - drop_of res prev + a) = Ok ph /\
                                           sat (lowest_allowed keqb res prev) ph = false).
    Proof.
      unfold OverhangByC.bc_calculate, drop_of. destruct CEn as [res| |]; [|discriminate|discriminate].
      set (low := lowest_allowed keqb res prev). set (drop := nonprop_drop keqb low prev).
      destruct (OE (n - drop)) as [pr| |] eqn:E0; [|discriminate|discriminate].
      destruct (bc_loop fuel low (n - drop) pr) as [hf| | |] eqn:El; try discriminate.
      intros [= <-]. exists res. split; [reflexivity|]. fold low. fold drop.
      destruct (bc_loop_spec low _ _ _ _ El) as (H1 & H2 & H3). split; [lia|].
      replace (n - drop + (hf + drop - n)) with hf by lia.
      destruct (Z.eq_dec hf (n - drop)) as [Heq|Hne].
      - split; [exists pr; split; [rewrite Heq; exact E0|apply H2, Heq]|]. intros a Ha. lia.
      - destruct H3 as (H3a & H3b & H3c); [lia|]. split; [exact H3b|].
        intros a Ha. destruct (Z.eq_dec a 0) as [->|Ha0].
        + exists pr. split; [replace (n - drop + 0) with (n - drop) by lia; exact E0|exact H3a].
        + apply H3c. lia.
    Qed.

    Theorem bc_calculate_fuel_iff res fuel n prev :
      bc_calculate (Ok res) fuel n prev = BC_fuel <->
      forall a, 0 <= a <= Z.of_nat fuel -> exists ph, OE (n - drop_of res prev + a) = Ok ph /\
                                                      sat (lowest_allowed keqb res prev) ph = false.
    Proof.
      unfold OverhangByC.bc_calculate, drop_of.
      set (low := lowest_allowed keqb res prev). set (drop := nonprop_drop keqb low prev).
      destruct (OE (n - drop)) as [pr| |] eqn:E0.
      - assert (Hiff : bc_loop fuel low (n - drop) pr = BC_fuel <->
                       match bc_loop fuel low (n - drop) pr with BC_ok h => BC_ok (h + drop - n) | r => r end = BC_fuel).
        { destruct (bc_loop fuel low (n - drop) pr); split; congruence. }
        rewrite <- Hiff, bc_loop_fuel_iff. split.
        + intros [H1 H2] a Ha. destruct (Z.eq_dec a 0) as [->|Hne].
          * exists pr. split; [replace (n - drop + 0) with (n - drop) by lia; exact E0|exact H1].
          * apply H2. lia.
        + intros H. split.
          * destruct (H 0) as (ph & Hp1 & Hp2); [lia|]. replace (n - drop + 0) with (n - drop) in Hp1 by lia.
            rewrite E0 in Hp1. injection Hp1 as <-. exact Hp2.
          * intros a Ha. apply H. lia.
      - split; [discriminate|]. intros H. destruct (H 0) as (ph & Hp1 & _); [lia|].
        replace (n - drop + 0) with (n - drop) in Hp1 by lia. rewrite E0 in Hp1. discriminate.
      - split; [discriminate|]. intros H. destruct (H 0) as (ph & Hp1 & _); [lia|].
        replace (n - drop + 0) with (n - drop) in Hp1 by lia. rewrite E0 in Hp1. discriminate.
    Qed.

    Theorem bc_calculate_fuel_mono CEn fuel fuel' n prev : (fuel <= fuel')%nat ->
      bc_calculate CEn fuel n prev <> BC_fuel -> bc_calculate CEn fuel' n prev = bc_calculate CEn fuel n prev.
    Proof.
      intros Hle. unfold OverhangByC.bc_calculate. destruct CEn as [res| |]; [|reflexivity|reflexivity].
      destruct (OE _) as [pr| |]; [|reflexivity|reflexivity]. intros Hne.
      rewrite (bc_loop_fuel_mono _ fuel fuel' _ _ Hle); [reflexivity|].
      intros Hf. rewrite Hf in Hne. congruence.
    Qed.

    (* ---- zero adjustment *)
    Definition nonneg_nested (x : nested) : Prop := Forall (fun cd => Forall (fun kv : K * Z => 0 <= snd kv) (snd cd)) x.
    (* no party holds more first round seats in a constituency than it has proportional seats there *)
    Definition no_overhang (res prev : nested) : Prop :=
      Forall (fun cg => Forall (fun pg : K * Z => snd pg <= share res (fst cg) (fst pg)) (snd cg)) prev.

    Lemma share_nonneg res c k : nonneg_nested res -> 0 <= share res c k.
    Proof.
      intros Hf. unfold share, dget_or. destruct (dget res c) as [r|] eqn:E; [|unfold OverhangByC.kget0; simpl; lia].
      apply dget_In in E. unfold nonneg_nested in Hf. rewrite Forall_forall in Hf. apply kget0_nonneg. exact (Hf _ E).
    Qed.
    Lemma direct_le_share res prev c k : nonneg_nested res -> no_overhang res prev -> direct prev c k <= share res c k.
    Proof.
      intros Hnn Hno. pose proof (share_nonneg res c k Hnn) as Hs. unfold direct, dget_or at 1.
      destruct (dget prev c) as [g|] eqn:E; [|unfold OverhangByC.kget0; simpl; exact Hs].
      apply dget_In in E. unfold no_overhang in Hno. rewrite Forall_forall in Hno. pose proof (Hno _ E) as Hg. simpl in Hg.
      clear E. unfold OverhangByC.kget0 at 1. induction g as [|[p x] t IH]; simpl; [exact Hs|].
      inversion Hg as [|? ? H1 H2]; subst. destruct (keqb k p) eqn:Ek; [|apply IH, H2].
      simpl in H1. unfold share in *. rewrite (kget0_congr _ k p Ek). exact H1.
    Qed.

    Lemma drop_zero res prev : wf_prev prev -> no_overhang res prev -> drop_of res prev = 0.
    Proof.
      intros [_ Hwp] Hno. unfold drop_of. rewrite nonprop_drop_spec. apply zsumf_zero. intros [c g] Hin. simpl.
      apply zsumf_zero. intros [p x] Hp. simpl. rewrite lowest_allowed_mem.
      destruct (tier res p) eqn:Et; [reflexivity|].
      unfold no_overhang in Hno. rewrite Forall_forall in Hno, Hwp. pose proof (Hno _ Hin) as H1. destruct (Hwp _ Hin) as [_ H2].
      simpl in H1, H2. rewrite Forall_forall in H1, H2. pose proof (H1 _ Hp) as H1'. pose proof (H2 _ Hp) as H2'. simpl in *.
      unfold share in H1'. rewrite (kget0_notmem _ _ (tier_false res c p Et)) in H1'. lia.
    Qed.

    Theorem bc_calculate_zero res fuel n prev pr ctys :
      wf_res res -> wf_prev prev -> nonneg_nested res -> NoDup ctys ->
      incl (map fst res) ctys -> incl (map fst prev) ctys ->
      no_overhang res prev ->
      OE n = Ok pr ->
      (forall k, tier res k = true -> zsumf (fun c => share res c k) ctys <= kget0 pr k) ->
      bc_calculate (Ok res) fuel n prev = BC_ok 0.
    Proof.
      intros Hr Hp Hnn Hk Hir Hip Hno He Hcov. unfold OverhangByC.bc_calculate.
      pose proof (drop_zero res prev Hp Hno) as Hd. unfold drop_of in Hd. rewrite Hd.
      replace (n - 0) with n by lia. rewrite He.
      assert (Hs : sat (lowest_allowed keqb res prev) pr = true).
      { apply ksatisfied_intro; [apply lowest_allowed_nodup|]. intros k Hm. rewrite lowest_allowed_mem in Hm.
        rewrite (lowest_allowed_need res prev ctys k Hr Hp Hk Hir Hip Hm).
        eapply Z.le_trans; [|apply (Hcov k Hm)]. unfold need. apply zsumf_le. intros c _.
        pose proof (direct_le_share res prev c k Hnn Hno). lia. }
      destruct fuel; simpl; rewrite Hs; f_equal; lia.
    Qed.
  End CALCP.

  (* the merged constituency results (default overall evaluator) give every key the sum of its shares *)
  Lemma ktotals_share res ctys k : wf_res res -> NoDup ctys -> incl (map fst res) ctys ->
    kget0 (ktotals (map snd res)) k = zsumf (fun c => share res c k) ctys.
  Proof.
    intros [Hr Hf] Hk Hir. rewrite ktotals_get, zsumf_map.
    pose proof (zsumf_assoc (fun (c : C) (r : dict) => kget0 r k) [] (fun c => eq_refl) res Hr ctys Hk Hir) as E.
    cbv beta in E. unfold share. unfold Cty, C in *. rewrite E. apply zsumf_ext. intros [c r] Hin. simpl.
    rewrite Forall_forall in Hf. apply kcount_nodup. exact (Hf _ Hin).
  Qed.
End KDP.

(* ------------------------------------------------------------------ the answer of the calculator, read declaratively *)
Section MEANING.
  Context {K : Type}.
  Variable keqb : K -> K -> bool.
  Hypothesis keqb_refl : forall a, keqb a a = true.
  Hypothesis keqb_sym : forall a b, keqb a b = keqb b a.
  Hypothesis keqb_trans : forall a b c, keqb a b = true -> keqb b c = true -> keqb a c = true.
  Variable OE : Z -> eres (list (K * Z)).

  Theorem bc_calculate_meaning CEn fuel n prev r ctys :
    bc_calculate keqb OE CEn fuel n prev = BC_ok r ->
    exists res, CEn = Ok res /\ 0 <= r /\
      (wf_res keqb res -> wf_prev keqb prev -> NoDup ctys -> incl (map fst res) ctys -> incl (map fst prev) ctys ->
       (exists pr, OE (n - drop_of keqb res prev + r) = Ok pr /\
          forall k, tier keqb res k = true -> need keqb res prev ctys k <= kget0 keqb pr k) /\
       (forall a, 0 <= a < r -> exists ph, OE (n - drop_of keqb res prev + a) = Ok ph /\
          exists k, tier keqb res k = true /\ kget0 keqb ph k < need keqb res prev ctys k)).
  Proof.
    intros H. destruct (bc_calculate_ok keqb OE CEn fuel n prev r H) as (res & Hc & Hr & (pr & Hp1 & Hp2) & Hmin).
    exists res. split; [exact Hc|]. split; [exact Hr|]. intros Hwr Hwp Hk Hir Hip. split.
    - exists pr. split; [exact Hp1|]. intros k Ht.
      rewrite <- (lowest_allowed_need keqb keqb_sym keqb_trans res prev ctys k Hwr Hwp Hk Hir Hip Ht).
      apply (ksatisfied_true keqb keqb_sym keqb_trans _ _ Hp2).
      rewrite (lowest_allowed_mem keqb keqb_sym keqb_trans). exact Ht.
    - intros a Ha. destruct (Hmin a Ha) as (ph & Hq1 & Hq2). exists ph. split; [exact Hq1|].
      destruct (ksatisfied_false keqb keqb_refl keqb_sym keqb_trans _ _
                  (lowest_allowed_nodup keqb keqb_sym keqb_trans res prev) Hq2) as (k & Hm & Hlt).
      rewrite (lowest_allowed_mem keqb keqb_sym keqb_trans) in Hm. exists k. split; [exact Hm|].
      rewrite <- (lowest_allowed_need keqb keqb_sym keqb_trans res prev ctys k Hwr Hwp Hk Hir Hip Hm). exact Hlt.
  Qed.
End MEANING.

(* all first round seats belong to parties of the proportional tier: nothing is set aside *)
Section DROP.
  Context {K : Type}.
  Variable keqb : K -> K -> bool.
  Hypothesis keqb_sym : forall a b, keqb a b = keqb b a.
  Hypothesis keqb_trans : forall a b c, keqb a b = true -> keqb b c = true -> keqb a c = true.

  Definition direct_in_tier (res prev : list (Cty * list (K * Z))) : Prop :=
    Forall (fun cg => Forall (fun pg : K * Z => tier keqb res (fst pg) = true \/ snd pg = 0) (snd cg)) prev.

  Lemma drop_zero_tier res prev : direct_in_tier res prev -> drop_of keqb res prev = 0.
  Proof.
    intros H. unfold drop_of. rewrite nonprop_drop_spec. apply zsumf_zero. intros [c g] Hin. simpl.
    apply zsumf_zero. intros [p x] Hp. simpl. rewrite (lowest_allowed_mem keqb keqb_sym keqb_trans).
    unfold direct_in_tier in H. rewrite Forall_forall in H. pose proof (H _ Hin) as Hg. simpl in Hg.
    rewrite Forall_forall in Hg. destruct (Hg _ Hp) as [Ht|Hz]; simpl in *; [rewrite Ht; reflexivity|].
    destruct (tier keqb res p); [reflexivity|exact Hz].
  Qed.
End DROP.
